"""C07 — outputs independent of sibling languages and input order; inputs never mutated."""
import json, os, re, sys
from verifkit.core import *
from verifkit import gen_c07

THEOREMS = [
    "Cog.Merge.C07_merge_union", "Cog.Merge.C07_merge_conflict_iff", "Cog.Merge.C07_group_union",
    "Cog.Merge.C07_consolidate_union", "Cog.Merge.C07_consolidate_order_irrelevant",
    "Cog.Merge.conflict_order_irrelevant", "Cog.Merge.C07_input_order_irrelevant",
    "Cog.Merge.C07_unrelated_input",
    # a pass with per-run bookkeeping keyed by bare names (RemoveIntersections): schema-local on the current tree
    "Cog.Merge.C07_removeIntersections_local", "Cog.Merge.C07_removeIntersections_input_order",
    "Cog.Merge.C07_removeIntersections_unrelated_input", "Cog.Merge.C07_removeIntersections_leaky_order_dependent",
]
# the bodies of Consolidate / Merge / AddObject / NewSchema / SchemaMeta.Equal, translated on this run
# (extract/xmerge -> Cog.Gen.MergeSrc), compute the model's functions
SRC_THEOREMS = ["Cog.Merge.C07_src_merge", "Cog.Merge.C07_src_consolidate", "Cog.Merge.C07_src_helpers",
                "Cog.Merge.C07_source_refines_model"]


def source_tie(c):
    """Regenerate Cog.Gen.MergeSrc from the current internal/ast/schema.go.  A refusal of the translator is a
    broken obligation (the C07_src_* theorems would otherwise be about a stale program)."""
    ok, detail = gen_c07.regen()
    c.oblige("translator extract/xmerge accepts internal/ast/schema.go (Cog.Gen.MergeSrc regenerated)", ok, detail)
    info = {"regen": detail[:300]}
    if ok:
        facts = json.load(open(gen_c07.MERGE_JSON))
        info["translated"] = [{"name": m["name"], "sha256": m["hash"]} for m in facts["translated"]]
        info["untranslated"] = facts["untranslated"]
    c.cov["source_tie"] = info
    return ok


def main():
    c = Check("C07")
    c.trusted = [
        "Lean 4.33 kernel; axioms per theorem in obligation_list",
        "hand-written model lean/Cog/Merge/Model.lean of Schema.Merge / Schemas.Consolidate (internal/ast/schema.go), tied (a) by the C07_src_* theorems: the bodies of Schemas.Consolidate, Schema.Merge, Schema.AddObject, NewSchema, SchemaMeta.Equal, translated from the current schema.go on every run, compute the model's functions (compared: nil error + resulting schema(s) / some non-nil error vs the model's single conflict; error text and the half-merged receiver of a failed Merge are not compared); (b) by the c07-consolidate correspondence stream; Object.Equal modelled as an abstract lawful equality (driver: equality of the VIR rendering)",
        "the translator extract/xmerge (go/ast, syntactic, refuses unknown forms, canonical renaming r/p0../x0.. following Go block scopes with shadowing refused, structs Schema/SchemaMeta pinned to their fields) and the Go semantics given to its mini-language in lean/Cog/Merge/Src.lean (*Schema by value with no aliasing between receiver/locals/argument, Objects = association list whose Has/Get/Set/Iterate are the C19 model's functions, map[string]Schemas as association list by key, slice index / make panics, range / early return / Iterate callback with captured locals, short-circuit && ||, fmt.Errorf as an opaque non-nil error, calls of translated functions taken from the model with the receiver of a failed Merge unusable)",
        "language independence, input-order independence at the level of generated FILES and 'inputs not mutated' for the jennies/veneers stages are decided by differential pipeline runs (c07-pipeline), not by a theorem: partial",
        "aliasing part (Passes.Process copies before transforming) rests on the C18 copy theorem and its regenerated facts",
    ]
    hb, err = build_go("verifharness", "harness", files=HARNESS_BASE + ["c07.go", "c07_frame.go", "c07_pairs.go", "c07_lab.go", "c07_veneers.go", "lab_*.go", "src_*.go", "c16_*.go", "c17_*.go", "vir_builders.go", "c06_*.go"], tag="c07")
    c.oblige("harness builds against /repo working tree", hb is not None, err)
    tied = source_tie(c)
    if tied:
        n0 = len(c.obligations)
        if not c.lean_obligations(THEOREMS + SRC_THEOREMS) and not c.obligations[n0][1]:
            # the build broke: say whether it is the source-equivalence layer (names the function whose
            # translated body no longer computes the model's function) or the model's own theorems
            for mod in ("Cog.Merge.Lemmas", "Cog.Merge.SrcEquiv"):
                ok, out = lake_build((mod,))
                c.oblige("diagnostic: module %s builds" % mod, ok,
                         "\n".join(l for l in out.split("\n") if "error" in l)[:1500] if not ok else "")
    else:
        # Cog.Gen.MergeSrc is stale: the source theorems are not discharged for this tree; the
        # correspondence streams below are the search for a concrete failing input
        c.lean_obligations(THEOREMS)
        for t in SRC_THEOREMS:
            c.oblige("theorem " + t, False, "translator refused: generated program is stale")
    if hb is None:
        c.finish("lake build", "n/a")
    if c.replay:
        rp = json.load(open(c.replay))
        print(json.dumps(rp, indent=1)[:3000])
        sys.exit(1)
    quick = c.tier == "quick"
    nt = lambda r: r[1] != "conflict" and r[0].count("(obj ") >= 3
    c.correspond(hb, "c07-consolidate", nontrivial=nt, n=400 if quick else 20000, seed=c.seed, tier=c.tier)
    c.correspond(hb, "c07-pipeline", nontrivial=lambda r: True, n=5 if quick else 60, seed=c.seed, tier=c.tier,
                 classify=lambda r: r[1].split(" ")[0] + "|" + r[2][:80])
    # every pair of testdata inputs (and every input against itself under two package names): [A,B] vs [B,A] vs alone
    c.correspond(hb, "c07-pairs", nontrivial=lambda r: r[1].startswith("pair ") or r[1].startswith("pair pinned"), n=0,
                 seed=c.seed, tier=c.tier, classify=lambda r: r[2][:70])
    # builder veneers configured (C17's rule generator against the builders of the inputs)
    c.correspond(hb, "c07-veneers", nontrivial=lambda r: r[1].startswith("veneers "), n=14 if quick else 500,
                 seed=c.seed, tier=c.tier, classify=lambda r: r[2][:70])
    # generated inputs (lab grammar, three formats, names shared across packages)
    c.correspond(hb, "c07-lab", nontrivial=lambda r: r[1].startswith("lab ") and not r[1].startswith("lab-skip"), n=25 if quick else 600,
                 seed=c.seed, tier=c.tier, classify=lambda r: r[2][:70])
    cls = lambda r: " ".join(r[1].split(" ")[:2]) + "|" + re.sub(r"[0-9]+", "N", r[2][:90])
    c.correspond(hb, "c07-process-frame", nontrivial=lambda r: r[1].count("(obj ") >= 2, n=700 if quick else 30000,
                 seed=c.seed, tier=c.tier, classify=cls)
    c.correspond(hb, "c07-nilchecks", nontrivial=lambda r: "injected=0" not in r[1], n=600 if quick else 30000,
                 seed=c.seed, tier=c.tier, classify=cls)
    c.finish("python3 tools/regen.py && cd /verif/lean && lake build Cog.Props.C07 drv && lake env lean <#print axioms of the C07_* theorems>",
             "consolidate: random IR split over 1-3 inputs per package with injected conflicting definitions/metadata, model vs Schemas.Consolidate (VIR-equal) plus union-or-conflict oracle; pairs: pinned pairs + a seed-rotated subset (thorough: all) of the pairs of testdata inputs incl. each input against itself under two package names, [A,B] vs [B,A] vs each alone, all seven languages; veneers: 1-2 testdata inputs with generated builder veneer files (every rule kind; all/go/java), each language alone vs all, reversed inputs, the same pipeline run twice; lab: 2-3 generated source schemas (Src grammar, JSON Schema/OpenAPI/CUE, one package each) joint vs reversed vs each alone vs one language alone; pipeline: testdata schemas in random 2-3 input sets, each language alone vs all seven together, permuted inputs, an added unrelated input, VIR snapshot of the loaded schemas around ContextForLanguage; process-frame: random IR through each of the 7 language chains with a VIR snapshot of the input; nilchecks: builders with injected nested-path assignments, each builder alone vs among others vs reversed order; non-trivial = successful merge of >= 3 objects / every pipeline comparison")


main()
