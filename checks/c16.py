"""C16 — builders are derived completely and type-correctly from the schemas."""
import collections, json, os, re, sys
from verifkit.core import *
from verifkit import gen_c16
import time
import verifkit.core as _core

_orig_drv = _core.drv


def _drv_retry(lines, timeout=1800):
    """the driver binary is re-linked by `lake build drv` of concurrently running checks: retry"""
    for _ in range(8):
        try:
            return _orig_drv(lines, timeout)
        except (FileNotFoundError, PermissionError, OSError):
            time.sleep(8)
            lake_build(("drv",))
    return _orig_drv(lines, timeout)


_core.drv = _drv_retry
drv = _drv_retry

THEOREMS = ["Cog.Builder." + t for t in [
    "C16_which", "C16_which_mem", "C16_which_count", "C16_cover", "C16_no_extra", "C16_cover_each",
    "C16_exactly_once", "C16_cover_partial", "C16_cover_counterexample", "C16_total_partial",
    "C16_total_counterexample", "C16_dangling_no_builder", "C16_dangling_panicked_before_fix",
]]
# the bodies of FromAST / structObjectToBuilder / fieldIsRefToConcrete / structFieldToOption, translated on this
# run (extract/xfromast -> Cog.Gen.FromASTSrc), compute the model's functions
SRC_THEOREMS = ["Cog.Builder." + t for t in [
    "C16_src_helpers", "C16_src_structObjectToBuilder", "C16_src_fromAST", "C16_source_refines_model"]]


def source_tie(c):
    """Regenerate Cog.Gen.FromASTSrc from the current internal/ast/builder.go.  A refusal of the translator is a
    broken obligation (the C16_src_* theorems would otherwise be about a stale program)."""
    ok, detail = gen_c16.regen()
    c.oblige("translator extract/xfromast accepts internal/ast/builder.go (Cog.Gen.FromASTSrc regenerated)", ok, detail)
    info = {"regen": detail[:300]}
    if ok:
        facts = json.load(open(gen_c16.SRC_JSON))
        info["translated"] = [{"name": m["name"], "sha256": m["hash"]} for m in facts["translated"]]
        info["untranslated"] = facts["untranslated"]
    c.cov["source_tie"] = info
    return ok


# witness -> (harness case, what the real code must still do with it)
WITNESSES = {
    "optional-const-ref": ("0:0:pinned:optional-const-ref:", "FAIL"),   # counterexample of C16_cover_full (known finding)
    "alias-cycle": ("0:0:pinned:alias-cycle:", "diverge"),               # counterexample of C16_total_full
    "dangling": ("0:0:pinned:dangling:", "ok (builders)"),               # fixed in /repo eed3e31: no builder, no panic
}


def vclass(v):
    if not v.startswith("FAIL"):
        return ""
    return v[5:].split(":")[0]


def main():
    c = Check("C16")
    c.trusted = [
        "Lean 4.33 kernel; axioms per theorem are listed in obligation_list (subset of propext, Classical.choice, Quot.sound)",
        "hand-written model lean/Cog/Builder/FromAST.lean of BuilderGenerator.FromAST (internal/ast/builder.go), tied (a) by the C16_src_* theorems: the bodies of FromAST, structObjectToBuilder, fieldIsRefToConcrete, structFieldToOption, translated from the current builder.go on every run, compute the model's fromAST / structObjectToBuilder / fieldIsRefToConcrete / structFieldToOption (whole Outcome compared: value, panic, divergence); (b) by the c16-fromast correspondence streams (byte-equal VIR of the builders, panics and divergence included)",
        "the translator extract/xfromast (go/ast, syntactic, refuses unknown forms, canonical renaming r/p0../x0.. following Go block scopes with shadowing refused, structs Builder/Option/Argument/OptionDefault/Constructor pinned to their fields) and the Go semantics given to its mini-language in lean/Cog/Builder/Src.lean (structs by value, x.F.G = e, range/continue/return, Iterate callback with captured locals over the association list, short-circuit &&, append/make/composite literals; NOT translated, meaning taken from the model: Type.IsScalar/IsStruct/IsRef/IsConstantRef/IsConcreteScalar/AsScalar/AsStruct, Schemas.ResolveToType (fuel), PathFromStructField, ConstantAssignment, FieldAssignment (closures / variadic options: outside the grammar); calls between translated methods taken from the model, each proved equal to its own body)",
        "VIR encoders harness/vir.go + harness/vir_builders.go and decoders lean/Cog/IR/Vir.lean + lean/Cog/Builder/Vir.lean (round-trip stream vir-roundtrip; a field the encoder does not print is invisible to the comparison: VeneerTrail, PassesTrail)",
        "the ordered map of objects as an association list (C19 refinement theorem); Schemas.ResolveToType with fuel = number of objects + 1 (sufficiency validated by the streams: the harness detects cycles with a visited set and observes the real stack overflow in a child process)",
        "the implementation-side oracle harness/c16_oracle.go (independent restatement of the property on the real output)",
    ]
    hb, err = build_go("verifharness", "harness", files=HARNESS_BASE + ["vir_builders.go", "c16_*.go"], tag="c16")
    c.oblige("harness builds against /repo working tree", hb is not None, err)
    tied = source_tie(c)
    if tied:
        n0 = len(c.obligations)
        if not c.lean_obligations(THEOREMS + SRC_THEOREMS) and not c.obligations[n0][1]:
            # the build broke: say whether it is the source-equivalence layer (a translated body no longer
            # computes the model's function) or the model's own theorems; the streams below search for an input
            for mod in ("Cog.Builder.FromASTLemmas", "Cog.Builder.SrcEquiv"):
                ok, out = lake_build((mod,))
                c.oblige("diagnostic: module %s builds" % mod, ok,
                         "\n".join(l for l in out.split("\n") if "error" in l)[:1500] if not ok else "")
            lake_build(("drv",))   # the driver does not depend on the source tie: the streams still run
    else:
        # Cog.Gen.FromASTSrc is stale: the source theorems are not discharged for this tree; the
        # correspondence streams below are the search for a concrete failing input
        c.lean_obligations(THEOREMS)
        for t in SRC_THEOREMS:
            c.oblige("theorem " + t, False, "translator refused: generated program is stale")
    if hb is None:
        c.finish("lake build && lake env lean <audit>", "n/a")

    def shrink(row):
        if len(row) < 4:
            return row
        rows = harness(hb, "c16-eval", case=row[3], shrink=1)
        return rows[0] if rows else row

    if c.replay:
        rp = json.load(open(c.replay))
        case = rp.get("case")
        m = re.search(r"\[case=([^\]]*)\]", rp.get("oracle", ""))
        if not case and m:
            case = m.group(1)
        if not case and rp.get("request") and rp.get("args"):
            for r in harness(hb, rp.get("stream", "c16-fromast"), **rp["args"]):
                if r[0] == rp["request"]:
                    case = r[3]
                    break
        if not case:
            print("replay file names no harness case (obligation-level violation):", rp.get("broken"))
            sys.exit(1)
        row = harness(hb, "c16-eval", case=case)[0]
        model = drv([row[0]])[0]
        print("replay case=%s\n request: %s\n impl   : %s\n model  : %s\n oracle : %s" % (case, row[0][:2000], row[1][:2000], model[:2000], row[2]))
        bad = model != row[1] or (row[2].startswith("FAIL") and not c.match_known(row[0] + "\t" + row[2]))
        sys.exit(1 if bad else 0)

    # 1. the Lean counterexample witnesses, replayed on the real code (= pinned inputs of the findings)
    for name, (case, expect) in WITNESSES.items():
        row = harness(hb, "c16-eval", case=case)[0]
        lean_vir = drv(["c16witness " + name])[0]
        c.oblige("witness %s: Lean term and harness input are the same schemas (VIR text)" % name, "fromast " + lean_vir == row[0], row[0][:300])
        model = drv([row[0]])[0]
        c.oblige("witness %s: model reply equals the real FromAST" % name, model == row[1], (model[:300], row[1][:300]))
        if row[2].startswith("FAIL"):
            if not c.match_known(row[0] + "\t" + row[2]):
                c.violation({"kind": "oracle-failure", "stream": "c16-pinned", "case": case, "request": row[0], "impl": row[1], "oracle": row[2]})
        if expect == "FAIL":
            c.oblige("witness %s still fails on the real code (else: the model and its _counterexample theorem must change with the code)" % name,
                     row[2].startswith("FAIL"), row[2])
        else:
            c.oblige("witness %s: the real code still answers `%s`" % (name, expect), row[1] == expect, row[1][:300])
        c.count("c16-pinned", 1, [row[0]])

    # 2. correspondence + oracle
    n_wf, n_mal = (3000, 1200) if c.tier == "quick" else (120000, 25000)
    dist = collections.Counter()
    allrows = []
    for mode, n in (("wf", n_wf), ("malformed", n_mal)):
        rows, dis, fails = c.correspond(hb, "c16-fromast", nontrivial=lambda r: "(opt " in r[1] and "(const " in r[1],
                                        classify=lambda r: vclass(r[2]), shrink=shrink, n=n, seed=c.seed, tier=c.tier, mode=mode)
        for r in rows:
            dist[mode + ":" + r[1].split(" ")[0]] += 1
            dist["builders"] += r[1].count("(builder ")
            dist["options"] += r[1].count("(opt ")
            dist["constructor-constants"] += r[1].count("(asg (path (pi") - r[1].count("(opt ")
            dist["constraints"] += r[1].count("(con ")
            dist["alias-objects"] += len(re.findall(r'\(obj "[^"]*" \(c[^)]*\) \(ref ', r[0]))
            dist["constant_ref-fields"] += r[0].count("(cref ")
            if r[2].startswith("FAIL"):
                dist["oracle:" + vclass(r[2])] += 1
        allrows += rows

    # 3. the decidable hypotheses of the _partial theorems predict the real code
    sample = allrows if c.tier == "quick" else allrows[::10]
    preds = drv(["c16pred " + r[0][len("fromast "):] for r in sample])
    bad_pred = []
    for r, p in zip(sample, preds):
        m = re.match(r"safe=(true|false) nocr=(true|false)", p)
        if not m:
            bad_pred.append((r, p, "unparsable"))
            continue
        safe, nocr = m.group(1) == "true", m.group(2) == "true"
        dist["safe" if safe else "unsafe"] += 1
        if safe and not r[1].startswith("ok "):
            bad_pred.append((r, p, "Safe but the real FromAST did not return"))
        if not safe and r[1].startswith("ok ") :
            dist["unsafe-but-ok"] += 1  # Safe is sufficient, not necessary (e.g. a later object is never reached)
        if vclass(r[2]) == "fixed-field-has-option(ref)" and nocr:
            bad_pred.append((r, p, "noOptionalConstRef holds but the oracle sees an option on a fixed field"))
        if safe and nocr and r[1].startswith("ok ") and r[2] != "ok":
            bad_pred.append((r, p, "both hypotheses hold but the oracle fails"))
    c.oblige("hypotheses of C16_total_partial / C16_cover_partial predict the real code on %d cases" % len(sample), not bad_pred,
             [(b[2], b[0][3], b[1]) for b in bad_pred[:5]])
    for b in bad_pred[:3]:
        c.violation({"kind": "hypothesis-not-predictive", "why": b[2], "case": b[0][3], "request": b[0][0], "impl": b[0][1], "oracle": b[0][2], "model_predicates": b[1]})
    c.cov["distribution"] = dict(dist)
    c.finish("python3 tools/regen.py && cd /verif/lean && lake build Cog.Props.C16 drv && lake env lean <#print axioms of the C16_* theorems>; harness c16-fromast (wf, malformed) vs drv fromast; harness oracle; drv c16pred",
             "random schema sets (shared IR generator + aliases of structs, alias chains, constant objects, required/optional/nullable and cross-package references to constants, constant_ref fields, concrete scalars, constraints; malformed stream adds dangling chains, nil kind pointers, argument-less constraints, alias cycles); non-trivial = output has at least one option and one constructor constant; distinct by (schemas, builders)")


main()
