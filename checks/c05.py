"""C05 — every reference in the IR resolves.

Lean: the predicate `Closed` over every naming position of the IR (lean/Cog/Closed/Basic.lean),
`Reach` (least set closed under reference edges), a literal model of FilterSchemas, preservation
theorems for the name-changing transformations (over the C15 pass models), for FilterSchemas and
for the language chains (over the C06 pass models, along the REGENERATED Cog/Gen/Chains.lean);
full statements kept, partials under decidable hypotheses, counterexamples evaluated by the
kernel (lean/Cog/Props/C05.lean).
Tie: (1) `Closed` in Lean vs an independent Go implementation on the same generated IR;
(2) the three real front-ends on repo testdata + generated source schemas → oracle Closed; and
    (c05-parseopts) the front-ends driven through codegen.Input the way the pipeline drives them
    (cue / kindsys_core / kindsys_composable / jsonschema / openapi loaders), a pinned matrix of INPUT
    SHAPES (definitions only, fields only, both, empty document, scalar root, root named like the
    package, modules with (nested) imports…) × LOADER OPTIONS (forced_envelope, NameFunc, cue_imports,
    InlineExternalReference, entrypoint vs value, package given / guessed, allowed_objects, metadata,
    no_validate) plus generated schemas under random option sets → oracle Closed, entry point included;
(3) the real CompilerPasses() of the 7 languages + FromAST on Closed IR → oracle Closed;
(4) name-op sequences through the real passes vs the Lean models + oracle;
(5) the real FilterSchemas vs the Lean model and vs `reach` on both sides;
(6) every counterexample witness of the Lean file replayed on the real code.
Oracle failures are shrunk and matched against the known findings; anything else is a VIOLATION.
"""
import collections, json, os, re, subprocess, sys, time
from verifkit.core import *
from verifkit import core as vcore

PID = "C05"
PROPOSED_PATH = os.path.join(WORK, "proposed_findings_C05.json")


MYDRV = os.path.join(BIN, "drv-c05")


def snapshot_driver():
    """private copy of the driver binary (other checks relink lean/.lake/build/bin/drv concurrently)"""
    import shutil
    with Lock("lake"):
        if not os.path.exists(DRV):
            return False
        tmp = MYDRV + ".tmp%d" % os.getpid()
        shutil.copy2(DRV, tmp)
        os.replace(tmp, MYDRV)
    return True


def drv(lines, timeout=1800):
    if not lines:
        return []
    p = subprocess.run([MYDRV], input="\n".join(lines) + "\n", capture_output=True, text=True, timeout=timeout)
    out = p.stdout.split("\n")
    if out and out[-1] == "":
        out.pop()
    if len(out) != len(lines):
        raise RuntimeError("driver returned %d replies for %d requests (rc=%s, stderr=%s)"
                           % (len(out), len(lines), p.returncode, p.stderr[-2000:]))
    return out


def theorem_names():
    src = open(os.path.join(LEAN, "Cog", "Props", "C05.lean"), encoding="utf-8").read()
    ns = re.search(r"^namespace\s+(\S+)", src, re.M).group(1)
    return [ns + "." + m for m in re.findall(r"^theorem\s+(C05_\w+)", src, re.M)]


C05_FILES = ["c05_gen.go", "c05_oracle.go", "c05_popt.go", "c05_shrink.go", "c05_src.go", "c05_streams.go", "c05_virdec.go"]


def build_c05_harness():
    return build_go("verifharness", "harness", files=HARNESS_BASE + C05_FILES, tag="c05")


def build_c05_lab_harness():
    """optional second binary: the C05 streams plus the lab's source-schema generator (src_*.go).
    The lab files belong to another builder; when they do not compile the lab-fed stream is skipped."""
    return build_go("verifharness", "harness", files=HARNESS_BASE + C05_FILES + ["c05_lab.go", "src_*.go", "lab_pipeline.go"],
                    tag="c05lab")


def case_of(row):
    return row[0] if len(row) < 4 or row[3] == "=" else row[3]


def run_lines(hb, stream, lines, **kw):
    tmp = os.path.join(WORK, "c05_%s_%d.txt" % (stream, os.getpid()))
    with open(tmp, "w") as fh:
        fh.write("\n".join(lines) + "\n")
    try:
        return harness(hb, stream, work=WORK, **dict(kw, **{"in": tmp}))
    finally:
        os.remove(tmp)


def load_known(c):
    """known_findings.json entries of C05 plus the proposed ones that are not merged yet
    (.work/proposed_findings_C05.json and checks/c05.*.proposed_findings.json)"""
    import glob
    ids = {f["id"]: f for f in c.known}
    for path in [PROPOSED_PATH] + sorted(glob.glob(os.path.join(VERIF, "checks", "c05.*.proposed_findings.json"))):
        if not os.path.exists(path):
            continue
        try:
            for f in json.load(open(path)).get("findings", []):
                if f.get("property") != PID:
                    continue
                if f["id"] not in ids:
                    c.known.append(f)
                    ids[f["id"]] = f
                else:
                    if f.get("pinned_input") and not ids[f["id"]].get("pinned_input"):
                        ids[f["id"]]["pinned_input"] = f["pinned_input"]   # a pin added after the merge
                    if f.get("match") and f["match"] != ids[f["id"]].get("match") and f.get("supersedes_match"):
                        ids[f["id"]]["match"] = f["match"]                 # a NARROWED regex awaiting the merge
        except Exception as e:  # a broken proposal file must not hide anything
            c.oblige("proposed findings file %s is readable" % os.path.basename(path), False, str(e))


class Streams:
    def __init__(self, c, hb):
        self.c, self.hb = c, hb
        self.classes = collections.Counter()
        self.shrunk = {}          # class -> (case, verdict, finding id or None)
        self.t_shrink = 0.0
        self.unclassified = 0

    def lean_compare(self, stream, rows):
        reqs = [r[0] for r in rows if r[0] != "-"]
        replies = drv(reqs) if reqs else []
        it = iter(replies)
        dis = []
        for r in rows:
            if r[0] != "-":
                m = next(it)
                if m != r[1]:
                    dis.append((r, m))
        self.c.cov["disagreements_checked"] += len(reqs)
        st = self.c.cov["streams"].setdefault(stream, {"evaluations": 0})
        st["lean_requests"] = st.get("lean_requests", 0) + len(reqs)
        st["disagreements"] = st.get("disagreements", 0) + len(dis)
        return dis

    def process(self, stream, rows, nontrivial=None):
        c = self.c
        dis = self.lean_compare(stream, rows)
        fails = [r for r in rows if len(r) > 2 and r[2].startswith("FAIL")]
        nt = [case_of(r)[:4000] for r in rows if (nontrivial(r) if nontrivial else True)]
        c.count(stream, len(rows), nt, samples=[
            {"stream": stream, "case": case_of(r)[:300], "impl": r[1][:200], "oracle": r[2][:200]}
            for r in rows[:: max(1, len(rows) // 2)][:2]])
        st = c.cov["streams"][stream]
        st["oracle_failures"] = st.get("oracle_failures", 0) + len(fails)
        st["impl_status"] = dict(collections.Counter(r[1].split(" ", 1)[0] for r in rows))
        c.cov["oracle_failures"] += len(fails)
        by_class = collections.OrderedDict()
        for r in fails:
            cls = r[4] if len(r) > 4 and r[4] else default_class(r)
            by_class.setdefault(cls, []).append(r)
            self.classes[cls] += 1
        reported = 0

        def shrink_row(r):
            t0 = time.time()
            try:
                sh = run_lines(self.hb, "c05-shrink", [case_of(r)], budget=300)[0]
            except Exception as e:
                sh = r
                log("shrink failed:", e)
            self.t_shrink += time.time() - t0
            case, verdict = case_of(sh), sh[2]
            if not verdict.startswith("FAIL"):
                case, verdict = case_of(r), r[2]
            return case, verdict

        for cls, rs in by_class.items():
            # every row of the class is judged by its own verdict (the facts the finding regexes
            # look at are in the verdict); one representative per class is shrunk for the evidence;
            # rows no finding explains are shrunk individually and judged again
            odd = []
            for r in rs:
                kf = c.match_known(case_of(r) + "\t" + r[2])
                if not kf:
                    odd.append(r)
            if cls not in self.shrunk:
                if len(self.shrunk) >= 150:
                    self.unclassified += 1
                else:
                    case, verdict = shrink_row(rs[0])
                    kf = None
                    for f in c.known:   # no hit counting here: the row was counted above
                        if re.search(f["match"], case + "\t" + verdict, re.S):
                            kf = f
                            break
                    self.shrunk[cls] = (case, verdict, kf["id"] if kf else None)
                    if not kf and rs[0] not in odd:
                        odd.insert(0, rs[0])
            for r in odd[:3]:
                if reported >= 5:
                    break
                case, verdict = shrink_row(r)
                if c.match_known(case + "\t" + verdict):
                    continue
                c.violation({"kind": "oracle-failure", "stream": stream, "class": cls, "case": case,
                             "oracle": verdict, "unshrunk_case": case_of(r)[:20000], "n_in_class": len(rs),
                             "n_unexplained_in_class": len(odd)})
                reported += 1
        if dis:
            unexplained = [(r, m) for (r, m) in dis]
            r, m = unexplained[0]
            c.violation({"kind": "correspondence-broken", "stream": stream,
                         "broken": "correspondence stream %s: Lean reply differs from the implementation" % stream,
                         "case": case_of(r), "request": r[0][:20000], "impl": r[1][:20000], "model": m[:20000],
                         "oracle": r[2], "n_disagreements": len(dis)}, found_input=reported > 0)
        return rows, dis, fails


def hypothesis_check(c, stream, rows):
    """the decidable hypotheses of C05_names, evaluated by the driver on every name-op case:
    whenever they hold (input Closed, side conditions granted, opOK before every step) the oracle
    must have found every intermediate result Closed"""
    cases = [r for r in rows if r[0].startswith("nameops ")]
    replies = drv(["namesok " + r[0][len("nameops "):] for r in cases])
    holds = contradicted = 0
    for r, rep in zip(cases, replies):
        if rep == "closed=true side=true hyp=true":
            holds += 1
            if r[2].startswith("FAIL") and contradicted < 2:
                contradicted += 1
                c.violation({"kind": "theorem-contradicted", "stream": stream,
                             "broken": "C05_names: hypotheses hold on this case but the implementation leaves a dangling use",
                             "case": r[0][:20000], "oracle": r[2]})
    st = c.cov["streams"].setdefault(stream, {"evaluations": 0})
    st["C05_names_hypotheses_hold"] = holds
    st["C05_names_hypotheses_evaluated"] = len(cases)
    return holds


def replay(c, hb, path):
    rp = json.load(open(path))
    case = rp.get("case") or rp.get("request")
    if not case:
        print("replay: the file names a broken obligation, no input:", rp.get("broken"))
        sys.exit(1)
    rows = run_lines(hb, "c05-eval", [case])
    r = rows[0]
    model = drv([r[0]])[0] if r[0] != "-" else "-"
    agree = (r[0] == "-" or model == r[1])
    print("replay case   :", case[:2000])
    print("implementation:", r[1][:2000])
    print("lean model    :", model[:2000], "(agrees)" if agree else "(DISAGREES)")
    print("oracle        :", r[2])
    sys.exit(1 if r[2].startswith("FAIL") or not agree else 0)


def main():
    c = Check(PID)
    load_known(c)
    c.trusted = [
        "Lean 4.33 kernel; axioms per theorem are listed in obligation_list (subset of propext, Classical.choice, Quot.sound)",
        "hand-written Lean models: Cog/Closed/{Basic,Reach,FilterSchemas,InferEntrypoint}.lean (this property), Cog/Xform/* (C15 pass models: rename_object, prefix, duplicate_object, unspec, replace_reference), Cog/Passes/* (C06 pass models of the 15 chain passes) and Cog/Builder/FromAST.lean (C16), tied by differential streams: c05-nameops, c05-filter, c05-chainmodel (whole chains + InferEntrypoint) here; per-pass and FromAST streams in the C06 / C16 checks",
        "lean/Cog/Gen/Chains.lean regenerated from internal/jennies/*/jennies.go by extract/xchains (C06's extractor)",
        "VIR encoder/decoder pair (harness/vir.go, harness/c05_virdec.go, lean/Cog/IR/Vir.lean): the two `Closed` implementations see the same text; PassesTrail is dropped; of several DisjunctionType hint payloads on one struct only the first is transmitted",
        "the Go oracle harness/c05_oracle.go (Closed, reach, builder targets) and the generators harness/c05_gen.go, c05_src.go",
        "third-party schema libraries (santhosh-tekuri/jsonschema, kin-openapi, cuelang) from bytes to their in-memory values",
        "alias-cyclic IRs are never handed to cog's chains (unrecoverable Go stack overflow; property C04's business): the chain streams break alias cycles in generated inputs",
    ]
    hb, err = build_c05_harness()
    c.oblige("harness builds against the repository working tree (%s)" % vcore.REPO, hb is not None, err)
    if hb is None:
        c.finish("go build -overlay (harness)", "n/a")
    if c.replay:
        ok, out = lake_build(("drv",))
        snapshot_driver()
        replay(c, hb, c.replay)

    # regenerated facts: the per-language pass lists
    try:
        from verifkit import gen_c06
        ok, detail = gen_c06.regen()
    except Exception as e:
        ok, detail = False, "gen_c06.regen failed: %s" % e
    c.oblige("Cog/Gen/Chains.lean regenerated from the CompilerPasses() of internal/jennies/*", ok, detail)

    theorems = theorem_names()
    c.lean_obligations(theorems, imports=("Cog.Props.C05",), targets=("Cog.Props.C05", "drv"))
    if not snapshot_driver():
        c.oblige("driver binary exists", False, DRV)
        c.finish("lake build", "n/a")

    S = Streams(c, hb)
    quick = c.tier == "quick"
    seed = c.seed
    tier = c.tier

    # the chains the theorems speak about are the chains the code runs (regenerated Cog.Gen.Chains for
    # five languages, `schemaLangChain` for jsonschema/openapi) — against the RUNTIME CompilerPasses()
    runtime = harness(hb, "c05-chainnames")[0][1]
    modelled = drv(["c05chains"])[0]
    c.oblige("the pass lists of the 7 languages in Lean equal the runtime CompilerPasses()", runtime == modelled,
             "runtime: %s\nlean   : %s" % (runtime, modelled))

    # (6) witnesses of the counterexample theorems, replayed on the real code
    names = drv(["c05witness list"])[0].split()[1:]
    wlines = drv(["c05witness " + n for n in names])
    wrows = run_lines(hb, "c05-eval", wlines)
    not_failing = [n for n, r in zip(names, wrows) if not r[2].startswith("FAIL")]
    c.oblige("every Lean counterexample witness (%d) still fails on the real code" % len(names), not not_failing,
             "witnesses that no longer fail (model out of date?): %s" % not_failing)
    S.process("c05-witness", wrows)

    # pinned inputs of the known findings (those that are not Lean witnesses)
    pinned = [f["pinned_input"] for f in c.known if f.get("pinned_input") and not f["pinned_input"].startswith("witness:")]
    if pinned:
        prow = run_lines(hb, "c05-eval", pinned)
        S.process("c05-pinned", prow)

    corpus = os.path.join(VERIF, "corpus", "C05.txt")
    if os.path.exists(corpus):
        S.process("c05-corpus", run_lines(hb, "c05-eval", readlines(corpus)))

    n = lambda q, t: q if quick else t
    S.process("c05-closed", harness(hb, "c05-closed", n=n(6000, 60000), seed=seed, tier=tier, work=WORK),
              nontrivial=lambda r: r[1].startswith("false"))
    S.process("c05-parsers", harness(hb, "c05-parsers", n=n(400, 4000), seed=seed, tier=tier, work=WORK),
              nontrivial=lambda r: r[1].startswith(("true", "false")))
    # "after parsing ANY schema": input shapes x loader options through codegen.Input (harness/c05_popt.go)
    prow = harness(hb, "c05-parseopts", n=n(300, 4000), seed=seed, work=WORK)
    S.process("c05-parseopts", prow, nontrivial=lambda r: r[1].startswith(("true", "false")))
    judged = collections.Counter()
    for r in prow:
        if r[1].startswith(("true", "false")):
            cs = case_of(r)
            for kind in re.findall(r"\((cue|kindsys_core|kindsys_composable|jsonschema|openapi)[ )]", cs[cs.rfind(") (("):]):
                judged[kind] += 1
            for opt in set(re.findall(r'"(envelope|namefunc|inline|import|entry|value|allowed|meta|novalidate|pkg)=', cs[cs.rfind(") (("):])):
                judged["opt:" + opt] += 1
    c.cov["parseopts_judged"] = dict(judged)
    want = ["cue", "kindsys_core", "kindsys_composable", "jsonschema", "openapi"] + [
        "opt:" + o for o in ("envelope", "namefunc", "inline", "import", "entry", "value", "allowed", "meta", "novalidate", "pkg")]
    c.oblige("c05-parseopts: every input kind and every loader option was loaded and judged at least 3 times",
             all(judged[k] >= 3 for k in want), "judged rows per kind / option: %s" % dict(judged))
    hlab, laberr = build_c05_lab_harness()
    c.cov["lab_generator_available"] = hlab is not None
    if hlab is not None:
        try:
            S.process("c05-parsers-lab", harness(hlab, "c05-parsers-lab", n=n(120, 1500), seed=seed, work=WORK),
                      nontrivial=lambda r: r[1].startswith(("true", "false")))
        except Exception as e:   # the lab generator is not this property's code: never fatal
            c.cov["lab_generator_available"] = False
            log("c05-parsers-lab skipped:", str(e)[:500])
    else:
        log("lab generator does not build, c05-parsers-lab skipped:", laberr[-500:])
    # the pass models the chain theorems are stated over, on THIS property's inputs
    cm = harness(hb, "c05-chainmodel", n=n(150, 2500), seed=seed, tier=tier, work=WORK)
    nd = drv([r[0] for r in cm])
    cm2 = [r if m not in ("nondet", "shared") else ["-", r[1], r[2], r[0], ""] for r, m in zip(cm, nd)]
    c.cov["chainmodel_not_claimed"] = sum(1 for m in nd if m in ("nondet", "shared"))
    S.process("c05-chainmodel", cm2, nontrivial=lambda r: r[1].startswith("ok"))
    S.process("c05-chains", harness(hb, "c05-chains", n=n(1000, 12000), seed=seed, tier=tier, work=WORK),
              nontrivial=lambda r: r[1].startswith(("true", "false")))
    rows, _, _ = S.process("c05-nameops", harness(hb, "c05-nameops", n=n(5000, 60000), seed=seed, tier=tier, work=WORK,
                                                  len=n(4, 8), quirks=8),
                           nontrivial=lambda r: r[1].startswith("ok"))
    hypothesis_check(c, "c05-nameops", rows)
    rows, _, _ = S.process("c05-nameops-clean", harness(hb, "c05-nameops", n=n(2500, 30000), seed=seed + 1000, tier=tier,
                                                        work=WORK, len=n(4, 8), quirks=0),
                           nontrivial=lambda r: r[1].startswith("ok"))
    hypothesis_check(c, "c05-nameops-clean", rows)
    S.process("c05-filter", harness(hb, "c05-filter", n=n(3000, 40000), seed=seed, tier=tier, work=WORK),
              nontrivial=lambda r: r[1].startswith("ok"))

    c.oblige("every failure class was shrunk and classified (no class skipped)", S.unclassified == 0,
             "%d failure classes beyond the cap" % S.unclassified)
    c.cov["failure_classes"] = dict(S.classes)
    c.cov["shrunk"] = {k: {"case": v[0][:1500], "oracle": v[1][:400], "finding": v[2]} for k, v in list(S.shrunk.items())[:40]}
    c.cov["shrink_wall_s"] = round(S.t_shrink, 1)
    c.cov["witnesses"] = names
    c.finish("cd /verif/lean && lake build Cog.Props.C05 drv && lake env lean <#print axioms of the C05_* theorems>; "
             "harness streams c05-closed/parsers/chains/nameops/filter/eval against the Lean driver",
             "one evaluation = one case run on the real code and judged by the Go oracle (Closed before/after, kept = reach); "
             "non-trivial = the implementation produced an IR that was judged (loads that error, cyclic inputs refused and "
             "trivially-true closed checks are not counted); distinct by case text",
             "C05 full statements are false on the pinned tree (see KNOWN-FINDING lines); partial theorems carry decidable hypotheses")


def readlines(path):
    return [l.rstrip("\n") for l in open(path, encoding="utf-8") if l.strip()]


main()
