"""C04 — no input and no configuration makes cog panic or hang.

Every run:
  1. builds the scoped harness and the `xpartial` extractor from the cog working tree, regenerates
     lean/Cog/Gen/PartialOps.lean + the position certificate against the committed reviewed list;
  2. lake build + forbidden-word scan + axiom audit of the C04 theorems (incl. `C04_partial_ops_accounted`
     over the regenerated table: a new unchecked operation / a removed guard breaks the build);
  3. crash stream on the REAL code (subprocess workers, watchdog, address-space limit): pinned corpus,
     every testdata schema, grammar-aware / text / byte mutations under random outputs and flags,
     CUE texts drawn from the CUE grammar (harness/c04_cuegen.go: every label form and value form in every
     value position, default values included) through the real CUE front-end, passes and jennies,
     generated IR (well-formed and malformed) through passes / chains / FromAST / per-language contexts,
     generated YAML pass files (with malformed `as:` types) and veneer files on generated IR,
     generated pipeline configuration documents;
  4. tie to the theorems: for every IR-level case the Lean driver evaluates the decidable hypotheses of
     the `_partial` theorems (`c04pred`); a panic of the real code where the hypotheses HOLD contradicts
     a theorem (the model no longer describes the code) => VIOLATION; a panic on a malformed IR
     (`wf=false`) is outside the property; every other panic / crash / timeout must match a recorded
     finding (KNOWN-FINDING) or is a VIOLATION with the shrunk input saved under replays/.
"""
import collections, json, os, re, subprocess, sys, time
from verifkit.core import *
from verifkit import gen_c04

THEOREMS = ["Cog.C04." + t for t in """
C04_resolve_terminates C04_resolveToType_terminates C04_resolve_fuel_irrelevant
resolve_diverges_iff_alias_cycle resolveToType_diverges_iff_alias_cycle aliasAcyclic_iff
retype_object_creates_alias_cycle add_object_creates_alias_cycle
C04_pass_total_partial C04_pass_total_unconditional C04_pass_total_wf C04_pass_total_counterexample C04_pass_witnesses
C04_pass_prefix_witnesses C04_pass_fixed C04_pass_prefix_partial
C04_chain_total_partial C04_chain_panic_blames C04_chain_total_counterexample
C04_xform_total_partial C04_xform_total_counterexample C04_constant_to_enum_total C04_constant_to_enum_prefix_panicked
C04_config_total_partial C04_config_total_counterexample C04_config_malformed_as C04_hint_object_prefix_panicked
C04_fromAST_total_partial C04_fromAST_total_counterexample C04_fromAST_dangling_panicked_before_fix C04_fromAST_diverges_on_alias_cycle
C04_option_actions_total_partial C04_option_actions_total_counterexample C04_disjunction_as_options_index_fixed
C04_parse_total_openapi_partial C04_parse_total_openapi_prefix_partial C04_parse_total_openapi_counterexample
C04_parse_openapi_prefix_witnesses C04_parse_openapi_fixed C04_parse_openapi_no_empty_enum_or_union C04_parse_openapi_empty_prefix_witnesses
C04_parse_total_jsonschema_partial C04_parse_total_jsonschema_counterexample C04_parse_jsonschema_prefix_witness
C04_parse_wf_openapi C04_parse_wf_jsonschema C04_partial_ops_accounted
""".split()]

C04_WORK = os.path.join(WORK, "c04")
# findings of the grammar-directed CUE stream proposed for known_findings.json: treated as known until an
# entry with the same id exists there (then the copy here is ignored)
CUE_PROPOSED = os.path.join(VERIF, "checks", "c04.cuegrammar.proposed_findings.json")
FACTS = os.path.join(WORK, "c20", "facts.json")

# the Lean counterexample witnesses and the corpus case that replays each on the real code
WITNESS_REPLAYS = {
    "retype_object_creates_alias_cycle": ("corpus-config/retype-self-reference", r"recursion:.*Resolve"),
    "add_object_creates_alias_cycle": ("corpus-config/add-object-alias-cycle", r"recursion:.*Resolve"),
    "C04_config_malformed_as": ("corpus-config/retype-object-nil-struct", r"AsStruct|Struct"),
    "C04_config_total_counterexample": ("corpus-config/retype-object-nil-struct", r"AsStruct|Struct"),
    "C04_xform_total_counterexample/retypeBadArray": ("corpus-config/retype-object-nil-array", r"AsArray|TypeName"),
    "C04_pass_total_counterexample/wAliasCycle": ("corpus/openapi-alias-cycle", r"recursion:.*Resolve"),
    "C04_option_actions_total_counterexample": ("corpus-config/unfold-boolean-on-added-option", r"UnfoldBoolean"),
}


def run_stream(binary, stream, timeout=7200, **kw):
    args = [binary, stream, "work=" + C04_WORK] + ["%s=%s" % (k, v) for k, v in kw.items()]
    if os.path.exists(FACTS):
        args.append("facts=" + FACTS)
    p = subprocess.run(args, capture_output=True, text=True, timeout=timeout, cwd=REPO, env=GOENV)
    if p.returncode != 0:
        raise RuntimeError("harness %s failed rc=%s: %s" % (stream, p.returncode, p.stderr[-3000:]))
    rows = []
    for l in p.stdout.split("\n"):
        if l:
            parts = l.split("\t")
            if len(parts) >= 4:
                rows.append((json.loads(parts[1]), parts[2], None if parts[3] == "-" else json.loads(parts[3])))
    return rows, p.stderr


# pinned inputs of the defects FIXED in /repo (commit ids in known_findings.json `fixed`): the run must
# end with an error return; a panic again is an unrecorded class, i.e. a VIOLATION
FIXED_PINNED = {
    "corpus/openapi-enum-without-type": "70c59a6", "corpus/openapi-enum-without-type-validated": "70c59a6",
    "corpus/openapi-array-without-items": "4e6f2a6", "corpus/jsonschema-tuple-items-draft07": "f0d68ac",
    "corpus-config/inputs-null-element": "15208a9", "corpus-config/languages-null-element": "15208a9",
    "corpus-config/passes-file-null": "4823a7e", "corpus-config/veneers-file-null": "4823a7e",
    "corpus-config/retype-then-hint": "d683cb9",
    "corpus/jsonschema-mixed-enum": "aceba4d", "corpus-config/enum-empty-member-name": "aceba4d",
    "corpus/jsonschema-null-null": "30da046", "corpus-config/union-null-null": "30da046",
    "corpus/openapi-discriminator-on-scalars": "375123d", "corpus/jsonschema-discriminator-const-array": "375123d",
    "corpus-config/constant-to-enum-non-string": "637545e",
    "corpus-config/struct-fields-as-arguments-on-scalar": "423e7f3",
    "corpus/openapi-enum-array-member": "182b25c",
    "corpus/openapi-empty-enum": "fd9167a", "corpus/openapi-empty-oneof": "fd9167a",
    "corpus-config/union-empty": "146d1ec",
    "corpus/cue-ref-to-hidden-field": "0643960", "corpus/cue-ref-to-hidden-definition": "0643960",
    "corpus/cue-ref-to-comprehension-variable": "0643960",
}


def route_of(rid, note):
    head = rid.split("/")[0]
    if head in ("corpus", "seed", "mut", "cuegen"):
        m = re.search(r"format=(\w+)", note or "")
        return "input:" + (m.group(1) if m else "?")
    if head in ("config", "corpus-config"):
        return "config"
    return head  # ir | passes-yaml | veneers-yaml


def failures_of(res):
    """(op, outcome, frame, msg) for every panic inside one result"""
    out = []
    stage = res.get("stage", "")
    if res["outcome"] == "panic" and "=panic@" in stage:
        for part in stage.split(";"):
            if "=panic@" in part:
                op, rest = part.split("=panic@", 1)
                fr, msg = (rest.split("|", 1) + [""])[:2]
                out.append((op, "panic", fr, msg))
    elif res["outcome"] in ("panic", "crash", "timeout"):
        out.append((stage, res["outcome"], res.get("frame", "?"), res.get("msg", "")))
    return out


PRED_KEY = [("pass:", "p:"), ("chain:", "chain:"), ("context:", "ctx:")]


def pred_key(op):
    if op == "fromast":
        return "fromast"
    for a, b in PRED_KEY:
        if op.startswith(a):
            return b + op[len(a):]
    return None


def model_key(op):
    if op == "fromast":
        return "mfromast"
    if op.startswith("pass:"):
        return "m:" + op[5:]
    if op.startswith("chain:"):
        return "mchain:" + op[6:]
    return None


def main():
    c = Check("C04")
    os.makedirs(C04_WORK, exist_ok=True)
    if os.environ.get("C04_KNOWN_FILE"):  # test hook: try a candidate known_findings.json before it is merged
        c.known = [f for f in json.load(open(os.environ["C04_KNOWN_FILE"])).get("findings", []) if f.get("property") == "C04"]
    if os.path.exists(CUE_PROPOSED):
        have = {f["id"] for f in c.known}
        c.known += [f for f in json.load(open(CUE_PROPOSED)).get("findings", []) if f["id"] not in have and f.get("property") == "C04"]
    c.trusted = [
        "Lean 4.33 kernel; axioms per theorem in obligation_list (subset of propext, Classical.choice, Quot.sound)",
        "the Lean models of the passes (C06), transformations (C15), FromAST/veneers (C16/C17) — tied to the code by those properties' correspondence streams; here additionally by the prediction check (hypotheses hold => the real code must not panic)",
        "the hand-written models of the OpenAPI and JSON Schema front-ends from the library value down (Cog/Total/*Parse.lean): tied by the replay of every counterexample witness on the real code and by the crash stream; bytes -> library value (santhosh-tekuri/jsonschema, kin-openapi, cuelang) is third-party code outside any theorem",
        "the xpartial extractor (go/types) and its syntactic guard classification; the reviewed list lean/Cog/Total/Reviewed.lean is a human review, the kernel only checks that the regenerated table is covered by it",
        "crash stream only (no theorem): CUE front-end, jennies/templates, veneer builder rules, nil checks, converters",
        "termination of the Go front-ends (seen set / structural recursion) is argued, not proved; hangs are searched with a per-case watchdog",
    ]
    # a private copy of the repository (VERIF_REPO, mutant self-tests) gets its own binary, so that a run on
    # /repo going on at the same time keeps spawning workers built from /repo
    import hashlib
    tag = "c04" if REPO == "/repo" else "c04-" + hashlib.sha1(REPO.encode()).hexdigest()[:8]
    hb, err = build_go("verifharness", "harness", files=HARNESS_BASE + ["c04_*.go"], tag=tag)
    c.oblige("harness builds against the cog working tree", hb is not None, err)
    ok, detail = gen_c04.regen()
    c.oblige("xpartial extractor ran on the cog working tree", ok, detail)
    missing = gen_c04.unreviewed()
    c.oblige("every regenerated partial operation has a reviewed entry (certificate complete)", not missing,
             {"how": "static alarm, no failing input: the rows below are partial operations (file, function, kind, guard, expression text) that the extractor "
                     "finds in the working tree and that have no entry in lean/Cog/Total/Reviewed.lean, so `partial_ops_accounted` (and with it the C04 Lean build) fails. "
                     "Either the code gained / lost a guard or a new unchecked operation (review it: add a guard in cog, or an entry saying why it is harmless / which finding it is), "
                     "or a behaviour-preserving edit moved the operation into another function or changed the membership of a recursion group that the extractor could not "
                     "prove structurally descending (the row key is file+function+expression, not the line): then the entry only has to be re-keyed.",
              "rows": [(m["file"], m["func"], m["kind"], m["guard"], m["expr"]) for m in missing[:10]]})
    c.cov["partial_ops"] = detail
    c.lean_obligations(THEOREMS)
    if hb is None:
        c.finish("lake build Cog.Props.C04 drv && #print axioms", "n/a")

    # ---------------- replay mode ----------------
    if c.replay:
        if c.replay.startswith("corpus:"):
            rows, _ = run_stream(hb, "c04-run", streams="corpus", workers=4)
            rows = [r for r in rows if r[0]["id"] == c.replay[len("corpus:"):]]
        else:
            rp = json.load(open(c.replay))
            case = rp.get("case") or rp
            tmp = os.path.join(C04_WORK, "replay_%d.jsonl" % os.getpid())
            open(tmp, "w").write(json.dumps(case) + "\n")
            rows, _ = run_stream(hb, "c04-exec", workers=1, **{"in": tmp})
            os.remove(tmp)
        bad = 0
        for res, verdict, _ in rows:
            print("replay:", res["id"], res["outcome"], res.get("frame", ""), res.get("msg", ""), res.get("raw", "")[:200])
            bad += verdict != "ok"
        sys.exit(1 if bad else 0)

    # ---------------- the crash stream ----------------
    if c.tier == "quick":
        vol = dict(nmut=8000, nir=1200, npy=2000, nvy=1200, ncfg=2500, ncue=500, perseed=3, depth=3)
    else:
        vol = dict(nmut=160000, nir=30000, npy=40000, nvy=25000, ncfg=50000, ncue=12000, perseed=20, depth=4)
    t0 = time.time()
    rows, stderr = run_stream(hb, "c04-run", seed=c.seed, **vol)
    c.cov["stream_wall_s"] = round(time.time() - t0, 1)
    c.cov["harness_note"] = stderr.strip().split("\n")[-1][:300]
    # health of the CUE grammar generator: the same texts through the CUE parser / compiler alone
    try:
        p = subprocess.run([hb, "c04-cuegen", "seed=%d" % c.seed, "n=%d" % vol["ncue"]], capture_output=True, text=True, timeout=300, cwd=REPO, env=GOENV)
        last = [l for l in p.stdout.split("\n") if l.startswith("-\t")][-1].split("\t")[1]
        c.cov["cuegen"] = last
        m = re.search(r"texts=(\d+) syntax_ok=(\d+) compile_ok=(\d+)", last)
        c.oblige("the CUE grammar generator produces texts the CUE compiler accepts (at least half of them) with struct- and list-valued defaults, hidden / optional / definition members",
                 bool(m) and int(m.group(3)) * 2 >= int(m.group(1)) and all(re.search(r"\b%s:[1-9]" % f, last) for f in ("struct-default", "list-default", "hidden", "hidden-def", "inner-def", "optional", "required", "pattern", "let", "comprehension", "nested-default", "map", "close")), last[:600])
    except Exception as e:  # noqa
        c.oblige("the CUE grammar generator ran", False, str(e)[:500])

    # pipeline runs that panicked inside a compiler pass carry the IR the chains received: ask the models
    run_ir = [r for r in rows if not r[0]["id"].startswith(("ir/", "passes-yaml/", "veneers-yaml/")) and r[0].get("extra")]
    run_preds = {}
    if run_ir:
        replies = drv(["c04pred " + r[0]["extra"] for r in run_ir])
        for r, rep in zip(run_ir, replies):
            run_preds[r[0]["id"]] = dict(kv.split("=", 1) for kv in rep.split(" ") if "=" in kv)
    # predictions for the IR-level cases
    ir_rows = [r for r in rows if r[0]["id"].startswith("ir/") and r[0].get("extra")]
    preds = {}
    if ir_rows:
        replies = drv(["c04pred " + r[0]["extra"] for r in ir_rows])
        for r, rep in zip(ir_rows, replies):
            preds[r[0]["id"]] = dict(kv.split("=", 1) for kv in rep.split(" ") if "=" in kv)
        c.oblige("driver evaluates c04pred on every generated IR", all("wf" in p for p in preds.values()),
                 [rep for rep in replies if not rep.startswith("wf=")][:3])
    c.cov["disagreements_checked"] = 0

    by_stream = collections.Counter()
    outcomes = collections.Counter()
    classes = {}  # (route-kind, outcome, frame, msg) -> [first case rows]
    contradicted, model_contradicted, outside, inscope_ok = [], [], 0, 0
    corpus_results = {}
    for res, verdict, case in rows:
        rid = res["id"]
        head = rid.split("/")[0]
        by_stream[head] += 1
        outcomes[(head, res["outcome"])] += 1
        note = (case or {}).get("note", "")
        if head in ("corpus", "corpus-config"):
            corpus_results[rid] = res
        pred = preds.get(rid)
        fails = failures_of(res)
        if pred is not None:
            failing_ops = {f[0] for f in fails}
            for k, v in pred.items():
                if v == "true" and (k.startswith("p:") or k.startswith("chain:") or k.startswith("ctx:") or k == "fromast"):
                    c.cov["disagreements_checked"] += 1
            inscope_ok += pred.get("wf") == "true" and not fails
        for op, outcome, frame, msg in fails:
            if pred is not None:
                if pred.get("wf") != "true":
                    outside += 1
                    continue
                key = pred_key(op)
                if key and pred.get(key) == "true":
                    contradicted.append((res, case, op, frame, msg))
                    continue
                # the MODEL itself does not panic on this IR (it returns ok / an error) but the real code does:
                # the model no longer describes the code, whatever the recorded findings say
                mk = model_key(op)
                mv = pred.get(mk) if mk else None
                if mv in ("ok", "err") and not (mk == "mfromast" and mv == "err"):
                    model_contradicted.append((res, case, op, frame, msg, mv))
                    continue
            rp = run_preds.get(rid)
            if rp is not None and rp.get("wf") == "true":
                m = re.search(r"internal/ast/compiler\.\(?\*?(\w+)\)?\.", frame)
                mpass = rp.get("m:" + m.group(1)) if m else None
                chains = [v for k, v in rp.items() if k.startswith("mchain:")]
                c.cov["disagreements_checked"] += 1
                if mpass in ("ok", "err") and chains and all(v in ("ok", "err") for v in chains):
                    model_contradicted.append((res, case, "run:" + (m.group(1) if m else "?"), frame, msg, "ok/err in every modelled chain"))
                    continue
            route = route_of(rid, note)
            text = "route=%s outcome=%s frame=%s msg=%s op=%s id=%s note=%s" % (route, outcome, frame, msg, op, rid, note)
            classes.setdefault((route.split(":")[0], outcome, frame, msg), []).append((text, res, case))

    c.cov["evaluations"] = len(rows)
    c.cov["streams"] = {k: {"evaluations": v} for k, v in by_stream.items()}
    c.cov["outcomes"] = {"%s/%s" % k: v for k, v in sorted(outcomes.items())}
    c.cov["ir_cases_wf_without_panic"] = inscope_ok
    c.cov["ir_panics_outside_property(malformed IR)"] = outside
    for res, _, _ in rows:
        c.distinct.add(("%s|%s|%s|%s" % (res["id"].split("/")[0], res["outcome"], res.get("frame", ""), re.sub(r"[0-9]+", "N", res.get("raw", ""))[:80])).encode())

    # (a) a theorem's hypotheses hold and the real code panics
    for res, case, op, frame, msg in contradicted[:5]:
        if case and case.get("kind") == "ir":
            case = dict(case, op=op)  # shrink towards the operation whose theorem is contradicted
        small = shrink(hb, case)[0] if case else None
        c.violation({"kind": "theorem-contradicted", "what": "the decidable hypotheses of the C04 partial theorem for `%s` hold on this IR (driver: c04pred) but the real code panics: the Lean model no longer describes the code" % op,
                     "op": op, "frame": frame, "msg": msg, "case": small or case, "vir": res.get("extra", "")[:20000], "stack": res.get("stack", "")[:3000]})
    c.oblige("no panic of the real code where a C04 theorem's hypotheses hold (%d predictions checked)" % c.cov["disagreements_checked"], not contradicted,
             [(x[2], x[3], x[4]) for x in contradicted[:5]])

    seen_ops = set()
    for res, case, op, frame, msg, mv in sorted(model_contradicted, key=lambda x: not x[2].startswith("run:")):
        cat = "run" if op.startswith("run:") else "ir"
        if (op, frame, msg, cat) in seen_ops or len([1 for x in seen_ops if x[3] == cat]) >= 3:
            continue
        seen_ops.add((op, frame, msg, cat))
        if case and case.get("kind") == "ir":
            case = dict(case, op=op)
        small = shrink(hb, case, want=(res["outcome"], frame, msg) if op.startswith("run:") else None)[0] if case else None
        c.violation({"kind": "model-contradicted", "what": "the Lean model of `%s` returns `%s` on this well-formed IR (driver: c04pred) but the real code panics: the code has a panic the model does not have" % (op, mv),
                     "op": op, "frame": frame, "msg": msg, "case": small or case, "vir": res.get("extra", "")[:20000], "stack": res.get("stack", "")[:3000]})
    c.oblige("no panic of the real code on a well-formed IR where the Lean model of the same pass / chain / FromAST does not panic", not model_contradicted,
             [(x[2], x[3], x[4]) for x in model_contradicted[:5]])

    # (b) every other failure is a recorded finding, or a violation
    unknown = []
    for key, items in sorted(classes.items()):
        text, res, case = items[0]
        kf = None
        for t, _, _ in items[:50]:
            kf = c.match_known(t)
            if kf:
                break
        if kf:
            c.known_hit[kf["id"]] += len(items) - 1
        else:
            unknown.append((key, items))
    # confirmation: an unmatched class must reproduce when its first case runs alone with a generous
    # watchdog (filters workers killed from outside / timeouts on a loaded machine)
    confirmed, flaky = [], []
    for key, items in unknown:
        text, res, case = items[0]
        again = rerun(hb, case) if case else None
        if again is not None and again["outcome"] in ("ok", "err"):
            flaky.append(("%s %s frame=%s msg=%s" % key, res["id"]))
        else:
            confirmed.append((key, items))
    c.cov["flaky_not_reproduced"] = flaky
    unknown = confirmed
    c.cov["failure_classes"] = len(classes)
    c.cov["oracle_failures"] = sum(len(v) for v in classes.values())
    c.cov["samples"] = [{"class": "%s %s %s | %s" % k, "count": len(v), "first": v[0][1]["id"]} for k, v in sorted(classes.items(), key=lambda kv: -len(kv[1]))[:12]]
    for key, items in unknown[:8]:
        text, res, case = items[0]
        small, sres = (shrink(hb, case, want=(res["outcome"], key[2], key[3])) if case else (None, None)) or (None, None)
        c.violation({"kind": "unrecorded-panic", "class": "%s %s frame=%s msg=%s" % key, "count": len(items), "case_text": text[:1500],
                     "case": small or case, "result": {k: v for k, v in (sres or res).items() if k not in ("extra",)},
                     "how_to_replay": "./check C04 --replay <this file>"})
    if len(unknown) > 8:
        c.violation({"kind": "unrecorded-panic", "more": [("%s %s frame=%s msg=%s" % k) for k, _ in unknown[8:40]]})
    c.oblige("every panic / hang / crash of the real code in the crash stream is a recorded finding (%d failure classes)" % len(classes), not unknown,
             [("%s %s frame=%s msg=%s" % k) for k, _ in unknown[:10]])

    # (c) pinned inputs of the findings and of the Lean witnesses still fail the recorded way
    stale = []
    for name, (cid, frame_re) in WITNESS_REPLAYS.items():
        r = corpus_results.get(cid)
        if r is None or r["outcome"] in ("ok", "err") or not re.search(frame_re, r.get("frame", "") + " " + r.get("stage", "")):
            stale.append((name, cid, (r or {}).get("outcome"), (r or {}).get("frame")))
    relapsed = [(cid, fix, corpus_results.get(cid, {}).get("outcome")) for cid, fix in FIXED_PINNED.items()
                if corpus_results.get(cid, {}).get("outcome") not in ("ok", "err")]
    c.oblige("the pinned inputs of the defects fixed in /repo end in ok/err (no relapse)", not relapsed, relapsed)
    c.cov["witness_replays"] = {"checked": len(WITNESS_REPLAYS), "no_longer_failing_as_modelled": stale, "fixed_pinned_checked": len(FIXED_PINNED)}
    # informational only: a witness that stops panicking means cog fixed the defect (the `_full` counterexample
    # theorem then describes a model that is stricter than the code) — reported, not an alarm by itself
    if stale:
        log("witnesses that no longer fail the recorded way (fixed in cog?):", stale)

    c.finish("cd /verif/lean && lake build Cog.Props.C04 drv && lake env lean <#print axioms of the C04 theorems>; harness c04-run",
             "one evaluation = one case executed on the real code in a worker process (a pipeline run from files + YAML config, or one generated IR through ~34 operations, or one YAML pass/veneer document on a generated IR); non-trivial = distinct (stream, result text); failure classes = (route, outcome, top cog frame, message class)",
             "proof for the IR / configuration / builder layer under wfIR and named decidable conditions, with kernel-checked counterexamples for each unconditional statement; crash-stream exploration for bytes->library, CUE, jennies")


def rerun(hb, case):
    tmp = os.path.join(C04_WORK, "rerun_%d.jsonl" % os.getpid())
    open(tmp, "w").write(json.dumps(case) + "\n")
    try:
        rows, _ = run_stream_kw(hb, tmp)
    except Exception as e:  # noqa
        log("rerun failed:", e)
        return None
    finally:
        if os.path.exists(tmp):
            os.remove(tmp)
    return rows[0][0] if rows else None


def run_stream_kw(hb, tmp):
    args = [hb, "c04-exec", "work=" + C04_WORK, "workers=1", "timeout=150", "in=" + tmp]
    p = subprocess.run(args, capture_output=True, text=True, timeout=900, cwd=REPO, env=GOENV)
    rows = []
    for l in p.stdout.split("\n"):
        parts = l.split("\t")
        if len(parts) >= 4:
            rows.append((json.loads(parts[1]), parts[2], None))
    return rows, p.stderr


def shrink(hb, case, want=None):
    tmp = os.path.join(C04_WORK, "shrink_%d.jsonl" % os.getpid())
    open(tmp, "w").write(json.dumps(case) + "\n")
    try:
        rows, _ = run_stream(hb, "c04-shrink", workers=1, budget=120, timeout=600, **{"in": tmp})
    except Exception as e:  # noqa
        log("shrink failed:", e)
        return None, None
    finally:
        if os.path.exists(tmp):
            os.remove(tmp)
    if not rows:
        return None, None
    res, verdict, small = rows[0]
    if want and (res["outcome"], res.get("frame"), res.get("msg")) != want:
        return None, None
    # make the replay readable: decode text files
    if small and small.get("files"):
        import base64
        small["files_text"] = {}
        for k, v in small["files"].items():
            try:
                small["files_text"][k] = base64.b64decode(v).decode("utf-8")
            except Exception:  # noqa
                pass
    return small, res


main()
