"""C13 — generated Equals is an equivalence that matches equality of the encoded values.

Lean: goEquals (model of struct_equality_method.tmpl) + theorems C13_* (partials with explicit
hypotheses, counterexamples, single-leaf in full, decode-to-wt bridge).
Tie: stream c13-equals — real cog pipeline → real generated Go packages compiled in the lab →
`a.Equals(b)` verdicts on generated document groups vs. the Lean driver's `goequals`, plus the
implementation-side oracle (the laws themselves on the real verdicts/encodings).
"""
import json, os, re, sys
from verifkit.core import *
import verifkit.core as core

THEOREMS = [
    "Cog.Sem.C13_refl_partial", "Cog.Sem.C13_symm_partial", "Cog.Sem.C13_symm_partial'",
    "Cog.Sem.C13_trans_partial", "Cog.Sem.C13_enc_eq_implies_equals_partial",
    "Cog.Sem.C13_same_document_partial", "Cog.Sem.C13_equals_implies_enc_eqv_partial",
    "Cog.Sem.C13_single_leaf", "Cog.Sem.C13_decode_wt", "Cog.Sem.C13_equivalence_schema",
    "Cog.Sem.C13_encoding_schema",
    "Cog.Sem.C13_refl_counterexample", "Cog.Sem.C13_symm_counterexample",
    "Cog.Sem.C13_trans_counterexample", "Cog.Sem.C13_enc_eq_implies_equals_counterexample",
    "Cog.Sem.C13_equals_implies_enc_eqv_counterexample",
    "Cog.Sem.C13_enc_eq_implies_equals_counterexample_union",
]
HARNESS_FILES = HARNESS_BASE + ["lab_*.go", "src_*.go", "c13_*.go"]

# law -> (flag of the `?info` reply, hypothesis of the _partial theorem it belongs to)
NEVER_EXCLUDED = ("reflexive-same-value", "one-leaf-mutant-unequal")


def parse_info(s):
    """eq=1,0 refl=1,1 ts=1,1 nz=0,1 ua=1 enc=0 encnil=0 wt=1,1 -> dict"""
    if not s.startswith("eq="):
        return None
    d = {}
    for tok in s.split(" "):
        k, _, v = tok.partition("=")
        d[k] = [x == "1" for x in v.split(",")]
    return d


class C13:
    def __init__(self, c, hb):
        self.c, self.hb = c, hb
        self.n_unsup = {}
        self.n_agree = 0
        self.dis = []
        self.fails = []
        self.dist = {}
        self.unexplained = 0
        self.dis_inside = []

    def info_batch(self, queries):
        """queries: list of (case, obj, sexp_a, sexp_b) -> list of (parsed, raw); one driver run"""
        if not queries:
            return []
        lines, used = [], set()
        for (case, obj, sa, sb) in queries:
            if case not in used:
                used.add(case)
                lines.append(self.deflines[case])
        n_def = len(lines)
        for (case, obj, sa, sb) in queries:
            lines.append("goequals ?info %s %s %s %s %s" % (case, case, obj, sa, sb))
        reps = drv(lines)[n_def:]
        return [(parse_info(r), r) for r in reps]

    def process(self, rows, stream, args):
        c = self.c
        reqs = [r[0] for r in rows if r[0] != "-"]
        replies = drv(reqs) if reqs else []
        it = iter(replies)
        deflines = {}
        nt = []
        n_eval = 0
        for r in rows:
            if r[0] == "-":
                if r[1].startswith("DIST "):
                    self.dist = json.loads(r[1][5:])
                    continue
                if r[1].startswith("CASE "):
                    continue
                n_eval += 1
                if len(r) > 2 and r[2].startswith("FAIL"):
                    self.fails.append((json.loads(r[1]), r[2]))
                continue
            m = next(it)
            if r[0].startswith("defschemas "):
                deflines[r[0].split(" ", 2)[1]] = r[0]
                if m != "ok":
                    self.dis.append((r, m))
                continue
            n_eval += 1
            if m.startswith("unsup"):
                self.n_unsup[m] = self.n_unsup.get(m, 0) + 1
                continue
            if m != r[1]:
                self.dis.append((r, m))
            else:
                self.n_agree += 1
                nt.append(r[0] + "|" + r[1])
        self.deflines = deflines
        self.case_rows = {}
        for r in rows:
            if r[0] == "-" and r[1].startswith("CASE "):
                o = json.loads(r[1][5:])
                self.case_rows[o["case"]] = {"format": o.get("format"), "defs_sexp": o.get("defs"),
                                             "text_main": o.get("text_main", ""), "text_lib": o.get("text_lib", "")}
        c.count(stream, n_eval, nt, samples=[{"stream": stream, "request": r[0][:300], "impl": r[1][:100], "oracle": r[2][:100]}
                                             for r in [x for x in rows if x[0].startswith("goequals")][:: max(1, len(rows) // 3)][:3]])
        c.cov["disagreements_checked"] += len(reqs)
        c.cov["oracle_failures"] += len(self.fails)
        st = c.cov["streams"][stream]
        st["disagreements"] = st.get("disagreements", 0) + len(self.dis)
        st["oracle_failures"] = st.get("oracle_failures", 0) + len(self.fails)
        st["model_unsupported"] = dict(self.n_unsup)
        self.classify_failures(stream, args)
        self.report_disagreements(stream, args)

    @staticmethod
    def pairs_of(row):
        law, idx = row.get("law"), row.get("idx", [])
        i, j, k = (idx + [-1, -1, -1])[:3]
        if law == "reflexive-redecode":
            return [(i, i)]
        if law == "transitivity":
            return [(i, j), (j, k), (i, k)]
        if law == "no-crash":
            return [(0, 0)]
        return [(i, j)]

    def excluded_by(self, row, infos_for):
        """ids of the _partial-theorem hypotheses the (shrunk) failing group violates, decided by
        the Lean model; also checks that the model reproduces the real verdicts of the group"""
        law, sx = row.get("law"), row.get("sexps", [])
        if row["case"] not in self.deflines or not sx:
            return [], "no-model", {}
        try:
            real = json.loads(row["reply"][3:]) if row.get("reply", "").startswith("ok ") else None
        except ValueError:
            real = None
        ids, infos, agree = set(), {}, True
        for (x, y) in self.pairs_of(row):
            if x < 0 or y < 0 or x >= len(sx) or y >= len(sx):
                continue
            inf, raw = infos_for[(x, y)]
            infos["%d,%d" % (x, y)] = raw
            if inf is None:
                # positions the model declares as crashing: `!=` on interface values (alias of any)
                if law == "no-crash" and raw == "unsup reference to an alias of any" and "uncomparable" in row.get("text", ""):
                    return ["anyAliasRef"], "model-agrees", infos
                return [], "model:" + raw, infos
            if real is not None:
                if inf["eq"][0] != real["M"][x][y] or inf["eq"][1] != real["M"][y][x]:
                    agree = False
            if law in NEVER_EXCLUDED:
                continue
            if law in ("symmetry", "transitivity", "equal-implies-same-encoding"):
                if not all(inf["nz"]):
                    # the recorded weakness is about maps with a DECLARED element type (source
                    # construct `dict`) whose key sets differ; a Go map that the source wrote as a
                    # free-form object / any other construct is not covered by it
                    if "dict" in (row.get("srcdiff") or "").split(","):
                        ids.add("mapsNonZero")
                    else:
                        ids.add("zeroReadOutsideDeclaredDict")
            if law in ("reflexive-redecode", "same-encoding-implies-equal"):
                if not all(inf["ts"]):
                    ids.add("timesShared")
            if law == "same-encoding-implies-equal" and not inf["ua"][0]:
                ids.add("unionsAligned")
        return sorted(ids), ("model-agrees" if agree else "model-DISAGREES"), infos

    def shrink(self, row):
        """second harness run on the failing (schema, object, documents): one-case lab + shrinking"""
        tmp = os.path.join(WORK, "c13_shrink_%d.json" % os.getpid())
        try:
            cr = self.case_rows.get(row["case"], {})
            json.dump({"format": row.get("format"), "defs": row.get("defs"), "object": row["object"],
                       "docs": row.get("docs"), "law": row.get("law", ""), "idx": row.get("idx", []),
                       "text_main": cr.get("text_main", ""), "text_lib": cr.get("text_lib", "")}, open(tmp, "w"))
            for r in harness(self.hb, "c13-replay", file=tmp, shrink=1):
                if r[0] == "-" and len(r) > 2 and r[2].startswith("FAIL"):
                    o = json.loads(r[1])
                    if o.get("law") == row.get("law"):
                        o["format"] = row.get("format")
                        o["kind"] = row.get("kind")
                        o["case"] = row["case"]  # texts / model definitions of the original case
                        return o
        except Exception as e:  # shrinking is best effort
            log("shrink failed:", e)
        finally:
            if os.path.exists(tmp):
                os.remove(tmp)
        return row

    def classify_failures(self, stream, args):
        c = self.c
        reported = 0
        # one driver run for all `?info` queries
        queries, where = [], []
        for n, (row, verdict) in enumerate(self.fails):
            sx = row.get("sexps", [])
            if row["case"] not in self.deflines:
                continue
            for (x, y) in self.pairs_of(row):
                if 0 <= x < len(sx) and 0 <= y < len(sx):
                    queries.append((row["case"], row["object"], sx[x], sx[y]))
                    where.append((n, (x, y)))
        per_row = {}
        for (n, xy), res in zip(where, self.info_batch(queries)):
            per_row.setdefault(n, {})[xy] = res
        for n, (row, verdict) in enumerate(self.fails):
            law = row.get("law", "?")
            ids, agree, infos = self.excluded_by(row, per_row.get(n, {}))
            text = "law=%s excludedBy=%s model=%s srcdiff=%s format=%s object=%s kind=%s text=%s defs=%s docs=%s" % (
                law, ",".join(ids) or "none", agree, row.get("srcdiff", "-"), row.get("format"), row["object"], row.get("kind"),
                row.get("text", "")[:200], row.get("defs", ""), " ".join(row.get("docs", [])))
            kf = c.match_known(text) if (ids and agree == "model-agrees") else None
            if kf:
                continue
            self.unexplained += 1
            if reported < 5:
                reported += 1
                if not row.get("shrunk") and stream != "c13-replay":
                    row = self.shrink(row)
                c.violation({"kind": "oracle-failure", "stream": stream, "args": args, "law": law,
                             "format": row.get("format"), "defs": row.get("defs"), "object": row["object"],
                             "docs": row.get("docs"), "idx": row.get("idx"), "group_kind": row.get("kind"),
                             "text": row.get("text"), "impl": row.get("reply"), "model": infos,
                             "excludedBy": ids, "model_agreement": agree, "case_text": text[:4000],
                             "srcdiff": row.get("srcdiff"),
                             "text_main": self.case_rows.get(row["case"], {}).get("text_main", ""),
                             "text_lib": self.case_rows.get(row["case"], {}).get("text_lib", ""),
                             "replay_cmd": "./check C13 --replay <this file>"})

    def report_disagreements(self, stream, args):
        """A disagreement means the model no longer describes the generated code.  Tolerated (and
        only counted) when the pair lies outside the hypotheses of the _partial theorems — there
        the theorems claim nothing, and code that has become *better* than the recorded quirk
        (e.g. a corrected map comparison) must not alarm; the laws themselves are still checked
        on the real verdicts by the oracle."""
        c = self.c
        if not self.dis:
            return
        queries, idx = [], []
        for n, (r, m) in enumerate(self.dis):
            parts = r[0].split(" ", 4)
            if parts[0] != "goequals" or len(parts) < 5 or parts[1] not in self.deflines or r[1] not in ("true", "false"):
                continue
            # the two documents are the two top-level S-expressions of parts[4]
            sa, sb = split_two_sexps(parts[4])
            if sa is None:
                continue
            queries.append((parts[1], parts[3], sa, sb))
            idx.append(n)
        outside = set()
        for n, (inf, raw) in zip(idx, self.info_batch(queries)):
            if inf is not None and not (all(inf["nz"]) and all(inf["ts"])):
                outside.add(n)
        inside = [d for n, d in enumerate(self.dis) if n not in outside]
        st = c.cov["streams"][stream]
        st["disagreements_outside_hypotheses"] = st.get("disagreements_outside_hypotheses", 0) + len(outside)
        self.dis_inside = inside
        if not inside:
            return
        r, m = inside[0]
        parts = r[0].split(" ", 4)
        payload = {"kind": "correspondence-broken", "stream": stream, "args": args,
                   "broken": "stream %s: real Equals verdict differs from the Lean model goEquals" % stream,
                   "request": r[0][:6000], "impl": r[1], "model": m, "n_disagreements": len(inside)}
        if len(parts) >= 5 and parts[0] == "goequals":
            case = parts[1]
            sa, sb = split_two_sexps(parts[4])
            row = self.case_rows.get(case)
            if row and sa is not None:
                payload.update({"format": row.get("format"), "defs": row.get("defs_sexp"), "object": parts[3],
                                "text_main": row.get("text_main", ""), "text_lib": row.get("text_lib", ""),
                                "docs": [sexp_to_json(sa), sexp_to_json(sb)],
                                "replay_cmd": "./check C13 --replay <this file>"})
        # an unexplained oracle failure of this run is the concrete failing input of the property;
        # otherwise the replay carries the (schema, documents) on which model and code differ
        c.violation(payload, found_input=self.unexplained > 0)


def split_two_sexps(text):
    """split 'X Y' where X, Y are S-expressions (atoms or parenthesised, strings quoted)"""
    depth, i, n, in_str = 0, 0, len(text), False
    while i < n:
        ch = text[i]
        if in_str:
            if ch == "\\":
                i += 1
            elif ch == '"':
                in_str = False
        elif ch == '"':
            in_str = True
        elif ch == "(":
            depth += 1
        elif ch == ")":
            depth -= 1
        elif ch == " " and depth == 0:
            return text[:i], text[i + 1:]
        i += 1
    return None, None


def sexp_to_json(sx):
    """(o ("k" V)…) (a V…) (n "1") (s "x") null true false -> JSON text"""
    toks = re.findall(r'"(?:[^"\\]|\\.)*"|[()]|[^\s()"]+', sx)
    pos = [0]

    def unq(t):
        return json.loads(re.sub(r"\\x([0-9a-fA-F]{2})", lambda m: "\\u00" + m.group(1), t))

    def val():
        t = toks[pos[0]]
        pos[0] += 1
        if t != "(":
            return {"null": None, "true": True, "false": False}[t]
        head = toks[pos[0]]
        pos[0] += 1
        if head == "n":
            s_ = unq(toks[pos[0]]); pos[0] += 2
            return RawNum(s_)
        if head == "s":
            s_ = unq(toks[pos[0]]); pos[0] += 2
            return s_
        if head == "a":
            out = []
            while toks[pos[0]] != ")":
                out.append(val())
            pos[0] += 1
            return out
        out = []
        while toks[pos[0]] != ")":
            pos[0] += 1  # (
            k = unq(toks[pos[0]]); pos[0] += 1
            v = val()
            pos[0] += 1  # )
            out.append((k, v))
        pos[0] += 1
        return ObjPairs(out)

    def dump(v):
        if isinstance(v, RawNum):
            return v.text
        if isinstance(v, ObjPairs):
            return "{" + ",".join(json.dumps(k) + ":" + dump(x) for k, x in v.pairs) + "}"
        if isinstance(v, list):
            return "[" + ",".join(dump(x) for x in v) + "]"
        return json.dumps(v)
    return dump(val())


class RawNum:
    def __init__(self, text):
        self.text = text


class ObjPairs:
    def __init__(self, pairs):
        self.pairs = pairs


def run_stream(c, hb, stream, **kw):
    rows = harness(hb, stream, **kw)
    x = C13(c, hb)
    x.process(rows, stream, kw)
    return x


def main():
    c = Check("C13")
    c.trusted = [
        "Lean 4.33 kernel; axioms per theorem are listed in obligation_list (subset of propext, Classical.choice, Quot.sound)",
        "hand-written model lean/Cog/Sem/GoEquals.lean of templates/types/struct_equality_method.tmpl + equality.go, tied by the c13-equals stream (real generated code compiled and run)",
        "lean/Cog/Sem/{Json,GoVal,GoCodec}.lean: model of encoding/json on the generated types (tied by C01's godec stream); numbers restricted to multiples of 0.25, timestamps to canonical RFC 3339 texts",
        "time.Time != : location pointer identity modelled by zoneShared (UTC, local offset, cached whole-hour FixedZone); the lab driver runs with TZ=UTC",
        "reflect.DeepEqual on decoded `any` values modelled as equality of key-sorted generic JSON",
        "post-chain IR handed to the model = codegen pipeline's own IR for the Go target (harness VIR encoder, round-trip-checked by the vir stream)",
        "the lab (harness/lab_*.go, src_*.go): schema/document generators, go build of the generated packages, line protocol",
        "dataquery_equality_method.tmpl (type assertion wrapper around the same template body) is not exercised: the source grammar has no dataquery variants",
    ]
    hb, err = build_go("verifharness", "harness", files=HARNESS_FILES, tag="c13")
    c.oblige("harness (lab + c13 streams) builds against the repository working tree", hb is not None, err[-3000:])
    c.lean_obligations(THEOREMS)
    rule = ("evaluation = one real a.Equals(b) verdict compared with the model, or one law check of a document group "
            "(reflexive same value / across decodes, symmetric, transitive, same encoding => equal, equal => same encoding "
            "mod nil/empty, one-leaf mutant unequal); non-trivial = verdict on a generated pair on which model and code "
            "agree; distinct by (schema case, object, documents, verdict)")
    cmd = "cd /verif/lean && lake build Cog.Props.C13 drv && lake env lean <#print axioms of the C13_* theorems>"
    if hb is None:
        c.finish(cmd, "n/a")
    if c.replay:
        rp = json.load(open(c.replay))
        if not rp.get("defs") or not rp.get("docs"):
            print("replay file carries no (schema, documents) input:", rp.get("broken", rp.get("kind")))
            sys.exit(1)
        tmp = os.path.join(WORK, "c13_replay_%d.json" % os.getpid())
        json.dump({"format": rp.get("format", "jsonschema"), "defs": rp["defs"], "object": rp["object"],
                   "docs": rp["docs"], "law": rp.get("law", ""), "idx": rp.get("idx", []),
                   "text_main": rp.get("text_main", ""), "text_lib": rp.get("text_lib", "")}, open(tmp, "w"))
        try:
            x = run_stream(c, hb, "c13-replay", file=tmp)
        finally:
            os.remove(tmp)
        for row, verdict in x.fails:
            print("replay:", verdict, "docs:", " ".join(row.get("docs", [])))
        for r, m in x.dis_inside:
            print("replay: model", m, "impl", r[1], r[0][:300])
        print("replay: %d verdicts agree, %d disagree, %d law failures (%d unexplained)" % (x.n_agree, len(x.dis), len(x.fails), x.unexplained))
        sys.exit(1 if (x.dis_inside or x.unexplained) else 0)
    if c.tier == "quick":
        x = run_stream(c, hb, "c13-equals", n=16, docs=12, seed=c.seed)
    else:
        x = None
        for k in range(5):
            y = run_stream(c, hb, "c13-equals", n=60, docs=24, seed=c.seed * 101 + k, maxdepth=4)
            if x is None:
                x = y
            else:  # accumulate the measured distribution over the batches
                for sect in ("stats", "constructs", "doc_variants"):
                    for key, val in (y.dist or {}).get(sect, {}).items():
                        x.dist.setdefault(sect, {})[key] = x.dist.get(sect, {}).get(key, 0) + val
                for key, val in y.n_unsup.items():
                    x.n_unsup[key] = x.n_unsup.get(key, 0) + val
    c.cov["distribution"] = x.dist
    c.cov["model_unsupported"] = x.n_unsup
    st = (x.dist or {}).get("stats", {})
    c.oblige("lab: generated cases compiled and ran (cases:run > 0)", st.get("cases:run", 0) > 0, st)
    c.oblige("pinned witnesses ran", st.get("kind:pinned", 0) >= 7 and st.get("cases:run", 0) >= 8, st)
    c.finish(cmd, rule,
             "schemas: generated Src terms rendered to JSON Schema / OpenAPI / CUE + 6 pinned witness schemas; per struct object "
             "groups of 2-3 documents (same, reordered, one-leaf mutants, presence, key-swapped maps, nil-vs-empty, "
             "null-vs-absent, crafted map/time groups); see coverage.distribution")


main()
