"""C18 — copies of the IR are faithful and independent.

Lean: copy-spec meta-theorem over address-labelled trees + decision over the copy table that
xcopy regenerates from /repo's DeepCopy methods on every run.  Tie: the real DeepCopy methods run
on random IR values of every type; reflective oracle (equality modulo nil/empty, disjoint backing
stores, write-to-every-location-of-the-copy then compare the original with a snapshot); every
observation must be explained by, and confirm, the extracted mode of a field."""
import json, os, re, sys, time
from verifkit.core import *
from verifkit import gen_c18

THEOREMS = [
    "Cog.Heap.C18_copy_faithful_independent", "Cog.Heap.C18_full_of_good_table", "Cog.Heap.C18_partial",
    "Cog.Heap.C18_current_tree", "Cog.Heap.C18_no_bad_entry", "Cog.Heap.C18_full_current_tree",
    "Cog.Heap.C18_partial_current_tree", "Cog.Heap.C18_universe_needed",
    "Cog.Heap.C18_prefix_exceptions_witnessed", "Cog.Heap.C18_prefix_counterexample", "Cog.Heap.C18_former_witnesses_pass",
    "Cog.Heap.C18_process_copies_first", "Cog.Heap.C18_process_frame",
    "Cog.Heap.C18_shared_breaks", "Cog.Heap.C18_omitted_breaks",
]
MY_LEAN = ("lean/Cog/Heap/", "lean/Cog/Props/C18.lean", "lean/Cog/Gen/CopyFacts.lean", "lean/Cog/Gen/IRFields.lean")

# All former C18 findings are FIXED in /repo (b4532a0, ea8a40d, 1572d8b, 71b1811).  Their ids must not
# suppress anything any more, whatever /verif/known_findings.json still lists: a relapse is a VIOLATION.
# The former witnesses are replayed on every run as must-pass inputs (stream c18-witness).
FIXED_IDS = {"C18/%s" % x for x in (
    "Type.Default/shared", "Type.Hints/shared", "TypeConstraint.Args/shared", "ScalarType.Value/shared",
    "EnumValue.Value/shared", "ConstantReferenceType.ReferenceValue/shared", "Schema.EntryPointType/shared",
    "Builder.For/shared", "Builder.Factories/omitted", "Option.Default/omitted", "PathIndex.Constant/shared",
    "AssignmentValue.Constant/shared", "AssignmentConstraint.Parameter/shared", "TypedConstant.Value/shared")}
PROPOSED = []


def mode_show(m):
    return gen_c18.show_mode(m)


def bad_kind(m):
    while m["k"] in ("freshSlice", "freshMap"):
        m = m["elem"]
    return m["k"] if m["k"] in ("shared", "omitted") else None


def lean_exceptions():
    src = open(os.path.join(LEAN, "Cog", "Props", "C18.lean"), encoding="utf-8").read()
    blk = src[src.index("def exceptions"):]
    blk = blk[:blk.index("]")]
    return {(a + "." + b): re.sub(r"[\s.]+", " ", m).strip() for a, b, m in re.findall(r'\("([^"]+)",\s*"([^"]+)",\s*([^)]*)\)', blk)}


def lean_obligations_scoped(c, theorems, facts_ok):
    """as Check.lean_obligations, but building and scanning only the modules C18 depends on"""
    ok, out = lake_build(("Cog.Props.C18",))
    c.oblige("lake build Cog.Props.C18 (heap model, meta-theorems, regenerated facts, property file)", ok, out[-3000:] if not ok else "")
    hits = forbidden_scan(["Cog.Props.C18"])
    c.oblige("no sorry/admit/axiom/native_decide/bv_decide/implemented_by/unsafe in the C18 lean sources", not hits, hits[:10])
    if not ok or not facts_ok:
        for t in theorems:
            c.oblige("theorem " + t, False, "build failed" if not ok else "facts were not regenerated from /repo (stale table)")
        return False
    res, text = audit(theorems, ("Cog.Props.C18",))
    for t in theorems:
        o, ax = res[t]
        c.oblige("theorem %s (axioms: %s)" % (t, ",".join(ax) or "none"), o, text[-1500:] if not o else "")
    return all(res[t][0] for t in theorems)


def build_c18_harness():
    """the shared harness sources, restricted to the files the C18 streams need: somebody else's
    half-written stream must not decide whether C18 can be checked"""
    return build_go("verifharness", "harness", files=["main.go", "prng.go", "util.go", "c18_*.go"], tag="c18")


def case_args(req):
    return dict(kv.split("=", 1) for kv in req.split(" ")[1:] if "=" in kv)


def fetch_dump(hb, req):
    a = case_args(req)
    a["table"] = gen_c18.TABLE
    stream = "c18-case"
    if req.startswith("c18 process "):
        stream, a["dump"], a["n"] = "c18-process", "1", str(int(a["idx"]) + 1)
        a.pop("root", None)
    try:
        rows = harness(hb, stream, **a)
    except Exception as e:  # noqa
        return {"error": str(e)[:500]}
    return {"rows": [r for r in rows if not r[0].startswith("c18-dump")][:8],
            "values": {r[0][len("c18-dump "):]: r[1][:6000] for r in rows if r[0].startswith("c18-dump")}}


def main():
    c = Check("C18")
    c.trusted = [
        "Lean 4.33 kernel; axioms per theorem are listed in obligation_list (subset of propext, Classical.choice, Quot.sound)",
        "extract/xcopy: the syntactic reading of the DeepCopy bodies (refuses on unknown forms) and its go/types field classification; re-checked in Lean (byValue only on types whose IRFields shape is immutable, same field lists) and dynamically (every extracted mode confirmed or contradicted by observing the real methods)",
        "tools.Map and orderedmap.Map.Map/New/Set are read once and pinned by body hash (a change makes xcopy refuse); their behaviour is exercised by the dynamic stream; deepCopyValue is NOT pinned: its type switch is analysed case by case",
        "the universe of dynamic types held by the IR's `any` fields (irDynTypes in Props/C18.lean: scalars, []any, map[string]any, DisjunctionType, Type) is an assumption about cog's front-ends and passes, read off their source by hand; the harness generates exactly these; typed containers such as []string would stay shared (theorem C18_universe_needed, stream c18-caveat)",
        "compiler.Passes.Process is tied by a syntactic fact only (input used once, as receiver of DeepCopy, unconditionally; returns the copy): the dynamic side for chains is C07's",
        "the address-tree abstraction: IR values are trees whose only shared mutable stores are slices' backing arrays, maps and pointer targets; Go's type system guarantees hasTy (a field of an immutable type holds no store)",
        "harness/c18_*.go: reflective oracle (unsafe only for store addresses and orderedmap's unexported fields), its generator, and its own snapshot cloner (checked against the value before every case)",
    ]
    c.known = [f for f in c.known if f["id"] not in FIXED_IDS]
    os.makedirs(WORK, exist_ok=True)

    # 1. facts
    facts_ok, detail = gen_c18.regen()
    c.oblige("xcopy reads every DeepCopy method of /repo (no refusal) and the facts are regenerated", facts_ok, detail)
    have_table = os.path.exists(gen_c18.TABLE)
    table = json.load(open(gen_c18.TABLE)) if have_table else None
    c.cov["table"] = detail if facts_ok else "STALE: " + detail[:300]

    # 2. table obligations with readable diagnostics (the kernel-checked version is C18_current_tree)
    static_bad = {}
    if table is not None:
        exc = lean_exceptions()
        outside = []
        for T in table["copy_order"]:
            for f in table["copy"][T]:
                k = bad_kind(f["mode"])
                if k:
                    lab = T + "." + f["field"]
                    static_bad[lab] = k
                    if exc.get(lab) != mode_show(f["mode"]).replace("(", " ").replace(")", ""):
                        outside.append("%s: %s [%s]" % (lab, mode_show(f["mode"]), f.get("how", "")))
        for d in table.get("dyn") or []:
            k = bad_kind(d["mode"])
            if k:
                static_bad["any." + d["gotype"]] = k
                outside.append("%s case %s: %s [%s]" % (table.get("dyn_helper"), d["gotype"], mode_show(d["mode"]), d.get("how", "")))
        if facts_ok:
            pf = table.get("process") or {}
            proc_ok = bool(pf.get("found") and pf.get("input_uses") == 1 and pf.get("only_use_is_deepcopy") and pf.get("copy_at_top_level")
                           and pf.get("no_return_before_copy") and pf.get("returns_copy_or_nil"))
            c.oblige("compiler.Passes.Process duplicates its input unconditionally before the chain and returns only the duplicate (input used once, as receiver of DeepCopy, at top level, no return before it)", proc_ok, pf)
            c.oblige("every copy-table entry that is not good is on the explicit exception list of Props/C18.lean", not outside, outside)
            miss = [T for T in table["copy_order"] if [f["field"] for f in table["copy"][T]] != [f["name"] for f in table["structs"].get(T, [])]]
            c.oblige("copy table and IR field lists name the same fields of the same structs", not miss, miss)
        c.cov["table_summary"] = {"structs": len(table["struct_order"]), "copied_structs": len(table["copy_order"]),
                                  "fields": sum(len(table["copy"][T]) for T in table["copy_order"]),
                                  "deepcopy_methods": len(table["roots"]), "not_good": static_bad,
                                  "dyn_helper": table.get("dyn_helper"), "dyn_cases": {d["gotype"]: mode_show(d["mode"]) for d in table.get("dyn") or []},
                                  "process": table.get("process"),
                                  "exceptions_no_longer_in_table": sorted(set(exc) - set(static_bad))}

    # 4. harness
    hb, err = build_c18_harness()
    c.oblige("harness builds against /repo working tree", hb is not None, err)
    if c.replay and hb is not None and table is not None:
        if c.replay.startswith("witness:"):
            req = "c18 witness=" + c.replay[len("witness:"):]
        else:
            rp = json.load(open(c.replay))
            req = rp["request"]
        d = fetch_dump(hb, req)
        print(json.dumps(d, indent=1))
        fails = [r for r in d.get("rows", []) if len(r) > 2 and r[2].startswith("FAIL")]
        sys.exit(1 if fails or "error" in d else 0)

    # 3. Lean
    lean_obligations_scoped(c, THEOREMS, facts_ok)
    if hb is None or table is None:
        c.finish("lake build Cog.Props.C18 && #print axioms", "n/a")

    def classify(r):
        m = re.match(r"FAIL (shared|omitted) (\S+)", r[2])
        if m:
            return m.group(0)
        kind = "process " if r[0].startswith("c18 process") else ""
        return kind + re.sub(r"[0-9]+", "N", r[2].split(" at ")[0])[:120]

    all_fail_labels = {}
    tie_examples = []

    def consume(stream, rows):
        cov_row = None
        fails, nt = [], []
        n = 0
        for r in rows:
            if r[0] == "c18-coverage":
                cov_row = json.loads(r[1])
                continue
            if r[2] == "ok" or r[2].startswith("FAIL"):
                pass
            if r[2].startswith("FAIL"):
                fails.append(r)
            nt.append(r[0] + "|" + r[1])
        n = len({r[0] for r in rows if r[0] != "c18-coverage"})
        c.count(stream, n, nt, samples=[{"stream": stream, "request": r[0], "impl": r[1][:300], "oracle": r[2][:300]} for r in rows[:: max(1, len(rows) // 3)][:3] if r[0] != "c18-coverage"])
        st = c.cov["streams"][stream]
        st["oracle_failures"] = st.get("oracle_failures", 0) + len(fails)
        c.cov["oracle_failures"] += len(fails)
        c.cov["disagreements_checked"] += n
        # classification: one class per blamed field / per unexplained text; smallest case of a class first
        def size(r):
            m = re.search(r"stores=(\d+)", r[1])
            return int(m.group(1)) if m else 0
        by_class = {}
        def weak(r):  # a shared store without an observed change of the original is the weaker replay
            return 0 if ("changed the original" in r[2] or "copy differs" in r[2] or "unexplained" in r[2]) else 1
        # an observation that contradicts the extracted table is a broken tie, not (by itself) an input on
        # which the property fails: it becomes a failed obligation; the table-free observations of the same
        # case (unexplained sharing / difference / change of the original) are what yields concrete inputs
        ties = [r for r in fails if r[2].startswith("FAIL unexplained tie:")]
        tie_examples.extend("%s: %s" % (r[0], r[2][len("FAIL unexplained "):]) for r in ties[:3])
        fails = [r for r in fails if not r[2].startswith("FAIL unexplained tie:")]
        for r in sorted(fails, key=lambda r: (weak(r), size(r))):
            by_class.setdefault(classify(r), []).append(r)
        reported = 0
        for cls, rs in by_class.items():
            r = rs[0]
            kf = c.match_known(r[0] + "\t" + r[2])
            m = re.match(r"FAIL (shared|omitted) (\S+)", r[2])
            if m:
                all_fail_labels.setdefault(m.group(2), m.group(1))
            if kf:
                c.known_hit[kf["id"]] += len(rs) - 1
                continue
            if reported < 6:
                c.violation({"kind": "oracle-failure", "stream": stream, "request": r[0], "impl": r[1], "oracle": r[2],
                             "class": cls, "n_cases_in_class": len(rs), "replay": fetch_dump(hb, r[0])})
                reported += 1
        return cov_row

    consume("c18-witness", harness(hb, "c18-witness", table=gen_c18.TABLE))   # pinned inputs: must pass
    consume("c18-process", harness(hb, "c18-process", table=gen_c18.TABLE, n=25 if c.tier == "quick" else 400, seed=c.seed, depth=3))
    cav = harness(hb, "c18-caveat", table=gen_c18.TABLE)
    c.cov["caveat_dynamic_types_outside_the_universe"] = [{"input": r[0], "value": r[1][:200], "observed": r[2][:200]} for r in cav]
    plans = [(c.seed, 3, 140)] if c.tier == "quick" else [(c.seed, 3, 2500), (c.seed + 1, 4, 2500), (c.seed + 2, 5, 1500), (c.seed + 3, 2, 1500)]
    cov = None
    for (seed, depth, n) in plans:
        cr = consume("c18-random", harness(hb, "c18-random", table=gen_c18.TABLE, n=n, seed=seed, depth=depth))
        if cov is None:
            cov = cr
        elif cr:
            for k in ("visits", "non_empty", "blamed", "generated"):
                for a, b in cr[k].items():
                    cov[k][a] = cov[k].get(a, 0) + b
            for k in ("cases", "regions", "writes"):
                cov[k] += cr[k]

    # 5. the tie: dynamic verdict per field == extracted verdict per field
    if cov is not None:
        labels = [T + "." + f["field"] for T in table["copy_order"] for f in table["copy"][T]]
        unexercised = [l for l in labels if cov["non_empty"].get(l, 0) == 0]
        c.oblige("every field of the copy table was exercised with a non-empty value (%d fields)" % len(labels), not unexercised, unexercised)
        c.oblige("no observation of the real DeepCopy methods contradicts the extracted mode of a field", not tie_examples, tie_examples[:6])
        dyn_bad = dict(all_fail_labels)
        c.oblige("per-field verdicts observed on the real DeepCopy methods equal the extracted table (shared/omitted fields: %d)" % len(static_bad),
                 dyn_bad == static_bad, {"extracted": static_bad, "observed": dyn_bad})
        c.cov["distribution"] = {"cases": cov["cases"], "backing_stores_in_originals": cov["regions"], "writes_to_copies": cov["writes"],
                                 "generated": cov["generated"],
                                 "field_visits_min": min([cov["visits"].get(l, 0) for l in labels] or [0]),
                                 "field_non_empty_min": min([cov["non_empty"].get(l, 0) for l in labels] or [0]),
                                 "blamed": cov["blamed"]}
    c.finish("cd /verif/lean && lake build Cog.Props.C18 && lake env lean <#print axioms of the C18_* theorems>; .work/bin/xcopy; .work/bin/verifharness c18-witness|c18-random",
             "one evaluation = one generated IR value (of one of the %d types with a DeepCopy method, depth per plan) through the real DeepCopy, compared by reflection, then every location of the copy written and the original compared with its snapshot; distinct by (case, observation summary)" % (len(table["roots"]),),
             ("C18_full holds on the current tree (C18_full_current_tree) over the stated universe of dynamic types; the 14 former exceptions are fixed in /repo, witnessed on the pinned pre-fix table (C18_prefix_*) and replayed as must-pass inputs"
              if not static_bad else "the regenerated table has %d entries that are not good: %s" % (len(static_bad), sorted(static_bad))))


# the regenerated facts (lean/Cog/Gen/*, .work/c18_table.json) are global files: two C18 runs against
# different trees (VERIF_REPO copies, seed tests) must not interleave
with Lock("c18-check"):
    gen_c18.HOLDING = True
    main()
