"""C09 — a builder option sets exactly its target; invalid input is reported, valid never.

Obligations: the Lean theorems of lean/Cog/Props/C09.lean about the model of the generated
builders (lean/Cog/Sem/GoBuilder.lean, PyBuilder.lean).  Tie: every run of the lab streams (real
pipeline -> real generated builders, compiled / imported -> every option of every builder called
with JSON-encoded arguments through an extension generated from the builder IR) is also evaluated
by the Lean driver (`gobuild`, `pybuild`), which must predict builder.internal, the keys of
builder.errors and the outcome of Build().  Oracle: the property itself on the real outcomes
(harness/c09_stream.go: reference interpreter on JSON documents); whether an argument is valid or violating is read off
the SOURCE term at the option's target (harness/c09_srcjudge.go), in all three input formats, and arguments are drawn
around the source bounds (bound-1, bound, bound+1, their negations, 0).
"""
import atexit, hashlib
import collections, json, os, re, sys, time
import verifkit.core as core
from verifkit.core import *

PID = "C09"

# a private copy of the tree (VERIF_REPO) gets its own harness binary: two runs against different trees at the
# same time must not overwrite each other's binary (removed again when the run ends)
TAG = "c09" if core.REPO == "/repo" else "c09-" + hashlib.sha1(core.REPO.encode()).hexdigest()[:8]
if TAG != "c09":
    atexit.register(lambda: [os.path.exists(f) and os.remove(f) for f in
                             (os.path.join(core.BIN, "verifharness-" + TAG), os.path.join(core.WORK, "overlay-verifharness-%s.json" % TAG))])

FILES = HARNESS_BASE + ["lab_*.go", "src_*.go", "vir_builders.go", "c09_*.go"]
CORPUS = os.path.join(VERIF, "corpus", "C09.tsv")
CORPUS_PY = os.path.join(VERIF, "corpus", "C09py.tsv")


def theorem_names():
    src = open(os.path.join(LEAN, "Cog", "Props", "C09.lean"), encoding="utf-8").read()
    out, ns = [], []
    for line in src.split("\n"):
        m = re.match(r"^namespace\s+(\S+)", line)
        if m:
            ns.append(m.group(1))
        m = re.match(r"^end\s+(\S+)", line)
        if m and ns and ns[-1].split(".")[-1] == m.group(1).split(".")[-1]:
            ns.pop()
        m = re.match(r"^theorem\s+(C09_\w+)", line)
        if m:
            out.append(".".join(ns + [m.group(1)]))
    return out


def canon(text):
    """canonical JSON text: keys sorted, numbers as exact decimals (Python prints 0.0 where Go prints 0)"""
    from decimal import Decimal

    def norm(x):
        if isinstance(x, dict):
            return {k: norm(v) for k, v in sorted(x.items())}
        if isinstance(x, list):
            return [norm(v) for v in x]
        if isinstance(x, Decimal):
            return "#" + format(x.normalize(), "f")
        return x
    try:
        return json.dumps(norm(json.loads(text, parse_float=Decimal, parse_int=Decimal)), sort_keys=True, ensure_ascii=False)
    except Exception:
        return "BAD " + text


def norm_impl(s):
    p = s.split(" ;; ")
    if len(p) == 3:
        return p[0] + " ;; " + canon(p[1]) + " ;; " + p[2]
    if len(p) == 2:          # Python: ok ;; <json>
        return p[0] + " ;; " + canon(p[1])
    return s


def norm_model(s):
    p = s.split("\t")
    if len(p) == 3:
        return p[0] + " ;; " + canon(p[1]) + " ;; " + p[2]
    if s.startswith("ok {") or s.startswith("ok ["):   # pybuild: ok <json>
        return "ok ;; " + canon(s[3:])
    return s


class Run:
    __slots__ = ("case", "req", "impl", "verdict", "model", "builder", "calls", "lang")


class Case:
    __slots__ = ("id", "fmt", "veneers", "defs")


def pkg_free(r, text):
    """builders of anonymous structs carry the package name (the lab's case ID) as a prefix: spelled %Pkg% in pinned lines"""
    pk = r.case.id[:1].upper() + r.case.id[1:]
    return re.sub(r"(?<![A-Za-z0-9])" + re.escape(pk) + r"(?=[A-Z])", "%Pkg%", text)


def pinned_line(r):
    return "\t".join([r.case.fmt, r.case.defs, r.case.veneers, pkg_free(r, r.builder), pkg_free(r, r.calls)])


def case_text(r):
    return "lang=%s fmt=%s builder=%s oracle=%s impl=%s model=%s calls=%s veneers=%s defs=%s" % (
        r.lang, r.case.fmt, r.builder, r.verdict, r.impl[:300], (r.model or "")[:300], r.calls, r.case.veneers, r.case.defs)


def run_stream(hb, stream, **kw):
    rows = harness(hb, stream, **kw)
    cases, runs, skips, stats, defs_bad = {}, [], [], [], []
    reqs = [r[0] for r in rows if r[0] != "-"]
    rep = drv(reqs) if reqs else []
    it = iter(rep)
    for r in rows:
        if r[0] == "-":
            if r[1].startswith("case "):
                c = Case()
                p = r[1].split(" ")
                c.id, c.fmt = p[1], p[2].split("=", 1)[1]
                c.veneers, c.defs = r[2], r[3]
                cases[c.id] = c
            elif r[1].startswith("notbuilt "):
                # the generated package of this case does not build: one failing run per diagnostic
                x = Run()
                q = r[1].split(" ")
                x.case, x.lang, x.builder, x.calls = cases[q[1]], q[2], "-", "(build (ctor))"
                x.req, x.impl, x.model, x.verdict = r[1] + " " + r[2], "notbuilt", "notbuilt", r[2]
                runs.append(x)
            elif r[1].startswith("skip"):
                skips.append(r[1])
            elif r[1].startswith("stats"):
                stats.append(r[1])
            continue
        m = next(it)
        if r[0].startswith("defschemas ") or r[0].startswith("gobuild def ") or r[0].startswith("pybuild def "):
            if m != "ok":
                defs_bad.append(r[0][:80] + " -> " + m)
            continue
        x = Run()
        p = r[0].split(" ", 5)
        x.lang = "go" if p[0] == "gobuild" else "python"
        x.case = cases[p[3]]     # the package column is the lab case id (schema ids carry a language suffix)
        x.builder, x.calls = p[4], p[5]
        x.req, x.impl, x.verdict, x.model = r[0], norm_impl(r[1]), r[2] if len(r) > 2 else "", norm_model(m)
        runs.append(x)
    return runs, skips, stats, defs_bad


def outside_model(m):
    return m.startswith("unsup") or m.startswith("fuel")


def is_known(c, text):
    """does a known finding explain this case text? (no counting)"""
    return any(re.search(f["match"], text, re.S) for f in c.known)


def diag_family(verdict):
    """compiler diagnostic of a not-built case with the identifiers and types taken out"""
    m = re.search(r"file=(\S+) diag=(\S+)", verdict)
    if not m:
        return "-"
    d = re.sub(r"cannot_use_\S+?_\(", "cannot_use_X_(", m.group(2))
    d = re.sub(r"_of_type_\S+?\)_as_\S+?_value", "_of_type_T)_as_U_value", d)
    d = re.sub(r"\[\w+\]", "[T]", d)
    d = re.sub(r"method_\S+_already_declared_at_\S+", "method_M_already_declared", d)
    d = re.sub(r"undefined:_\w+Depth\d+", "undefined:_xDepthN", d)
    d = re.sub(r"mismatched_types_\S+_and_", "mismatched_types_T_and_", d)
    d = re.sub(r"_in_argument_to_\w+Converter", "_in_argument_to_XConverter", d)
    return m.group(1) + ":" + re.sub(r"[0-9]+", "N", d)[:120]


class Runner:
    def __init__(self, c, hb):
        self.c, self.hb = c, hb
        self.stats = collections.Counter()
        self.tags = collections.Counter()
        self.pending, self.disagree, self.notbuilt = [], [], []
        self.shrink_deadline = time.time() + 100

    def stream(self, name, stream="c09-lab", **kw):
        c, st = self.c, self.stats
        runs, skips, stats, defs_bad = run_stream(self.hb, stream, **kw)
        # generated packages that do not compile are a code-generation defect outside this property (C02): they
        # are counted per diagnostic, and must stay the exception (otherwise the stream observes nothing)
        nb = [r for r in runs if r.impl == "notbuilt" and r.builder == "-"]
        runs = [r for r in runs if not (r.impl == "notbuilt" and r.builder == "-")]
        built, unbuilt = {r.case.id for r in runs}, {r.case.id for r in nb}
        for r in nb:
            st["notbuilt:" + diag_family(r.verdict)] += 1
        st["cases_built"] += len(built)
        st["cases_not_built"] += len(unbuilt)
        enough = len(built) > 0 and len(unbuilt) <= 0.4 * (len(built) + len(unbuilt))
        c.oblige("stream %s: the generated packages build (at most 40%% of the cases stop at a compiler diagnostic)" % name, enough,
                 {"built": len(built), "not_built": len(unbuilt), "diagnostics": [r.verdict[:200] for r in nb[:3]], "skips": skips[:3]})
        if not enough and nb:
            self.notbuilt.append((name, nb))
        c.oblige("stream %s: every IR / builder set is accepted by the Lean readers" % name, not defs_bad, defs_bad[:5])
        for s in skips:
            st["skip:" + s.split(" ")[2]] += 1
        nontrivial = []
        for r in runs:
            st["runs"] += 1
            st["runs:" + r.lang] += 1
            for t in re.findall(r"\((?:b|fail|l|d) ", r.calls):
                self.tags["arg" + t.strip()] += 1
            out = outside_model(r.model)
            st["outside_model"] += out
            dis = (not out) and r.model != r.impl
            st["compared"] += (not out)
            failed = r.verdict.startswith("FAIL")
            if r.verdict.startswith("ok oracle-gave-up"):
                st["oracle_gave_up"] += 1
            if failed or dis:
                text = case_text(r)
                kf = c.match_known(text)
                if failed:
                    st["oracle_failures"] += 1
                if kf:
                    st["known:" + kf["id"]] += 1
                elif failed:
                    self.pending.append((name, r, text))
                else:
                    self.disagree.append((name, r, text))
            if dis:
                st["disagreements"] += 1
            if r.calls.count("(call ") >= 1:
                nontrivial.append(r.case.id + "|" + r.req)
        for s in stats:
            m = re.search(r"hist=map\[([^\]]*)\]", s)
            if m:
                for kv in m.group(1).split(" "):
                    if ":" in kv:
                        k, v = kv.rsplit(":", 1)
                        self.tags[k] += int(v)
        c.count(name, len(runs), nontrivial,
                samples=[{"stream": name, "case": r.case.id, "builder": r.builder, "calls": r.calls[:300], "impl": r.impl[:300],
                          "model": r.model[:300], "oracle": r.verdict[:200]} for r in runs[:: max(1, len(runs) // 3)][:3]])
        c.cov["disagreements_checked"] += len(runs)
        return runs

    def rerun(self, lines, lang="go"):
        tmp = os.path.join(WORK, "c09_pin_%d.tsv" % os.getpid())
        open(tmp, "w").write("\n".join(lines) + "\n")
        try:
            runs, skips, _, _ = run_stream(self.hb, "c09-py-lab" if lang == "python" else "c09-lab", pinned=tmp, degrade=0)
        finally:
            os.remove(tmp)
        return [r for r in runs if "(call " in r.calls or True], skips

    def shrink(self, r):
        want = " ".join(r.verdict.split(" ")[:2])
        fam = diag_family(r.verdict) if r.impl == "notbuilt" and r.builder == "-" else None     # a not-built case keeps its diagnostic while shrinking
        best = (pinned_line(r), case_text(r))
        if time.time() > self.shrink_deadline:
            return best
        tmp = os.path.join(WORK, "c09_shrink_%d.tsv" % os.getpid())
        try:
            for _ in range(5):
                if time.time() > self.shrink_deadline:
                    break
                open(tmp, "w").write(best[0] + "\n")
                cands = ["\t".join(x) for x in harness(self.hb, "c09-cands", **{"in": tmp}) if len(x) == 5]
                cands = [x for x in dict.fromkeys(cands) if x != best[0] and len(x) < len(best[0])]
                if not cands:
                    break
                runs, _ = self.rerun(cands[:30], r.lang)
                hit = None
                for x in runs:
                    if fam is not None and diag_family(x.verdict) != fam:
                        continue
                    if x.verdict.startswith(want) and (x.calls != "(build (ctor))" or fam is not None) and not is_known(self.c, case_text(x)):
                        line = pinned_line(x)
                        if hit is None or len(line) < len(hit[0]):
                            hit = (line, case_text(x))
                if hit is None or len(hit[0]) >= len(best[0]):
                    break
                best = hit
        except Exception as e:
            log("shrink failed:", e)
        finally:
            if os.path.exists(tmp):
                os.remove(tmp)
        return best

    def report(self):
        c = self.c
        seen, reported = set(), 0
        self.shrink_deadline = time.time() + 100
        for name, r, text in self.pending:
            cls = re.sub(r"(builder|path|field|at|want|got|new-violation|viol)=\S+", "", re.sub(r"[0-9]+", "N", r.verdict))[:140]
            if cls in seen:
                continue
            seen.add(cls)
            log("shrinking unexplained failure:", r.lang, r.verdict[:300])
            line, stext = self.shrink(r)
            if c.match_known(stext):
                continue
            if reported < 3:
                f = line.split("\t")
                c.violation({"kind": "oracle-failure", "stream": name, "oracle": r.verdict, "format": f[0], "defs": f[1], "veneers": f[2],
                             "builder": f[3], "calls": f[4], "impl": r.impl[:600], "model": r.model[:600], "case_text": stext,
                             "pinned_line": line, "lang": r.lang, "how": "./check C09 --replay <this file>"})
                reported += 1
        for name, nb in self.notbuilt:
            # a stream whose packages mostly do not compile: the most frequent diagnostic, on its smallest case
            fam = collections.Counter(diag_family(x.verdict) for x in nb).most_common(1)[0][0]
            r = min((x for x in nb if diag_family(x.verdict) == fam), key=lambda x: len(pinned_line(x)))
            self.shrink_deadline = max(self.shrink_deadline, time.time() + 40)
            line, stext = self.shrink(r)
            f = line.split("\t")
            c.violation({"kind": "generated-code-does-not-build", "stream": name, "oracle": r.verdict, "format": f[0], "defs": f[1], "veneers": f[2],
                         "builder": f[3], "calls": f[4], "n_cases_not_built": len({x.case.id for x in nb}), "case_text": stext,
                         "pinned_line": line, "lang": r.lang, "how": "./check C09 --replay <this file>"})
            reported += 1
        if self.disagree and not reported:
            name, r, text = self.disagree[0]
            c.violation({"kind": "correspondence-broken", "stream": name,
                         "broken": "the Lean model of the generated builders no longer predicts the generated code (%s)" % r.lang,
                         "format": r.case.fmt, "defs": r.case.defs, "veneers": r.case.veneers, "builder": r.builder, "calls": r.calls,
                         "impl": r.impl[:800], "model": r.model[:800], "oracle": r.verdict, "pinned_line": pinned_line(r), "lang": r.lang,
                         "n_disagreements": len(self.disagree)}, found_input=False)


PROPOSED = os.path.join(VERIF, "checks", "c09.negbounds.proposed_findings.json")


def load_proposed(c):
    """entries of checks/c09.negbounds.proposed_findings.json (findings the source-side judgement of option arguments
    surfaced) count as known until known_findings.json holds an entry of the same id"""
    if not os.path.exists(PROPOSED):
        return
    have = {f["id"] for f in c.known}
    for f in json.load(open(PROPOSED)).get("findings", []):
        if f["id"] not in have and f.get("property") == PID:
            c.known.append(f)


def main():
    c = Check(PID)
    load_proposed(c)
    c.trusted = [
        "Lean 4.33 kernel; axioms per theorem are listed in obligation_list (subset of propext, Classical.choice, Quot.sound)",
        "hand-written models lean/Cog/Sem/GoBuilder.lean (builder.tmpl, options.tmpl, assignment.tmpl, nilcheck.tmpl, emptyValueForGuard, "
        "makePathFormatter, maybeAsPointer) and PyBuilder.lean, tied to the generated code by the c09 lab streams: builder.internal, the keys of "
        "builder.errors and the outcome of Build() must be predicted for every run",
        "the builder IR (after veneers and nil checks) is an INPUT of the model, read from the real pipeline (VIR); New<Object>() values are inputs "
        "too (C10's subject), read back from the generated constructors; Validate() is C08's model (lean/Cog/Sem/GoValidate.lean)",
        "the reflective lab extension (harness/c09_rt.go) reads builder.internal / builder.errors through reflect+unsafe; encoding/json; Go toolchain",
        "the oracle's reference interpreter (harness/c09_stream.go) works on JSON documents up to omitempty; the judgement valid / violating "
        "of a plain argument is made on the source term (harness/c09_srcjudge.go: integer / number bounds, string length limits, through "
        "references, nullable, arrays, dicts, struct documents); a CUE range admitting a single value is a constant (not judged); unions, "
        "built objects and builders of anonymous structs fall back to the constraints of the builder IR's types (counted: tags judge.ir)",
        "cases whose generated package does not compile (code-generation defects, property C02) show nothing about this property: they are counted per "
        "compiler diagnostic (distribution.stats notbuilt:*), and every stream must build at least 60% of its cases, otherwise the smallest such case is reported",
    ]
    hb, err = build_go("verifharness", "harness", files=FILES, tag=TAG)
    for _ in range(2):
        # another check trimming the shared Go build cache while we link is not a fact about cog
        if hb is None and "go-build" in err:
            time.sleep(3)
            hb, err = build_go("verifharness", "harness", files=FILES, tag=TAG)
    c.oblige("harness + lab build against the working tree of %s" % core.REPO, hb is not None, err)
    thms = theorem_names()
    c.oblige("Props/C09.lean states theorems", len(thms) >= 5, thms)
    c.lean_obligations(thms)
    rule = ("every option of every derived builder (three input formats, optional veneers: append / index / nested paths / envelopes / constants / "
            "constructor arguments) called with valid values, constraint-violating values, failing nested builders, and in sequences; "
            "non-trivial = at least one option call; distinct by (case, run)")
    cmd = "cd /verif/lean && lake build Cog.Props.C09 drv && lake env lean <#print axioms of the C09_* theorems>"
    if hb is None:
        c.finish(cmd, rule)
    r = Runner(c, hb)
    if c.replay:
        rp = json.load(open(c.replay))
        runs, skips = r.rerun([rp["pinned_line"]], rp.get("lang", "go"))
        bad = False
        for x in runs:
            print("replay:", x.lang, x.builder, x.calls)
            print("  real :", x.impl[:1000])
            print("  model:", x.model[:1000])
            print("  oracle:", x.verdict)
            bad = bad or x.verdict.startswith("FAIL") or (not outside_model(x.model) and x.model != x.impl)
        for s in skips:
            print("replay: case not usable:", s[:400])
        if not runs and not skips and rp.get("builder") == "-":
            print("replay: the generated package of this case builds (the recorded failure was a compiler diagnostic)")
            sys.exit(0)
        sys.exit(1 if bad or not runs else 0)

    quick = c.tier == "quick"
    if os.path.exists(CORPUS):
        r.stream("c09-pinned", pinned=CORPUS, degrade=0)
    seeds = [c.seed] if quick else [c.seed, c.seed + 100, c.seed + 200]
    for s in seeds:
        r.stream("c09-lab", n=14 if quick else 60, seed=s, veneers=65, peropt=3, seqs=4 if quick else 8, tier=c.tier)
    r.stream("c09-lab-alias", n=8 if quick else 30, seed=c.seed + 7, veneers=40, switches="+def.scalar,+def.collection",
             formats="jsonschema,openapi", tier=c.tier)
    # chains of struct members flattened into options several levels deep (sibling assignment paths of length >= 4)
    r.stream("c09-lab-deep", n=6 if quick else 24, seed=c.seed + 13, deep=1, tier=c.tier)
    # two cog packages: members referencing constants of a library package and of their own package
    r.stream("c09-lab-lib", n=6 if quick else 20, seed=c.seed + 17, lib=1, tier=c.tier)
    # Python builders: same runs, `pybuild` on the Lean side
    if os.path.exists(CORPUS_PY):
        r.stream("c09-py-pinned", stream="c09-py-lab", pinned=CORPUS_PY, degrade=0)
    r.stream("c09-py-lab", stream="c09-py-lab", n=10 if quick else 50, seed=c.seed + 3, veneers=65, tier=c.tier)
    r.stream("c09-py-lab-alias", stream="c09-py-lab", n=5 if quick else 20, seed=c.seed + 9, veneers=40,
             switches="+def.scalar,+def.collection", formats="jsonschema,openapi", tier=c.tier)
    r.stream("c09-py-lab-deep", stream="c09-py-lab", n=6 if quick else 24, seed=c.seed + 13, deep=1, tier=c.tier)
    r.report()

    st = r.stats
    c.oblige("the model covers the streams (>= 90% of runs inside the model)", st["compared"] >= 0.9 * max(1, st["runs"]), dict(st))
    c.oblige("both languages are exercised", st["runs:go"] > 0 and st["runs:python"] > 0, dict(st))
    c.oblige("the oracle's reference interpreter covers the streams (gave up on < 10% of runs)",
             st["oracle_gave_up"] <= 0.1 * max(1, st["runs"]), dict(st))
    need = ["method.append", "method.index", "nilcheck", "path.nested", "value.envelope", "value.constant", "arg.builder",
            "arg.builders.array", "mode.invalid", "mode.fail-be", "mode.fail-natural", "mode.sequence", "mode.boundary"]
    # valid / violating is read off the SOURCE term: every plain argument written to a member the source term names
    # (the builder IR's types are the fallback for built objects, unions and builders of anonymous structs only)
    c.oblige("the accept / reject verdict of plain option arguments comes from the source term (judge.source > 0, and more often than "
             "from the builder IR's types among the single-call runs with a bounded target: mode.boundary > 0)",
             r.tags["judge.source"] > 0 and r.tags["mode.boundary"] > 0,
             {k: r.tags[k] for k in ("judge.source", "judge.ir", "judge.source-differs-from-ir", "mode.boundary")})
    c.oblige("constructs exercised: " + ", ".join(need), all(r.tags[k] > 0 for k in need), {k: r.tags[k] for k in need})
    c.cov["distribution"] = {"tags": dict(r.tags), "stats": dict(st)}
    c.cov["oracle_failures"] = st["oracle_failures"]
    c.finish(cmd, rule, "Known findings are matched on the text of the shrunk failing run (oracle verdict, option shape tags, calls, veneers, source term).")


main()
