"""C14 — Go converters invert builders: converted code rebuilds the original object.

Obligations: the Lean theorems of lean/Cog/Props/C14.lean about the model of the generated
converters (lean/Cog/Sem/Converter.lean: ConverterGenerator.FromBuilder + converter.tmpl) and the
builder semantics of C09 (`replay`).  Tie: two-stage lab.  Stage 1 runs the REAL generated
converters on decoded values; the Go expression text they return is parsed with go/parser into the
abstract call list, which the Lean driver (`goconvert`) must predict.  Stage 2 compiles every
expression into the lab and executes it; the rebuilt builder.internal must be what the Lean
`replay` predicts.  Oracle: the property itself — the text is a Go expression that compiles, the
rebuilt object equals the value (up to omitempty), no non-repeating option is emitted twice.
"""
import atexit, hashlib
import collections, json, os, re, sys, time
import verifkit.core as core
from verifkit.core import *

PID = "C14"

# a private copy of the tree (VERIF_REPO) gets its own harness binary: two runs against different trees at the
# same time must not overwrite each other's binary (removed again when the run ends)
TAG = "c14" if core.REPO == "/repo" else "c14-" + hashlib.sha1(core.REPO.encode()).hexdigest()[:8]
if TAG != "c14":
    atexit.register(lambda: [os.path.exists(f) and os.remove(f) for f in
                             (os.path.join(core.BIN, "verifharness-" + TAG), os.path.join(core.WORK, "overlay-verifharness-%s.json" % TAG))])

FILES = HARNESS_BASE + ["lab_*.go", "src_*.go", "vir_builders.go", "c09_*.go", "c14_*.go"]
CORPUS = os.path.join(VERIF, "corpus", "C14.tsv")


def theorem_names():
    src = open(os.path.join(LEAN, "Cog", "Props", "C14.lean"), encoding="utf-8").read()
    ns = re.search(r"^namespace\s+(\S+)", src, re.M).group(1)
    return [ns + "." + m for m in re.findall(r"^theorem\s+(C14_\w+)", src, re.M)]


def canon(text):
    try:
        return json.dumps(json.loads(text), sort_keys=True, ensure_ascii=False)
    except Exception:
        return "BAD " + text


def norm_impl(s):
    p = s.split(" ;; ")
    if len(p) == 4:
        return p[0] + " ;; " + p[1] + " ;; " + canon(p[2]) + " ;; " + p[3]
    return s


def norm_model(s, impl):
    p = s.split("\t")
    if len(p) == 4:
        if impl.endswith(" ;; no-replay"):
            return p[0] + " ;; no-replay"
        return p[0] + " ;; " + p[1] + " ;; " + canon(p[2]) + " ;; " + p[3]
    if len(p) == 2 and impl.endswith(" ;; no-replay"):
        return p[0] + " ;; no-replay"
    return s


class Run:
    __slots__ = ("case", "req", "impl", "verdict", "model", "builder", "doc")


class Case:
    __slots__ = ("id", "fmt", "veneers", "defs")


def pkg_free(r, text):
    """builders of anonymous structs carry the package name (the lab's case ID) as a prefix: spelled %Pkg% in pinned lines"""
    pk = r.case.id[:1].upper() + r.case.id[1:]
    return re.sub(r"(?<![A-Za-z0-9])" + re.escape(pk) + r"(?=[A-Z])", "%Pkg%", text)


def pinned_line(r):
    return "\t".join([r.case.fmt, r.case.defs, r.case.veneers, pkg_free(r, r.builder), r.doc])


def case_text(r):
    errs = r.impl.rsplit(";; errors=", 1)[1] if ";; errors=" in r.impl else ""
    return "fmt=%s builder=%s oracle=%s replay-errors=%s impl=%s model=%s doc=%s veneers=%s defs=%s" % (
        r.case.fmt, r.builder, r.verdict, errs, r.impl[:400], (r.model or "")[:400], r.doc, r.case.veneers, r.case.defs)


def sexp_to_json(hb_rows_doc):
    return hb_rows_doc


def run_stream(hb, **kw):
    rows = harness(hb, "c14-lab", **kw)
    cases, runs, skips, stats, defs_bad = {}, [], [], [], []
    reqs = [r[0] for r in rows if r[0] != "-"]
    rep = drv(reqs) if reqs else []
    it = iter(rep)
    for r in rows:
        if r[0] == "-":
            if r[1].startswith("case "):
                c = Case()
                p = r[1].split(" ")
                c.id, c.fmt = p[1], p[2].split("=", 1)[1]
                c.veneers, c.defs = r[2], r[3]
                cases[c.id] = c
            elif r[1].startswith("notbuilt "):
                # the generated package of this case does not compile: one failing run per compiler diagnostic
                x = Run()
                x.case, x.builder, x.doc = cases[r[1].split(" ")[1]], "-", "{}"
                x.req, x.impl, x.model, x.verdict = r[1] + " " + r[2], "notbuilt", "notbuilt", r[2]
                runs.append(x)
            elif r[1].startswith("skip"):
                skips.append(r[1])
            elif r[1].startswith("stats"):
                stats.append(r[1])
            continue
        m = next(it)
        if r[0].startswith("defschemas ") or r[0].startswith("gobuild def "):
            if m != "ok":
                defs_bad.append(r[0][:80] + " -> " + m)
            continue
        x = Run()
        p = r[0].split(" ", 5)
        x.case = cases[p[1]]
        x.builder = p[4]
        x.doc = r[3] if len(r) > 3 else ""
        x.req, x.impl, x.verdict = r[0], norm_impl(r[1]), r[2] if len(r) > 2 else ""
        x.model = norm_model(m, x.impl)
        runs.append(x)
    return runs, skips, stats, defs_bad


def outside_model(m):
    return m.startswith("unsup") or m.startswith("fuel") or m.startswith("decerr")


def is_known(c, text):
    """does a known finding explain this case text? (no counting)"""
    return any(re.search(f["match"], text, re.S) for f in c.known)


def diag_family(verdict):
    """compiler diagnostic of a not-built case with the identifiers and types taken out"""
    m = re.search(r"file=(\S+) diag=(\S+)", verdict)
    if not m:
        return "-"
    d = re.sub(r"cannot_use_\S+?_\(", "cannot_use_X_(", m.group(2))
    d = re.sub(r"_of_type_\S+?\)_as_\S+?_value", "_of_type_T)_as_U_value", d)
    d = re.sub(r"\[\w+\]", "[T]", d)
    d = re.sub(r"method_\S+_already_declared_at_\S+", "method_M_already_declared", d)
    d = re.sub(r"undefined:_\w+Depth\d+", "undefined:_xDepthN", d)
    d = re.sub(r"mismatched_types_\S+_and_", "mismatched_types_T_and_", d)
    d = re.sub(r"_in_argument_to_\w+Converter", "_in_argument_to_XConverter", d)
    return m.group(1) + ":" + re.sub(r"[0-9]+", "N", d)[:120]


class Runner:
    def __init__(self, c, hb):
        self.c, self.hb = c, hb
        self.stats = collections.Counter()
        self.classes = collections.Counter()
        self.pending, self.disagree, self.notbuilt = [], [], []
        self.shrink_deadline = time.time() + 100

    def stream(self, name, **kw):
        c, st = self.c, self.stats
        runs, skips, stats, defs_bad = run_stream(self.hb, **kw)
        # generated packages that do not compile are a code-generation defect outside this property (C02): they
        # are counted per diagnostic, and must stay the exception (otherwise the stream observes nothing)
        nb = [r for r in runs if r.impl == "notbuilt" and r.builder == "-"]
        runs = [r for r in runs if not (r.impl == "notbuilt" and r.builder == "-")]
        built, unbuilt = {r.case.id for r in runs}, {r.case.id for r in nb}
        for r in nb:
            st["notbuilt:" + diag_family(r.verdict)] += 1
        st["cases_built"] += len(built)
        st["cases_not_built"] += len(unbuilt)
        enough = len(built) > 0 and len(unbuilt) <= 0.4 * (len(built) + len(unbuilt))
        c.oblige("stream %s: the generated packages build (at most 40%% of the cases stop at a compiler diagnostic)" % name, enough,
                 {"built": len(built), "not_built": len(unbuilt), "diagnostics": [r.verdict[:200] for r in nb[:3]], "skips": skips[:3]})
        if not enough and nb:
            self.notbuilt.append((name, nb))
        c.oblige("stream %s: every IR / builder set is accepted by the Lean readers" % name, not defs_bad, defs_bad[:5])
        for s in skips:
            st["skip:" + s.split(" ")[2]] += 1
        nontrivial = []
        for r in runs:
            st["runs"] += 1
            out = outside_model(r.model)
            st["outside_model"] += out
            dis = (not out) and r.model != r.impl
            st["compared"] += (not out)
            st["replayed"] += (not r.impl.endswith("no-replay") and " ;; " in r.impl)
            st["calls"] += r.impl.count("(call ")
            st["nested_builders"] += r.impl.count("(b ")
            failed = r.verdict.startswith("FAIL")
            if failed or dis:
                text = case_text(r)
                kf = c.match_known(text)
                if failed:
                    st["oracle_failures"] += 1
                    self.classes[" ".join(r.verdict.split(" ")[:2])] += 1
                if kf:
                    st["known:" + kf["id"]] += 1
                elif failed:
                    self.pending.append((name, r, text))
                else:
                    self.disagree.append((name, r, text))
            if dis:
                st["disagreements"] += 1
            if r.impl.count("(call ") >= 2:
                nontrivial.append(r.case.id + "|" + r.req)
        c.count(name, len(runs), nontrivial,
                samples=[{"stream": name, "case": r.case.id, "builder": r.builder, "doc": r.doc[:300], "impl": r.impl[:400],
                          "model": r.model[:400], "oracle": r.verdict[:200]} for r in runs[:: max(1, len(runs) // 3)][:3]])
        c.cov["disagreements_checked"] += len(runs)
        return runs

    def rerun(self, lines):
        tmp = os.path.join(WORK, "c14_pin_%d.tsv" % os.getpid())
        open(tmp, "w").write("\n".join(lines) + "\n")
        try:
            runs, skips, _, _ = run_stream(self.hb, pinned=tmp, degrade=0)
        finally:
            os.remove(tmp)
        return runs, skips

    def shrink(self, r):
        want = " ".join(r.verdict.split(" ")[:2])
        fam = diag_family(r.verdict) if r.impl == "notbuilt" and r.builder == "-" else None     # a not-built case keeps its diagnostic while shrinking
        best = (pinned_line(r), case_text(r))
        if time.time() > self.shrink_deadline:
            return best
        tmp = os.path.join(WORK, "c14_shrink_%d.tsv" % os.getpid())
        try:
            for _ in range(5):
                if time.time() > self.shrink_deadline:
                    break
                open(tmp, "w").write(best[0] + "\n")
                cands = ["\t".join(x) for x in harness(self.hb, "c09-cands", doc=1, **{"in": tmp}) if len(x) == 5]
                cands = [x for x in dict.fromkeys(cands) if x != best[0] and len(x) < len(best[0])]
                if not cands:
                    break
                runs, _ = self.rerun(cands[:30])
                hit = None
                for x in runs:
                    if x.verdict.startswith(want) and not is_known(self.c, case_text(x)) and (fam is None or diag_family(x.verdict) == fam):
                        line = pinned_line(x)
                        if hit is None or len(line) < len(hit[0]):
                            hit = (line, case_text(x))
                if hit is None or len(hit[0]) >= len(best[0]):
                    break
                best = hit
        except Exception as e:
            log("shrink failed:", e)
        finally:
            if os.path.exists(tmp):
                os.remove(tmp)
        return best

    def report(self):
        c = self.c
        seen, reported = set(), 0
        self.shrink_deadline = time.time() + 100
        for name, r, text in self.pending:
            cls = re.sub(r"[0-9]+", "N", r.verdict)
            cls = re.sub(r"\b(builder|option)=\S+", "", cls)
            cls = re.sub(r"\b(at|diag|text)=.*", "", cls)[:200]
            if cls in seen:
                continue
            seen.add(cls)
            line, stext = self.shrink(r)
            if c.match_known(stext):
                continue
            if reported < 3:
                f = line.split("\t")
                c.violation({"kind": "oracle-failure", "stream": name, "oracle": r.verdict, "format": f[0], "defs": f[1], "veneers": f[2],
                             "builder": f[3], "doc": f[4], "impl": r.impl[:800], "model": r.model[:800], "case_text": stext,
                             "pinned_line": line, "how": "./check C14 --replay <this file>"})
                reported += 1
        for name, nb in self.notbuilt:
            # a stream whose packages mostly do not compile: the most frequent diagnostic, on its smallest case
            fam = collections.Counter(diag_family(x.verdict) for x in nb).most_common(1)[0][0]
            r = min((x for x in nb if diag_family(x.verdict) == fam), key=lambda x: len(pinned_line(x)))
            self.shrink_deadline = max(self.shrink_deadline, time.time() + 40)
            line, stext = self.shrink(r)
            f = line.split("\t")
            c.violation({"kind": "generated-code-does-not-build", "stream": name, "oracle": r.verdict, "format": f[0], "defs": f[1], "veneers": f[2],
                         "builder": f[3], "doc": f[4], "n_cases_not_built": len({x.case.id for x in nb}), "case_text": stext,
                         "pinned_line": line, "how": "./check C14 --replay <this file>"})
            reported += 1
        if self.disagree and not reported:
            name, r, text = self.disagree[0]
            c.violation({"kind": "correspondence-broken", "stream": name,
                         "broken": "the Lean model of the generated converter (or of the builder it replays into) no longer predicts the generated code",
                         "format": r.case.fmt, "defs": r.case.defs, "veneers": r.case.veneers, "builder": r.builder, "doc": r.doc,
                         "impl": r.impl[:1000], "model": r.model[:1000], "oracle": r.verdict, "pinned_line": pinned_line(r),
                         "n_disagreements": len(self.disagree)}, found_input=False)


def main():
    c = Check(PID)
    c.trusted = [
        "Lean 4.33 kernel; axioms per theorem are listed in obligation_list (subset of propext, Classical.choice, Quot.sound)",
        "hand-written model lean/Cog/Sem/Converter.lean of internal/languages/converter.go (FromBuilder: guards, generatedPaths, repeat-for, envelopes, "
        "disjunction option lists in sorted order) and of templates/converters/converter.tmpl, tied by the c14 streams: the abstract call list parsed "
        "from the real converter's text and the object rebuilt by the compiled text must both be predicted",
        "ONLY the text rendering (fmt %#v, cog.Dump) is correspondence-only: the harness parses the text with go/parser (harness/c14_parse.go) and compiles it",
        "cog.Dump is NOT part of the generated runtime: the lab supplies the copy from /repo/testdata/generated/cog/runtime.go",
        "C09's builder model (replay), C01's decoder model (decoding the document into the value), VIR, the Go toolchain; numbers are multiples of 0.25",
        "Go map iteration order: runs of calls of one index option are compared as sorted lists",
        "cases whose generated package does not compile (code-generation defects, property C02) show nothing about this property: they are counted per "
        "compiler diagnostic (distribution.stats notbuilt:*), and every stream must build at least 60% of its cases, otherwise the smallest such case is reported",
    ]
    hb, err = build_go("verifharness", "harness", files=FILES, tag=TAG)
    for _ in range(2):
        # another check trimming the shared Go build cache while we link is not a fact about cog
        if hb is None and "go-build" in err:
            time.sleep(3)
            hb, err = build_go("verifharness", "harness", files=FILES, tag=TAG)
    c.oblige("harness + lab build against the working tree of %s" % core.REPO, hb is not None, err)
    thms = theorem_names()
    c.oblige("Props/C14.lean states theorems", len(thms) >= 3, thms)
    c.lean_obligations(thms)
    rule = ("values of every built type (three input formats, optional veneers) through the real generated converter; text parsed into abstract calls "
            "and compiled + executed; non-trivial = at least two option calls; distinct by (case, builder, document)")
    cmd = "cd /verif/lean && lake build Cog.Props.C14 drv && lake env lean <#print axioms of the C14_* theorems>"
    if hb is None:
        c.finish(cmd, rule)
    r = Runner(c, hb)
    if c.replay:
        rp = json.load(open(c.replay))
        runs, skips = r.rerun([rp["pinned_line"]])
        bad = False
        for x in runs:
            print("replay:", x.builder, x.doc)
            print("  real :", x.impl[:1500])
            print("  model:", x.model[:1500])
            print("  oracle:", x.verdict)
            bad = bad or x.verdict.startswith("FAIL") or (not outside_model(x.model) and x.model != x.impl)
        for s in skips:
            print("replay: case not usable:", s[:400])
        if not runs and not skips and rp.get("builder") == "-":
            print("replay: the generated package of this case builds (the recorded failure was a compiler diagnostic)")
            sys.exit(0)
        sys.exit(1 if bad or not runs else 0)

    quick = c.tier == "quick"
    if os.path.exists(CORPUS):
        r.stream("c14-pinned", pinned=CORPUS, degrade=0)
    seeds = [c.seed] if quick else [c.seed, c.seed + 100, c.seed + 200]
    for s in seeds:
        r.stream("c14-lab", n=14 if quick else 60, seed=s, veneers=60, docs=5 if quick else 8, tier=c.tier)
    # chains of struct members flattened into the root builder (struct_fields_as_options chains, merge_into with
    # under_path of 1..3 segments): sibling assignment paths of length >= 4 derived from one prefix
    r.stream("c14-lab-deep", n=6 if quick else 24, seed=c.seed + 13, deep=1, docs=5 if quick else 8, tier=c.tier)
    # lists of unions rewritten into one appending option per branch; values interleave the branches
    r.stream("c14-lab-lists", n=5 if quick else 20, seed=c.seed + 19, lists=1, docs=5 if quick else 8, tier=c.tier)
    # a struct-level default that shadows the members' own defaults, flattened into arguments (CUE keeps it)
    r.stream("c14-lab-structdefault", n=5 if quick else 20, seed=c.seed + 23, structdefault=1, formats="cue", docs=8 if quick else 12, tier=c.tier)
    # one object built by several builders that pin a constant in their constructor (some take a constructor argument)
    r.stream("c14-lab-variants", n=5 if quick else 20, seed=c.seed + 29, variants=1, docs=6 if quick else 10, tier=c.tier)
    r.report()

    st = r.stats
    c.oblige("the model covers the stream (>= 90% of values inside the model)", st["compared"] >= 0.9 * max(1, st["runs"]), dict(st))
    c.oblige("stage 2 ran: most expressions were compiled and executed", st["replayed"] >= 0.7 * max(1, st["runs"]), dict(st))
    c.oblige("nested builders and several calls per value occur", st["nested_builders"] > 0 and st["calls"] > st["runs"], dict(st))
    c.cov["distribution"] = {"failure_classes": dict(r.classes), "stats": dict(st)}
    c.cov["oracle_failures"] = st["oracle_failures"]
    c.finish(cmd, rule, "Known findings are matched on the text of the shrunk failing case (oracle verdict with the member's type / default / value class, veneers, source term).")


main()
