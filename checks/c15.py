"""C15 — schema transformations do what they document and nothing else.

Lean: lean/Cog/Xform/*.lean (models), lean/Cog/Xform/Proofs/*.lean, lean/Cog/Props/C15.lean.
Tie : harness streams xform-* (real passes built through yaml.CompilerLoader / helpers.go) vs the
      Lean driver (`xform …`), byte-identical replies; Go oracle (harness/c15_oracle.go) on every case;
      Lean specification vs Go oracle specification; Lean counterexample witnesses replayed on the real code.
"""
import collections, json, os, re, shutil, sys
import verifkit.core as core
from verifkit.core import *

P = "Cog.Xform."
# transformation -> theorems (the evidence lists them per transformation)
THEOREMS = {
    "omit": ["C15_omit_correct", "C15_omit_frame", "C15_omit_absent"],
    "omit_fields": ["C15_omit_fields_correct", "C15_omit_fields_frame", "C15_omit_fields_absent"],
    "rename_object": ["C15_rename_object_correct_partial", "C15_rename_object_frame_partial", "C15_rename_object_absent",
                      "C15_rename_object_counterexample_case", "C15_rename_object_counterexample_offpath",
                      "C15_rename_object_counterexample_collision"],
    "replace_reference": ["C15_replace_reference_correct_partial", "C15_replace_reference_frame", "C15_replace_reference_absent",
                          "C15_replace_reference_counterexample_meta", "C15_replace_reference_counterexample_offpath"],
    "duplicate_object": ["C15_duplicate_object_correct_partial", "C15_duplicate_object_frame", "C15_duplicate_object_absent_source",
                         "C15_duplicate_object_absent_destination", "C15_duplicate_object_counterexample_case",
                         "C15_duplicate_object_counterexample_overwrite"],
    "add_object": ["C15_add_object_correct_partial", "C15_add_object_frame", "C15_add_object_absent", "C15_add_object_counterexample"],
    "add_fields": ["C15_add_fields_correct", "C15_add_fields_frame", "C15_add_fields_absent", "C15_add_fields_keeps_existing",
                   "C15_add_fields_adds"],
    "fields_set_required": ["C15_fields_set_required_correct", "C15_fields_set_required_frame", "C15_fields_set_required_absent"],
    "fields_set_not_required": ["C15_fields_set_not_required_correct", "C15_fields_set_not_required_frame",
                                "C15_fields_set_not_required_absent"],
    "retype_object": ["C15_retype_object_correct", "C15_retype_object_frame", "C15_retype_object_absent"],
    "retype_field": ["C15_retype_field_correct_partial", "C15_retype_field_frame", "C15_retype_field_absent",
                     "C15_retype_field_counterexample"],
    "prefix": ["C15_prefix_correct_partial", "C15_prefix_frame", "C15_prefix_absent", "C15_prefix_counterexample_enum",
               "C15_prefix_counterexample_entrypoint", "C15_prefix_counterexample_offpath"],
    "append_comment": ["C15_append_comment_correct", "C15_append_comment_frame", "C15_append_comment_absent"],
    "schema_set_identifier": ["C15_schema_set_identifier_correct", "C15_schema_set_identifier_frame",
                              "C15_schema_set_identifier_absent"],
    "schema_set_entry_point": ["C15_schema_set_entry_point_correct", "C15_schema_set_entry_point_frame",
                               "C15_schema_set_entry_point_absent"],
    "trim_enum_values": ["C15_trim_enum_values_correct_partial", "C15_trim_enum_values_frame", "C15_trim_enum_values_absent",
                         "C15_trim_enum_values_counterexample_offpath"],
    "constant_to_enum": ["C15_constant_to_enum_correct_partial", "C15_constant_to_enum_frame", "C15_constant_to_enum_absent",
                         "C15_constant_to_enum_counterexample", "C15_constant_to_enum_odd_constant"],
    "fields_set_default": ["C15_fields_set_default_correct", "C15_fields_set_default_frame", "C15_fields_set_default_absent",
                           "C15_fields_set_default_order_independent"],
    "hint_object": ["C15_hint_object_correct", "C15_hint_object_frame", "C15_hint_object_absent", "C15_hint_object_total",
                    "C15_hint_object_preFix_counterexample"],
    "sequences": ["C15_step", "C15_seq", "C15_seq_untouched", "C15_process"],
}
MODELLED_NO_THEOREM = ["unspec (modelled for C05, under correspondence; not one of C15's transformations: no C15 theorem, "
                       "sequences containing it are outside C15_seq)"]
ALL_THEOREMS = [P + t for ts in THEOREMS.values() for t in ts]

# quirks for which the Lean model cannot be expected to reproduce the real output
MODEL_EXCUSED = {"seq/as-value-shared"}


S1 = '(schemas (schema "p" (smeta "" "" "") "" (bad "" (meta false nil (hints))) (objects '
# inputs that used to crash cog and were repaired in /repo (`fixed` in known_findings.json): they must pass
MUST_PASS = [
    # 637545e: constant_to_enum on a `string` scalar whose constant is not a string (was: panic on Value.(string))
    'xform constant_to_enum ((objects "p.K")) ' + S1 + '("K" (obj "K" (c) (scalar "string" (i i 1) (cs) (meta false nil (hints))) "p" "K")))))',
    # d683cb9: hint_object on a type whose Hints map is nil (was: panic on the write into the nil map)
    'xform seq ((retype_object ((object "p.A") (as (scalar "string" nil (cs) (meta false nil (hints ("<nil-map>" nil))))))) '
    '(hint_object ((object "p.A") (hints ("kind" (s "x")))))) ' + S1 + '("A" (obj "A" (c) (scalar "bool" nil (cs) (meta false nil (hints))) "p" "A")))))',
]


DRV_MAIN = '''import Cog.Drv.XformDrv
open Cog.Drv
def handle (line : String) : String :=
  let line := line.trimAscii.toString
  match line.splitOn " " with
  | "xform" :: rest => xformLine (" ".intercalate rest)
  | _ => "bad-request"
partial def loop (h : IO.FS.Stream) (out : IO.FS.Stream) : IO Unit := do
  let line ← h.getLine
  if line.isEmpty then return ()
  out.putStrLn (handle line)
  loop h out
def main : IO Unit := do
  let out ← IO.getStdout
  loop (← IO.getStdin) out
  out.flush
'''
DRV_LAKEFILE = '''name = "c15drv"
version = "0.1.0"
defaultTargets = ["drv15"]

[[require]]
name = "cogmodel"
path = "%s"

[[lean_exe]]
name = "drv15"
root = "Main15"
'''


def private_driver(dest):
    """A driver that links only Cog.Drv.XformDrv (scratch lake package under .work that requires /verif/lean by
    path; same handler function as the shared drv)."""
    d = os.path.join(WORK, "c15", "drvpkg")
    os.makedirs(d, exist_ok=True)
    for name, text in (("Main15.lean", DRV_MAIN), ("lakefile.toml", DRV_LAKEFILE % LEAN)):
        path = os.path.join(d, name)
        if not os.path.exists(path) or open(path, encoding="utf-8").read() != text:
            with open(path, "w", encoding="utf-8") as fh:
                fh.write(text)
    with Lock("lake"):
        p = run(["lake", "build", "drv15"], cwd=d)
        exe = os.path.join(d, ".lake", "build", "bin", "drv15")
        if p.returncode != 0 or not os.path.exists(exe):
            return False, (p.stdout + p.stderr)[-3000:]
        shutil.copy2(exe, dest)
    return True, ""


def unmarked(request):
    return request.replace('(hints ("<nil-map>" nil))', "(hints)")


def quirks_of(verdict):
    m = re.match(r"FAIL \S+ explained-by=(\S+)", verdict)
    return m.group(1).split("+") if m else None


def main():
    c = Check("C15")
    c.trusted = [
        "Lean 4.33 kernel; axioms per theorem are listed in obligation_list (subset of propext, Classical.choice, Quot.sound)",
        "hand-written models lean/Cog/Xform/*.lean of the 19 transformations (+ unspec) and of the YAML glue (reference strings -> ObjectReference/FieldReference), tied to internal/ast/compiler/*.go and internal/yaml/compilerpasses.go by the xform-single / xform-seq streams (real passes loaded by yaml.CompilerLoader from a file under .work, helpers.go for prefix / append_comment; replies byte-identical incl. err / panic)",
        "VIR (harness/vir.go, lean/Cog/IR/Vir.lean; PassesTrail is not compared) + its decoder harness/c15_sexp.go (replay, shrinking); a nil Go Hints map is carried as the reserved hint \"<nil-map>\"",
        "object maps as association lists with WF = keys are names, pairwise distinct (C19 refinement; `wf=` is checked on every generated case)",
        "strings: EqualFold / TrimSpace / UpperCamelCase / …FromString modelled for ASCII and compared on random ASCII strings (xform-strings); non-ASCII case folding is not modelled",
        "the Go oracle harness/c15_oracle.go: an independent object-wise restatement of the documentation with one matching rule; it is compared with the Lean `spec` functions on every single-transformation case",
        "yaml.v3 (a YAML mapping inside `hints:` is decoded as ast.JenniesHints and is not generated), Go's sort.Slice",
        "sequences: the model is the fold of the single steps; aliasing of one `as:` value between several objects is not represented (finding seq/as-value-shared; rows explained by it are excused from model/implementation equality)",
    ]
    hb, err = build_go("verifharness", "harness", files=HARNESS_BASE + ["c15_*.go"], tag="c15")
    c.oblige("harness builds against the working tree (%s)" % REPO, hb is not None, err)
    # the theorems and the xform driver module; NOT the shared `drv` (lean/Main.lean imports every property's
    # driver module, so a half-written module of another property would stop this check)
    c.lean_obligations(ALL_THEOREMS, imports=("Cog.Props.C15", "Cog.Xform.SpecAll", "Cog.Xform.Witness"),
                       targets=("Cog.Props.C15", "Cog.Xform.SpecAll", "Cog.Xform.Witness", "Cog.Drv.XformDrv"))
    mydrv = os.path.join(BIN, "drv-c15-%d" % os.getpid())
    ok, detail = private_driver(mydrv)
    c.oblige("xform-only driver (Cog.Drv.XformDrv, same `xformLine` as lean/Main.lean dispatches to) links", ok, detail)
    if ok:
        core.DRV = mydrv
    else:
        hb = None
    if hb is None:
        c.finish("lake build && lake env lean <audit>", "n/a")
    import atexit
    atexit.register(lambda: os.path.exists(mydrv) and os.remove(mydrv))

    def eval_lines(lines, stream="xform-eval", **kw):
        tmp = os.path.join(WORK, "c15_eval_%d.txt" % os.getpid())
        with open(tmp, "w") as fh:
            fh.write("\n".join(lines) + "\n")
        try:
            return harness(hb, stream, **dict(kw, **{"in": tmp}))
        finally:
            os.remove(tmp)

    # ---- the Lean counterexample witnesses (= pinned inputs of the findings) ----
    wit, i = [], 0
    while True:
        line = drv(["xform witness %d" % i])[0]
        if line == "end" or i > 200:
            break
        th, quirk, req = line.split(" ", 2)
        wit.append((th, quirk, req))
        i += 1
    # findings come from /verif/known_findings.json only (loaded by Check); nothing is proposed or written here
    known_by_id = {f["id"]: f for f in c.known}

    def classify(row):
        """'' ok | 'known' | 'violation' for an oracle verdict; known => every quirk has a finding whose regex matches"""
        v = row[2]
        if not v.startswith("FAIL"):
            return ""
        qs = quirks_of(v)
        if not qs:
            return "violation"
        text = row[0].split(" (schemas", 1)[0] + "\t" + v  # the configured steps + the verdict
        for q in qs:
            f = known_by_id.get("C15/" + q)
            if not f or not re.search(f["match"], text, re.S):
                return "violation"
        for q in qs:
            c.known_hit["C15/" + q] = c.known_hit.get("C15/" + q, 0) + 1
        return "known"

    def shrink(row):
        r = eval_lines([row[0]], stream="xform-shrink", budget=1500)
        return r[0] if r else row

    if c.replay:
        rp = json.load(open(c.replay))
        if not rp.get("request"):
            print("replay file names no harness case (obligation-level violation):", rp.get("broken"))
            sys.exit(1)
        row = eval_lines([rp["request"]])[0]
        model = drv([row[0]])[0]
        cl = classify(row)
        excused = cl == "known" and set(quirks_of(row[2]) or []) & MODEL_EXCUSED
        print("replay\n request: %s\n impl   : %s\n model  : %s\n oracle : %s\n class  : %s" % (row[0][:3000], row[1][:3000], model[:3000], row[2][:1500], cl or "ok"))
        sys.exit(1 if cl == "violation" or (model != row[1] and not excused) else 0)

    dist = collections.Counter()
    reported = [0]

    def process(rows, stream, args):
        """correspondence + oracle classification for one batch of rows"""
        reqs = [r[0] for r in rows]
        replies = drv(reqs)
        fails_seen = {}
        ndis = 0
        for r, m in zip(rows, replies):
            name = r[0].split(" ")[1]
            status = r[1].split(" ")[0]
            dist["%s:%s" % (name, status)] += 1
            cl = classify(r)
            if cl:
                for q in (quirks_of(r[2]) or [" ".join(r[2].split(" ")[2:3])]):
                    dist["oracle:" + q] += 1
            excused = cl == "known" and set(quirks_of(r[2]) or []) & MODEL_EXCUSED
            if m != r[1] and not excused:
                ndis += 1
                if reported[0] < 5:
                    reported[0] += 1
                    # the model no longer describes the code: is there a concrete property failure in this very case?
                    c.violation({"kind": "correspondence-broken", "stream": stream, "args": args,
                                 "broken": "stream %s: Lean model reply differs from the implementation" % stream,
                                 "request": r[0], "impl": r[1], "model": m, "oracle": r[2]},
                                found_input=r[2].startswith("FAIL"))
            if cl == "violation":
                key = " ".join(r[2].split(" ")[1:3])
                if key not in fails_seen and len(fails_seen) < 6:
                    fails_seen[key] = 1
                    sr = shrink(r)
                    if classify(sr) != "violation":
                        sr = r
                    c.violation({"kind": "oracle-failure", "stream": stream, "args": args, "request": sr[0], "impl": sr[1],
                                 "oracle": sr[2], "unshrunk_request": r[0] if sr is not r else ""})
        c.count(stream, len(rows), [r[0] + "|" + r[1] for r in rows if r[1].startswith("ok ") and not unmarked(r[0]).endswith(r[1][3:])],
                samples=[{"stream": stream, "request": r[0][:600], "impl": r[1][:300], "oracle": r[2][:200]} for r in rows[:: max(1, len(rows) // 2)][:2]])
        c.cov["disagreements_checked"] += len(rows)
        st = c.cov["streams"][stream]
        st["disagreements"] = st.get("disagreements", 0) + ndis
        return replies

    # 1. witnesses: Lean term -> request text -> real code; the oracle must fail for exactly the quirk of the theorem
    if wit:
        rows = eval_lines([w[2] for w in wit])
        process(rows, "xform-witness", {})
        for (th, quirk, req), row in zip(wit, rows):
            qs = quirks_of(row[2]) or []
            c.oblige("witness of %s fails on the real code for the reason the theorem states (%s)" % (th, quirk), qs == [quirk],
                     row[2][:300] + " — if the code was fixed the model and the theorem must follow it")
    c.oblige("every counterexample theorem has a witness replayed on the real code",
             {w[0] for w in wit} == {t for ts in THEOREMS.values() for t in ts if "counterexample" in t and "preFix" not in t},
             sorted({t for ts in THEOREMS.values() for t in ts if "counterexample" in t and "preFix" not in t} - {w[0] for w in wit}))
    # pinned inputs of findings that have no Lean witness
    extra = [f["pinned_input"] for f in c.known if f.get("pinned_input", "").startswith("xform ") and f["pinned_input"] not in [w[2] for w in wit]]
    if extra:
        process(eval_lines(extra), "xform-pinned", {})

    # must-pass pinned cases (former crashes)
    rows = eval_lines(MUST_PASS)
    process(rows, "xform-must-pass", {})
    for r in rows:
        okrow = r[1].startswith("ok ") and r[2] == "ok"
        c.oblige("repaired input passes: " + r[0].split(" (schemas", 1)[0][:120], okrow, (r[1][:200], r[2][:300]))
        if not okrow:
            c.violation({"kind": "regression-of-a-fixed-defect", "stream": "xform-must-pass", "request": r[0], "impl": r[1], "oracle": r[2]})

    # 2. strings
    rows = harness(hb, "xform-strings", n=400 if c.tier == "quick" else 20000, seed=c.seed)
    replies = drv([r[0] for r in rows])
    bad = [(r, m) for r, m in zip(rows, replies) if r[1] != m]
    c.oblige("string helpers (EqualFold, TrimSpace, UpperCamelCase, ObjectReferenceFromString, FieldReferenceFromString) agree on %d random ASCII strings" % len(rows), not bad, bad[:3])
    c.count("xform-strings", len(rows), [])
    if bad:
        c.violation({"kind": "correspondence-broken", "stream": "xform-strings", "broken": "string helper model differs", "request": bad[0][0][0], "impl": bad[0][0][1], "model": bad[0][1]}, found_input=False)

    # 3. single transformations: correspondence, oracle, Lean spec = Go spec, hypotheses predict the real code
    n1, n2, n3 = (6000, 2500, 600) if c.tier == "quick" else (60000, 25000, 8000)
    args = dict(n=n1, seed=c.seed, tier=c.tier)
    rows = harness(hb, "xform-single", **args)
    process(rows, "xform-single", args)
    sample = rows if c.tier == "quick" else rows[::5]
    body = [r[0][len("xform "):] for r in sample]
    specs = drv(["xform spec " + b for b in body])
    preds = drv(["xform pred " + b for b in body])
    spec_bad, pred_bad = [], []
    for r, s, p in zip(sample, specs, preds):
        name = r[0].split(" ")[1]
        gs = r[3] if len(r) > 3 else "-"
        if gs.startswith("ok "):
            dist["spec-compared"] += 1
            if s != gs:
                spec_bad.append((r[0], gs, s))
        wf, hyp, nt = "wf=true" in p, "hyp=true" in p, "notarget=true" in p
        dist["wf" if wf else ("load-err" if p == "err" else "not-wf")] += 1
        if hyp and wf:
            dist["hyp-holds:" + name] += 1
            if r[1].startswith("ok ") and r[2] != "ok":
                pred_bad.append((r[0], r[2], p, "hypotheses of the (partial) correctness theorem hold but the oracle fails"))
        elif p != "err":
            dist["hyp-fails:" + name] += 1
        if nt and wf and name != "unspec":
            dist["no-target:" + name] += 1
            # the absent-target theorems: nothing targeted (objects and schema-level) => output = input
            if r[1].startswith("ok ") and not unmarked(r[0]).endswith(" " + r[1][3:]) and name not in ("add_object", "duplicate_object"):
                pred_bad.append((r[0], r[2], p, "no target but the result differs from the input"))
    c.oblige("Lean specification = Go oracle specification on %d cases" % dist["spec-compared"], not spec_bad, spec_bad[:2])
    c.oblige("hypotheses of the partial theorems / no-target predicate predict the real code on %d cases" % len(sample), not pred_bad, pred_bad[:3])
    for b in spec_bad[:2]:
        c.violation({"kind": "spec-mismatch", "broken": "Lean spec differs from the oracle's spec", "request": b[0], "oracle_spec": b[1], "lean_spec": b[2]}, found_input=False)
    for b in pred_bad[:2]:
        c.violation({"kind": "hypothesis-not-predictive", "why": b[3], "request": b[0], "oracle": b[1], "model_predicates": b[2]})
    c.oblige("every generated IR is well-formed in the sense of the theorems (WF)", dist["not-wf"] == 0, dist["not-wf"])

    # 4. sequences
    args = dict(n=n2, seed=c.seed, tier=c.tier, maxlen=4 if c.tier == "quick" else 8)
    rows = harness(hb, "xform-seq", **args)
    process(rows, "xform-seq", args)

    # 5. malformed IR (nil kind pointers, dangling references): only the model is compared (crashes are C04's subject)
    args = dict(n=n3, seed=c.seed, tier=c.tier, malformed=1)
    rows = harness(hb, "xform-single", **args)
    process(rows, "xform-single-malformed", args)

    c.cov["distribution"] = dict(dist)
    c.cov["theorems_by_transformation"] = THEOREMS
    c.cov["modelled_without_theorem"] = MODELLED_NO_THEOREM
    c.cov["witnesses_replayed"] = len(wit)
    c.finish("cd /verif/lean && lake build Cog.Props.C15 Cog.Xform.SpecAll Cog.Xform.Witness drv && lake env lean <#print axioms of the %d C15_* theorems>; harness xform-single / xform-seq / xform-eval / xform-strings vs drv `xform …`, `xform spec`, `xform pred`, `xform witness`" % len(ALL_THEOREMS),
             "random IR (shared generator: 1-2 packages (thorough 3), case-variant object and field names, cross-package references) + string constants and padded enum values; one transformation per case with generated parameters (targets present / absent / letter-case variant / other package / malformed reference string; `as:` types normalised to what YAML can denote), sequences of 2-4 (thorough 2-8) transformations each aimed at what the previous ones really produced; non-trivial = the real result differs from the input; distinct by (request, reply)")


main()
