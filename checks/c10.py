"""C10 — default constructors yield the schema's defaults and constants (Go and Python).

Obligations: the Lean theorems of lean/Cog/Props/C10.lean (models of the two constructor printers +
the target language's reading of the printed literal; all schemas / objects / fields).
Tie: source terms with defaults of every value type are rendered to JSON Schema, OpenAPI and CUE,
run through the real pipeline, the generated Go is compiled and the generated Python imported;
`json.Marshal(NewX())` and `json.dumps(X())` of every object are compared with the Lean models
`godefaults` / `pydefaults` evaluated on the post-chain IR of the same run (and "does the package
compile / the module import" with the models' typing of the printed literals).
Oracle: the property itself, computed in the harness from the SOURCE term: every member declared
with a default or as a constant must hold exactly that value in both constructors' JSON.
"""
import collections, json, os, re, sys
from decimal import Decimal
import verifkit.core as core
from verifkit.core import *

NS = "Cog.Sem.Defaults."
THEOREMS = [NS + t for t in [
    "C10_go_partial", "C10_py_partial", "C10_agree_partial",
    "C10_py_independent_partial", "C10_constant_disjunction_declares", "cdd_order_irrelevant",
    "go_field_holds", "py_field_holds",
    "C10_jsonNumber_default_breaks", "C10_witness_verdicts",
    "C10_counterexample_list_of_ints", "C10_counterexample_list_of_json_numbers",
    "C10_counterexample_empty_list", "C10_counterexample_openapi_min_int64",
    "C10_counterexample_union_default_dropped_in_go", "C10_counterexample_inline_enum_default_dropped_in_go",
    "C10_counterexample_nested_override", "C10_counterexample_struct_default_enum_member",
    "C10_counterexample_python_enum_ref_override_ignored", "C10_counterexample_samekind_union_zero_default",
    # defaults / constants through the FRONT-ENDS (c01-front builder; block at the end of Props/C10.lean)
    "FE.C10_jsonschema_default_go_end_to_end_partial", "FE.C10_jsonschema_default_py_end_to_end_partial",
    "FE.C10_jsonschema_default_end_to_end_partial", "FE.srcField_declares", "FE.C10_jsonschema_default_counterexample",
    "OA.C10_openapi_default_go_end_to_end_partial", "OA.C10_openapi_default_py_end_to_end_partial",
    "OA.C10_openapi_default_end_to_end_partial",
]] + ["Cog.Front.JsonSchema.keeps_property", "Cog.Front.OpenApi.keeps_property", "Cog.Front.JsonSchema.chain_struct",
      "Cog.Front.JsonSchema.pyChain_exact"]
FILES = HARNESS_BASE + ["lab_*.go", "src_*.go", "c10_*.go"]
STATS = collections.Counter()


def canon(text):
    def norm(x):
        if isinstance(x, dict):
            return {k: norm(v) for k, v in sorted(x.items())}
        if isinstance(x, list):
            return [norm(v) for v in x]
        if isinstance(x, Decimal):
            return "#" + format(x.normalize(), "f")
        return x
    return json.dumps(norm(json.loads(text, parse_float=Decimal, parse_int=Decimal)), sort_keys=True, ensure_ascii=False)


def reconcile(req, impl, model):
    if req.startswith("defschemas "):
        return impl, model
    if model.startswith("unsup") or model == "fuel":
        STATS["model_unsup"] += 1
        STATS["model:" + model[:60]] += 1
        return "unsup", "unsup"
    if impl in ("cerr-other", "importerr-other"):
        # the package fails for a reason that is not a default literal (outside the model): counted
        STATS["impl_" + impl] += 1
        return "skip", "skip"
    STATS["compared"] += 1
    if model.startswith("cerr"):
        model = "cerr"
    if model.startswith("synerr"):
        model = "synerr"
    if model.startswith("raise TypeError") and impl.startswith("err TypeError"):
        impl = model = "raise TypeError"
    try:
        if impl.startswith("ok ") and len(impl) > 3:
            impl = "ok " + canon(impl[3:])
        if model.startswith("ok ") and len(model) > 3:
            model = "ok " + canon(model[3:])
    except Exception:
        pass
    return impl, model


def classify(r):
    v = r[2]
    v = re.sub(r" pinned=\S+", "", v)
    v = re.sub(r" (path|expected|got|peer)=.*", "", v)
    return v[:200]


KNOWN_IDS = ""   # ids of the recorded C10 findings: constructs whose failure is a recorded defect are
#                   only generated once the finding is in known_findings.json (see c10Needs in the harness)


def stream_rows(hb, stream="c10-rows", **kw):
    if stream == "c10-rows":
        kw.setdefault("known", KNOWN_IDS)
    """the lab shares the Go build cache and the machine with other checks: retry a run that died of
    an environmental error (cache entry trimmed under the linker, …)"""
    last = None
    for attempt in range(3):
        try:
            return harness(hb, stream, **kw)
        except RuntimeError as e:
            last = e
            log("c10-rows failed (attempt %d): %s" % (attempt + 1, str(e)[-400:]))
    raise last


def run_rows(c, hb, stream, rows, **kw):
    """model vs implementation through Check.correspond (verdicts blanked: EVERY disagreement counts),
    then every oracle failure on its own: known finding or violation (no cap on the number of classes)"""
    blank = [[r[0], r[1], "ok"] + r[3:] if len(r) > 2 and r[2].startswith("FAIL") else r for r in rows]
    c.correspond(hb, stream, rows=blank, reconcile=reconcile,
                 nontrivial=lambda r: r[0].startswith(("godefaults", "pydefaults")) and r[1].count(":") >= 3, **kw)
    fails = [r for r in rows if len(r) > 2 and r[2].startswith("FAIL")]
    c.cov["oracle_failures"] += len(fails)
    st = c.cov["streams"][stream]
    st["oracle_failures"] = st.get("oracle_failures", 0) + len(fails)
    reported = set()
    for r in fails:
        case = r[0] + "\t" + r[2]
        if c.match_known(case):
            continue
        cls = classify(r)
        STATS["unexplained_failures"] += 1
        if cls in reported or len(reported) >= 6:
            continue
        reported.add(cls)
        c.violation({"kind": "oracle-failure", "stream": stream, "args": kw, "request": r[0], "impl": r[1], "oracle": r[2], "class": cls})


def fits_census(c, rows):
    """ask the models which hypothesis of the `_partial` theorems covers / excludes every member the
    oracle looked at (evidence: how much of the sampled reality lies inside the proved fragment, and
    why each failing member lies outside: not declared in the IR any more = dropped by a front-end or
    a pass; declared but excluded = dynamic type / shape the printers mishandle; declared and fitting
    = the front-end altered the VALUE before it reached the IR)."""
    defs, objs, fails = {}, [], collections.defaultdict(list)
    for r in rows:
        if r[0].startswith("defschemas "):
            defs[r[0].split(" ")[1]] = r[0]
        elif r[0].startswith(("godefaults ", "pydefaults ")) and not r[0].endswith(" *"):
            objs.append(r[0])
            if len(r) > 2 and r[2].startswith("FAIL"):
                m = re.search(r" path=(\S+)", r[2])
                if m:
                    fails[r[0]].append((m.group(1), r))
    objs = list(dict.fromkeys(objs))
    reqs = []
    for o in objs:
        sid = o.split(" ")[1]
        if sid in defs:
            reqs.append(defs.pop(sid))
        reqs.append(o + " fits")
    rep = dict(zip(reqs, core.drv(reqs))) if reqs else {}
    census = collections.Counter()
    for o in objs:
        lang = "go" if o.startswith("go") else "py"
        ans = rep.get(o + " fits", "")
        fields = {}
        for tok in ans.split(" ")[2:]:
            parts = tok.rsplit(":", 2)
            if len(parts) == 3:
                fields[parts[0]] = (parts[1], parts[2])
                census["%s.%s.%s" % (lang, parts[1], parts[2])] += 1
        for path, r in fails.get(o, []):
            top = path.split(".")[1] if "." in path else path
            st = fields.get(top)
            census["%s.failing.%s" % (lang, "/".join(st) if st else "not-a-field")] += 1
            # declared+fits yet failing the SOURCE oracle: the value was altered before it reached the IR
            # (front-end), the constructor holds what the IR declares (theorem + correspondence)
    return census



# ---- BEGIN front-end keeps tie (owner: c01-front builder; verifkit/front_keeps.py) ------------------
def front_keeps_tie(c):
    """instances of keeps_property and of C10_{jsonschema,openapi}_default_{go,py}_end_to_end_partial on the REAL front-end IR"""
    from verifkit import front_keeps
    stats, bad, err = front_keeps.run(c)
    c.oblige("front-end keeps streams run (c01-front, c01-front-oa)", err is None, err or "")
    if err is not None:
        return
    for b in [b for b in bad if b["verb"].endswith("keeps")][:3]:
        c.violation(dict(b, kind="front-end-keeps-instance-fails",
                         broken="keeps_property / C10_*_default_*_end_to_end_partial: a typed scalar property of the source is not the field `scalarOf …` of the REAL front-end IR, or a fitting default / constant is not held by the constructor model on the pass models' output of the real IR"))
    for stream, key in (("c01-front", "JSON Schema"), ("c01-front-oa", "OpenAPI")):
        st = stats.get(stream, {})
        g = lambda k: st.get("keeps." + k, 0)
        c.oblige("%s: every typed scalar property of every object definition is kept by the REAL front-end (type `scalarOf`, required): %d properties of %d objects, %d with a default, %d constants" % (key, g("props"), g("objs"), g("dflt"), g("const")),
                 g("kept") == g("props") and st.get("bad_replies", 0) == 0 and g("props") >= 200 and g("dflt") >= 20)
        c.oblige("%s: C10 default end-to-end instances on the real front-end IR hold (Go %d/%d, Python %d/%d)" % (key, g("goHold"), g("goInst"), g("pyHold"), g("pyInst")),
                 g("goHold") == g("goInst") and g("pyHold") == g("pyInst") and g("goInst") + g("pyInst") >= 8)
        c.cov["front_keeps_" + stream] = {k: v for k, v in st.items() if k.startswith("keeps.") or k == "bad_replies"}
# ---- END front-end keeps tie ------------------------------------------------------------------------


def main():
    global KNOWN_IDS
    c = Check("C10")
    KNOWN_IDS = ",".join(f["id"] for f in c.known)
    ov = os.environ.get("VERIF_C10_MATCH_OVERRIDE")   # self-test hook: try a proposed `match` before it is merged
    if ov:
        repl = json.load(open(ov))
        for f in c.known:
            if f["id"] in repl:
                f["match"] = repl[f["id"]]
    c.trusted = [
        "Lean 4.33 kernel; axioms per theorem in obligation_list",
        "PROVED (all schemas/objects/fields/fuel): a field of the post-chain IR whose default fits (goFits/pyFits: decidable conditions on field type x dynamic type of the default) holds its declared default/constant in the constructor's JSON, Go and Python, and the two agree; NOT modelled: the front-ends (how `default`/`*v` becomes Type.Default) — the IR comes from the real front-ends and chains in the lab; defaults they drop are found by the source-side oracle only",
        "hand-written models lean/Cog/Sem/{GoDefaults,PyDefaults}.lean of the two constructor printers, of Go's typing of the printed literal and of Python's evaluation of X(), tied by the c10-rows stream: real pipeline -> go build / python import -> NewX() / X() of every object vs the models on the same post-chain IR",
        "the pass-chain models (Cog/Passes, C06's correspondence) and the regenerated Cog.Gen.Chains are used by the counterexamples only",
        "encoding/json, the Go toolchain, CPython; numbers restricted to multiples of 0.25 on the model side (others counted as unsup)",
    ]
    hb, err = build_go("verifharness", "harness", files=FILES, tag="c10")
    c.oblige("harness builds against the working tree of " + core.REPO, hb is not None, err)
    try:
        from verifkit import gen_c06
        ok, detail = gen_c06.regen()
    except Exception as e:  # pragma: no cover
        ok, detail = False, repr(e)
    c.oblige("Cog.Gen.Chains regenerated from internal/jennies/*/jennies.go (used by the counterexamples)", ok, detail)
    c.lean_obligations(THEOREMS)
    if hb is None:
        c.finish("lake build", "n/a")
    # a private copy of the driver: other checks relink lean/.lake/build/bin/drv while this one runs
    try:
        import shutil
        with Lock("lake"):
            priv = os.path.join(core.BIN, "drv-c10")
            shutil.copy2(core.DRV, priv + ".tmp%d" % os.getpid())
            os.replace(priv + ".tmp%d" % os.getpid(), priv)
        core.DRV = priv
    except Exception as e:
        log("could not copy the driver:", e)

    if c.replay:
        # `--replay pinned:<id>` re-runs one pinned term; `--replay <file>` re-runs the stream of a
        # recorded violation and shows the rows of the case it names.  Exit 1 iff the failure reproduces.
        want = ""
        if c.replay.startswith("pinned:"):
            rows = harness(hb, "c10-rows", pinned=1, id=c.replay[7:], seed=c.seed, tier="replay", known="*")
        else:
            rp = json.load(open(c.replay))
            print(json.dumps({k: rp[k] for k in rp if k in ("kind", "request", "impl", "model", "oracle", "class", "args", "broken")}, indent=1)[:3000])
            args = dict(rp.get("args") or {})
            args["tier"] = "replay"
            args.setdefault("known", KNOWN_IDS)
            rows = harness(hb, "c10-passes" if rp.get("stream") == "c10-passes" else "c10-rows", **args)
            want = rp.get("request", "")
        case = want.split(" ")[1].split(".")[0] if len(want.split(" ")) > 1 else ""
        bad = 0
        for r in rows:
            if r[0].startswith("defschemas"):
                continue
            if want and rp.get("stream") == "c10-passes":
                if r[0] != want:
                    continue
            elif want:
                mine = (r[0] == "-" and (" %s " % case) in (r[1] + " ")) or (r[0] != "-" and r[0].split(" ")[1:2] == want.split(" ")[1:2])
                if not mine:
                    continue
            print("\t".join(x[:700] for x in r))
            bad += len(r) > 2 and r[2].startswith("FAIL")
        sys.exit(1 if bad else 0)

    quick = c.tier == "quick"
    all_rows = []
    census = collections.Counter()
    # 1. pinned terms: every confirmed deviation and every construct that must keep working
    rows = stream_rows(hb, pinned=1, seed=c.seed, tier=c.tier, timeout=3600)
    run_rows(c, hb, "c10-pinned", rows, pinned=1)
    census += fits_census(c, rows)
    all_rows += rows
    # 1b. the configured pass that declares defaults (`"auto" | string`), on generated disjunctions:
    #     the real pass vs its Lean model vs its contract (no lab needed)
    a = dict(n=400 if quick else 4000, seed=c.seed)
    rows = stream_rows(hb, stream="c10-passes", **a)
    run_rows(c, hb, "c10-passes", rows, **a)
    # 2. generated terms (defaults of every value type, three formats)
    plan = [dict(n=48, seed=c.seed)] if quick else [dict(n=200, seed=c.seed + i) for i in range(3)]
    for a in plan:
        rows = stream_rows(hb, tier=c.tier, timeout=7200, **a)
        run_rows(c, hb, "c10-rows", rows, **a)
        census += fits_census(c, rows)
        all_rows += rows
    if not quick:
        # known-bad constructs re-enabled in the generator: everything that fails must be a known finding
        a = dict(n=60, seed=c.seed, switches="+default.list.nonString,+default.emptyList,+default.struct.enumField")
        rows = stream_rows(hb, tier=c.tier, timeout=7200, **a)
        run_rows(c, hb, "c10-rows-knownbad", rows, **a)
        census += fits_census(c, rows)
        all_rows += rows
    c.cov["hypotheses_census"] = dict(census)
    c.cov["model"] = dict(STATS)
    c.cov["distribution"] = [r[1] for r in all_rows if r[0] == "-" and r[1].startswith("distribution")][:4]
    c.cov["lab"] = [r[1] for r in all_rows if r[0] == "-" and r[1].startswith("stats")][:4]
    front_keeps_tie(c)   # defaults / constants through the front-ends (JSON Schema, OpenAPI): instances on the real IR
    c.finish("cd /verif/lean && lake build Cog.Props.C10 drv && lake env lean <#print axioms of the C10 theorems>",
             "Src terms with defaults of every value type (bool, int, float, string, enum member inline and by reference, list, struct with partial overrides inline and by reference, union branch; optional / required / nullable members; constants) rendered to JSON Schema, OpenAPI and CUE; real pipeline; generated Go compiled, generated Python imported; NewX() / X() of every object encoded; oracle = every member the SOURCE declares with a default/constant holds exactly that value (canonical JSON, numbers exact) in both; Lean models godefaults/pydefaults must predict the JSON and whether the package compiles / the module imports; non-trivial = constructor JSON with >= 3 members")


main()
