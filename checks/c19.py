"""C19 — ordered map refines a first-insertion-order association list."""
import json, os, subprocess, sys
from verifkit.core import *
from verifkit import gen_c19

THEOREMS = [
    "Cog.OMap.C19_step_refines", "Cog.OMap.C19_run_refines", "Cog.OMap.C19_reachable",
    "Cog.OMap.C19_set_keys", "Cog.OMap.C19_get_set", "Cog.OMap.C19_remove_keys",
    "Cog.OMap.C19_remove_sublist", "Cog.OMap.C19_len_live", "Cog.OMap.C19_filter_sublist",
    "Cog.OMap.C19_map_keys", "Cog.OMap.C19_sort_perm", "Cog.OMap.C19_sort_sorted",
    "Cog.OMap.C19_sort_stable", "Cog.OMap.C19_unmarshal_marshal",
    "Cog.OMap.C19_unmarshal_existing_keys", "Cog.OMap.C19_no_panic", "Cog.OMap.C19_at_panics_iff",
    "Cog.OMap.C19_prefix_remove_panicked",
]
# the method bodies of map.go, translated on this run (extract/xomap -> Cog.Gen.OMapSrc), equal the model
SRC_THEOREMS = ["Cog.OMap.C19_src_" + m for m in
                ("set", "get", "at", "has", "remove", "len", "iterate", "map", "filter", "values", "sort")] + [
    "Cog.OMap.C19_source_refines_model"]
PINS = os.path.join(VERIF, "checks", "c19.pins.json")   # sha256 of the functions that are NOT translated


def source_tie(c):
    """Regenerate Cog.Gen.OMapSrc from the current map.go.  A refusal of the translator is a broken
    obligation (the C19_src_* theorems would otherwise be about a stale program)."""
    ok, detail = gen_c19.regen()
    c.oblige("translator extract/xomap accepts internal/orderedmap/map.go (Cog.Gen.OMapSrc regenerated)", ok, detail)
    info = {"regen": detail[:300]}
    if ok:
        facts = json.load(open(gen_c19.OMAP_JSON))
        info["translated"] = [{"name": m["name"], "sha256": m["hash"]} for m in facts["translated"]]
        info["untranslated"] = facts["untranslated"]
        pins = json.load(open(PINS)) if os.path.exists(PINS) else {}
        changed = [u["name"] for u in facts["untranslated"] if pins.get(u["name"]) != u["hash"]]
        # info only: these functions stay tied by the correspondence streams
        info["untranslated_changed_since_pin"] = changed
        if changed:
            log("info: untranslated functions of map.go changed since checks/c19.pins.json:", ", ".join(changed))
    c.cov["source_tie"] = info
    return ok


def shrink_ops(binary):
    """delta-debugging on the `;`-separated op list, keeping the oracle failure"""
    def ev(ops):
        tmp = os.path.join(WORK, "shrink_%d.txt" % os.getpid())
        open(tmp, "w").write("omap " + ";".join(ops) + "\n")
        rows = harness(binary, "omap-eval", **{"in": tmp})
        os.remove(tmp)
        return rows[0]

    def shrink(row):
        ops = row[0][len("omap "):].split(";")
        best = row
        changed = True
        while changed and len(ops) > 1:
            changed = False
            for i in range(len(ops)):
                cand = ops[:i] + ops[i + 1:]
                r = ev(cand)
                if r[2].startswith("FAIL"):
                    ops, best, changed = cand, r, True
                    break
        return best
    return shrink


def main():
    c = Check("C19")
    c.trusted = [
        "Lean 4.33 kernel; axioms per theorem are listed in obligation_list (subset of propext, Classical.choice, Quot.sound)",
        "hand-written model lean/Cog/OMap/Model.lean of internal/orderedmap/map.go, tied (a) by the C19_src_* theorems: the bodies of Set/Get/At/Has/Remove/Len/Iterate/Map/Filter/Values/Sort, translated from the current map.go on every run, compute the model's functions; (b) by the omap-* correspondence streams (all functions incl. the untranslated MarshalJSON/UnmarshalJSON/FromMap/Equal/New)",
        "the translator extract/xomap (go/ast, syntactic, refuses unknown forms, canonical renaming p0../x0.. with shadowing refused) and the Go semantics given to its mini-language in lean/Cog/OMap/Src.lean (map index/comma-ok/delete, slice index and make panics, range/continue/return, pure callbacks, unaliased local New(), same-type method calls Set/Len taken from the model, sort.SliceStable = the model's merge sort)",
        "Go map modelled as association list accessed by key only; sort.SliceStable modelled as List.mergeSort (unique result for strict weak orders; harness less-functions are strict weak orders)",
        "encoding/json tokenisation of keys/ints (MarshalJSON bytes are decoded with an order-preserving token reader before comparison)",
        "the Go reference map in harness/omap.go (oracle) and the line-protocol driver lean/Cog/Drv/OMapDrv.lean",
    ]
    hb, err = build_go("verifharness", "harness", files=HARNESS_BASE + ["omap.go"], tag="c19")
    c.oblige("harness builds against /repo working tree", hb is not None, err)
    tied = source_tie(c)
    if tied:
        if not c.lean_obligations(THEOREMS + SRC_THEOREMS) and not c.obligations[-len(THEOREMS + SRC_THEOREMS) - 2][1]:
            # the build broke: say whether it is the source-equivalence layer (names the method whose
            # translated body no longer computes the model's function) or the refinement layer
            for mod in ("Cog.OMap.Refine", "Cog.OMap.SrcEquiv"):
                ok, out = lake_build((mod,))
                c.oblige("diagnostic: module %s builds" % mod, ok,
                         "\n".join(l for l in out.split("\n") if "error" in l)[:1500] if not ok else "")
    else:
        # Cog.Gen.OMapSrc is stale: the source theorems are not discharged for this tree; the
        # correspondence streams below are the search for a concrete failing op sequence
        c.lean_obligations(THEOREMS)
        for t in SRC_THEOREMS:
            c.oblige("theorem " + t, False, "translator refused: generated program is stale")
    if hb is None:
        c.finish("lake build && lake env lean <audit>", "n/a")
    if c.replay:
        rp = json.load(open(c.replay))
        tmp = os.path.join(WORK, "replay_%d.txt" % os.getpid())
        open(tmp, "w").write(rp["request"] + "\n")
        rows = harness(hb, "omap-eval", **{"in": tmp})
        os.remove(tmp)
        print("replay:", rows[0], "model:", drv([rows[0][0]])[0])
        sys.exit(1 if rows[0][2].startswith("FAIL") or drv([rows[0][0]])[0] != rows[0][1] else 0)
    nontriv = lambda r: sum(1 for o in r[0].split(";") if o.split(":")[0].replace("omap ", "") in ("set", "remove", "filter", "map", "sort", "unmarshal")) >= 2
    sh = shrink_ops(hb)
    corpus = os.path.join(VERIF, "corpus", "C19.txt")
    if os.path.exists(corpus):
        c.correspond(hb, "omap-eval", nontrivial=nontriv, shrink=sh, **{"in": corpus})
    depth = 3 if c.tier == "quick" else 4
    c.correspond(hb, "omap-exhaustive", nontrivial=nontriv, shrink=sh, depth=depth)
    c.cov["exhaustive_depth"] = depth
    n = 2000 if c.tier == "quick" else 100000
    c.correspond(hb, "omap-random", nontrivial=nontriv, shrink=sh, n=n, len=40, seed=c.seed)
    c.correspond(hb, "omap-wide", nontrivial=nontriv, shrink=sh, n=150 if c.tier == "quick" else 8000, seed=c.seed)
    c.correspond(hb, "omap-frommap", nontrivial=lambda r: False, n=300 if c.tier == "quick" else 20000, seed=c.seed)
    c.finish("cd /verif/lean && lake build Cog drv && lake env lean <#print axioms of the C19_* theorems>",
             "op sequences over string keys/int values: exhaustive over an 18-op alphabet up to the stated depth plus random sequences (state observed after every op) plus wide maps of 13-40 keys sorted under comparators with ties; non-trivial = at least two state-changing ops; distinct by (request, observations)")


main()
