"""C01 — documents the source schema accepts load into generated Go types and round-trip."""
import json, os, sys, re
from decimal import Decimal
from verifkit.core import *
from verifkit import front_cue

THEOREMS = [
    "Cog.Sem.C01_codec_roundtrip_partial", "Cog.Sem.C01_object_roundtrip_partial",
    "Cog.Sem.C01_decode_defined_partial", "Cog.Sem.C01_codec_roundtrip_any_fuel_partial", "Cog.Sem.den_mono_le", "Cog.Sem.C01_counterexample_empty_optional_array",
    "Cog.Sem.C01_counterexample_unknown_discriminator", "Cog.Sem.roundtrip_core",
    # (c) pass widening on the plain fragment, through the regenerated Go chain (c01-widening builder)
    "Cog.Sem.C01_pass_widening_plain_partial", "Cog.Sem.C01_source_roundtrip_plain_partial",
    "Cog.Sem.C01_source_roundtrip_type_plain_partial", "Cog.Sem.C01_chain_keeps_plain",
    "Cog.Sem.Src.widen_chain", "Cog.Sem.Src.nr_widen", "Cog.Sem.Src.PrefixEnumValues_den",
    "Cog.Sem.C01_pass_widening_ext_partial", "Cog.Sem.C01_source_roundtrip_ext_partial",
    "Cog.Sem.Src.widen_chainX", "Cog.Sem.Src.nr_widenN", "Cog.Sem.Src.null_widen", "Cog.Sem.Src.ae_widen", "Cog.Sem.Src.xden_mono",
    "Cog.Sem.C01_pass_widening_counterexample",
    "Cog.Sem.C01_pass_widening_struct_partial", "Cog.Sem.C01_source_roundtrip_struct_partial",
    "Cog.Sem.Src.widen_chainS", "Cog.Sem.Src.as_widen",
    # (b) parser soundness of the JSON Schema front-end on FragJS, and the composition (c01-front builder)
    "Cog.Sem.C01_jsonschema_parser_sound_partial", "Cog.Sem.C01_jsonschema_parser_sound_fuel_partial",
    "Cog.Sem.C01_jsonschema_end_to_end_partial", "Cog.Sem.C01_jsonschema_parser_sound_counterexample",
    "Cog.Front.JsonSchema.parser_sound", "Cog.Front.JsonSchema.sound_core", "Cog.Front.JsonSchema.frontEnd_spec",
    "Cog.Front.JsonSchema.walkDefinition_spec", "Cog.Front.JsonSchema.view_of",
    # the same for OpenAPI inputs
    "Cog.Sem.OA.C01_openapi_parser_sound_partial", "Cog.Sem.OA.C01_openapi_parser_sound_fuel_partial",
    "Cog.Sem.OA.C01_openapi_end_to_end_partial", "Cog.Sem.OA.C01_openapi_parser_sound_counterexample",
    "Cog.Front.OpenApi.parser_sound", "Cog.Front.OpenApi.sound_core", "Cog.Front.OpenApi.frontEnd_spec", "Cog.Front.OpenApi.oview_of",
    # the same for CUE inputs (model of internal/simplecue on the view of the cue.Value; verifkit/front_cue.py)
    "Cog.Sem.CUE.C01_cue_parser_sound_partial", "Cog.Sem.CUE.C01_cue_parser_sound_fuel_partial", "Cog.Sem.CUE.C01_cue_parser_sound_agree_partial",
    "Cog.Sem.CUE.C01_cue_end_to_end_partial", "Cog.Sem.CUE.C01_cue_parser_sound_counterexample", "Cog.Sem.CUE.C01_cue_parser_sound_counterexample_required_constant",
    "Cog.Front.Cue.parser_sound", "Cog.Front.Cue.sound_core", "Cog.Front.Cue.def_sound",
]


def canon(text):
    """canonical JSON text: keys sorted, numbers as exact decimals"""
    def norm(x):
        if isinstance(x, dict):
            return {k: norm(v) for k, v in sorted(x.items())}
        if isinstance(x, list):
            return [norm(v) for v in x]
        if isinstance(x, Decimal):
            n = x.normalize()
            return "#" + format(n, "f")
        return x
    return json.dumps(norm(json.loads(text, parse_float=Decimal, parse_int=Decimal)), sort_keys=True, ensure_ascii=False)


STATS = {"model_unsup": 0, "model_fuel": 0, "compared": 0}

# (round 4) shapes only C01's c01-rows stream switches on in the shared lab generator / printers / document
# generator: members typed by a union of constants or of references to small enums (zero-valued members
# among them), CUE spelling variants, and the zero-valued member of an enum-like optional member as a document
LAB_SHAPES = {"switches": "+union.consts", "cuespell": "mixed", "docswitches": "+zero.enum"}
ROUND4_PROPOSED = os.path.join(VERIF, "checks", "c01.round4.proposed_findings.json")


def load_round4_proposed(c):
    """entries of checks/c01.round4.proposed_findings.json that known_findings.json does not hold yet are treated as known"""
    try:
        prop = json.load(open(ROUND4_PROPOSED)).get("findings", [])
    except (OSError, ValueError):
        return
    have = {f["id"] for f in c.known}
    c.known += [f for f in prop if f["id"] not in have and f.get("property") == c.pid]


def reconcile(req, impl, model):
    if not req.startswith("godec "):
        return impl, model
    if model.startswith("unsup") or model.startswith("bad-json"):
        # construct outside the modelled fragment (or a number that is not a multiple of 0.25):
        # counted, not compared
        STATS["model_unsup"] += 1
        return "unsup", "unsup"
    STATS["compared"] += 1
    try:
        if impl.startswith("ok "):
            impl = "ok " + canon(impl[3:])
        if model.startswith("ok "):
            model = "ok " + canon(model[3:])
    except Exception as e:  # keep raw text: shows up as a disagreement
        pass
    return impl, model


# ---- BEGIN pass widening tie (c01-src stream; owner: c01-widening builder) -------------------------
# den-exclusions mirrored by srcDen: a source-valid document missing from srcDen for one of these
# reasons is outside the proved fragment by construction, not a gap of the source-side model
SRC_EXCLUSIONS = ("empty-optional-collection", "empty-collection-behind-alias", "reference-to-constant",
                  "array-of-uint8-is-bytes", "bytes", "any-integer-beyond-2^53", "any-duplicate-keys",
                  "map-index-not-string", "alias-of-any", "alias-of-datetime", "constant-reference",
                  "missing-required", "undeclared-member", "duplicate-keys")


def pass_widening_tie(c, hb):
    """(a) reference validator accepts ∧ Plain ⇒ srcDen (rate, reasons; converse must hold);
       (b) Plain ∧ srcDen ⇒ den on the REAL post-chain IR (instance of C01_pass_widening_plain_partial)."""
    quick = c.tier == "quick"
    n, docs, faults = (150, 10, 6) if quick else (1500, 14, 8)
    try:
        rows = harness(hb, "c01-src", n=n, docs=docs, faults=faults, seed=c.seed, timeout=3600)
    except (RuntimeError, subprocess.TimeoutExpired) as e:
        c.oblige("c01-src stream runs", False, str(e)[-1500:])
        return
    reqs = [r[0] for r in rows if r[0] != "-"]
    replies = drv(reqs)
    it = iter(replies)
    cases, case_line = {}, {}
    st = {"documents": 0, "valid": 0, "plain_documents": 0, "plain_valid": 0, "plain_valid_in_srcDen": 0,
          "plain_in_srcDen": 0, "plain_in_srcDen_and_den_real": 0, "nonplain_valid": 0, "nonplain_valid_in_srcDen": 0,
          "nonplain_valid_in_srcDen_and_den_real": 0, "invalid": 0, "invalid_in_srcDen": 0, "bad_replies": 0,
          "plain_only_documents": 0, "plain_only_in_srcDen": 0}
    why, whyx, notplain = {}, {}, {}
    b_fail, unsound, m_fail, pinned = [], [], [], []
    for r in rows:
        if r[0] == "-":
            if r[1].startswith("case "):
                case_line[r[1].split(" ")[1]] = r[1]
            continue
        m = next(it)
        if r[0].startswith("defschemas "):
            if m != "ok":
                st["bad_replies"] += 1
            continue
        if not m.startswith("plain="):
            st["bad_replies"] += 1      # bad-json: a number that is not a multiple of 0.25
            continue
        d = dict(kv.split("=", 1) for kv in m.split(" "))
        cid = r[0].split(" ")[3]
        valid = "valid=true" in r[1]
        if r[1].endswith("doc=pinned"):
            pinned.append((r, m, valid and d["src"] == "true" and d["den"] == "false" and d["mden"] == "false"))
            continue
        if cid not in cases:
            cases[cid] = (d["plainS"] == "true", d["plain"] == "true", d["plainN"] == "true")
            if d["plainS"] != "true":
                notplain[d["notplainS"]] = notplain.get(d["notplainS"], 0) + 1
        st["documents"] += 1
        st["valid" if valid else "invalid"] += 1
        # "plain" below = the PROVED fragment PlainS (Plain + `T | null` pairs + anonymous enums + anonymous structs); Plain alone is counted apart
        src, den, plain = d["src"] == "true", d["den"] == "true", d["plainS"] == "true"
        if d["plain"] == "true":
            st["plain_only_documents"] += 1
            st["plain_only_in_srcDen"] += int(src)
        if src and not valid:
            st["invalid_in_srcDen"] += 1
            unsound.append((r, m))
        if plain:
            st["plain_documents"] += 1
            if valid:
                st["plain_valid"] += 1
                if src:
                    st["plain_valid_in_srcDen"] += 1
                else:
                    k = d["why"].replace("absent-optional:", "")
                    (why if k in SRC_EXCLUSIONS else whyx)[d["why"]] = (why if k in SRC_EXCLUSIONS else whyx).get(d["why"], 0) + 1
            if src:
                st["plain_in_srcDen"] += 1
                if den:
                    st["plain_in_srcDen_and_den_real"] += 1
                else:
                    b_fail.append((r, m))
                if d["mden"] != "true":
                    m_fail.append((r, m))
        elif valid:
            st["nonplain_valid"] += 1
            if src:
                st["nonplain_valid_in_srcDen"] += 1
                if den:
                    st["nonplain_valid_in_srcDen_and_den_real"] += 1
    def payload(kind, broken, r, m):
        cid = r[0].split(" ")[3]
        return {"kind": kind, "broken": broken, "stream": "c01-src", "request": r[0], "reference_validator": r[1],
                "driver": m, "case": case_line.get(cid, ""), "how_to_replay": "harness c01-src seed=%d n=%d docs=%d faults=%d, case %s" % (c.seed, n, docs, faults, cid)}
    for r, m in b_fail[:3]:
        c.violation(payload("theorem-instance-fails-on-real-passes",
                            "C01_pass_widening_{plain,ext,struct}_partial: PlainS ∧ srcDen hold on the real pre-chain IR but the document is not in `den` of the REAL post-chain IR (pass model and real pass disagree)", r, m))
    for r, m in m_fail[:3]:
        c.violation(payload("theorem-instance-fails-on-model",
                            "C01_pass_widening_{plain,ext,struct}_partial evaluated by the driver on the pass MODELS' output is false", r, m), found_input=False)
    for r, m in unsound[:3]:
        c.violation(payload("srcDen-accepts-invalid-document",
                            "srcDen accepts a document the schema language's own validator rejects (model of the source reading is unsound)", r, m))
    nplain = len([1 for v in cases.values() if v[0]])
    nplain_only = len([1 for v in cases.values() if v[1]])
    nplain_x = len([1 for v in cases.values() if v[2]])
    c.oblige("c01-src (b): PlainS ∧ srcDen ⇒ den on the REAL post-chain IR (%d documents of %d cases in the proved fragment, %d of them Plain)" % (st["plain_in_srcDen"], nplain, nplain_only), not b_fail and not m_fail)
    c.oblige("c01-src (a'): srcDen accepts no document the reference validator rejects (%d invalid documents)" % st["invalid"], not unsound)
    c.oblige("witness of C01_pass_widening_counterexample replays on the real front-end and passes (source-valid, in srcDen, not in den of the real post-chain IR nor of the model's)",
             len(pinned) == 1 and all(p[2] for p in pinned), [(p[0][1], p[1]) for p in pinned] or "pinned row missing")
    if len(pinned) == 1 and all(p[2] for p in pinned):
        # the witness is a genuine defect of cog on the pinned tree: recorded, printed as KNOWN-FINDING
        c.match_known("c01-src pinned pincollidejs\tFAIL source-valid document not accepted: generated struct name overwrites a user definition")
    c.oblige("c01-src is not vacuous (plain cases, documents in srcDen, fault documents)", nplain >= 10 and st["plain_in_srcDen"] >= 100 and st["invalid"] >= 100,
             "plain cases %d, plain documents in srcDen %d, invalid documents %d" % (nplain, st["plain_in_srcDen"], st["invalid"]))
    c.count("c01-src", len(rows), [r[0] for r in rows if r[0].startswith("srcden ") and r[0].count("(") >= 6],
            samples=[{"stream": "c01-src", "request": r[0][:400], "impl": r[1][:200], "oracle": "ok"} for r in rows if r[0].startswith("srcden ")][:2])
    c.cov["disagreements_checked"] += st["plain_in_srcDen"] + st["invalid"]
    c.cov["pass_widening"] = dict(st, cases=len(cases), plain_cases=nplain, plain_only_cases=nplain_only, plainX_cases=nplain_x, not_plain_first_construct=notplain,
                                  legend="plain_* = the proved fragment PlainS (Plain + two-branch `T | null` + anonymous enums + anonymous structs, generated names fresh); plain_only_* = Plain; plainX_cases = without anonymous structs",
                                  plain_valid_not_in_srcDen_den_exclusions=why, plain_valid_not_in_srcDen_other=whyx,
                                  rate_a="%d/%d" % (st["plain_valid_in_srcDen"], st["plain_valid"]),
                                  rate_b="%d/%d" % (st["plain_in_srcDen_and_den_real"], st["plain_in_srcDen"]))
# ---- END pass widening tie -----------------------------------------------------------------------


# ---- BEGIN parser soundness tie (c01-front stream; owner: c01-front builder) -----------------------
def parser_soundness_tie(c, hb, fmtname="JSON Schema", stream="c01-front", verbs=("jsfdef", "jsfront", "jsfdoc"),
                         theorem="C01_jsonschema", witness_case="pinint64", witness_doc='(n "9223372036854775808")',
                         witness_text="2^63 is valid against {type: integer}, in FragJS, not strictly valid, not in srcDen of the real IR",
                         witness_frag="true", cov_key="parser_soundness", validator="santhosh-tekuri's Schema.Validate"):
    """(1) model of the front-end = real GenerateAST (VIR-equal, ok/err class);
       (2) jsValid = the library's own validator on every document of every fully modelled case;
       (3) FragJS ∧ wfDeep ∧ jsValidX ⇒ srcDen evaluated on the REAL front-end IR (instance of
           C01_jsonschema_parser_sound_fuel_partial) and on the model's IR;
       (4) the witness of C01_jsonschema_parser_sound_counterexample replays on the real front-end."""
    quick = c.tier == "quick"
    n, docs, faults = (150, 10, 6) if quick else (1500, 14, 8)
    try:
        rows = harness(hb, stream, n=n, docs=docs, faults=faults, seed=c.seed, timeout=3600)
    except (RuntimeError, subprocess.TimeoutExpired) as e:
        c.oblige("%s stream runs" % stream, False, str(e)[-1500:])
        return
    VDEF, VFRONT, VDOC = verbs
    reqs = [r[0] for r in rows if r[0] != "-"]
    replies = drv(reqs)
    it = iter(replies)
    st = {"cases": 0, "front_ok_agree": 0, "front_err_agree": 0, "documents": 0, "valid": 0, "invalid": 0,
          "modelled_documents": 0, "unmodelled_documents": 0, "frag_cases": 0, "frag_documents": 0, "frag_valid": 0,
          "frag_strict_wf": 0, "frag_strict_wf_in_srcDen_real": 0, "frag_valid_not_strict": 0, "end_to_end_instances": 0, "bad_replies": 0, "skipped": {}}
    kinds, notfrag, case_line, jsdef, schema_text = {}, {}, {}, {}, {}
    front_bad, valid_bad, inst_bad, minst_bad, strict_bad, oracle_bad, witness, e2e_bad = [], [], [], [], [], [], [], []
    seen = set()
    for r in rows:
        if r[0] == "-":
            w = r[1].split(" ")
            if w[0] == "case":
                case_line[w[1]] = r[1]
                st["cases"] += 1
                kinds[w[2]] = kinds.get(w[2], 0) + 1
            elif w[0] == "schema":
                schema_text[w[1]] = r[1].split(" ", 2)[2]
            elif w[0] == "skip":
                st["skipped"][w[2]] = st["skipped"].get(w[2], 0) + 1
            if len(r) > 2 and r[2] != "ok":
                oracle_bad.append((r, ""))
            continue
        m = next(it)
        verb, cid = r[0].split(" ")[0], r[0].split(" ")[1]
        if verb == VDEF:
            jsdef[cid] = r[0]
        if verb in (VDEF, "defschemas"):
            if m != "ok":
                st["bad_replies"] += 1
            continue
        if verb == VFRONT:
            if r[2] != "ok":
                oracle_bad.append((r, m))
            if m == r[1]:
                st["front_ok_agree" if m.startswith("ok") else "front_err_agree"] += 1
            else:
                front_bad.append((r, m))
            continue
        if verb != VDOC:
            continue
        if r[2] != "ok":
            oracle_bad.append((r, m))
        if not m.startswith("plainS="):
            st["bad_replies"] += 1
            continue
        d = dict(kv.split("=", 1) for kv in m.split(" "))
        valid = "valid=true" in r[1]
        st["documents"] += 1
        if d["e2e"] != "n/a":
            st["end_to_end_instances"] += 1
            if d["e2e"] != "true":
                e2e_bad.append((r, m))
        st["valid" if valid else "invalid"] += 1
        if cid not in seen:
            seen.add(cid)
            notfrag[d["notfrag"]] = notfrag.get(d["notfrag"], 0) + 1
            st["frag_cases"] += int(d["frag"] == "true")
        if d.get("exact", "true") != "true":
            st["inexact_documents"] = st.get("inexact_documents", 0) + 1   # integers beyond 2^53: the float64 validator is not compared
        elif d["modelled"] == "true":
            st["modelled_documents"] += 1
            if (d["valid"] == "true") != valid:
                valid_bad.append((r, m))
        else:
            st["unmodelled_documents"] += 1
            if valid and d["valid"] != "true":      # unmodelled keywords only add constraints: real-valid ⇒ jsValid
                valid_bad.append((r, m))
        if d["strict"] == "true" and d["valid"] != "true":
            strict_bad.append((r, m))
        if d["frag"] == "true":
            st["frag_documents"] += 1
            st["frag_valid"] += int(valid)
            if d["strict"] == "true" and d["wf"] == "true":
                st["frag_strict_wf"] += 1
                if d["src"] == "true":
                    st["frag_strict_wf_in_srcDen_real"] += 1
                else:
                    inst_bad.append((r, m))
                if d["msrc"] != "true":
                    minst_bad.append((r, m))
            elif valid:
                st["frag_valid_not_strict"] += 1
        if cid == witness_case and r[0].endswith(" " + witness_doc):
            witness.append((r, m, valid and d["frag"] == witness_frag and d["valid"] == "true" and d["src"] == "false" and d["msrc"] == "false"
                            and (d["strict"] == "false" or witness_frag == "false")))
    def payload(kind, broken, r, m):
        cid = r[0].split(" ")[1] if r[0] != "-" else r[1].split(" ")[2]
        return {"kind": kind, "broken": broken, "stream": stream, "request": r[0][:6000], "implementation": r[1][:6000], "oracle": (r[2] if len(r) > 2 else "")[:600],
                "driver": m[:6000], "case": case_line.get(cid, "")[:6000], "schema_text": schema_text.get(cid, "")[:8000], "compiled_schema": jsdef.get(cid, "")[:8000],
                "how_to_replay": "harness %s seed=%d n=%d docs=%d faults=%d, case %s (pinned / testdata cases do not depend on the seed)" % (stream, c.seed, n, docs, faults, cid)}
    for r, m in front_bad[:3]:
        c.violation(payload("front-end-model-disagrees", "the Lean model `generateAST` and the real %s GenerateAST build different IR (VIR text) or differ in ok/err for this schema: the model no longer describes the code" % fmtname, r, m))
    for r, m in oracle_bad[:3]:
        c.violation(payload("front-end-oracle", "implementation-side oracle of the front-end stream failed (GenerateAST panicked, succeeded on a schema the library refuses, or the two reference validators disagree)", r, m))
    for r, m in valid_bad[:3]:
        c.violation(payload("jsValid-disagrees-with-validator", "the Lean validation semantics and %s disagree on this document" % validator, r, m))
    for r, m in strict_bad[:3]:
        c.violation(payload("strict-not-valid", "jsValidX holds but jsValid does not", r, m))
    for r, m in inst_bad[:3]:
        c.violation(payload("parser-soundness-instance-fails-on-real-IR", theorem + "_parser_sound_fuel_partial: fragment ∧ wfDeep ∧ strict validity hold but the document is not in `srcDen` of the REAL front-end IR", r, m))
    for r, m in minst_bad[:3]:
        c.violation(payload("parser-soundness-instance-fails-on-model", theorem + "_parser_sound_fuel_partial evaluated by the driver on the MODEL's IR is false", r, m), found_input=False)
    for r, m in e2e_bad[:3]:
        c.violation(payload("end-to-end-instance-fails", theorem + "_end_to_end_partial: fragment ∧ PlainS (real front-end IR) ∧ Go chain ok ∧ strict validity hold but the model of the generated Go codec does not round-trip the document", r, m), found_input=False)
    ncases = st["front_ok_agree"] + st["front_err_agree"] + len(front_bad)
    c.oblige(stream + " (1): model of the " + fmtname + " front-end = real GenerateAST, VIR-equal (%d schemas: %d ok, %d err; kinds %s)" % (ncases, st["front_ok_agree"], st["front_err_agree"], kinds), not front_bad and not oracle_bad and st["bad_replies"] == 0,
             "disagreements %d, oracle failures %d, bad driver replies %d" % (len(front_bad), len(oracle_bad), st["bad_replies"]))
    c.oblige(stream + " (2): Lean validity = " + validator + " on every document of every fully modelled schema (%d documents, %d of them invalid); real-valid ⇒ Lean-valid on the %d others; strict ⇒ valid" % (st["modelled_documents"], st["invalid"], st["unmodelled_documents"]), not valid_bad and not strict_bad)
    c.oblige(stream + " (3): fragment ∧ wfDeep ∧ strict validity ⇒ srcDen on the REAL front-end IR and on the model's (%d documents of %d schemas in the fragment)" % (st["frag_strict_wf"], st["frag_cases"]), not inst_bad and not minst_bad)
    c.oblige(stream + " (3'): fragment ∧ PlainS ∧ strict validity ⇒ decodes and round-trips (" + theorem + "_end_to_end_partial evaluated on the REAL front-end IR through the pass and codec models: %d documents)" % st["end_to_end_instances"], not e2e_bad and st["end_to_end_instances"] >= 100)
    c.oblige("witness of " + theorem + "_parser_sound_counterexample replays on the real front-end (" + witness_text + ")",
             len(witness) == 1 and all(w[2] for w in witness), [(w[0][1], w[1]) for w in witness] or "pinned row missing")
    if len(witness) == 1 and all(w[2] for w in witness):
        # the witness is a genuine defect of cog on the pinned tree: recorded, printed as KNOWN-FINDING
        c.match_known({"pinint64": "c01-front pinned pinint64\tFAIL source-valid document outside the IR's int64",
                       "oapinnullbool": "c01-front-oa pinned oapinnullbool\tFAIL source-valid null not admitted by the IR"}.get(witness_case, ""))
    c.oblige(stream + " is not vacuous (schemas, schemas in the fragment, strictly valid documents of the fragment, invalid documents, err schemas)",
             ncases >= 100 and st["frag_cases"] >= 20 and st["frag_strict_wf"] >= 150 and st["invalid"] >= 300 and st["front_err_agree"] >= 2,
             "schemas %d, in FragJS %d, strict documents %d, invalid %d, err schemas %d" % (ncases, st["frag_cases"], st["frag_strict_wf"], st["invalid"], st["front_err_agree"]))
    c.count(stream, len(rows), [r[0] for r in rows if r[0].startswith(VDOC + " ") and r[0].count("(") >= 6],
            samples=[{"stream": stream, "request": r[0][:400], "impl": r[1][:200], "oracle": "ok"} for r in rows if r[0].startswith(VDOC + " ")][:2])
    c.cov["disagreements_checked"] += ncases + st["documents"] + st["frag_strict_wf"]
    c.cov[cov_key] = dict(st, not_in_fragment_first_construct=notfrag, schema_kinds=kinds,
                                     keywords=[r[1] for r in rows if r[0] == "-" and r[1].startswith("stats keywords")][:1],
                                     rate_fragment="%d/%d schemas" % (st["frag_cases"], len(seen)),
                                     rate_instance="%d/%d" % (st["frag_strict_wf_in_srcDen_real"], st["frag_strict_wf"]))
# ---- END parser soundness tie --------------------------------------------------------------------


def main():
    c = Check("C01")
    c.trusted = [
        "Lean 4.33 kernel; axioms per theorem in obligation_list",
        "PROVED: codec round trip on the post-chain IR for every document of `den` (lean/Cog/Sem/Den.lean); pass widening srcDen(pre-chain) ⊆ den(post-chain) through the regenerated Go chain on the fragment PlainS = plain + `T | null` pairs + anonymous enums + anonymous structs, generated object names fresh (lean/Cog/Sem/SrcDen.lean, Widen*.lean); the full statement is refuted (C01_pass_widening_counterexample, replayed); NOT proved: parser soundness, pass widening outside that fragment (unions of scalars / of references, disjunctions of constants, `T | null` over an enum or nested pair) (covered by this check's correspondence on source-valid documents only)",
        "pass models lean/Cog/Passes/*.lean (C06) and the source-side language `srcDen`: tied by the c01-src stream (real front-end output and real post-chain IR of every case; reference validators on valid and single-fault documents)",
        "hand-written model lean/Cog/Sem/{GoVal,GoCodec}.lean of encoding/json on the generated Go types and of the two custom union (un)marshallers, tied by the c01-rows stream: real pipeline -> real `go build` -> real decode/encode of every document",
        "source side: documents are drawn from the Src grammar and checked against the schema language's own validator (santhosh-tekuri/jsonschema, kin-openapi, cuelang) before use; encoding/json, the Go toolchain and those validators are trusted",
        "numbers restricted to integers and multiples of 0.25; date-time strings treated as opaque canonical RFC 3339 text",
        "CUE front-end model (lean/Cog/Front/Cue*.lean): CUE's own parser/evaluator (text -> cue.Value) and the view encoder harness/c01_front_cue.go (same cue API calls as internal/simplecue; refuses what the view cannot express) are trusted; PROVED on FragCue: cueFront = ok S ∧ strict cueValid ⇒ srcDen S (FragCue contains the per-schema shape check `agree`); tied: model IR = real simplecue.GenerateAST IR, cueValid = CUE's Unify+Validate(Concrete), instances on the real IR",
    ]
    hb, err = build_go("verifharness", "harness", files=HARNESS_BASE + ["lab_*.go", "src_*.go", "c01.go", "c01_src.go", "c01_front.go", "c01_front_oa.go", "c01_front_cue.go"], tag="c01")
    c.oblige("harness builds against /repo working tree", hb is not None, err)
    # (c) pass widening speaks about the Go chain the code runs: regenerate Cog/Gen/Chains.lean (C06's extractor)
    try:
        from verifkit import gen_c06
        okc, detail = gen_c06.regen()
    except Exception as e:
        okc, detail = False, "gen_c06.regen failed: %s" % e
    c.oblige("Cog/Gen/Chains.lean regenerated from the CompilerPasses() of internal/jennies/* (the chain of C01_pass_widening_*)", okc, detail)
    c.lean_obligations(THEOREMS)
    if hb is None:
        c.finish("lake build", "n/a")
    if c.replay:
        rp = json.load(open(c.replay))
        if rp.get("stream") == front_cue.STREAM:
            sys.exit(0 if front_cue.replay(c, hb, rp) else 1)
        print(json.dumps(rp, indent=1)[:4000])
        sys.exit(1)
    quick = c.tier == "quick"
    n, docs = (30, 30) if quick else (400, 40)
    load_round4_proposed(c)
    rows = []
    pinned_terms = os.path.join(VERIF, "corpus", "C01.sexp")
    if os.path.exists(pinned_terms):
        # hand-written terms for shapes the random generator rarely reaches (arrays of maps, maps of arrays,
        # nested collections); processed first, the driver's schema store is redefined by the generated batch
        # (round 4) pinned terms are printed in the ALTERNATIVE CUE spelling (`string & time.Time`, `int`, `uint`,
        # `number`, constraints first), the generated batch mixes both spellings per node
        rows += harness(hb, "c01-rows", file=pinned_terms, docs=24, seed=c.seed, tier=c.tier, timeout=3600, **dict(LAB_SHAPES, cuespell="alt"))
    rows += harness(hb, "c01-rows", n=n, docs=docs, seed=c.seed, tier=c.tier, timeout=7200, **LAB_SHAPES)
    skips = {}
    for r in rows:
        if r[0] == "-" and r[1].startswith("skip"):
            k = " ".join(r[1].split(" ")[2:3])
            skips[k] = skips.get(k, 0) + 1
    def classify(r):
        v = r[2]
        v = re.sub(r"case=\S+ ", "", v)
        v = re.sub(r"path=.*", "", v)
        return re.sub(r"[0-9]+", "N", v)[:200]
    c.correspond(hb, "c01-rows", rows=rows, reconcile=reconcile, classify=classify,
                 nontrivial=lambda r: r[0].startswith("godec ") and r[0].count("(") >= 6)
    # how much of the sampled reality the theorem's hypothesis `den` covers, and a consistency
    # obligation: a document in `den` must round-trip on the REAL code (theorem + correspondence)
    drows = [r for r in rows if r[0].startswith("godec ")]
    store = [r[0] for r in rows if r[0].startswith("defschemas ")]
    reqs, idx = [], []
    last_store = None
    for r in rows:
        if r[0].startswith("defschemas "):
            reqs.append(r[0]); idx.append(None)
        elif r[0].startswith("godec "):
            reqs.append("goden " + r[0][len("godec "):]); idx.append(r)
    replies = drv(reqs)
    in_den = ok_in_den = contradict = 0
    for rep, r in zip(replies, idx):
        if r is None or rep != "true":
            continue
        in_den += 1
        if not r[2].startswith("FAIL reenc-differs") and not r[2].startswith("FAIL dec-error"):
            ok_in_den += 1
        else:
            contradict += 1
            if contradict <= 3:
                c.violation({"kind": "theorem-contradicted", "broken": "C01_codec_roundtrip_partial hypothesis `den` holds but the real generated code does not round-trip",
                             "request": r[0], "impl": r[1], "oracle": r[2]})
    c.oblige("every sampled document in `den` round-trips on the real generated code (%d documents)" % in_den, contradict == 0)
    c.cov["den"] = {"documents": len(drows), "in_den": in_den, "in_den_and_roundtrip_on_real_code": ok_in_den}
    c.cov["skipped_cases"] = skips
    c.cov["model"] = STATS
    c.cov["lab"] = [r[1] for r in rows if r[0] == "-" and r[1].startswith("stats")][:1]
    pass_widening_tie(c, hb)   # (c) pass widening: additional obligations + evidence counts
    parser_soundness_tie(c, hb)   # (b) parser soundness (JSON Schema): additional obligations + evidence counts
    parser_soundness_tie(c, hb, fmtname="OpenAPI", stream="c01-front-oa", verbs=("oafdef", "oafront", "oafdoc"), theorem="C01_openapi",
                         witness_case="oapinnullbool", witness_doc="null", witness_frag="false",
                         witness_text="null is accepted by kin-openapi for {type: boolean, nullable: true}, the schema is outside FragOA, null is not in srcDen of the real IR",
                         cov_key="parser_soundness_openapi", validator="kin-openapi's Schema.VisitJSON")
    front_cue.tie(c, hb)   # (b) parser soundness (CUE): model of internal/simplecue on the view of the real cue.Value (verifkit/front_cue.py)
    c.finish("cd /verif/lean && lake build Cog.Props.C01 drv && lake env lean <#print axioms of the C01 theorems>",
             "Src terms (every construct of the grammar) rendered to JSON Schema, OpenAPI and CUE, real pipeline run, generated Go compiled; per case ~30 source-valid documents (reference-validated) decoded with the standard and the strict decoder and re-encoded; oracle = the property; Lean model `godec` must predict the re-encoded JSON; non-trivial = document with >= 6 nested values")


main()
