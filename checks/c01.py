"""C01 — documents the source schema accepts load into generated Go types and round-trip."""
import json, os, sys, re
from decimal import Decimal
from verifkit.core import *

THEOREMS = [
    "Cog.Sem.C01_codec_roundtrip_partial", "Cog.Sem.C01_object_roundtrip_partial",
    "Cog.Sem.C01_decode_defined_partial", "Cog.Sem.C01_codec_roundtrip_any_fuel_partial", "Cog.Sem.den_mono_le", "Cog.Sem.C01_counterexample_empty_optional_array",
    "Cog.Sem.C01_counterexample_unknown_discriminator", "Cog.Sem.roundtrip_core",
]


def canon(text):
    """canonical JSON text: keys sorted, numbers as exact decimals"""
    def norm(x):
        if isinstance(x, dict):
            return {k: norm(v) for k, v in sorted(x.items())}
        if isinstance(x, list):
            return [norm(v) for v in x]
        if isinstance(x, Decimal):
            n = x.normalize()
            return "#" + format(n, "f")
        return x
    return json.dumps(norm(json.loads(text, parse_float=Decimal, parse_int=Decimal)), sort_keys=True, ensure_ascii=False)


STATS = {"model_unsup": 0, "model_fuel": 0, "compared": 0}


def reconcile(req, impl, model):
    if not req.startswith("godec "):
        return impl, model
    if model.startswith("unsup") or model.startswith("bad-json"):
        # construct outside the modelled fragment (or a number that is not a multiple of 0.25):
        # counted, not compared
        STATS["model_unsup"] += 1
        return "unsup", "unsup"
    STATS["compared"] += 1
    try:
        if impl.startswith("ok "):
            impl = "ok " + canon(impl[3:])
        if model.startswith("ok "):
            model = "ok " + canon(model[3:])
    except Exception as e:  # keep raw text: shows up as a disagreement
        pass
    return impl, model


def main():
    c = Check("C01")
    c.trusted = [
        "Lean 4.33 kernel; axioms per theorem in obligation_list",
        "PROVED: codec round trip on the post-chain IR for every document of `den` (lean/Cog/Sem/Den.lean); NOT proved: parser soundness and pass widening (covered by this check's correspondence on source-valid documents only)",
        "hand-written model lean/Cog/Sem/{GoVal,GoCodec}.lean of encoding/json on the generated Go types and of the two custom union (un)marshallers, tied by the c01-rows stream: real pipeline -> real `go build` -> real decode/encode of every document",
        "source side: documents are drawn from the Src grammar and checked against the schema language's own validator (santhosh-tekuri/jsonschema, kin-openapi, cuelang) before use; encoding/json, the Go toolchain and those validators are trusted",
        "numbers restricted to integers and multiples of 0.25; date-time strings treated as opaque canonical RFC 3339 text",
    ]
    hb, err = build_go("verifharness", "harness", files=HARNESS_BASE + ["lab_*.go", "src_*.go", "c01.go"], tag="c01")
    c.oblige("harness builds against /repo working tree", hb is not None, err)
    c.lean_obligations(THEOREMS)
    if hb is None:
        c.finish("lake build", "n/a")
    if c.replay:
        rp = json.load(open(c.replay))
        print(json.dumps(rp, indent=1)[:4000])
        sys.exit(1)
    quick = c.tier == "quick"
    n, docs = (30, 30) if quick else (400, 40)
    rows = harness(hb, "c01-rows", n=n, docs=docs, seed=c.seed, tier=c.tier, timeout=7200)
    skips = {}
    for r in rows:
        if r[0] == "-" and r[1].startswith("skip"):
            k = " ".join(r[1].split(" ")[2:3])
            skips[k] = skips.get(k, 0) + 1
    def classify(r):
        v = r[2]
        v = re.sub(r"case=\S+ ", "", v)
        v = re.sub(r"path=.*", "", v)
        return re.sub(r"[0-9]+", "N", v)[:200]
    c.correspond(hb, "c01-rows", rows=rows, reconcile=reconcile, classify=classify,
                 nontrivial=lambda r: r[0].startswith("godec ") and r[0].count("(") >= 6)
    # how much of the sampled reality the theorem's hypothesis `den` covers, and a consistency
    # obligation: a document in `den` must round-trip on the REAL code (theorem + correspondence)
    drows = [r for r in rows if r[0].startswith("godec ")]
    store = [r[0] for r in rows if r[0].startswith("defschemas ")]
    reqs, idx = [], []
    last_store = None
    for r in rows:
        if r[0].startswith("defschemas "):
            reqs.append(r[0]); idx.append(None)
        elif r[0].startswith("godec "):
            reqs.append("goden " + r[0][len("godec "):]); idx.append(r)
    replies = drv(reqs)
    in_den = ok_in_den = contradict = 0
    for rep, r in zip(replies, idx):
        if r is None or rep != "true":
            continue
        in_den += 1
        if not r[2].startswith("FAIL reenc-differs") and not r[2].startswith("FAIL dec-error"):
            ok_in_den += 1
        else:
            contradict += 1
            if contradict <= 3:
                c.violation({"kind": "theorem-contradicted", "broken": "C01_codec_roundtrip_partial hypothesis `den` holds but the real generated code does not round-trip",
                             "request": r[0], "impl": r[1], "oracle": r[2]})
    c.oblige("every sampled document in `den` round-trips on the real generated code (%d documents)" % in_den, contradict == 0)
    c.cov["den"] = {"documents": len(drows), "in_den": in_den, "in_den_and_roundtrip_on_real_code": ok_in_den}
    c.cov["skipped_cases"] = skips
    c.cov["model"] = STATS
    c.cov["lab"] = [r[1] for r in rows if r[0] == "-" and r[1].startswith("stats")][:1]
    c.finish("cd /verif/lean && lake build Cog.Props.C01 drv && lake env lean <#print axioms of the C01 theorems>",
             "Src terms (every construct of the grammar) rendered to JSON Schema, OpenAPI and CUE, real pipeline run, generated Go compiled; per case ~30 source-valid documents (reference-validated) decoded with the standard and the strict decoder and re-encoded; oracle = the property; Lean model `godec` must predict the re-encoded JSON; non-trivial = document with >= 6 nested values")


main()
