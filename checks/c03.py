"""C03 — generation is deterministic (for every iteration order of every Go map).

1. regenerate the map-range site table from /repo (extract/xmaprange) -> lean/Cog/Gen/MapRangeSites.lean
2. Lean: meta-theorems over List.Perm, one lemma per admissible loop shape, composition theorem,
   `C03_sites` / `C03_purity` decided over the regenerated table (lake build + axiom audit)
3. dynamic validation and search on the real code: unit recipes per site and full pipeline runs,
   each repeated many times in one process (Go re-randomises the order at every `range`)
4. nondeterminism at a site recorded in known_findings.json -> KNOWN-FINDING; anywhere else ->
   VIOLATION with the recipe as replay; a broken obligation without a failing run ->
   VIOLATION … no-failing-input-found naming the site
"""
import json, os, re, sys, time
from verifkit.core import *
from verifkit import gen_c03

THEOREMS = [
    "Cog.Det.C03_fold_perm_invariant", "Cog.Det.C03_fold_perm_invariant_keys",
    "Cog.Det.C03_run_deterministic", "Cog.Det.C03_range_admissible", "Cog.Det.C03_effects_compose",
    "Cog.Det.C03_effect_sound", "Cog.Det.C03_effect_witness",
    "Cog.Det.C03_nonadmissible_program_not_deterministic",
    "Cog.Det.C03_sites", "Cog.Det.C03_full_holds", "Cog.Det.C03_known_are_nonadmissible", "Cog.Det.C03_full_counterexample",
    "Cog.Det.C03_purity",
    # the shape lemmas behind C03_effect_sound, audited individually
    "Cog.Det.S_keyed_write", "Cog.Det.S_copy_map", "Cog.Det.S_set_insert", "Cog.Det.S_delete_keys",
    "Cog.Det.S_delete_keys_ordered", "Cog.Det.S_commutative_acc", "Cog.Det.S_pure_lookup",
    "Cog.Det.S_collect_then_sort", "Cog.Det.S_collect_then_mergeSort", "Cog.Det.S_collect_then_fold",
    "Cog.Det.S_all_must_succeed", "Cog.Det.S_all_must_succeed_keys", "Cog.Det.S_any_flag",
    "Cog.Det.S_error_capture", "Cog.Det.S_emit_files", "Cog.Det.S_merge_fs",
    "Cog.Det.N_append_unsorted", "Cog.Det.N_first_match_break", "Cog.Det.N_last_write_wins",
    "Cog.Det.N_keyed_write_collision", "Cog.Det.N_ordered_side_effect", "Cog.Det.N_nested_replace",
    "Cog.Det.N_error_value", "Cog.Det.N_ordered_insert", "Cog.Det.N_sort_by_derived_key",
]
PIPES = os.path.join(WORK, "c03", "pipes")


def lean_eval(body):
    """evaluate a scratch file against the built library (used to name offending sites)"""
    path = os.path.join(WORK, "c03", "Eval_%d.lean" % os.getpid())
    with open(path, "w") as fh:
        fh.write(body)
    with Lock("lake"):
        p = run(["lake", "env", "lean", path], cwd=LEAN)
    os.remove(path)
    return p.returncode, p.stdout + p.stderr


def offending_sites():
    ok, out = lake_build(("Cog.Det.Review",))
    if not ok:
        return None, out[-2500:]
    rc, text = lean_eval(
        "import Cog.Det.Review\nopen Cog Cog.Det\n"
        "#eval IO.println (String.intercalate \"\\n\" (offending.map (fun s => s!\"SITE {s.file}:{s.func} line={s.line} kind={repr s.kind} effects={repr s.effects} unreviewed_callees={s.callees.filter (fun c => !calleeOK c)} ptrKey={s.ptrKey}\")))\n"
        "#eval IO.println (String.intercalate \"\\n\" ((Gen.shallowCopies.filter (fun f => !f.outsideRun && !allowedShallowCopies.contains (f.func, f.what))).map (fun f => s!\"SHALLOW {f.file}:{f.func} does not deep-copy {f.what} (the language loop in Pipeline.Run relies on per-language copies)\")))\n"
        "#eval IO.println (String.intercalate \"\\n\" (offendingImpure.map (fun f => s!\"IMPURE {f.file}:{f.func} {f.what}\")))\n"
        "#eval IO.println (String.intercalate \"\\n\" ((Gen.mapRangeSites.filter (fun s => s.known && !s.outsideRun)).map (fun s => s!\"KNOWN-SITE {s.file}:{s.func}\")))\n"
        "#eval IO.println s!\"KNOWN-PRESENT {(Gen.mapRangeSites.filter (fun s => s.known && !s.outsideRun)).length} of {knownNondeterministic.length}\"\n")
    if rc != 0:
        return None, text[-2500:]
    return [l for l in text.split("\n") if l.startswith(("SITE ", "IMPURE ", "SHALLOW ", "KNOWN-PRESENT ", "KNOWN-SITE "))], ""


def parse_reply(reply):
    d = {}
    for tok in reply.split(" "):
        if "=" in tok:
            k, v = tok.split("=", 1)
            d.setdefault(k, v)
    return d


class Dyn:
    """runs recipes on the real code and classifies the rows"""

    def __init__(self, c, hb, known_present):
        self.c, self.hb = c, hb
        # sites the regenerated table currently classifies as listed-known: only there may a
        # known finding explain nondeterminism (a site that was repaired and regresses, or a
        # recipe that fails somewhere else, is a violation)
        self.known_present = known_present
        self.rows = []
        self.known_expected = {}   # site -> observed nondeterminism?
        self.broken = []
        self.reported = set()

    def handle(self, stream, args, rows, expect):
        c = self.c
        nt = []
        for r in rows:
            if len(r) < 3:
                continue
            self.rows.append(r)
            info = parse_reply(r[1])
            site = re.search(r"site=(\S+)", r[0]).group(1)
            name = re.search(r"recipe=(\S+)", r[0]).group(1)
            failed = r[2].startswith("FAIL")
            if expect == "known":
                self.known_expected[site] = self.known_expected.get(site, False) or failed
            if " err=" in r[1] and not failed:
                # a recipe that errors out observes nothing
                self.broken.append("%s: %s" % (name, r[1][-300:]))
            if int(info.get("entries", "0")) > 0:
                nt.append(r[0] + "|" + info.get("digests", ""))
            if failed:
                c.cov["oracle_failures"] += 1
                case = r[0] + "\t" + r[2]
                kf = c.match_known(case) if site in self.known_present else None
                if kf is None and name not in self.reported and len(self.reported) < 6:
                    self.reported.add(name)
                    c.violation({"kind": "nondeterministic-output", "stream": stream, "args": args, "recipe": name,
                                 "site": site, "request": r[0], "impl": r[1], "oracle": r[2],
                                 "how": "./check C03 --replay <this file> reruns the recipe on the real code"})
        c.count(stream, sum(int(re.search(r" n=(\d+)", r[0]).group(1)) for r in rows if len(r) >= 3), nt,
                samples=[{"stream": stream, "request": r[0][:300], "impl": r[1][:300], "oracle": r[2][:300]} for r in rows[:2]])

    def unit(self, n, k):
        args = {"n": n, "k": k}
        rows = harness(self.hb, "c03-unit", **args)
        for r in rows:
            name = re.search(r"recipe=([^/\s]+)", r[0]).group(1)
            self.handle("c03-unit", dict(args, only=name), [r], "known" if name in UNIT_KNOWN else "deterministic")
        return rows

    def pipeline(self, recipe, mode, n):
        args = {"cfg": recipe["cfg"], "mode": mode, "n": n, "name": "%s:%s" % (recipe["name"], mode), "site": recipe["site"]}
        if recipe.get("params"):
            args["params"] = recipe["params"]
        rows = harness(self.hb, "c03-pipeline", **args)
        self.handle("c03-pipeline", dict(args, pipeline=recipe["name"]), rows, recipe["expect"])
        return rows


def across_processes(dyn, recipe, mode, procs):
    """the same recipe in `procs` fresh processes (one run each): digests must agree across
    processes too (in-process repetition alone could be fooled by process-global state)"""
    c = dyn.c
    digests = {}
    row0 = None
    for _ in range(procs):
        rows = harness(dyn.hb, "c03-pipeline", cfg=recipe["cfg"], mode=mode, n=1, name="%s:%s:proc" % (recipe["name"], mode), site=recipe["site"])
        row0 = row0 or rows[0]
        d = parse_reply(rows[0][1]).get("digests", "?")
        digests[d] = digests.get(d, 0) + 1
    reply = "distinct=%d counts=%s digests=%s entries=%s processes=%d" % (
        len(digests), ",".join(str(v) for v in digests.values()), ",".join(digests), parse_reply(row0[1]).get("entries", "0"), procs)
    verdict = "ok" if len(digests) == 1 else "FAIL nondeterministic digests differ between fresh processes"
    req = row0[0].replace(" n=1", " n=%d" % procs)
    dyn.handle("c03-pipeline", {"cfg": recipe["cfg"], "mode": mode, "n": 40, "name": recipe["name"] + ":" + mode, "site": recipe["site"], "pipeline": recipe["name"]},
               [[req, reply, verdict]], recipe["expect"])


UNIT_KNOWN = set()  # recipes at sites listed in Cog.Det.knownNondeterministic (none today: all repaired)


def main():
    c = Check("C03")
    c.trusted = [
        "Lean 4.33 kernel; axioms per theorem are listed in obligation_list (subset of propext, Classical.choice, Quot.sound)",
        "Go specification: a single-threaded program's only scheduling freedom is the iteration order of `range` over a map (modelled as an arbitrary permutation, re-drawn at every execution); text/template ranges maps in sorted key order; encoding/json sorts map keys; os.ReadDir/filepath.WalkDir/Glob are lexical",
        "the extractor /verif/extract/xmaprange (go/packages + go/types): finds every map range and every call of an order-leaking function; its loop-effect classifier is syntactic and conservative (unknown => not admissible)",
        "effects of functions called from a loop body are not analysed: every such module function is listed per site and must be on Cog.Det.reviewedCallees (hand review, pinned to sort facts where the review relies on a later sort)",
        "Cog.Det.reviewedSites: sites the classifier cannot prove, reviewed by hand, matched by file+function+kind+effects",
        "static reachability (reference graph over the module, cmd/cli + public API as roots) decides outsideRun; it errs towards reachable",
        "codejen: generated files live in a path-keyed FS, duplicate path is an error, AsFiles is sorted by path (S_emit_files / S_merge_fs model exactly that)",
        "the observable excludes the text of error messages and progress output (N_error_value shows why)",
        "dynamic recipes sample iteration orders (Go randomises per range); a site whose map never holds two entries in any recipe is validated by the proof only",
    ]
    hb, err = build_go("verifharness", "harness", files=["main.go", "prng.go", "util.go", "c03_*.go"], tag="c03")
    c.oblige("harness builds against /repo working tree", hb is not None, err)
    if c.replay:
        if hb is None:
            sys.exit(2)
        rp = json.load(open(c.replay))
        if "stream" not in rp:
            print("replay names broken obligations, no concrete input:", rp.get("broken"), rp.get("offending"))
            sys.exit(1)
        args = dict(rp["args"])
        if rp["stream"] == "c03-pipeline":
            recs = {r["name"]: r for r in gen_c03.write_pipelines(PIPES)}
            args["cfg"] = recs[args.pop("pipeline")]["cfg"]
        args["n"] = max(int(args.get("n", 40)), 80)
        rows = harness(hb, rp["stream"], **args)
        bad = False
        for r in rows:
            print("replay:", " | ".join(r))
            bad = bad or (len(r) > 2 and r[2].startswith("FAIL"))
        sys.exit(1 if bad else 0)

    # ---- 1. regenerated facts
    ok, detail = gen_c03.regen(locked=True)
    c.oblige("xmaprange extracts the map-range table from /repo", ok, detail)
    table = gen_c03.load_sites() if ok and os.path.exists(gen_c03.SITES_JSON) else {"sites": [], "impure": [], "sorts": []}
    per_effect, per_kind = {}, {}
    for s in table["sites"]:
        per_kind[s["kind"]] = per_kind.get(s["kind"], 0) + 1
        for e in s["effects"] or ["pureLookup"]:
            per_effect[e] = per_effect.get(e, 0) + 1
    c.cov["sites_total"] = len(table["sites"])
    c.cov["sites_per_kind"] = per_kind
    c.cov["sites_outside_run"] = len([s for s in table["sites"] if s["outsideRun"]])
    c.cov["sites_per_effect"] = dict(sorted(per_effect.items()))
    c.cov["impure_uses"] = [("%s:%s %s" % (f["file"], f["func"], f["what"])) + (" (outside run)" if f["outsideRun"] else "") for f in table["impure"]]
    c.cov["sort_facts"] = len(table["sorts"])
    c.cov["extractor"] = detail

    # ---- 2. proof obligations
    off, off_err = offending_sites()
    if off is None:
        c.oblige("Cog.Det.Review builds against the regenerated table", False, off_err)
        off = []
    bad_sites = [l for l in off if l.startswith(("SITE ", "IMPURE ", "SHALLOW "))]
    c.cov["known_sites_present"] = next((l for l in off if l.startswith("KNOWN-PRESENT")), "")
    c.oblige("every map-range site is outside a run, proved admissible, reviewed, or a listed known site", not bad_sites, bad_sites)
    c.lean_obligations(THEOREMS, targets=("Cog.Props.C03",))

    if hb is None:
        c.finish("lake build Cog.Props.C03 && #print axioms", "n/a")

    # ---- 3. dynamic validation (always) = the search (when an obligation broke: more volume)
    broke = bool(c.failed_obligations())
    thorough = c.tier == "thorough"
    boost = 3 if broke else 1
    dyn = Dyn(c, hb, {l[len("KNOWN-SITE "):].strip() for l in off if l.startswith("KNOWN-SITE ")})
    n_unit = (1000 if thorough else 80) * boost
    for k in ((2, 3, 4, 6) if thorough else (2, 4)):
        dyn.unit(n_unit, k)
    recipes = gen_c03.write_pipelines(PIPES, k=5 if thorough else 3)
    for r in recipes:
        for mode in r["modes"]:
            if r["expect"] == "known":
                n = 300 if thorough else 60
            elif r["name"] == "clean" and mode == "files":
                n = (300 if thorough else 40) * boost
            else:
                n = (200 if thorough else 30) * boost
            dyn.pipeline(r, mode, n)
        if r["expect"] == "deterministic" and "files" in r["modes"]:
            across_processes(dyn, r, "files", 12 if thorough else 3)
    c.cov["recipes_run"] = len(dyn.rows)
    c.cov["repetitions_total"] = c.cov["evaluations"]
    c.cov["known_sites_observed_nondeterministic"] = {k: v for k, v in sorted(dyn.known_expected.items())}
    c.oblige("every recipe expected to be deterministic runs to completion (no vacuous comparison)", not dyn.broken, dyn.broken[:5])

    # ---- 4. broken obligation and nothing found: name the site
    if c.failed_obligations() and not c.violation_lines:
        c.violation({"kind": "obligation-broken", "broken": [f[0] for f in c.failed_obligations()],
                     "offending": bad_sites, "detail": [str(f[2])[:2000] for f in c.failed_obligations()][:6],
                     "searched": "%d recipe rows, %d runs of the real code, no order-dependent output outside the known findings" % (len(dyn.rows), c.cov["evaluations"])},
                    found_input=False)
    c.finish("python3 tools/regen.py && cd /verif/lean && lake build Cog.Props.C03 && lake env lean <#print axioms of the C03_*/S_*/N_* theorems>",
             "one evaluation = one execution of the real code (a unit recipe on internal packages, or codegen.Pipeline LoadSchemas/ContextForLanguage/Run on a generated config with all seven languages) compared by sha256 over sorted (path, bytes) / IR JSON with the other executions of the same recipe; non-trivial = recipe produced at least one document; distinct by (recipe, digest set)",
             "The Lean obligation decides the complete regenerated site table; the dynamic part validates the classification (admissible/reviewed sites must show one digest, known sites are expected to show several) and is the search when an obligation breaks.")


if __name__ == "__main__":
    # the regenerated table (lean/Cog/Gen/MapRangeSites.lean), sites.json and the generated
    # pipeline configurations are shared state: two C03 runs (e.g. against different VERIF_REPO
    # copies) must not interleave
    with Lock("c03-check"):
        main()
