"""C20 — configuration files are decoded strictly and the published schemas accept exactly the
keys the loaders accept."""
import collections, glob, json, os, re, shutil, subprocess, sys
from verifkit.core import *
from verifkit import gen_c20

THEOREMS = [
    "Cog.Config.C20_unknown_key_rejected", "Cog.Config.C20_all_structs_closed",
    "Cog.Config.C20_unknown_key_rejected_by_loader", "Cog.Config.C20_unknown_key_rejected_by_schema",
    "Cog.Config.C20_empty_rule_rejected", "Cog.Config.C20_empty_entries",
    "Cog.Config.C20_empty_rule_full_counterexample", "Cog.Config.C20_rule_members_complete",
    "Cog.Config.C20_loaded_rules_have_action", "Cog.Config.C20_tables_bisimilar",
    "Cog.Config.C20_keys_agree", "Cog.Config.C20_decoders_strict",
    "Cog.Config.C20_full_counterexample", "Cog.Config.C20_partial_holds",
    "Cog.Config.bisim_sound", "Cog.Config.insert_unknown_rejected",
]
MINE = ("lean/Cog/Config/", "lean/Cog/Props/C20.lean", "lean/Cog/Gen/ConfigFacts.lean")
C20DIR = os.path.join(WORK, "c20")
# the one mechanism that is reported as a candidate finding while known_findings.json has no
# entry for it (see the final report of the C20 check): a null item of a rule list
CANDIDATE = {
    "id": "C20/rule-list/null-item-dropped",
    "match": r"^(compiler|veneers) \{.*\b(passes|builders|options) \[[^\]]*\bn\b.*\tFAIL null-entry",
    "what": "a null item (`- ~` or a bare `-`) in passes/builders/options is silently dropped by yaml.v3 "
            "(null into a struct element) instead of being rejected as an empty rule",
}


def build_harness():
    """The C20 streams only need harness/{main,prng,util}.go and harness/c20_*.go; building that
    subset keeps this check independent of the other properties' harness files."""
    src = os.path.join(C20DIR, "hsrc")
    os.makedirs(src, exist_ok=True)
    with Lock("c20-hsrc"):
        for f in glob.glob(os.path.join(src, "*.go")):
            os.remove(f)
        for f in ["main.go", "prng.go", "util.go"] + [os.path.basename(x) for x in glob.glob(os.path.join(VERIF, "harness", "c20_*.go"))]:
            shutil.copy(os.path.join(VERIF, "harness", f), os.path.join(src, f))
        return build_go("verifharness-c20", os.path.relpath(src, VERIF))


def model_eval(requests):
    """Evaluate the Lean model (strictDecode / pubAccepts / loadOK on the regenerated tables) on
    the request lines, through the Lean interpreter."""
    if not requests:
        return []
    wrapper = os.path.join(C20DIR, "run_eval.lean")
    with open(wrapper, "w") as fh:
        fh.write("import Cog.Config.Eval\ndef main (args : List String) : IO UInt32 := Cog.Config.evalMain args\n")
    cases = os.path.join(C20DIR, "cases_%d.txt" % os.getpid())
    with open(cases, "w") as fh:
        fh.write("\n".join(requests) + "\n")
    with Lock("lake"):
        p = run(["lake", "env", "lean", "--run", wrapper, cases], cwd=LEAN, timeout=3000)
    os.remove(cases)
    out = [l for l in p.stdout.split("\n") if l]
    if p.returncode != 0 or len(out) != len(requests):
        raise RuntimeError("model evaluator: rc=%s, %d replies for %d requests: %s" % (p.returncode, len(out), len(requests), (p.stderr or p.stdout)[-1500:]))
    return out


def same_reply(impl, model):
    a, b = impl.split(" "), model.split(" ")
    if len(a) != 3 or len(b) != 3:
        return False
    return a[0] == b[0] and a[1] == b[1] and (a[2] == "R=?" or a[2] == b[2])


VT_SCRIPT = r'''
import json, sys
from jsonschema import Draft202012Validator
repo = sys.argv[1]
schemas = {}
for line in sys.stdin:
    c = json.loads(line)
    if c["schema"] not in schemas:
        schemas[c["schema"]] = Draft202012Validator(json.load(open(repo + "/schemas/" + c["schema"])))
    addl = other = 0
    for e in schemas[c["schema"]].iter_errors(c["doc"]):
        if e.validator == "additionalProperties":
            addl += 1
        else:
            other += 1
    print(addl, other)
'''


def second_validator(rows, schema_of):
    """Independent YAML parser (PyYAML) + independent validator (python jsonschema, Draft 2020-12):
    must agree with santhosh-tekuri/jsonschema on whether there is an additionalProperties failure."""
    try:
        import yaml
    except ImportError:
        return None, "PyYAML not available"
    if not shutil.which("python3-vt"):
        return None, "python3-vt not available"
    lines, idx = [], []
    for i, r in enumerate(rows):
        d = json.loads(r[3])
        try:
            doc = yaml.safe_load(d["yaml"])
            lines.append(json.dumps({"schema": schema_of[d["file"]], "doc": doc}))
            idx.append(i)
        except Exception:
            continue
    p = subprocess.run(["python3-vt", "-W", "ignore", "-c", VT_SCRIPT, REPO], input="\n".join(lines) + "\n", capture_output=True, text=True, timeout=3000)
    out = [l for l in p.stdout.split("\n") if l]
    if p.returncode != 0 or len(out) != len(lines):
        return None, "python jsonschema run failed: " + p.stderr[-500:]
    dis = []
    for i, l in zip(idx, out):
        addl = int(l.split()[0])
        if (addl == 0) != ("P=1" in rows[i][1]):
            dis.append(rows[i])
    return dis, "%d documents" % len(lines)


def shrinker(hb, hargs):
    """greedy deletion of mapping entries / list items (PyYAML) while the oracle failure stays"""
    try:
        import yaml
    except ImportError:
        return lambda row: row

    def ev(case):
        tmp = os.path.join(C20DIR, "shrink_%d.jsonl" % os.getpid())
        open(tmp, "w").write(json.dumps(case) + "\n")
        rows = harness(hb, "c20-eval", **dict(hargs, **{"in": tmp}))
        os.remove(tmp)
        return rows[0]

    def paths(doc, pre=()):
        if isinstance(doc, dict):
            for k in list(doc):
                yield pre + (k,)
                yield from paths(doc[k], pre + (k,))
        elif isinstance(doc, list):
            for i in range(len(doc)):
                yield pre + (i,)
                yield from paths(doc[i], pre + (i,))

    def delete(doc, path):
        doc = json.loads(json.dumps(doc))
        cur = doc
        for s in path[:-1]:
            cur = cur[s]
        del cur[path[-1]]
        return doc

    def shrink(row):
        d = json.loads(row[3])
        cls = row[2][:40]
        try:
            doc = yaml.safe_load(d["yaml"])
            json.dumps(doc)
        except Exception:
            return row
        best, changed, budget = row, True, 200
        while changed and budget > 0:
            changed = False
            for pth in sorted(paths(doc), key=lambda p: -len(p)):
                budget -= 1
                if budget <= 0:
                    break
                try:
                    cand = delete(doc, pth)
                except Exception:
                    continue
                text = yaml.safe_dump(cand, default_flow_style=False)
                if d.get("key") and d["key"] not in text:
                    continue  # never shrink the injected / probed key away
                r = ev(dict(d, yaml=text))
                if r[2][:40] == cls:
                    doc, best, changed = cand, r, True
                    break
        return best
    return shrink


def main():
    c = Check("C20")
    c.trusted = [
        "Lean 4.33 kernel; axioms per theorem are listed in obligation_list (subset of propext, Classical.choice, Quot.sound); `decide +kernel` evaluates Bool checkers on the regenerated tables inside the kernel",
        "the extractor extract/xconfig (reflection over codegen.Pipeline / yaml.Compiler / yaml.Veneers with yaml.v3's tag rules, cross-checked on every run against yaml.v3's own answer to `k: null` probes under KnownFields(true); parser of the JSON-Schema subset of schemas/*.json; go/ast reading of the decoder sites and As…() functions); it refuses on unknown forms",
        "yaml.v3 strict decoding and JSON Schema `properties`/`additionalProperties`/`items`/`$ref` semantics are MODELLED (Cog/Config/Model.lean), tied by the correspondence streams (real loaders, santhosh-tekuri/jsonschema, python jsonschema) on generated documents; only key acceptance is claimed, value typing is outside the statement",
        "YAML syntax resolved before the model: anchors/aliases and merge keys (`<<`) (a few pinned cases are run on the real loaders), duplicate keys (yaml.v3 rejects them for structs)",
        "the harness' classification of loader errors by text (`not found in type`, `empty compiler pass`, `empty rule`) and of schema failures by keyword location (`/additionalProperties`)",
    ]
    c.assumptions = [
        "keys are interned (Nat ids into Cog.Gen.ConfigFacts.keyNames); a key outside the table is any id outside it",
        "C20_empty_rule_rejected needs the entry to be non-null: a null list item is dropped by yaml.v3 (C20_empty_rule_full_counterexample, replayed by stream c20-rules)",
    ]
    ok, detail = gen_c20.regen(in_session=True)
    c.oblige("extractor xconfig: static key tables == measured (yaml.v3 probes), schema subset understood, decoder sites and As…() shapes understood", ok, detail)
    facts = None
    tables = os.path.exists(gen_c20.OUT_JSON) and os.path.exists(gen_c20.OUT_LEAN)
    if tables:
        facts = json.load(open(gen_c20.OUT_JSON))
        c.cov["tables"] = {
            "keys": len(facts["keys"]), "structs": facts["structs"], "measured_probes": facts["measured_probes"],
            "decoder_sites": [{k: s[k] for k in ("file", "func", "known_fields", "loader")} for s in facts["sites"]],
            "files": {f["name"]: {"loader_structs": len(f["lenv"]), "loader_keys": sum(len(d["fields"] or []) for d in f["lenv"]),
                                   "published_defs": len(f["penv"]), "published_keys": sum(len(p.get("props") or []) for p in f["penv"]),
                                   "rule_unions": [{u["name"]: len(u["recognised"] or [])} for u in (f["unions"] or [])]} for f in facts["files"]},
        }
    hb, err = build_harness()
    c.oblige("harness (c20 subset) builds against /repo working tree", hb is not None, err)

    # ---- Lean obligations (only the modules C20 depends on are built and scanned)
    eval_ok, out = lake_build(("Cog.Config.Eval",)) if tables else (False, "no generated tables")
    c.oblige("lake build Cog.Config.Eval (model + regenerated tables + evaluator)", eval_ok, out[-2500:] if not eval_ok else "")
    lean_ok, out = lake_build(("Cog.Props.C20",)) if tables else (False, "no generated tables")
    c.oblige("lake build Cog.Props.C20", lean_ok, out[-3000:] if not lean_ok else "")
    hits = [h for h in forbidden_scan() if h.startswith(MINE)]
    c.oblige("no sorry/admit/axiom/native_decide/bv_decide/implemented_by/unsafe in the C20 lean sources", not hits, hits[:10])
    if lean_ok:
        res, text = audit(THEOREMS, ("Cog.Props.C20",))
        for t in THEOREMS:
            o, ax = res[t]
            c.oblige("theorem %s (axioms: %s)" % (t, ",".join(ax) or "none"), o, text[-1500:] if not o else "")
        if c.tier == "thorough" and shutil.which("leanchecker"):
            with Lock("lake"):
                p = run(["lake", "env", "leanchecker", "Cog.Props.C20"], cwd=LEAN, timeout=3000)
            c.oblige("leanchecker Cog.Props.C20", p.returncode == 0, (p.stdout + p.stderr)[-1500:])
    else:
        # the table-independent theorems live in the model modules and are still checked
        generic = ["Cog.Config.bisim_sound", "Cog.Config.insert_unknown_rejected"]
        gok, _ = lake_build(("Cog.Config.Bisim", "Cog.Config.Path"))
        res, text = audit(generic, ("Cog.Config.Bisim", "Cog.Config.Path")) if gok else ({}, "")
        for t in THEOREMS:
            if t in res:
                o, ax = res[t]
                c.oblige("theorem %s (axioms: %s)" % (t, ",".join(ax) or "none"), o, text[-1500:] if not o else "")
            else:
                c.oblige("theorem " + t, False, "Cog.Props.C20 does not build on the regenerated tables")

    checker_cmd = "cd /verif/lean && lake build Cog.Props.C20 && lake env lean <#print axioms of the C20_* theorems>  (tables regenerated by /verif/.work/bin/xconfig)"
    rule = ("documents generated from the regenerated loader key tables and, independently, from the published tables alone (also the fallback when the loader-side extractor refuses); the unknown key is injected at every mapping node of every document in turn; "
            "every (definition, key) of the loader tables and of the published tables probed in a minimal document; every rule-union member and the empty entries at every list position; "
            "non-trivial = any case other than an unmodified base document; distinct by (request, verdicts)")
    if hb is None or facts is None:
        c.finish(checker_cmd, rule)
    hargs = {"facts": gen_c20.OUT_JSON, "tmp": os.path.join(C20DIR, "tmp"), "repo": REPO}
    schema_of = {f["name"]: f["schema"] for f in facts["files"]}

    # ---- replay
    if c.replay:
        rp = json.load(open(c.replay))
        case = rp.get("case")
        if not case:
            print("replay: this replay file names broken obligations, not an input:", rp.get("broken"))
            sys.exit(1 if c.failed_obligations() else 0)
        tmp = os.path.join(C20DIR, "replay_%d.jsonl" % os.getpid())
        open(tmp, "w").write(json.dumps(case) + "\n")
        rows = harness(hb, "c20-eval", **dict(hargs, **{"in": tmp}))
        os.remove(tmp)
        r = rows[0]
        model = model_eval([r[0]])[0] if eval_ok else "model-unavailable"
        print("replay: request=%s\n impl=%s model=%s\n oracle=%s\n detail=%s" % (r[0], r[1], model, r[2], r[3]))
        bad = r[2].startswith("FAIL") or (eval_ok and not same_reply(r[1], model))
        sys.exit(1 if bad else 0)

    # ---- correspondence + oracle
    quick = c.tier == "quick"
    plan = [("c20-keypaths", {}), ("c20-rules", {"seed": c.seed}), ("c20-syntax", {}),
            ("c20-pubdocs", {"n": 60 if quick else 1200, "depth": 4 if quick else 6, "seed": c.seed}),
            ("c20-docs", {"n": 120 if quick else 2500, "depth": 4 if quick else 6, "seed": c.seed})]
    corpus = os.path.join(VERIF, "corpus", "C20.jsonl")
    if os.path.exists(corpus):
        plan.insert(0, ("c20-eval", {"in": corpus}))
    sh = shrinker(hb, hargs)
    reported = 0
    weak_fails = []
    first_dis = None
    classes = collections.Counter()
    candidates = []
    for stream, kw in plan:
        raw = harness(hb, stream, **dict(hargs, **kw))
        rows = [r for r in raw if r[0] != "#stats" and len(r) >= 4]
        for r in raw:
            if r[0] == "#stats":
                c.cov["streams"].setdefault(stream, {"evaluations": 0})["harness_stats"] = json.loads(r[1])
        model = model_eval([r[0] for r in rows]) if eval_ok else None
        dis = [(r, m) for r, m in zip(rows, model) if not same_reply(r[1], m)] if model else []
        fails = [r for r in rows if r[2].startswith("FAIL ")]
        weak_fails.extend((stream, kw, r) for r in rows if r[2].startswith("FAIL-WEAK"))
        nt = [r[0] + "|" + r[1] + "|" + r[2][:20] for r in rows if '"what":"base' not in r[3]]
        c.count(stream, len(rows), nt, samples=[{"stream": stream, "request": r[0][:300], "impl": r[1], "oracle": r[2][:200]} for r in rows[:: max(1, len(rows) // 2)][:2]])
        st = c.cov["streams"][stream]
        st["model_compared"] = len(model) if model else 0
        st["disagreements"] = len(dis)
        st["oracle_failures"] = len(fails)
        c.cov["disagreements_checked"] += len(model) if model else 0
        c.cov["oracle_failures"] += len(fails)
        for r in rows:
            classes[json.loads(r[3])["what"] + "/" + json.loads(r[3])["class"]] += 1
        # second, independent validator of the published schemas
        if stream in ("c20-keypaths", "c20-docs", "c20-pubdocs"):
            sub = rows if quick or stream == "c20-keypaths" else rows[:: max(1, len(rows) // 20000)]
            vd, note = second_validator(sub, schema_of)
            st["python_jsonschema"] = note if vd is None else "%s, %d disagreements with santhosh-tekuri" % (note, len(vd))
            if vd:
                r = vd[0]
                c.violation({"kind": "validators-disagree", "stream": stream, "broken": "python jsonschema and santhosh-tekuri/jsonschema disagree on additionalProperties",
                             "request": r[0], "impl": r[1], "case": json.loads(r[3])}, found_input=False)
        seen = {}
        for r in fails:
            d = json.loads(r[3])
            cls = d["file"] + "|" + d["what"] + "|" + re.sub(r"[0-9]+", "N", r[2])[:120]
            if cls in seen:
                if seen[cls]:
                    c.known_hit[seen[cls]] = c.known_hit.get(seen[cls], 0) + 1
                continue
            if stream in ("c20-docs", "c20-pubdocs"):
                r = sh(r)
                d = json.loads(r[3])
            text = r[0] + "\t" + r[2]
            kf = c.match_known(text)
            seen[cls] = kf["id"] if kf else None
            if kf:
                continue
            if re.search(CANDIDATE["match"], text, re.S):
                if not any(x["yaml"] == d["yaml"] for x in candidates):
                    candidates.append({"id": CANDIDATE["id"], "request": r[0], "yaml": d["yaml"], "impl": r[1], "oracle": r[2]})
                continue
            if reported < 5:
                c.violation({"kind": "oracle-failure", "stream": stream, "args": kw, "request": r[0], "impl": r[1], "oracle": r[2],
                             "case": {k: d[k] for k in ("file", "what", "path", "key", "yaml")}, "loader_error": d["loader"], "schema_error": d["schema"]})
                reported += 1
        if dis and first_dis is None:
            first_dis = (stream, kw, dis)
    if weak_fails and not reported:
        # no document with an unknown key was ACCEPTED; the only anomaly is that some are rejected
        # without the key being named. Still a broken correspondence (the model says: key error).
        seenw = set()
        for stream, kw, r in weak_fails:
            d = json.loads(r[3])
            cls = d["file"] + "|" + d["what"] + "|" + d["class"]
            if cls in seenw or c.match_known(r[0] + "\t" + r[2]):
                continue
            seenw.add(cls)
            if reported < 3:
                c.violation({"kind": "oracle-failure-weak", "stream": stream, "args": kw, "request": r[0], "impl": r[1], "oracle": r[2],
                             "case": {k: d[k] for k in ("file", "what", "path", "key", "yaml")}, "loader_error": d["loader"], "schema_error": d["schema"]})
                reported += 1
    c.cov["weak_oracle_failures"] = len(weak_fails)
    if first_dis and not reported:
        # the model no longer describes the code and the oracle found no failing input
        stream, kw, dis = first_dis
        r, m = dis[0]
        d = json.loads(r[3])
        c.violation({"kind": "correspondence-broken", "stream": stream, "args": kw,
                     "broken": "stream %s: the Lean model's verdict differs from the implementation's" % stream,
                     "request": r[0], "impl": r[1], "model": m, "oracle": r[2], "n_disagreements": len(dis),
                     "case": {k: d[k] for k in ("file", "what", "path", "key", "yaml")}}, found_input=False)
    c.cov["distribution"] = dict(classes)
    if candidates:
        c.cov["candidate_findings"] = {"id": CANDIDATE["id"], "what": CANDIDATE["what"], "match": CANDIDATE["match"],
                                        "n": len(candidates), "pinned": candidates[0]}
        log("CANDIDATE-FINDING (not in known_findings.json): property=C20 %s [%s] pinned input: %r" % (CANDIDATE["what"], CANDIDATE["id"], candidates[0]["yaml"]))
    shutil.rmtree(os.path.join(C20DIR, "tmp"), ignore_errors=True)
    c.finish(checker_cmd, rule,
             explanation="proof over regenerated facts: key tables of the three loaders (measured with yaml.v3) and of schemas/*.json are proved bisimilar by a kernel-evaluated checker lifted to all documents by bisim_sound; unknown key at any depth by induction on the path")


with gen_c20.session():
    main()
