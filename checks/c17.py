"""C17 — builder transformations keep builders well-typed and do only what they document."""
import collections, json, os, re, sys
from verifkit.core import *
import time
import verifkit.core as _core

_orig_drv = _core.drv


def _drv_retry(lines, timeout=1800):
    """the driver binary is re-linked by `lake build drv` of concurrently running checks: retry"""
    for _ in range(8):
        try:
            return _orig_drv(lines, timeout)
        except (FileNotFoundError, PermissionError, OSError):
            time.sleep(8)
            lake_build(("drv",))
    return _orig_drv(lines, timeout)


_core.drv = _drv_retry
drv = _drv_retry

THEOREMS = ["Cog.Builder." + t for t in [
    "C17_builder_omit_removes", "C17_builder_rename_only_renames", "C17_builder_frame_inplace",
    "C17_builder_duplicate_shape", "C17_builder_duplicate_identical",
    "C17_builder_duplicate_dropped_defaults_before_fix", "C17_builder_merge_into_frame", "C17_builder_compose_frame",
    "C17_option_omit_removes", "C17_option_rename_only_renames", "C17_option_add_comments_only_comments",
    "C17_option_duplicate_shape", "C17_option_duplicate_identical", "C17_option_duplicate_dropped_default_before_fix",
    "C17_array_to_append_same_target", "C17_map_to_index_same_target", "C17_unfold_boolean_same_target",
    "C17_struct_fields_as_options_same_targets", "C17_struct_fields_as_arguments_same_targets",
    "C17_disjunction_as_options_same_target", "C17_disjunction_index_out_of_range_unchanged",
    "C17_disjunction_index_out_of_range_panicked_before_fix", "C17_rule_argument_private_since_fix",
    "C17_builder_rule_preserves", "C17_option_rule_preserves", "C17_seq", "C17_seq_counterexample",
    "C17_seq_counterexample_shared_pointer", "C17_seq_counterexample_unfold_after_index",
    "C17_frame_norules_partial", "C17_frame_norules_counterexample", "C17_frame_counterexample_shared_pointer",
    "C17_option_frame", "C17_option_frame_counterexample", "C17_seq_counterexample_sf_opts_after_append", "C17_seq_counterexample_only_first_assignment", "C17_seq_counterexample_promote_first_argument_only", "C17_seq_counterexample_map_to_index_after_append", "C17_seq_counterexample_sf_args_prefix_of_first_assignment", "C17_seq_counterexample_sf_opts_after_index",
    "C17_derived_WT", "C17_end_to_end", "C17_derived_option_fresh", "C17_array_to_append_preserves_fresh",
    "C17_map_to_index_preserves_fresh", "C17_unfold_boolean_preserves_fresh",
]]
WITNESSES = ["dup-option-default", "dup-builder-default", "dismissed", "rename-args-constraint",
             "promote-array-to-append", "merge-rename-arguments", "map-index-unfold", "sf-opts-after-append", "add-assignment-array-to-append", "map-index-promote", "append-then-map-to-index", "sf-args-twice", "map-index-sf-opts"]
# fixed in /repo 71b1811 (Option.DeepCopy copies Default): replayed as must-pass, a relapse is a violation
MUST_PASS = {"dup-option-default", "dup-builder-default"}
# deterministic regression inputs without a Lean witness term: the real code must pass the oracle and
# agree with the model (request through the driver)
MUST_PASS_PINNED = ["merge-into-3-segments", "disjunction-index-out-of-range", "add-assignment-two-options-rename-one"]
# Sent to the coordinator for /verif/known_findings.json; used only while that file does not list the id.
PENDING = [{
 "id": "C17/struct_fields_as_options/index-argument-dropped",
 "property": "C17",
 "what": "option.StructFieldsAsOptionsAction builds one option per field of the first argument around `oldAssignments[0].Path` as it is and declares only that field as argument: after map_to_index the first argument is the map KEY and the path contains an index item whose `PathIndex.Argument` (`key`) none of the new options declares (sibling of C17/unfold_boolean/index-argument-dropped; needs a map whose key type is a struct or a reference to one)",
 "match": "FAIL wt-broken\\(option-struct_fields_as_options/option/index-argument-undeclared(/after-[a-z_+]+)?\\):",
 "pinned": "0:0:pinned:map-index-sf-opts:",
 "pinned_input": "schemas: package p { S = \u2026; K = struct { h?: bool }; MK = struct { items?: map[ref p.K]string } }; veneers (language all, package p): options: - map_to_index: {by_name: MK.items} - struct_fields_as_options: {by_name: MK.items}  ->  option h of builder MK has Args [h bool] and assigns path items[key].h with `key` undeclared"
}]
FIXED_IDS = {"C17/duplicate-option/default-dropped", "C17/duplicate-builder/option-defaults-dropped"}
GO_ONLY_PINNED = ["compose-then-initialize"]
FILES = HARNESS_BASE + ["vir_builders.go", "c16_*.go", "c17_*.go"]


def vclass(v):
    if not v.startswith("FAIL"):
        return ""
    return v[5:].split(":")[0]


def case_of(rp):
    if rp.get("case"):
        return rp["case"]
    m = re.search(r"\[case=([^\]]*)\]", rp.get("oracle", ""))
    return m.group(1) if m else None


def main():
    c = Check("C17")
    # repaired in /repo 71b1811: these entries explain nothing any more, whatever known_findings.json still lists
    c.known = [f for f in c.known if f["id"] not in FIXED_IDS]
    c.known += [f for f in PENDING if f["id"] not in {k["id"] for k in c.known}]
    c.trusted = [
        "Lean 4.33 kernel; axioms per theorem are listed in obligation_list (subset of propext, Classical.choice, Quot.sound)",
        "hand-written model lean/Cog/Builder/Veneers.lean of internal/veneers/{builder,option,rewrite} + internal/yaml veneer glue + internal/veneers/types.go, tied by the c17-veneer correspondence stream: generated rule files are loaded THROUGH yaml.VeneersLoader and applied by rewrite.Rewriter.ApplyTo; the model gets the same files as decoded by yaml.v3 into yaml.Veneers (second decode, same settings)",
        "pointer identities (Cog/Builder/Alias.lean) model shared *Argument pointees and Args arrays; append-capacity aliasing of ComposeBuilders (shared backing arrays of Constructor.Assignments / Properties) and its Go-map iteration order are NOT modelled: such sequences are flagged `hazard-*` by the harness, judged by the oracle only, and counted in the evidence",
        "ASCII models of strings.EqualFold / tools.LowerCamelCase / UpperCamelCase / Singularize / strings.Cut (exhaustive short-string stream c17-str)",
        "VIR codecs (Go encoders, Lean decoders) incl. the rule-file encoding harness/c17_rules_vir.go; VeneerTrail is not compared",
        "the implementation-side oracle harness/c17_oracle.go (stepwise re-application with the real rule functions, independent selectors, goWT) and its equality with Rewriter.ApplyTo, checked on every case",
    ]
    hb, err = build_go("verifharness", "harness", files=FILES, tag="c17")
    c.oblige("harness builds against the repository working tree", hb is not None, err)
    c.lean_obligations(THEOREMS)
    if hb is None:
        c.finish("lake build && lake env lean <audit>", "n/a")

    def shrink(row):
        if len(row) < 4:
            return row
        rows = harness(hb, "c17-eval", case=row[3], shrink=1)
        return rows[0] if rows else row

    if c.replay:
        rp = json.load(open(c.replay))
        case = case_of(rp)
        if not case and rp.get("request") and rp.get("args"):
            for r in harness(hb, rp.get("stream", "c17-veneer"), **rp["args"]):
                if r[0] == rp["request"]:
                    case = r[3]
                    break
        if not case:
            print("replay file names no harness case (obligation-level violation):", rp.get("broken"))
            sys.exit(1)
        row = harness(hb, "c17-eval", case=case, dump=1)[0]
        model = drv([row[0]])[0] if row[0] != "-" else row[1]
        print("replay case=%s\n request: %s\n impl   : %s\n model  : %s\n oracle : %s" % (case, row[0][:3000], row[1][:3000], model[:3000], row[2]))
        bad = model != row[1] or (row[2].startswith("FAIL") and not c.match_known(row[0] + "\t" + row[2]))
        sys.exit(1 if bad else 0)

    # 0. string helpers
    c.correspond(hb, "c17-str", nontrivial=lambda r: len(r[1]) > 3, **{"len": 4 if c.tier == "quick" else 5})

    # 1. the Lean counterexample witnesses replayed on the real code (= pinned inputs of the findings)
    for name in WITNESSES:
        must_pass = name in MUST_PASS
        case = "0:0:pinned:%s:" % name
        row = harness(hb, "c17-eval", case=case)[0]
        lw = drv(["c17witness " + name])[0]
        lss, _, lres = lw.partition(" => ")
        c.oblige("witness %s: Lean term and harness input have the same schemas (VIR text)" % name, (" " + lss + " ") in row[0], row[0][:300])
        c.oblige("witness %s: evaluating the Lean witness term gives the real Rewriter's output" % name, lres == row[1], (lres[:300], row[1][:300]))
        model = drv([row[0]])[0]
        c.oblige("witness %s: model reply on the harness request equals the real output" % name, model == row[1], (model[:300], row[1][:300]))
        if row[2].startswith("FAIL"):
            if must_pass or not c.match_known(row[0] + "\t" + row[2]):
                c.violation({"kind": "oracle-failure", "stream": "c17-pinned", "case": case, "request": row[0], "impl": row[1], "oracle": row[2]})
            if must_pass:
                c.oblige("pinned input %s (fixed in /repo) passes on the real code" % name, False, row[2])
        elif not must_pass:
            c.oblige("witness %s still fails on the real code (else: the model and the _counterexample theorem must change with the code)" % name, False, row[2])
        c.count("c17-pinned", 1, [row[0]])

    # 1b. pinned inputs of findings the Lean model does not cover (hazard domain): real code + oracle only
    for name in GO_ONLY_PINNED:
        case = "0:0:pinned:%s:" % name
        row = harness(hb, "c17-eval", case=case)[0]
        if row[2].startswith("FAIL"):
            if not c.match_known(row[0] + "\t" + row[2]):
                c.violation({"kind": "oracle-failure", "stream": "c17-pinned", "case": case, "request": row[0], "impl": row[1], "oracle": row[2]})
        else:
            log("pinned input %s no longer fails on the real code" % name)
        c.count("c17-pinned", 1, [case])

    for name in MUST_PASS_PINNED:
        case = "0:0:pinned:%s:" % name
        row = harness(hb, "c17-eval", case=case)[0]
        model = drv([row[0]])[0] if row[0] != "-" else row[1]
        c.oblige("pinned input %s: model reply equals the real output" % name, model == row[1], (model[:300], row[1][:300]))
        c.oblige("pinned input %s passes the oracle on the real code" % name, row[2] == "ok", row[2])
        if row[2] != "ok" or model != row[1]:
            c.violation({"kind": "oracle-failure" if row[2] != "ok" else "correspondence-broken", "stream": "c17-pinned", "case": case,
                         "request": row[0], "impl": row[1], "model": model, "oracle": row[2]}, found_input=True)
        c.count("c17-pinned", 1, [case])

    # 2. correspondence + oracle
    n = 2500 if c.tier == "quick" else 60000
    dist = collections.Counter()
    rows, dis, fails = c.correspond(hb, "c17-veneer", nontrivial=lambda r: r[1].startswith("ok ") and r[0] != "-" and r[1][3:] != r[0][r[0].rindex(" (builders"):][1:],
                                    classify=lambda r: vclass(r[2]), shrink=shrink, n=n, seed=c.seed, tier=c.tier)
    for r in rows:
        dist["impl:" + r[1].split(" ")[0]] += 1
        if r[2].startswith("FAIL"):
            dist["oracle:" + vclass(r[2])] += 1
        for part in (r[4].split(",") if len(r) > 4 and r[4] else []):
            k, _, v = part.rpartition(":")
            if v in ("panic", "err"):
                dist["step-%s:%s" % (v, k)] += 1
            elif v.isdigit() and k != "dismiss":
                dist["step-selected>0:" + k] += 1 if int(v) > 0 else 0
                dist["step-applied:" + k] += 1
        if r[0] != "-":
            rules = r[0][:r[0].index("(schemas")]
            for k in re.findall(r"\((omit|rename|merge_into|compose|properties|duplicate|initialize|promote|add_option|add_factory|rename_arguments|unfold_boolean|sf_args|sf_opts|array_to_append|map_to_index|disj_as_opts|add_assignment|add_comments|empty) ", rules):
                dist["rule:" + k] += 1
            if r[1].startswith("ok ") and r[1][3:] != r[0][r[0].rindex(" (builders"):][1:]:
                dist["changed-builders"] += 1
    # 3. the well-typedness predicate itself: Lean WT vs Go goWT on real outputs
    wrows, wdis, _ = c.correspond(hb, "c17-wt", nontrivial=lambda r: "f" in r[1], n=n // 2, seed=c.seed + 1000, tier=c.tier)
    dist["wt:outputs-not-well-typed"] = sum(1 for r in wrows if "f" in r[1])
    derived = [r for r in wrows if len(r) > 3 and r[3].endswith("derived")]
    bad = [r for r in derived if "f" in r[1]]
    c.oblige("conclusion of C17_derived_WT on the real code: all %d derived builder sets (FromAST outputs) are well-typed" % len(derived), not bad, [b[3] for b in bad[:5]])
    for b in bad[:2]:
        c.violation({"kind": "oracle-failure", "stream": "c17-wt", "case": b[3][:-len("derived")], "request": b[0], "impl": b[1], "oracle": "FAIL derived-builders-not-well-typed: " + b[1]})
    c.cov["distribution"] = dict(dist)
    c.finish("cd /verif/lean && lake build Cog.Props.C17 drv && lake env lean <#print axioms of the C17_* theorems>; harness c17-veneer / c17-wt / c17-str vs drv; harness oracle",
             "schema sets (C16 generator + arrays, maps, booleans, struct-typed and disjunction-typed fields) -> FromAST -> 1-4 (thorough 1-8) rules of all 10 builder and 12 option kinds in 1-3 files (languages all / go / java, selectors exact / case-variant / missing / empty), through the YAML loader; non-trivial = the rewriter changed the builders; distinct by (rules, schemas, result)")


main()
