"""C02 — a successful run only emits well-formed code; unsupported constructs are errors.

proof (Lean): declaration fragment of the Go output and class-declaration fragment of the Python output
(lean/Cog/Props/C02.lean), both tied to the real printers and compilers on every run;
exploration (labs): everything rendered by templates, all other languages, placeholder scan.
"""
import json, os, re, sys, time, collections
from verifkit.core import *

THEOREMS = [
    "Cog.C02.C02_go_decls_partial", "Cog.C02.C02_go_decls_partial_all_flags", "Cog.C02.C02_welltyped_no_placeholder",
    "Cog.C02.C02_placeholder_iff", "Cog.C02.C02_decl_printers_never_err",
    "Cog.C02.C02_counterexample_list_default_of_ints", "Cog.C02.C02_counterexample_enum_member_collision",
    "Cog.C02.C02_counterexample_ref_to_constant", "Cog.C02.C02_counterexample_unknown_type_hint",
    "Cog.C02.C02_counterexample_exponent_literal", "Cog.C02.C02_counterexample_field_collision",
    "Cog.C02.C02_errors_counterexample",
    # Python class-declaration fragment
    "Cog.C02.C02_py_declarations_wellformed_partial", "Cog.C02.C02_py_annotations_evaluate", "Cog.C02.C02_py_imports_cover",
    "Cog.C02.C02_py_full_counterexample", "Cog.C02.C02_py_trim_collision", "Cog.C02.C02_py_counterexample_keyword",
    "Cog.C02.C02_py_counterexample_empty_struct",
]
FILES = HARNESS_BASE + ["lab_*.go", "src_*.go", "c02_*.go", "c05_virdec.go"]   # c05_virdec.go: VIR decoder for --replay of pydecl cases


# Known findings of C02 live in /verif/known_findings.json only (44 entries merged by the coordinator):
# one entry per mechanism for Go types_gen.go / Python / Java / PHP on source schemas (diagnostic class +
# the construct or flags the mechanism needs), class-level entries for directly constructed IR, and two
# catch-alls for the long tails (Go builders / converters; IR shapes). There is NO catch-all for Java,
# Python or Go's types_gen.go on source schemas: an unknown diagnostic class there is a VIOLATION.

STATS = collections.Counter()
SHRUNK = [0]
HYP = collections.Counter()
PY = collections.Counter()
PYHYP = collections.Counter()
PY_PROPOSED = os.path.join(VERIF, "checks", "c02.pydecl.proposed_findings.json")


def split_model(m):
    p = m.split(" ", 3)
    return (p[0], p[1] if len(p) > 1 else "", p[2] if len(p) > 2 else "", p[3] if len(p) > 3 else "")


def reconcile_py(req, impl, model):
    """pydecl rows: CPython's verdict on models/<pkg>.py (compile + fresh import) and the module text against the
    model's verdict (checker on the module and the sibling modules it imports) and rendering (exact text)."""
    iv, _, itext = impl.partition(" ")
    p = (model.split(" ", 4) + [""] * 5)[:5]
    mv, mdiag, mhyp, mlint, mtext = p
    iok = iv == "ok"
    PY["modules"] += 1
    PY["cpython-" + ("accepts" if iok else "rejects")] += 1
    PYHYP[(mhyp, mlint, "accepts" if iok else "rejects:" + iv.split(":")[0])] += 1
    if mv == "unmodelled":
        PY["model-unmodelled:" + mdiag[:60]] += 1
        return "unmodelled", "unmodelled"
    if mv == "crash":
        return "run-succeeded", "crash " + mdiag
    if mv not in ("ok", "illformed"):
        return impl[:200], "bad-model-reply " + model[:200]
    if mhyp == "hyp:ok" and not iok and mlint != "lint:import-cycle":
        # an instance of C02_py_declarations_wellformed_partial that CPython refutes: the checker is too weak
        return "impl:" + iv, "theorem-instance-refuted hyp:ok model:" + mv
    if itext != mtext:
        k = 0
        while k < min(len(itext), len(mtext)) and itext[k] == mtext[k]:
            k += 1
        return "text@%d:%s" % (k, itext[max(0, k - 60):k + 80]), "text@%d:%s" % (k, mtext[max(0, k - 60):k + 80])
    if mlint == "lint:import-cycle":
        # CPython's verdict on mutually importing modules depends on which one is imported first: outside the checker
        PY["import-cycle-not-compared"] += 1
        return "agree", "agree"
    if iok != (mv == "ok"):
        return "verdict:" + iv, "verdict:" + mv + ":" + mdiag
    PY["agree-" + mv] += 1
    return "agree", "agree"


def reconcile(req, impl, model):
    """godecl rows: the Go type checker's verdict on the declaration fragment and the fragment's text
    (white space removed) against the model's verdict and rendering."""
    if req.startswith("pydecl "):
        return reconcile_py(req, impl, model)
    if not req.startswith("godecl "):
        return impl, model
    iv, _, itext = impl.partition(" ")
    mv, mdiag, mhyp, mtext = split_model(model)
    icoarse = iv.split(":")[0]
    STATS["decl-fragments"] += 1
    STATS["impl-" + icoarse] += 1
    HYP[(mhyp, icoarse)] += 1
    if mv == "crash":
        STATS["model-crash"] += 1
        return "crash?", "crash " + mdiag          # the run succeeded but the model says the printer crashes
    if mhyp == "hyp:ok" and icoarse != "welltyped":
        # an instance of C02_go_decls_partial that the Go compiler refutes: the checker is too weak
        return "impl:" + iv, "theorem-instance-refuted hyp:ok model:" + mv
    if itext != mtext:
        k = 0
        while k < min(len(itext), len(mtext)) and itext[k] == mtext[k]:
            k += 1
        return "text@%d:%s" % (k, itext[max(0, k - 40):k + 60]), "text@%d:%s" % (k, mtext[max(0, k - 40):k + 60])
    if icoarse != mv:
        return "verdict:" + iv, "verdict:" + mv + ":" + mdiag
    STATS["agree-" + mv] += 1
    return "agree", "agree"


def classify(r):
    v = r[2]
    m = re.search(r"FAIL (\S+) (?:pinned=\S+ )?lang=(\S+) class=(\S+)", v)
    if m:
        fmt = re.search(r"format=(\S+)", v)
        return "%s %s %s %s" % (m.group(1), m.group(2), m.group(3), "ir" if fmt and fmt.group(1) == "ir" else "src")
    return re.sub(r"[0-9]+", "N", v)[:160]


def main():
    c = Check("C02")
    c.trusted = [
        "Lean 4.33 kernel; axioms per theorem in obligation_list",
        "PROVED (lean/Cog/Props/C02.lean): for every Go configuration, GoPrintable S and wfNames S imply that the declaration printers finish and everything they print (type declarations, struct fields and tags, enum const blocks, constructor default literals) is accepted by the fragment checker `wellTyped`; the emitted declarations contain a placeholder iff the IR has one of the listed shapes (no hypotheses); six evaluated counterexamples to the unconditional statement",
        "PROVED (lean/Cog/Props/C02.lean, Python): for every schema set and every snake-case function, PyPrintable and wfNamesPy imply that the Python declaration printers (rawtypes.go, types.go, tools.go, imports.go: import block, class / enum headers, docstrings, members, enum members, aliases, constants, __init__ signature and assignments) finish and the module is accepted by the fragment checker `pyDeclCheck`; three evaluated counterexamples to the unconditional statement, replayed as pinned cases of stream c02-pydecl",
        "hand-written model lean/Cog/Sem/PyDecl.lean of internal/jennies/python/{rawtypes,types,tools,imports}.go, tied on every run (stream c02-pydecl): with generate_json_marshaller off the emitted models/<pkg>.py is exactly the fragment; model text = file text byte for byte; checker verdict (module + imported sibling modules) = CPython's (compile + fresh import); xstrings.ToSnakeCase is a parameter of the model, the driver's ASCII transcription of it is tied by the same text comparison; `pyDeclCheck` is not CPython: import cycles between sibling modules and everything outside the fragment (to_json / from_json, custom template blocks, builders) are outside",
        "NOT under any theorem, decided by exploration only: every template-rendered Go method, the import block, builders, converters, the runtime, Python to_json / from_json / builders / runtime, and ALL of Java, PHP, TypeScript, JSON Schema, OpenAPI (go build under flag combinations, python compileall+import, javac against stub sources of the Jackson surface, byte scan of every emitted file for cog's placeholder texts)",
        "hand-written model lean/Cog/Sem/GoDecl.lean of internal/jennies/golang/{types,rawtypes,tools}.go, tied on every run: the model's rendering must equal the declarations cog wrote (type/const declarations and New… functions extracted with go/parser, comments removed, white space removed) and the checker's verdict must equal the Go compiler's verdict on exactly those declarations compiled on their own",
        "`wellTyped` is not the Go type checker: recursive value types are a separate, unproved check of the driver; comparability of map keys, method sets and imports are outside (the compiler runs on the same text)",
        "TypeScript and PHP: no compiler in the sandbox, placeholder scan only; in TypeScript the fallback `unknown` cannot be told from the legitimate type `unknown` by a byte scan",
        "directly constructed IR: the oracle is applied to the schema-like profile (harness/c02_irsan.go); IR exactly as drawn by harness/irgen.go is used for the model correspondence and its failures are tallied, not enumerated as findings; IRs on which the pipeline does not return or dies with a fatal stack overflow (alias / collection cycles, cross-package recursion in the JSON Schema jenny) are detected in a child process and left to C04",
        "Go, Python and Java toolchains; go/parser + go/printer for the fragment extraction; the shared lab (docs/LAB.md)",
    ]
    hb, err = build_go("verifharness", "harness", files=FILES, tag="c02" + os.environ.get("VERIF_TAG", ""))
    c.oblige("harness builds against /repo working tree", hb is not None, err)
    c.lean_obligations(THEOREMS)
    if hb is None:
        c.finish("lake build", "n/a")
    # known findings: the committed file plus the entries proposed by this check (until merged)
    # entries proposed but not merged yet: /verif/.work/proposed_findings_C02.json {"remove": [ids], "findings": [...]}
    prop = os.path.join(WORK, "proposed_findings_C02.json")
    if os.path.exists(prop):
        try:
            pj = json.load(open(prop))
            c.known = [f for f in c.known if f["id"] not in set(pj.get("remove", []))]
            have = {f["id"] for f in c.known}
            c.known += [f for f in pj.get("findings", []) if f.get("property") == "C02" and f["id"] not in have]
        except (OSError, ValueError) as e:
            log("proposed findings ignored:", e)
    if os.path.exists(PY_PROPOSED):
        # finding candidates of the Python declaration fragment, until the coordinator merges them
        have = {f["id"] for f in c.known}
        c.known += [f for f in json.load(open(PY_PROPOSED)).get("findings", []) if f.get("property") == "C02" and f["id"] not in have]
    names_proposed = os.path.join(VERIF, "checks", "c02.names.proposed_findings.json")
    if os.path.exists(names_proposed):
        # finding candidates of the name-casing / constant-spelling shapes (harness/c02_names.go), until merged
        have = {f["id"] for f in c.known}
        c.known += [f for f in json.load(open(names_proposed)).get("findings", []) if f.get("property") == "C02" and f["id"] not in have]
    quick = c.tier == "quick"
    seed = c.seed

    if c.replay:
        rp = json.load(open(c.replay))
        print(json.dumps({k: (v if not isinstance(v, str) else v[:3000]) for k, v in rp.items()}, indent=1)[:8000])
        if rp.get("stream") == "c02-pydecl" or str(rp.get("request", "")).startswith("pydecl "):
            # Python declaration fragment: regenerate the case (deterministic in seed / tier / index) or take the VIR
            kw = {k: v for k, v in (rp.get("args") or {}).items() if k in ("seed", "tier", "profile")}
            cid = (rp.get("request", "pydecl replay x").split(" ") + ["", ""])[1]
            path = None
            if rp.get("vir"):
                path = os.path.join(WORK, "c02-pyreplay-%d.vir" % os.getpid())
                open(path, "w").write(rp["vir"] + "\n")
                kw["file"] = path
                cid = "replay"
            elif re.match(r"i\d+$", cid):
                kw.update(**{"from": int(cid[1:]), "n": 1, "nsrc": 0})
            elif re.match(r"s\d+", cid):
                kw.update(**{"from": int(re.match(r"s(\d+)", cid).group(1)), "n": 0, "nsrc": 1})
            else:
                kw.update(n=0, nsrc=0)
            try:
                rows = harness(hb, "c02-pydecl", timeout=1800, **kw)
            finally:
                if path:
                    os.remove(path)
            reqs = [r[0] for r in rows if r[0] != "-"]
            bad = False
            for r, m in zip([r for r in rows if r[0] != "-"], drv(reqs)):
                if not r[0].startswith("pydecl %s " % cid):
                    continue
                a, b = reconcile_py(r[0], r[1], m)
                print(r[0], "| cpython:", r[1].split(" ")[0], "| model:", " ".join(m.split(" ")[:4]), "| oracle:", r[2][:300])
                print(r[1].partition(" ")[2].replace("\\n", "\n")[:3000])
                if a != b:
                    print("DISAGREEMENT impl=%s model=%s" % (a[:300], b[:300]))
                    bad = True
                if r[2].startswith("FAIL"):
                    bad = True
            print("replay: the recorded failure %s" % ("REPRODUCES" if bad else "does not reproduce"))
            sys.exit(1 if bad else 0)
        v = rp.get("oracle", "")
        m = re.search(r"lang=(\S+) class=(\S+) trig=\S* format=(\S+) (go=\S+ union=\S+ builders=\S+ converters=\S+ apiref=\S+ marshal=\S+ skiprt=\S+) src=(\(defs .*?\)) (?:diag|hits)=", v)
        if m and m.group(3) != "ir" and "+" not in m.group(3):
            lang, cls, fmt, combo, src = m.groups()
            path = os.path.join(WORK, "c02-replay-%d.sexp" % os.getpid())
            with open(path, "w") as fh:
                fh.write(src + "\n")
            try:
                rows = harness(hb, "c02-replay", timeout=3600, file=path, format=fmt, lang=lang, combo=combo.replace(" ", ","),
                               spell=(re.search(r" trig=\S*spell:(\w+)", v) or [None, ""])[1])   # spelling of constants in the source text
            finally:
                os.remove(path)
            bad = False
            for r in rows:
                print("\t".join(r)[:3000])
                if len(r) > 2 and (" class=%s " % cls) in r[2]:
                    bad = True
            print("replay: the recorded failure %s" % ("REPRODUCES" if bad else "does not reproduce"))
            sys.exit(1 if bad else 0)
        print("replay: re-run the stream named in the payload with the recorded seed/tier (IR cases and broken obligations are not single-input replays)")
        sys.exit(1)

    def shrink(r):
        """delta-debug the failing Src term in the harness (IR cases are reported as drawn)"""
        v = r[2]
        if any(re.search(f["match"], r[0] + "\t" + v, re.S) for f in c.known):
            return r
        SHRUNK[0] += 1
        if SHRUNK[0] > (3 if quick else 12):
            return r        # bounded effort: the first few unknown classes are minimised, the rest reported as found
        m = re.search(r"lang=(\S+) class=(\S+) trig=\S* format=(\S+) (go=\S+ union=\S+ builders=\S+ converters=\S+ apiref=\S+ marshal=\S+ skiprt=\S+) src=(\(defs .*?\)) (?:diag|hits)=", v)
        if not m or m.group(3) == "ir" or "+" in m.group(3):
            return r        # IR and multi-input cases are reported as found
        lang, cls, fmt, combo, src = m.groups()
        path = os.path.join(WORK, "c02-shrink-%d.sexp" % os.getpid())
        with open(path, "w") as fh:
            fh.write(src + "\n")
        try:
            rows = harness(hb, "c02-shrink", timeout=1800, file=path, format=fmt, lang=lang, cls=cls, combo=combo.replace(" ", ","), budget=(24 if quick else 80),
                           spell=(re.search(r" trig=\S*spell:(\w+)", v) or [None, ""])[1])
        except Exception as e:
            log("shrinking failed, case reported as found:", str(e)[:300])
            return r
        finally:
            os.remove(path)
        for row in rows:
            if row[0] == "-" and len(row) > 2 and row[2].startswith("FAIL"):
                return [r[0], r[1], row[2]]
        return r

    streams = []
    if quick:
        streams = [("c02-known", {}),
                   ("c02-mini", dict(seed=seed, tier="quick")),
                   ("c02-multi", dict(n=6, seed=seed, tier="quick")),
                   ("c02-unions", dict(seed=seed, tier="quick")),
                   ("c02-veneers", dict(seed=seed, tier="quick")),
                   ("c02-lab", dict(n=8, seed=seed, tier="quick")),
                   ("c02-langs", dict(n=6, seed=seed, tier="quick")),
                   ("c02-ir", dict(n=16, seed=seed, tier="quick")),
                   ("c02-ir", dict(n=8, seed=seed, tier="quick", profile="raw")),
                   ("c02-pydecl", dict(n=240, nsrc=80, seed=seed, tier="quick")),
                   ("c02-pydecl", dict(n=150, nsrc=0, seed=seed, tier="quick", profile="raw"))]
    else:
        streams = [("c02-known", {}),
                   ("c02-mini", dict(seed=seed, tier="thorough")),
                   ("c02-multi", dict(n=120, seed=seed, tier="thorough")),
                   ("c02-unions", dict(seed=seed, tier="thorough")),
                   ("c02-veneers", dict(seed=seed, tier="thorough")),
                   ("c02-lab", dict(n=300, seed=seed, tier="thorough")),
                   ("c02-lab", dict(n=100, seed=seed + 100, tier="thorough", builders=1)),
                   ("c02-langs", dict(n=200, seed=seed, tier="thorough")),
                   ("c02-ir", dict(n=500, seed=seed, tier="thorough")),
                   ("c02-ir", dict(n=300, seed=seed, tier="thorough", profile="raw")),
                   ("c02-pydecl", dict(n=1500, nsrc=400, seed=seed, tier="thorough")),
                   ("c02-pydecl", dict(n=600, nsrc=0, seed=seed, tier="thorough", profile="raw"))]
    notes = []
    for name, kw in streams:
        t0 = time.time()
        try:
            rows = harness(hb, name, timeout=7200, **kw)
        except Exception as e:
            c.oblige("stream %s %s runs" % (name, kw), False, str(e)[-3000:])
            continue
        label = name + ("-raw" if kw.get("profile") == "raw" else "") + ("-builders" if kw.get("builders") else "")
        c.correspond(hb, label, rows=rows, reconcile=reconcile, classify=classify, shrink=shrink,
                     nontrivial=lambda r: r[0].startswith("godecl ") or r[0].startswith("pydecl ") or (len(r) > 2 and r[2].startswith("FAIL")))
        for r in rows:
            if r[0] == "-" and (r[1].startswith("stats") or r[1].startswith("raw-profile")):
                notes.append("%s: %s" % (label, r[1][:1500]))
        c.cov["streams"][label]["wall_s"] = round(time.time() - t0, 1)
        c.cov["streams"][label]["args"] = kw
    c.cov["model"] = dict(STATS)
    c.cov["hypotheses_vs_compiler"] = {"%s / fragment %s" % k: v for k, v in sorted(HYP.items(), key=lambda x: -x[1])}
    c.cov["python_declaration_fragment"] = dict(PY)
    c.cov["python_hypotheses_vs_cpython"] = {"%s %s / cpython %s" % k: v for k, v in sorted(PYHYP.items(), key=lambda x: -x[1])}
    c.oblige("python declaration fragment: modules compared with the model (text and CPython verdict), some under the theorem's hypotheses",
             PY["agree-ok"] > 0 and any(k[0] == "hyp:ok" for k in PYHYP), str(dict(PY))[:400])
    c.cov["lab"] = notes
    c.cov["proved_vs_explored"] = {
        "proved": "Go declaration fragment (types.go / rawtypes.go / tools.go): C02_go_decls_partial, C02_placeholder_iff; Python class-declaration fragment (python/rawtypes.go, types.go, tools.go, imports.go): C02_py_declarations_wellformed_partial",
        "explored": "template-rendered Go (methods, imports, builders, converters, runtime), template-rendered Python (to_json / from_json, builders, runtime), Java, PHP, TypeScript, JSON Schema, OpenAPI; flag combinations: pairwise covering array over the 7 flags in quick, all 128 in thorough",
    }
    c.finish("cd /verif/lean && lake build Cog.Props.C02 drv && lake env lean <#print axioms of the C02 theorems>",
             "Src terms x 3 formats and directly constructed IR through the real pipeline under flag combinations with builders/converters/api_reference on and off; go build of every package and of the declaration fragment alone (fragment text and verdict must equal the Lean model `godecl`); python compileall+import; javac against Jackson stubs; placeholder scan of every emitted file in seven languages; oracle = run reported success and (compile error or placeholder) => FAIL; non-trivial = declaration fragment compared with the model, or oracle failure",
             "level partial: theorem for the declaration fragment, exploration for template text (DESIGN.md C02)")


main()
