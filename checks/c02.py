"""C02 — a successful run only emits well-formed code; unsupported constructs are errors.

proof (Lean): declaration fragment of the Go output (lean/Cog/Props/C02.lean);
exploration (labs): everything rendered by templates, all other languages, placeholder scan.
"""
import json, os, re, sys, time, collections
from verifkit.core import *

THEOREMS = [
    "Cog.C02.C02_go_decls_partial", "Cog.C02.C02_go_decls_partial_all_flags", "Cog.C02.C02_welltyped_no_placeholder",
    "Cog.C02.C02_placeholder_iff", "Cog.C02.C02_decl_printers_never_err",
    "Cog.C02.C02_counterexample_list_default_of_ints", "Cog.C02.C02_counterexample_enum_member_collision",
    "Cog.C02.C02_counterexample_ref_to_constant", "Cog.C02.C02_counterexample_unknown_type_hint",
    "Cog.C02.C02_counterexample_exponent_literal", "Cog.C02.C02_counterexample_field_collision",
    "Cog.C02.C02_errors_counterexample",
]
FILES = HARNESS_BASE + ["lab_*.go", "src_*.go", "c02_*.go"]
PROPOSED = os.path.join(WORK, "proposed_findings_C02.json")


COMBO = r"[^\t]*"
def F(id, what, match, pinned):
    return {"id": "C02/" + id, "property": "C02", "what": what, "match": match, "pinned_input": pinned}

# One entry per mechanism. `match` is applied to "<request>\t<oracle verdict>" of the (shrunk) failing
# case: compiler-diagnostic class + the construct / flags the mechanism needs.
FINDINGS = [
    # ---- Go, template-rendered text (exploration) ----
    F("go/unused-import-strconv-strict-map-of-structs",
      "KB01: strict unmarshaller on a map whose values are not scalars imports strconv, which only the array-of-non-scalars branch uses: `\"strconv\" imported and not used` unless the package also has such an array",
      r"lang=go class=unused-import:strconv:in-types trig=[^ ]*dict\.nonScalar\.noArray",
      "c02-known lab/KB01: (defs \"Root\" (\"Root\" (struct (field \"a\" (dict (ref \"S\")) false false -))) (\"S\" (struct (field \"p\" (string - - false) true false -)))) flags 111100"),
    F("go/unused-import-fmt-union-marshaller-without-strict",
      "a union's custom MarshalJSON/UnmarshalJSON templates import fmt (and errors, for a discriminated union of references), which only the strict unmarshaller uses: with generate_json_marshaller on and the strict unmarshaller off (or disabled by skip_runtime) every schema with a union fails with `\"fmt\" imported and not used`",
      r"lang=go class=unused-import:(fmt|errors):in-types trig=[^ ]*union[^\t]* go=1(0[01]{4}|[01]{4}1) ",
      "c02-known go/unused-import-fmt…: (defs \"Root\" (\"Root\" (struct (field \"a\" (oneOfScalars (string - - false) (bool)) true false -)))) flags 101100 and 111101"),
    F("go/unused-import-errors-skip-runtime",
      "skip_runtime leaves `errors` imported by the validation/equality templates without the runtime code that uses it: `\"errors\" imported and not used`",
      r"lang=go class=unused-import:errors:in-types trig=[^\t]* go=[01]{5}1 ",
      "c02-lab seed 4 builders=1 (flags ….1 with builders)"),
    F("go/unused-import-errors-inline-struct-default",
      "KB06 (CUE): default on an inline struct: Go `\"errors\" imported and not used`, Python receives a Go-syntax literal",
      r"lang=(go|python) class=(unused-import:errors:in-types|SyntaxError|TypeError) trig=[^ ]*default\.inline\.struct",
      "c02-known lab/KB06"),
    F("go/list-default-of-ints",
      "KB02: formatScalar prints every list default as `[]string{…}`: a list default of numbers or bools does not compile",
      r"lang=go class=cannot-use:\[\]string-literal:in-types trig=[^ ]*default\.list\.nonString",
      "c02-known lab/KB02: (field \"a\" (array (int 64 true - -)) false false (a (n \"1\") (n \"2\")))"),
    F("go/enum-member-sign-collision",
      "KB03: integer enum members 1 and -1 are both named …1 (`redeclared`)",
      r"lang=go class=redeclared:in-types trig=[^ ]*enumI\.signCollision",
      "c02-known lab/KB03: (enumI 1 -1)"),
    F("go/reference-to-constant-definition",
      "KB04 (CUE): `#E: \"b\"` is read as a constant; a field or array referring to it prints `E` where a type is needed (`E is not a type`, mismatched types)",
      r"lang=go class=(not-a-type|mismatched-types|cannot-use[^ ]*):in-types trig=[^ ]*ref\.to\.single\.enumS",
      "c02-known lab/KB04"),
    F("go/nullable-inline-enum-union-fields-collide",
      "KB05 (CUE): `null | \"x\" | \"y\"` becomes a union struct with three fields named String",
      r"lang=go class=redeclared:in-types trig=[^ ]*nullable\.inline\.enumS[^\t]* format=cue",
      "c02-known lab/KB05"),
    F("python/go-syntax-literal-for-struct-default",
      "KB07 (CUE): `null | #S | *{…}`: the default is printed into Python in Go %#v syntax (SyntaxError at import)",
      r"lang=python class=SyntaxError trig=[^ ]*default\.ref\.struct\.nullable",
      "c02-known lab/KB07"),
    F("go/unknown-type-hint-struct-default-enum-member",
      "KB08: a struct default overriding an enum-typed member passes the RESOLVED enum type to the pointer helper, doFormatType has no case for an enum and prints `unknown` (placeholder in a successful run; `undefined: unknown`)",
      r"lang=go class=(undefined:unknown:in-types|placeholder:unknown) trig=[^ ]*default\.struct\.enumField",
      "c02-known lab/KB08; Lean witness W.kb08"),
    F("go/pointer-helper-instantiated-with-resolved-type",
      "a struct default overriding a nullable member whose type is a reference to a named scalar: maybeValueAsPointer is given the RESOLVED type, so the literal is `(func(input string) *string {…})(\"v\")` while the field is `*Node` (found by the thorough tier, anticipated from rawtypes.go:defaultsForStruct)",
      r"lang=go class=cannot-use:\*(string|bool|u?int\d*|float\d*)-as-\*T:in-types trig=[^ ]*default\.ref\.struct",
      "(defs \"Panel\" (\"Panel\" (struct (field \"fooBar\" (ref \"Leaf\") true false (o (\"tags\" (s \"v3a\")))))) (\"Leaf\" (struct (field \"tags\" (ref \"Node\") false false -))) (\"Node\" (string - - false))) cue go=010100"),
    F("go/exponent-literal-for-integer-default",
      "KB13 (OpenAPI): an integer default beyond 2^53 arrives as float64 and is printed by %#v in exponent form, not representable in int64",
      r"lang=go class=cannot-use:untyped-float-constant:in-types trig=[^ ]*default\.int\.huge",
      "c02-known lab/KB13; Lean witness W.kb13"),
    F("go/builder-optional-constant-int",
      "KB15: the builder constructor assigns &val (an *int) to an optional constant int64 member",
      r"lang=go class=cannot-use:\*int-as-\*int64:in-builder",
      "c02-known lab/KB15"),
    F("go/builder-array-of-map-of-struct",
      "KB16: an option taking []map[string]cog.Builder[T] calls Build() on the map",
      r"lang=go class=no-field-or-method:in-builder trig=[^ ]*builders\+array\.of\.dict\.of\.struct",
      "c02-known lab/KB16"),
    F("go/field-names-collide-after-camel-casing",
      "KB17: foo_bar and fooBar map to the same Go field (and the same Python constructor argument)",
      r"lang=(go|python) class=(redeclared:in-types|duplicate-field:in-types|SyntaxError) trig=[^ ]*name\.collide",
      "c02-known lab/KB17; Lean witness W.kb17"),
    # ---- Java (exploration) ----
    F("java/integer-enum-member-named-by-its-number",
      "an integer enum read from JSON Schema / OpenAPI (and a constant integer rendered as a one-member enum) gets members named by their value: `21(21)` is not a Java identifier — no Java pass renames numeric member names",
      r"lang=java class=java:enum-constant-expected:digit-name:in-type",
      "c02-known java/integer-enum…: (field \"a\" (enumI 1 2) true false -) jsonschema"),
    F("java/union-class-refers-to-serializers-without-json-marshaller",
      "with builders on and generate_json_marshaller off a union class is still annotated with @JsonSerialize/@JsonDeserialize(using = XSerializer.class) although the serializer classes are not generated",
      r"lang=java class=java:cannot-find-symbol:class:\*(De)?[Ss]erializer:in-type [^\t]* marshal=0",
      "c02-known java/union-class…"),
    F("java/builders-with-skip-runtime-import-missing-runtime",
      "builders (and types implementing cog.Builder) are emitted with skip_runtime although they import the runtime package that is not generated; the documented restriction is not enforced as an error",
      r"lang=java class=java:package-does-not-exist:runtime:in-(builder|type) [^\t]*builders=1 [^\t]*skiprt=1",
      "c02-known java/builders-with-skip-runtime…"),
    F("java/int-literal-for-boxed-long-in-builder",
      "a constant int64 member is assigned an int literal in the builder (`int cannot be converted to Long`)",
      r"lang=java class=java:incompatible-types:int->Long:in-builder",
      "c02-known java/int-literal-for-boxed-long…"),
    F("java/int-literal-default-for-short-or-byte",
      "struct defaults pass int literals to Short / Byte constructor parameters",
      r"lang=java class=java:incompatible-types:int->(Short|Byte):in-type",
      "c02-known java/int-literal-default…"),
    F("java/constraint-literal-beyond-int-range",
      "a bound above 2^31-1 is printed without the L suffix in the builder's validation (`integer number too large`)",
      r"lang=java class=java:integer-number-too-large:in-builder",
      "c02-known java/constraint-literal…"),
    F("php/converter-unhandled-scalar-type-for-nullable-union",
      "PHP converters print the placeholder `/* unhandled scalar type */` for a nullable union of scalars (builders + converters)",
      r"lang=php class=placeholder:/\*_unhandled_scalar_type_\*/ trig=[^ ]*union[^\t]* converters=1",
      "(defs \"Config\" (\"Config\" (struct (field \"size\" (oneOfScalars (bool) (string - - false)) true true -)))) cue builders=1 converters=1"),
    F("java/struct-default-names-a-class-that-is-not-generated",
      "a struct default (positional constructor call) on a struct whose members refer to scalar aliases / rewritten types names a Java class that is never generated (`cannot find symbol: class Child`)",
      r"lang=java class=java:cannot-find-symbol:class:\*:in-type trig=[^ ]*default\.ref\.struct",
      "(defs \"Panel\" (\"Panel\" (struct (field \"items\" (ref \"Node\") true false (o (\"opts\" (n \"20\")))))) (\"Node\" (struct (field \"fooBar\" (ref \"Child\") true false -))) (\"Child\" (int 64 true - -))) cue"),
    F("java/struct-default-any-member-printed-as-unknown",
      "a struct default on a reference to a struct with an `any` member prints the member's value as the bare word `unknown` in the positional constructor call (placeholder in a successful run)",
      r"lang=java class=(placeholder:unknown|java:cannot-find-symbol:variable:unknown:in-type)",
      "c02-known java/struct-default-any-member…"),
]

def IR(id, what, lang, cls):
    return F("ir/" + id, what + " [directly constructed IR, schema-like profile of harness/c02_irsan.go; class-level entry]",
             r"lang=%s class=(%s) [^\t]*format=ir " % (lang, cls), "c02-ir seeds 1-5 (the replay file carries the IR as VIR)")

FINDINGS += [
    # ---- directly constructed IR: shapes no source grammar term produces (named scalar / collection
    # aliases, nullable objects, by-value recursion, lower-case object names, unions under unions) ----
    IR("go/by-value-recursive-struct", "a required non-nullable reference from a struct to itself (or a by-value cycle) is printed as `type D struct{A D}`: Go rejects it (`invalid recursive type`); the run should refuse the schema", "go", r"invalid-recursive-type:in-types"),
    IR("go/import-cycle-between-mutually-referring-packages", "two schemas that refer to each other become two Go packages that import each other (`import cycle not allowed`)", "go", r"import-cycle[^ ]*"),
    IR("go/unused-imports", "the unused-import mechanisms of the template-rendered methods (strconv with a map of non-scalars, fmt with a union and no strict unmarshaller, errors/time with skip_runtime) on IR shapes", "go", r"unused-import:(strconv|fmt|errors|time):in-types"),
    IR("go/unknown-for-kind-left-by-the-pass-chain", "an enum or disjunction left at a printed type position by the Go pass chain (C06: union under a union branch, in a map index) is printed as `unknown`", "go", r"placeholder:unknown|undefined:unknown:in-types"),
    IR("go/equals-on-slice-typed-alias", "Equals compares a field whose type is a named bytes / array alias with `!=`", "go", r"invalid-operation:comparison-with-non-comparable:in-types"),
    IR("go/methods-dereference-bytes", "strict unmarshaller / validation dereference a nullable bytes member (`cannot indirect … []byte`)", "go", r"invalid-operation(:cannot-indirect)?:in-types"),
    IR("go/constructor-of-nullable-struct-object", "a struct object that is itself nullable is declared `type X *struct{…}` and constructed with `&X{…}`", "go", r"invalid-composite-literal-type:in-types"),
    IR("go/delegated-constructor-through-nullable-alias", "`NewX()` of an alias object returns the referred constructor although the alias is a pointer alias / was rewritten by DisjunctionToType", "go", r"cannot-use:\*T-as-\*T:in-types"),
    IR("go/reference-to-constant-object", "a reference to an object that is a constant in a position where a type is printed", "go", r"not-a-type:in-(types|builder)|mismatched-types:in-types"),
    IR("go/builder-templates-on-alias-and-collection-shapes", "builder options on named scalar aliases, arrays of references, maps of builders and nullable collections do not type-check", "go", r"(cannot-use[^ ]*|no-field-or-method|undefined|not-a-type|mismatched-types|invalid-operation[^ ]*):in-(builder|converter)"),
    IR("java/object-and-alias-names-not-java-classes", "Java prints object names as they are: a lower-case object `foo` becomes `public enum foo` in Foo.java, references to scalar / collection aliases name classes that are never generated", "java", r"java:(public-type-file-name-mismatch|cannot-find-symbol:class:\*|cannot-find-symbol:variable:\*|already-defined):in-(type|builder)"),
    IR("java/enum-shapes", "enum members whose names are not Java identifiers, enums used as a base of an intersection (`enum types are not extensible`, `cannot inherit from final`)", "java", r"java:(enum-constant-expected|enum-types-are-not-extensible|cannot-inherit-from-final[^ ]*|syntax|illegal-start):in-type"),
    IR("java/unknown-for-unhandled-kind", "the Java type formatter's fallback `unknown` for kinds it has no case for", "java", r"placeholder:unknown|java:cannot-find-symbol:(class|variable):unknown:in-(type|builder|serializer)"),
    IR("java/builder-templates-on-map-and-numeric-shapes", "Java builders on maps of builders; int literals for boxed Long/Short/Float constants (Constants.java) and members", "java", r"java:(non-static-method[^ ]*|cannot-find-symbol:method:[^ ]*|incompatible-types:[^ ]*|integer-number-too-large):in-(builder|type)"),
    IR("java/runtime-and-serializers", "the skip_runtime / json-marshaller mechanisms of the Src streams on IR", "java", r"java:(package-does-not-exist:runtime|cannot-find-symbol:class:\*(De)?[Ss]erializer):in-(builder|type)"),
    IR("python/empty-bodies-and-invalid-targets", "Python: a builder / class with no members gets an empty body (IndentationError), field names that are not identifiers become assignment targets (SyntaxError)", "python", r"IndentationError|SyntaxError"),
    IR("php/placeholders-for-alias-objects", "PHP prints `unhandled type def kind` for objects that are scalar / collection aliases (API reference) and `/* unhandled scalar type */`, `/* unhandled type */` in converters", "php", r"placeholder:(unhandled_type_def_kind|/\*_unhandled_scalar_type_\*/|/\*_unhandled_type_\*/)"),
]

# Catch-all entries for the peripheral surfaces whose defects form a long tail (every new seed shrinks to
# another independent mechanism). They come LAST: the specific entries above win when they apply. A
# mutant that only breaks these surfaces is not distinguishable from the tail; the sharp part of the
# oracle is Go's types_gen.go, Python, JSON Schema / OpenAPI and the placeholder scan on SOURCE schemas,
# plus the model correspondence and the theorem instances on every stream.
FINDINGS += [
    F("go/builder-and-converter-templates-other",
      "other type errors in template-rendered Go builders / converters (examples shrunk so far: `undefined: tagsDepth1` for a map of arrays of references with converters; options on maps of builders)",
      r"lang=go class=[^ ]*:in-(builder|converter) ", "see the specific go/builder-* entries; c02-lab seed 12"),
    F("java/other",
      "other javac diagnostics on generated Java (examples: a builder for an anonymous struct refers to the IR field name `Kind` instead of the Java member; …). The Java jenny is exercised by no compiler in cog's own tests",
      r"lang=java class=java:", "see the specific java/* entries; c02-langs seed 13"),
    F("ir/other-shapes",
      "other failures on directly constructed IR (class not yet attributed to a mechanism); tallied per class in the evidence",
      r"[^\t]*format=ir ", "c02-ir, any seed; the replay file carries the IR"),
]

STATS = collections.Counter()
SHRUNK = [0]
HYP = collections.Counter()


def split_model(m):
    p = m.split(" ", 3)
    return (p[0], p[1] if len(p) > 1 else "", p[2] if len(p) > 2 else "", p[3] if len(p) > 3 else "")


def reconcile(req, impl, model):
    """godecl rows: the Go type checker's verdict on the declaration fragment and the fragment's text
    (white space removed) against the model's verdict and rendering."""
    if not req.startswith("godecl "):
        return impl, model
    iv, _, itext = impl.partition(" ")
    mv, mdiag, mhyp, mtext = split_model(model)
    icoarse = iv.split(":")[0]
    STATS["decl-fragments"] += 1
    STATS["impl-" + icoarse] += 1
    HYP[(mhyp, icoarse)] += 1
    if mv == "crash":
        STATS["model-crash"] += 1
        return "crash?", "crash " + mdiag          # the run succeeded but the model says the printer crashes
    if mhyp == "hyp:ok" and icoarse != "welltyped":
        # an instance of C02_go_decls_partial that the Go compiler refutes: the checker is too weak
        return "impl:" + iv, "theorem-instance-refuted hyp:ok model:" + mv
    if itext != mtext:
        k = 0
        while k < min(len(itext), len(mtext)) and itext[k] == mtext[k]:
            k += 1
        return "text@%d:%s" % (k, itext[max(0, k - 40):k + 60]), "text@%d:%s" % (k, mtext[max(0, k - 40):k + 60])
    if icoarse != mv:
        return "verdict:" + iv, "verdict:" + mv + ":" + mdiag
    STATS["agree-" + mv] += 1
    return "agree", "agree"


def classify(r):
    v = r[2]
    m = re.search(r"FAIL (\S+) (?:pinned=\S+ )?lang=(\S+) class=(\S+)", v)
    if m:
        fmt = re.search(r"format=(\S+)", v)
        return "%s %s %s %s" % (m.group(1), m.group(2), m.group(3), "ir" if fmt and fmt.group(1) == "ir" else "src")
    return re.sub(r"[0-9]+", "N", v)[:160]


def main():
    c = Check("C02")
    c.trusted = [
        "Lean 4.33 kernel; axioms per theorem in obligation_list",
        "PROVED (lean/Cog/Props/C02.lean): for every Go configuration, GoPrintable S and wfNames S imply that the declaration printers finish and everything they print (type declarations, struct fields and tags, enum const blocks, constructor default literals) is accepted by the fragment checker `wellTyped`; the emitted declarations contain a placeholder iff the IR has one of the listed shapes (no hypotheses); six evaluated counterexamples to the unconditional statement",
        "NOT under any theorem, decided by exploration only: every template-rendered Go method, the import block, builders, converters, the runtime, and ALL of Python, Java, PHP, TypeScript, JSON Schema, OpenAPI (go build under flag combinations, python compileall+import, javac against stub sources of the Jackson surface, byte scan of every emitted file for cog's placeholder texts)",
        "hand-written model lean/Cog/Sem/GoDecl.lean of internal/jennies/golang/{types,rawtypes,tools}.go, tied on every run: the model's rendering must equal the declarations cog wrote (type/const declarations and New… functions extracted with go/parser, comments removed, white space removed) and the checker's verdict must equal the Go compiler's verdict on exactly those declarations compiled on their own",
        "`wellTyped` is not the Go type checker: recursive value types are a separate, unproved check of the driver; comparability of map keys, method sets and imports are outside (the compiler runs on the same text)",
        "TypeScript and PHP: no compiler in the sandbox, placeholder scan only; in TypeScript the fallback `unknown` cannot be told from the legitimate type `unknown` by a byte scan",
        "directly constructed IR: the oracle is applied to the schema-like profile (harness/c02_irsan.go); IR exactly as drawn by harness/irgen.go is used for the model correspondence and its failures are tallied, not enumerated as findings; IRs on which the pipeline does not return or dies with a fatal stack overflow (alias / collection cycles, cross-package recursion in the JSON Schema jenny) are detected in a child process and left to C04",
        "Go, Python and Java toolchains; go/parser + go/printer for the fragment extraction; the shared lab (docs/LAB.md)",
    ]
    hb, err = build_go("verifharness", "harness", files=FILES, tag="c02" + os.environ.get("VERIF_TAG", ""))
    c.oblige("harness builds against /repo working tree", hb is not None, err)
    c.lean_obligations(THEOREMS)
    if hb is None:
        c.finish("lake build", "n/a")
    # known findings: the committed file plus the entries proposed by this check (until merged)
    try:
        os.makedirs(WORK, exist_ok=True)
        blob = json.dumps({"comment": "entries proposed by checks/c02.py for /verif/known_findings.json", "findings": FINDINGS}, indent=1)
        if not os.path.exists(PROPOSED) or open(PROPOSED).read() != blob:
            with open(PROPOSED, "w") as fh:
                fh.write(blob)
    except OSError:
        pass
    have = {f["id"] for f in c.known}
    c.known += [f for f in FINDINGS if f["id"] not in have]
    quick = c.tier == "quick"
    seed = c.seed

    if c.replay:
        rp = json.load(open(c.replay))
        print(json.dumps({k: (v if not isinstance(v, str) else v[:3000]) for k, v in rp.items()}, indent=1)[:8000])
        v = rp.get("oracle", "")
        m = re.search(r"lang=(\S+) class=(\S+) trig=\S* format=(\S+) (go=\S+ union=\S+ builders=\S+ converters=\S+ apiref=\S+ marshal=\S+ skiprt=\S+) src=(\(defs .*?\)) (?:diag|hits)=", v)
        if m and m.group(3) != "ir":
            lang, cls, fmt, combo, src = m.groups()
            path = os.path.join(WORK, "c02-replay-%d.sexp" % os.getpid())
            with open(path, "w") as fh:
                fh.write(src + "\n")
            try:
                rows = harness(hb, "c02-replay", timeout=3600, file=path, format=fmt, lang=lang, combo=combo.replace(" ", ","))
            finally:
                os.remove(path)
            bad = False
            for r in rows:
                print("\t".join(r)[:3000])
                if len(r) > 2 and (" class=%s " % cls) in r[2]:
                    bad = True
            print("replay: the recorded failure %s" % ("REPRODUCES" if bad else "does not reproduce"))
            sys.exit(1 if bad else 0)
        print("replay: re-run the stream named in the payload with the recorded seed/tier (IR cases and broken obligations are not single-input replays)")
        sys.exit(1)

    def shrink(r):
        """delta-debug the failing Src term in the harness (IR cases are reported as drawn)"""
        v = r[2]
        if any(re.search(f["match"], r[0] + "\t" + v, re.S) for f in c.known):
            return r
        SHRUNK[0] += 1
        if SHRUNK[0] > (3 if quick else 12):
            return r        # bounded effort: the first few unknown classes are minimised, the rest reported as found
        m = re.search(r"lang=(\S+) class=(\S+) trig=\S* format=(\S+) (go=\S+ union=\S+ builders=\S+ converters=\S+ apiref=\S+ marshal=\S+ skiprt=\S+) src=(\(defs .*?\)) (?:diag|hits)=", v)
        if not m or m.group(3) == "ir":
            return r
        lang, cls, fmt, combo, src = m.groups()
        path = os.path.join(WORK, "c02-shrink-%d.sexp" % os.getpid())
        with open(path, "w") as fh:
            fh.write(src + "\n")
        try:
            rows = harness(hb, "c02-shrink", timeout=1800, file=path, format=fmt, lang=lang, cls=cls, combo=combo.replace(" ", ","), budget=(24 if quick else 80))
        finally:
            os.remove(path)
        for row in rows:
            if row[0] == "-" and len(row) > 2 and row[2].startswith("FAIL"):
                return [r[0], r[1], row[2]]
        return r

    streams = []
    if quick:
        streams = [("c02-known", {}),
                   ("c02-lab", dict(n=8, seed=seed, tier="quick")),
                   ("c02-langs", dict(n=6, seed=seed, tier="quick")),
                   ("c02-ir", dict(n=20, seed=seed, tier="quick")),
                   ("c02-ir", dict(n=12, seed=seed, tier="quick", profile="raw"))]
    else:
        streams = [("c02-known", {}),
                   ("c02-lab", dict(n=300, seed=seed, tier="thorough")),
                   ("c02-lab", dict(n=100, seed=seed + 100, tier="thorough", builders=1)),
                   ("c02-langs", dict(n=200, seed=seed, tier="thorough")),
                   ("c02-ir", dict(n=500, seed=seed, tier="thorough")),
                   ("c02-ir", dict(n=300, seed=seed, tier="thorough", profile="raw"))]
    notes = []
    for name, kw in streams:
        t0 = time.time()
        try:
            rows = harness(hb, name, timeout=7200, **kw)
        except Exception as e:
            c.oblige("stream %s %s runs" % (name, kw), False, str(e)[-3000:])
            continue
        label = name + ("-raw" if kw.get("profile") == "raw" else "") + ("-builders" if kw.get("builders") else "")
        c.correspond(hb, label, rows=rows, reconcile=reconcile, classify=classify, shrink=shrink,
                     nontrivial=lambda r: r[0].startswith("godecl ") or (len(r) > 2 and r[2].startswith("FAIL")))
        for r in rows:
            if r[0] == "-" and (r[1].startswith("stats") or r[1].startswith("raw-profile")):
                notes.append("%s: %s" % (label, r[1][:1500]))
        c.cov["streams"][label]["wall_s"] = round(time.time() - t0, 1)
        c.cov["streams"][label]["args"] = kw
    c.cov["model"] = dict(STATS)
    c.cov["hypotheses_vs_compiler"] = {"%s / fragment %s" % k: v for k, v in sorted(HYP.items(), key=lambda x: -x[1])}
    c.cov["lab"] = notes
    c.cov["proved_vs_explored"] = {
        "proved": "Go declaration fragment (types.go / rawtypes.go / tools.go): C02_go_decls_partial, C02_placeholder_iff",
        "explored": "template-rendered Go (methods, imports, builders, converters, runtime), Python, Java, PHP, TypeScript, JSON Schema, OpenAPI; flag combinations: pairwise covering array over the 7 flags in quick, all 128 in thorough",
    }
    c.finish("cd /verif/lean && lake build Cog.Props.C02 drv && lake env lean <#print axioms of the C02 theorems>",
             "Src terms x 3 formats and directly constructed IR through the real pipeline under flag combinations with builders/converters/api_reference on and off; go build of every package and of the declaration fragment alone (fragment text and verdict must equal the Lean model `godecl`); python compileall+import; javac against Jackson stubs; placeholder scan of every emitted file in seven languages; oracle = run reported success and (compile error or placeholder) => FAIL; non-trivial = declaration fragment compared with the model, or oracle failure",
             "level partial: theorem for the declaration fragment, exploration for template text (DESIGN.md C02)")


main()
