"""C08 — generated Validate() and strict decoders reject exactly what the schema forbids.

Obligations: the Lean theorems of lean/Cog/Props/C08.lean (model of the generated Go code vs
specification, all schemas / values / documents).  Tie: the Lean models are run, through the
driver, on the post-Go-chain IR and the documents of every lab case, and compared with what the
REAL generated code (compiled in the lab from /repo's working tree) answers.  Oracle: the
property itself, on the real outcomes, from the source term + document + injected fault only.
"""
import collections, hashlib, json, os, re, sys
import verifkit.core as core
from verifkit.core import *

THEOREMS = [
    "Cog.Sem.C08_validate_eq_partial", "Cog.Sem.C08_validate_iff_partial",
    "Cog.Sem.C08_validate_single_fault", "Cog.Sem.C08_validate_accepts_valid",
    "Cog.Sem.C08_validate_counterexample",
    "Cog.Sem.C08_strict_rejects_only_faulty_partial", "Cog.Sem.C08_strict_accepts_only_faultless_partial",
    "Cog.Sem.C08_strict_iff_partial", "Cog.Sem.C08_strict_single_fault",
    "Cog.Sem.C08_strict_counterexample_null_element", "Cog.Sem.C08_strict_counterexample_union_branch",
    "Cog.Sem.C08_strict_counterexample_null_document",
    "Cog.Sem.C08.tvc_eq_violations", "Cog.Sem.C08.rtc_false_no_violations", "Cog.Sem.C08.sd_agree",
    "Cog.Sem.C08.leaf_agree",
    # constraints through the FRONT-ENDS (c01-front builder; block at the end of Props/C08.lean)
    "Cog.Sem.FE.C08_jsonschema_validate_end_to_end_partial", "Cog.Sem.FE.C08_jsonschema_validate_accepts_valid_partial",
    "Cog.Sem.FE.C08_jsonschema_validate_single_fault_partial", "Cog.Sem.FE.C08_jsonschema_validate_counterexample",
    "Cog.Sem.OA.C08_openapi_validate_end_to_end_partial", "Cog.Sem.OA.C08_openapi_validate_accepts_valid_partial",
    "Cog.Front.Keeps.violations_flat", "Cog.Front.JsonSchema.keeps_object", "Cog.Front.OpenApi.keeps_object",
]
FILES = HARNESS_BASE + ["lab_*.go", "src_*.go", "c08_*.go"]
CORPUS = os.path.join(VERIF, "corpus", "C08.tsv")
# (nullable T) array items / map values: null there is outside the modelled fragment (the specification answers
# `unsup`), and null at a nullable STRUCT element is rejected by the generated strict decoder (candidate finding)
NO_NULL_ELEMS = "-elem.nullable"
CONSTRAINT_KINDS = ("min-1", "max+1", "minLength-1", "maxLength+1")


def strip_empty(x):
    """JSON equality modulo null / empty collections (nil-vs-empty is C01's concern)"""
    if isinstance(x, dict):
        d = {k: strip_empty(v) for k, v in x.items()}
        return {k: v for k, v in d.items() if v not in (None, [], {})}
    if isinstance(x, list):
        return [strip_empty(v) for v in x]
    return x


def canon_json(text):
    try:
        return json.dumps(strip_empty(json.loads(text)), sort_keys=True)
    except Exception:
        return "BAD " + text


class Doc:
    __slots__ = ("case", "kind", "path", "shape", "doc", "sexp", "vimpl", "simpl", "verdict", "site",
                 "vmodel", "vspec", "tmodel", "tspec")


class Case:
    __slots__ = ("id", "pkg", "root", "fmt", "defs", "vir", "hyp")


TAGS = collections.Counter()   # coverage rows of the harness ("T <tag> <count>"): what the transformations produced


def run_stream(hb, hstream="c08-lab", **kw):
    rows = harness(hb, hstream, **kw)
    cases, docs, skipped = {}, [], []
    for r in rows:
        if r[0] == "T" and len(r) == 3 and "pinned" not in kw:
            TAGS[r[1]] += int(r[2])
        elif r[0] == "S":
            c = Case()
            c.id, c.pkg, c.root, c.fmt, c.defs, c.vir = r[1:7]
            c.hyp = ""
            cases[c.id] = c
        elif r[0] == "X":
            skipped.append((r[1], r[2] if len(r) > 2 else ""))
        elif r[0] == "D":
            d = Doc()
            d.case = cases[r[1]]
            d.kind, d.path, d.shape, d.doc, d.sexp, d.vimpl, d.simpl, d.verdict = r[2:10]
            d.site = r[10] if len(r) > 10 else "-"
            docs.append(d)
    # the Lean side
    reqs = []
    for c in cases.values():
        reqs.append("defschemas %s %s" % (c.id, c.vir))
        reqs.append("c08hyp %s" % c.id)
    for d in docs:
        c = d.case
        reqs.append("govalidate %s %s %s %s" % (c.id, c.pkg, c.root, d.sexp))
        reqs.append("gostrict %s %s %s %s" % (c.id, c.pkg, c.root, d.sexp))
    rep = drv(reqs) if reqs else []
    it = iter(rep)
    bad_defs = []
    for c in cases.values():
        if next(it) != "ok":
            bad_defs.append(c.id)
        c.hyp = next(it)
    for d in docs:
        m = next(it).split("\t")
        d.vmodel, d.vspec = canon_viols(m[0]), canon_viols(m[1][5:]) if len(m) > 1 else ""
        m = next(it).split("\t")
        d.tmodel, d.tspec = m[0], (m[1][5:] if len(m) > 1 else "")
    return cases, docs, skipped, bad_defs


def canon_viols(s):
    """driver: 'ok <n> <list>' → 'ok' | 'invalid <list>' (the harness' canonical form)"""
    if s.startswith("ok "):
        p = s.split(" ", 2)
        return "ok" if p[1] == "0" else "invalid " + (p[2] if len(p) > 2 else "")
    return s


INT_RANGE = {(8, True): (-2**7, 2**7 - 1), (16, True): (-2**15, 2**15 - 1), (32, True): (-2**31, 2**31 - 1),
             (64, True): (-2**63, 2**63 - 1), (8, False): (0, 2**8 - 1), (16, False): (0, 2**16 - 1),
             (32, False): (0, 2**32 - 1), (64, False): (0, 2**64 - 1)}


def single_valued(site):
    """does the source term at the fault admit exactly one number?  (CUE unifies such a term into a constant)"""
    m = re.match(r"\(int (\d+) (true|false) (-|-?\d+) (-|-?\d+)\)$", site)
    if m:
        lo, hi = INT_RANGE.get((int(m.group(1)), m.group(2) == "true"), (None, None))
        if lo is None:
            return False
        if m.group(3) != "-":
            lo = max(lo, int(m.group(3)))
        if m.group(4) != "-":
            hi = min(hi, int(m.group(4)))
        return lo == hi
    m = re.match(r"\(num \d+ (-?[\d.]+) (-?[\d.]+)\)$", site)
    return bool(m) and float(m.group(1)) == float(m.group(2))


def case_text(d):
    irspec = "n/a"
    if d.vspec == "ok":
        irspec = "no-violation"
    elif d.vspec.startswith("invalid"):
        irspec = "violation"
    return ("fmt=%s kind=%s path=%s shape=%s site=%s site-single-valued=%s oracle=%s validate=%s strict=%s irspec=%s irfaults=%s "
            "model-validate=%s model-strict=%s hyp=%s doc=%s defs=%s") % (
        d.case.fmt, d.kind, d.path, d.shape, d.site, "true" if single_valued(d.site) else "false", d.verdict, d.vimpl[:200], d.simpl[:200], irspec, d.tspec[:200],
        d.vmodel[:120], d.tmodel[:120], d.hyp if hasattr(d, "hyp") else d.case.hyp, d.doc, d.case.defs)


def strict_agrees(d):
    if d.simpl.startswith("ok "):
        return d.tmodel.startswith("ok ") and canon_json(d.tmodel[3:]) == canon_json(d.simpl[3:])
    if d.simpl.startswith("err "):
        return d.tmodel == "err"
    return False


def deep_run(shape):
    """container nesting directly above the deepest-nested struct on a fault path ("" if < 2 levels);
    same reading as c08DeepRun in harness/c08_nest.go"""
    best, cur = [], []
    for p in shape.split("/"):
        if p in ("array", "dict"):
            cur.append(p)
        elif p.startswith("ref(") or p == "nullable":
            pass
        elif p == "struct" or p.startswith("struct."):
            if len(cur) >= 2 and len(cur) > len(best):
                best = list(cur)
            cur = []
        else:
            cur = []
    return "/".join(best)


STRICT_KINDS = ("undeclaredKey", "missingRequired", "nullRequired")
DEEP_NESTINGS = ("dict/array", "array/dict", "dict/dict", "array/array")


def outside_model(s):
    return s.startswith("unsup") or s == "fuel" or s.startswith("fuel")


class Runner:
    def __init__(self, c, hb):
        self.c, self.hb = c, hb
        self.stats = collections.Counter()
        self.kinds = collections.Counter()
        self.shapes = collections.Counter()
        self.deep = collections.Counter()   # (container nesting above the struct, fault kind), inside the strict model
        self.known = list(c.known)   # /verif/known_findings.json, property C08 (`fixed` entries suppress nothing)
        c.known = self.known
        self.pending = []      # unexplained oracle failures (to shrink)
        self.disagree = []     # unexplained model/implementation disagreements

    def match_known(self, text):
        return self.c.match_known(text)

    def stream(self, name, hstream="c08-lab", **kw):
        c = self.c
        cases, docs, skipped, bad_defs = run_stream(self.hb, hstream, **kw)
        self.origin = getattr(self, "origin", {})
        for d in docs:
            self.origin[id(d)] = (hstream, kw)
        c.oblige("stream %s: every IR is accepted by the Lean VIR reader" % name, not bad_defs, bad_defs[:5])
        st = self.stats
        st["cases"] += len(cases)
        st["cases_skipped"] += len(skipped)
        for _, why in skipped:
            st["skip:" + why.split(" ")[0]] += 1
        nontrivial = []
        for d in docs:
            self.kinds[d.kind] += 1
            for tok in set(re.match(r"[a-zA-Z]+", seg).group(0) for seg in d.shape.split("/") if re.match(r"[a-zA-Z]", seg)):
                self.shapes[tok] += 1
            st["docs"] += 1
            st["alias_of_alias_paths"] += ("ref(ref)" in d.shape and d.kind != "valid")
            if d.kind != "valid" and deep_run(d.shape):
                self.deep[deep_run(d.shape) + " " + d.kind] += 1
                st["deep_faults"] += 1
                st["deep_faults_outside_strict_model"] += outside_model(d.tmodel)
            text = None
            # ---- correspondence: model of the generated code vs the generated code ----
            v_out = outside_model(d.vmodel)
            t_out = outside_model(d.tmodel)
            v_dis = (not v_out) and d.vmodel != d.vimpl
            t_dis = (not t_out) and not strict_agrees(d)
            st["validate_outside_model"] += v_out
            st["strict_outside_model"] += t_out
            st["validate_compared"] += (not v_out)
            st["strict_compared"] += (not t_out)
            # ---- instances of the theorems (hypotheses true ⇒ model = spec): guards driver/VIR ----
            hyp_alias = "noConstrainedAlias=true" in d.case.hyp
            hyp_union = "scalarUnionsAreLeaf=true" in d.case.hyp
            if hyp_alias and d.vmodel.split(" ")[0] in ("ok", "invalid") and d.vspec.split(" ")[0] in ("ok", "invalid"):
                st["theorem_instances_validate"] += 1
                if d.vmodel != d.vspec:
                    c.oblige("instance of C08_validate_eq_partial on %s %s" % (d.case.id, d.doc[:200]), False,
                             "model=%s spec=%s" % (d.vmodel, d.vspec))
            if hyp_union and d.tspec.startswith("faults ") and d.doc != "null" and "nullElem" not in d.tspec \
                    and (d.tmodel == "err" or d.tmodel.startswith("ok ")):
                st["theorem_instances_strict"] += 1
                if (d.tmodel == "err") != (not d.tspec.startswith("faults 0")):
                    c.oblige("instance of C08_strict_iff_partial on %s %s" % (d.case.id, d.doc[:200]), False,
                             "model=%s spec=%s" % (d.tmodel[:80], d.tspec))
            # ---- oracle ----
            failed = d.verdict.startswith("FAIL")
            st["unresolvable_fault_paths"] += ("unresolvable-fault-path" in d.verdict and name != "c08-pinned")
            if failed or v_dis or t_dis:
                text = case_text(d)
                kf = self.match_known(text)
                if failed:
                    st["oracle_failures"] += 1
                if kf:
                    st["known:" + kf["id"]] += 1
                elif failed:
                    self.pending.append((name, d, text))
                else:
                    self.disagree.append((name, d, text, "validate" if v_dis else "strict"))
            if v_dis:
                st["validate_disagreements"] += 1
            if t_dis:
                st["strict_disagreements"] += 1
            if d.kind != "valid" or d.shape.count("/") > 1:
                nontrivial.append(d.case.id + "|" + d.kind + "|" + d.path + "|" + d.doc)
        c.count(name, len(docs), nontrivial,
                samples=[{"stream": name, "case": d.case.id, "kind": d.kind, "path": d.path, "doc": d.doc[:300],
                          "validate": d.vimpl[:200], "strict": d.simpl[:200], "model_validate": d.vmodel[:200],
                          "model_strict": d.tmodel[:120], "oracle": d.verdict}
                         for d in docs[:: max(1, len(docs) // 3)][:3]])
        c.cov["disagreements_checked"] += 2 * len(docs)
        return docs

    # ---------- shrinking through the lab ----------
    def shrink(self, d):
        """returns (format, defs, kind, path, doc, text) of the smallest failing variant"""
        line = "\t".join([d.case.fmt, d.case.defs, d.kind, d.path, d.doc])
        best = (line, case_text(d))
        if not d.case.defs.startswith("(defs"):
            return best          # hand-rendered schema text (c08-excl): small by construction, replayed by stream
        tmp = os.path.join(WORK, "c08_shrink_%d.tsv" % os.getpid())
        want = d.verdict.split(" ")[1] if " " in d.verdict else d.verdict
        try:
            for rnd in range(4):
                open(tmp, "w").write(best[0] + "\n")
                stream = "c08-slice" if (rnd == 0 and d.path != "$") else "c08-drop"
                cands = [r for r in harness(self.hb, stream, **{"in": tmp})]
                cands = ["\t".join(r) for r in cands if len(r) == 5]
                cands = [x for x in dict.fromkeys(cands) if x != best[0]]
                if not cands:
                    if stream == "c08-drop":
                        break
                    continue
                open(tmp, "w").write("\n".join(cands) + "\n")
                _, docs, _, _ = run_stream(self.hb, pinned=tmp, degrade=0)
                hit = None
                for x in docs:
                    if d.kind == "undeclaredKey" and "zzUndeclared" not in x.doc:
                        continue
                    if x.verdict.startswith("FAIL") and want in x.verdict:
                        size = len(x.case.defs) + len(x.doc)
                        if hit is None or size < hit[0]:
                            hit = (size, x)
                if hit is None or hit[0] >= len(best[0]):
                    if stream == "c08-drop":
                        break
                    continue
                x = hit[1]
                best = ("\t".join([x.case.fmt, x.case.defs, x.kind, x.path, x.doc]), case_text(x))
        except Exception as e:  # shrinking must never hide the failure itself
            log("shrink failed:", e)
        finally:
            if os.path.exists(tmp):
                os.remove(tmp)
        return best

    def report(self):
        c = self.c
        seen = set()
        reported = 0
        for name, d, text in self.pending:
            cls = (d.case.fmt, d.kind, re.sub(r"[0-9]+", "N", d.verdict)[:60], re.sub(r"\{[^}]*\}|\.\w+", "", d.shape))
            if cls in seen:
                continue
            seen.add(cls)
            if reported >= 5 or len(seen) > 10:
                break
            line, stext = self.shrink(d)
            kf = self.match_known(stext)
            if kf:
                self.stats["known:" + kf["id"]] += 1
                continue
            if reported < 5:
                f = line.split("\t")
                payload = {"kind": "oracle-failure", "stream": name, "oracle": d.verdict, "format": f[0], "defs": f[1],
                           "fault_kind": f[2], "fault_path": f[3], "doc": f[4], "case_text": stext,
                           "how": "./check C08 --replay <this file>"}
                if f[1].startswith("(defs"):
                    payload["pinned_line"] = line
                else:
                    hs, kw = self.origin[id(d)]
                    payload.update({"replay_stream": hs, "replay_args": dict(kw, only=d.case.id), "case_id": d.case.id})
                c.violation(payload)
                reported += 1
        if self.disagree and not reported:
            name, d, text, which = self.disagree[0]
            c.violation({"kind": "correspondence-broken", "stream": name,
                         "broken": "the Lean model of the generated %s no longer predicts the generated code" % (
                             "Validate()" if which == "validate" else "UnmarshalJSONStrict"),
                         "format": d.case.fmt, "defs": d.case.defs, "doc": d.doc, "fault_kind": d.kind, "fault_path": d.path,
                         "impl_validate": d.vimpl, "model_validate": d.vmodel, "impl_strict": d.simpl[:300],
                         "model_strict": d.tmodel[:300], "case_text": text,
                         "pinned_line": "\t".join([d.case.fmt, d.case.defs, d.kind, d.path, d.doc]),
                         "n_disagreements": len(self.disagree)}, found_input=False)



# ---- BEGIN front-end keeps tie (owner: c01-front builder; verifkit/front_keeps.py) ------------------
def front_keeps_tie(c):
    """instances of C08_{jsonschema,openapi}_validate_end_to_end_partial on the REAL front-end IR: for every sub-document at a
       flat object definition, the `Validate()` model on the pass models' output of the real IR = the violations of the struct
       type written from the SOURCE keywords (and = `jsViolations` of the document when every member is present)"""
    from verifkit import front_keeps
    stats, bad, err = front_keeps.run(c)
    c.oblige("front-end keeps streams run (c01-front, c01-front-oa)", err is None, err or "")
    if err is not None:
        return
    for b in [b for b in bad if b["verb"].endswith("c08")][:3]:
        c.violation(dict(b, kind="front-end-constraints-instance-fails",
                         broken="C08_*_validate_end_to_end_partial: on the REAL front-end IR the Validate() model disagrees with the violations of the source keywords"))
    for stream, key in (("c01-front", "JSON Schema"), ("c01-front-oa", "OpenAPI")):
        st = stats.get(stream, {})
        g = lambda k: st.get(k, 0)
        c.oblige("%s: constraint keywords are kept by the REAL front-end (%d typed scalar properties, %d with constraints, all VIR-equal to `scalarOf`)" % (key, g("keeps.props"), g("keeps.cons")),
                 g("keeps.kept") == g("keeps.props") and g("keeps.cons") >= 40 and g("bad_replies") == 0)
        c.oblige("%s: C08 validate end-to-end instances hold (%d/%d sub-documents at flat objects; document-level jsViolations %d/%d)" % (key, g("c08.ok"), g("c08.inst"), g("c08.docok"), g("c08.docinst")),
                 g("c08.ok") == g("c08.inst") and g("c08.docok") == g("c08.docinst") and g("c08.inst") >= 20)
        c.cov["front_keeps_" + stream] = dict(st)
# ---- END front-end keeps tie ------------------------------------------------------------------------


def main():
    c = Check("C08")
    c.trusted = [
        "Lean 4.33 kernel; axioms per theorem are listed in obligation_list (subset of propext, Classical.choice, Quot.sound)",
        "hand-written models lean/Cog/Sem/GoValidate.lean, GoStrict.lean of the Go templates (struct_validation_method.tmpl, "
        "*.strict.json_unmarshal.tmpl, validation.go, strictjson.go, runtime/tools.tmpl), tied to the generated code by the c08-lab streams",
        "lean/Cog/Sem/GoCodec.lean (plain json.Unmarshal on generated types) at the leaves of the strict decoder and for producing the value Validate() runs on",
        "encoding/json itself; the Go toolchain of the lab; the lab's source grammar renderers and document/fault generators (harness/src_*.go)",
        "the VIR encoder (harness/vir.go) and reader (lean/Cog/IR/Vir.lean); numbers restricted to multiples of 0.25",
        "Go map iteration order: the model reports map entries in document order, reports are compared as sorted lists",
    ]
    # one binary per source tree, so that runs against a private copy (VERIF_REPO) never swap the
    # binary under a concurrent run against /repo
    tag = "c08" if os.path.realpath(core.REPO) == "/repo" else "c08-" + hashlib.sha1(core.REPO.encode()).hexdigest()[:6]
    hb, err = build_go("verifharness", "harness", files=FILES, tag=tag)
    c.oblige("harness + lab build against the working tree of %s" % core.REPO, hb is not None, err)
    c.lean_obligations(THEOREMS)
    rule = ("documents (valid + exactly one injected fault) against generated source terms in three input formats; "
            "every document is run through the real Validate()/UnmarshalJSONStrict and through both Lean models; "
            "non-trivial = carries a fault or exercises a nested position; distinct by (case, fault, document)")
    cmd = "cd /verif/lean && lake build Cog drv && lake env lean <#print axioms of the C08_* theorems>"
    if hb is None:
        c.finish(cmd, rule)
    r = Runner(c, hb)
    if c.replay:
        rp = json.load(open(c.replay))
        if "replay_stream" in rp:
            _, docs, skipped, _ = run_stream(hb, rp["replay_stream"], **rp["replay_args"])
            docs = [d for d in docs if d.case.id == rp["case_id"] and d.doc == rp["doc"]]
        else:
            tmp = os.path.join(WORK, "c08_replay_%d.tsv" % os.getpid())
            open(tmp, "w").write(rp["pinned_line"] + "\n")
            _, docs, skipped, _ = run_stream(hb, pinned=tmp, degrade=0)
            os.remove(tmp)
        bad = False
        for d in docs:
            print("replay:", d.kind, d.path, d.doc)
            print("  real Validate():", d.vimpl, "| model:", d.vmodel, "| spec:", d.vspec)
            print("  real strict    :", d.simpl[:300], "| model:", d.tmodel[:300], "| spec:", d.tspec)
            print("  oracle:", d.verdict)
            bad = bad or d.verdict.startswith("FAIL") or (not outside_model(d.vmodel) and d.vmodel != d.vimpl) \
                or (not outside_model(d.tmodel) and not strict_agrees(d))
        for s in skipped:
            print("replay: case not usable:", s)
        sys.exit(1 if bad or not docs else 0)

    quick = c.tier == "quick"
    # 1. pinned corpus: the witnesses of the counterexample theorems and of the known findings
    if os.path.exists(CORPUS):
        r.stream("c08-pinned", pinned=CORPUS, degrade=0)
    # 2. bulk stream, three input formats
    seeds = [c.seed] if quick else [c.seed, c.seed + 100, c.seed + 200]
    for s in seeds:
        r.stream("c08-lab", n=40 if quick else 130, seed=s, formats="jsonschema,openapi,cue", switches=NO_NULL_ELEMS,
                 docs=6 if quick else 10, faults=14 if quick else 30)
    # 3. the constructs the default generator routes around (named scalar / collection aliases)
    r.stream("c08-lab-alias", n=24 if quick else 80, seed=c.seed + 7, formats="jsonschema,openapi",
             switches="+def.scalar,+def.collection,-string.dateTime," + NO_NULL_ELEMS, docs=4, faults=16 if quick else 30)
    # 4. alias-of-alias definitions (ref → ref → struct / scalar) as field type, array item and map value;
    #    required fields with zero-valued defaults, documents omitting one required-with-default member
    r.stream("c08-lab-alias2", n=16 if quick else 80, seed=c.seed + 11, formats="jsonschema,openapi,cue",
             aliasify=1, zerodefaults=1, omit=3, switches=NO_NULL_ELEMS, docs=4, faults=12 if quick else 24)
    # 5. structs below two or three container levels (map→array→struct, array→map→struct, map→map→struct,
    #    array→array→struct, inner container inline or a named collection), faults inside those structs
    r.stream("c08-lab-nest", n=24 if quick else 72, seed=c.seed + 13, formats="jsonschema,openapi,cue",
             deepnest=1, deep=10 if quick else 12, switches=NO_NULL_ELEMS, docs=3, faults=4)
    # 6. sibling-sensitive shapes: member names that differ only by letter case (exactly one of the two required),
    #    the same nullable union of plain scalars on several required members; for every rich valid document the
    #    valid variants that omit one optional member / hold null at one nullable member
    r.stream("c08-lab-shapes", n=12 if quick else 48, seed=c.seed + 17, formats="jsonschema,openapi,cue",
             casetwins=1, sharedunions=1, variants=14, switches=NO_NULL_ELEMS, docs=3, faults=4)
    # 7. exclusive bounds in the three formats, documents exactly on every bound
    r.stream("c08-excl", hstream="c08-excl", n=5 if quick else 40, seed=c.seed)
    r.report()

    st = r.stats
    c.oblige("the models cover the streams (validate: >= 85% of documents inside the model)",
             st["validate_compared"] >= 0.85 * max(1, st["docs"]), dict(st))
    c.oblige("the models cover the streams (strict: >= 85% of documents inside the model)",
             st["strict_compared"] >= 0.85 * max(1, st["docs"]), dict(st))
    c.oblige("every generated fault path is followed through the source term", st["unresolvable_fault_paths"] == 0, dict(st))
    c.oblige("fault kinds exercised: every constraint and strict kind occurs",
             all(r.kinds[k] > 0 for k in CONSTRAINT_KINDS + ("undeclaredKey", "missingRequired", "nullRequired", "wrongType",
                                                             "onExclusiveBound", "omitDefaulted")),
             dict(r.kinds))
    c.oblige("alias-of-alias definitions occur on fault paths", st["alias_of_alias_paths"] > 0, dict(st))
    c.oblige("nesting exercised: constraints under arrays, maps, references and unions occur",
             all(r.shapes[k] > 0 for k in ("array", "dict", "ref", "oneOfStructs", "oneOfScalars")), dict(r.shapes))
    c.oblige("container nestings exercised: undeclared / missing / null-required faults inside a struct below "
             "map→array, array→map, map→map and array→array occur, inside the strict model",
             all(r.deep[n + " " + k] > 0 for n in DEEP_NESTINGS for k in STRICT_KINDS)
             and st["deep_faults_outside_strict_model"] * 10 <= st["deep_faults"], dict(r.deep))
    c.oblige("sibling-sensitive shapes exercised: case-variant member names (one of two required) with the optional "
             "twin omitted, a nullable scalar union on two or more required members with null at each use",
             all(TAGS[k] > 0 for k in ("term.caseTwinMembers", "term.sharedNullableUnionUses", "omitOptional",
                                       "omitOptional.caseTwinOfRequired", "nullAtNullable",
                                       "nullAtNullable.requiredUnionUsedTwice")), dict(TAGS))
    c.cov["distribution"] = {"fault_kinds": dict(r.kinds), "constructs_on_fault_paths": dict(r.shapes),
                             "faults_below_two_or_more_containers": dict(r.deep),
                             "valid_variants_and_shapes": dict(TAGS),
                             "stats": {k: v for k, v in st.items()}}
    c.cov["oracle_failures"] = st["oracle_failures"]
    front_keeps_tie(c)   # constraints through the front-ends (JSON Schema, OpenAPI): instances on the real IR
    c.finish(cmd, rule,
             "Known findings are matched on the text of the shrunk failing case (format, fault kind, constructs on the "
             "fault path, source term at the fault, real outcomes, what the Lean specification says about the IR).")


main()
