"""C06 — each language's generators receive the normal form they assume.

Lean: models of the 15 passes of the five CompilerPasses() chains (lean/Cog/Passes), decidable
normal-form predicates (lean/Cog/NF), theorems in lean/Cog/Props/C06.lean composed along the
REGENERATED lean/Cog/Gen/Chains.lean.  Tie: (1) regenerated chains, cross-checked against the
runtime CompilerPasses(); (2) per-pass and (3) per-chain differential runs, VIR byte-equal;
(4) the NF predicates evaluated by an independent Go oracle on the real chain output and by Lean.
Oracle failures are shrunk and matched against the known findings; anything else is a VIOLATION.
"""
import collections, json, os, re, sys, time
from verifkit.core import *
from verifkit import gen_c06

PID = "C06"
PROPOSED_PATH = os.path.join(WORK, "proposed_findings_C06.json")

THEOREMS = []   # filled from lean/Cog/Props/C06.lean (every `theorem C06_…`)
WITNESS_THEOREMS = []


def theorem_names():
    src = open(os.path.join(LEAN, "Cog", "Props", "C06.lean"), encoding="utf-8").read()
    ns = re.search(r"^namespace\s+(\S+)", src, re.M).group(1)
    return [ns + "." + m for m in re.findall(r"^theorem\s+(C06_\w+)", src, re.M)]


# ------------------------------------------------------------------ harness helpers
def build_c06_harness():
    """harness binary scoped to the files the C06 streams need (an unrelated stream under construction
    in the shared harness directory cannot break this check); built from verifkit.core.REPO"""
    return build_go("verifharness", "harness", files=HARNESS_BASE + ["c06_*.go"], tag="c06")


def eval_requests(hb, reqs, nf=False):
    tmp = os.path.join(WORK, "c06_eval_%d.txt" % os.getpid())
    with open(tmp, "w") as fh:
        fh.write("\n".join(reqs) + "\n")
    try:
        return harness(hb, "c06-eval", **{"in": tmp, "nf": "1" if nf else "0"})
    finally:
        os.remove(tmp)


def candidates(hb, req, maxn=400):
    tmp = os.path.join(WORK, "c06_cand_%d.txt" % os.getpid())
    with open(tmp, "w") as fh:
        fh.write(req + "\n")
    try:
        return harness(hb, "c06-cands", **{"in": tmp, "max": maxn})
    finally:
        os.remove(tmp)


def shrink(hb, req, still_bad, rounds=120, budget_s=25):
    """greedy delta debugging: `still_bad(rows)` returns the index of the first one-step-smaller
    candidate (rows from c06-cands, already evaluated on the real code) that is still failing."""
    cur, t0 = req, time.time()
    for _ in range(rounds):
        if time.time() - t0 > budget_s:
            break
        rows = candidates(hb, cur)
        i = still_bad(rows)
        if i is None:
            break
        cur = rows[i][0]
    return cur


def conjunct_paths(verdict, conjunct):
    m = re.match(r"FAIL lang=(\w+) nf=(\S+) at=(.*)", verdict)
    if not m:
        return []
    return [p.split("@", 1)[1] for p in m.group(3).split(";") if p.startswith(conjunct + "@")]


def failing_conjuncts(verdict):
    m = re.match(r"FAIL lang=(\w+) nf=(\S+) at=", verdict)
    return m.group(2).split(",") if m else []


def coarse(path):
    cls = re.sub(r'(pkg|obj|field|gen-field|member):("[^"]*"|[^/:]*)', r"\1:*", path)
    cls = re.sub(r"(branch|allOf):\d+", r"\1:#", cls)
    tags = [t for t, pat in (("index", "/index"), ("underbranch", "branch:#"), ("genfield", "gen-field"),
                             ("allOf", "allOf"), ("entry", "/entrypoint")) if pat in cls]
    if cls.count("/") > 2:
        tags.append("nested")
    m = re.search(r'member:"(\d+)":numeric$', path)
    if m:
        tags.append("longdigits" if len(m.group(1)) >= 19 else "shortdigits")
    return ",".join(tags) + "|" + cls.split("/")[-1]


def case_text(lang, conjunct, verdict, req, cls=None):
    """the text the `match` regex of a known finding is applied to; with `cls`, only the violation
    paths of that failure class are listed"""
    vir = req.split(" ", 2)[2]
    paths = [p for p in conjunct_paths(verdict, conjunct) if cls is None or coarse(p) == cls]
    return "lang=%s conjunct=%s at=%s input=%s" % (lang, conjunct, ";".join(paths), vir)


# ------------------------------------------------------------------ known findings
def load_findings():
    out = [f for f in load_known().get("findings", []) if f.get("property") == PID]
    ids = {f["id"] for f in out}
    if os.path.exists(PROPOSED_PATH):
        try:
            for f in json.load(open(PROPOSED_PATH)).get("findings", []):
                if f["id"] not in ids:
                    out.append(f)
                    ids.add(f["id"])
        except Exception as e:  # noqa
            log("cannot read", PROPOSED_PATH, e)
    for f in PROPOSED:
        if f["id"] not in ids:
            out.append(f)
            ids.add(f["id"])
    return out


# regex fragments over the VIR text of the SHRUNK input
NESTED_DISJ = r"\(disj \(branches (?:(?!\(mapping).)*\(disj "      # a union below a branch of a union
DISJ_IN_INDEX = r"\(map \(disj "                                     # a union as map index type
_VIS = r"(?!\S*(?:/index|branch:\d))"                                # path at a position the visitor walks


def _f(fid, what, match, pinned):
    return {"id": fid, "property": PID, "what": what, "match": match, "pinned": pinned}


def _obj(name, ty, pkg="p"):
    return '("%s" (obj "%s" (c) %s "%s" "%s"))' % (name, name, ty, pkg, name)


def _schemas(*objs):
    return '(schemas (schema "p" (smeta "" "" "") "" (bad "" (meta false nil (hints))) (objects %s)))' % " ".join(objs)


M0 = "(meta false nil (hints))"
STR = '(scalar "string" nil (cs) %s)' % M0
I64 = '(scalar "int64" nil (cs) %s)' % M0
BOOL = '(scalar "bool" nil (cs) %s)' % M0
NULL = '(scalar "null" nil (cs) %s)' % M0


def _disj(*bs):
    return '(disj (branches %s) "" (mapping) %s)' % (" ".join(bs), M0)


def _arr(e):
    return "(array %s %s)" % (e, M0)


def _map(i, v):
    return "(map %s %s %s)" % (i, v, M0)


def _struct(*fields):
    return "(struct (fields %s) (gen) none %s)" % (" ".join('(f "%s" %s %s (c))' % (n, t, "true" if r else "false") for n, t, r in fields), M0)


def _ref(n, pkg="p"):
    return '(ref "%s" "%s" %s)' % (pkg, n, M0)


def _enum(*members):
    return "(enum (vals %s) %s)" % (" ".join('("%s" %s "%s")' % (n, v, k) for n, v, k in members), M0)


W_UNION_UNDER_BRANCH = _schemas(_obj("A", _disj(STR, _arr(_disj(I64, BOOL)))))
W_UNION_IN_INDEX = _schemas(_obj("A", _map(_disj(STR, I64), STR)))
W_NULLPAIR_UNDER_BRANCH = _schemas(_obj("A", _disj(_arr(_disj(STR, NULL)), BOOL)))
W_NULLPAIR_IN_INDEX = _schemas(_obj("A", _map(_disj(STR, NULL), STR)))
W_FLATTEN_NULLPAIR = _schemas(_obj("A", _disj(_map(STR, STR), _map(STR, BOOL), NULL)))
# PHP inlines objects that are unions / maps / arrays: there the shape sits in a struct field
W_NULLPAIR_UNDER_BRANCH_F = _schemas(_obj("U", _struct(("f", _disj(_arr(_disj(STR, NULL)), BOOL), True))))
W_NULLPAIR_IN_INDEX_F = _schemas(_obj("U", _struct(("f", _map(_disj(STR, NULL), STR), True))))
W_FLATTEN_NULLPAIR_F = _schemas(_obj("U", _struct(("f", _disj(_map(STR, STR), _map(STR, BOOL), NULL), True))))
W_SCALAR_UNION_NULLABLE = _schemas(_obj("A", _struct(("f", _disj(STR, STR), False))))
W_ANY_NULLABLE = _schemas(_obj("A", _struct(("x", STR, True))), _obj("B", _struct(("y", STR, True))),
                         _obj("U", _struct(("f", _disj(_ref("A"), _ref("B")), False))))
W_STRUCT_OUT_OF_ALLOF = _schemas(_obj("A", '(inter (branches %s) %s)' % (_disj(_arr(_struct()), STR), M0)))
W_JAVA_ALIAS = _schemas(_obj("S", _struct(("a", STR, True))), _obj("Al", _ref("S")), _obj("U", _struct(("s", _ref("S"), True))))
W_PHP_INLINE = _schemas(_obj("T", STR), _obj("U", _struct(("t", _ref("T"), False))))
W_ANON_ENUM_NUMERIC = _schemas(_obj("A", _struct(("e", _enum(("1", "(i i64 1)", "int64")), True))))
W_ENUM_OUT_OF_RANGE = _schemas(_obj("E", _enum(("99999999999999999999", "(i i64 0)", "int64"))))

PROPOSED = []
for _l in ("go", "java"):
    PROPOSED += [
        _f("C06/%s/union-under-union-branch" % _l,
           "%s chain leaves a disjunction that sits below a branch of another disjunction (OnDisjunction hooks never recurse into branches; objects registered with RegisterNewObject are not visited), e.g. `string | [](int64 | bool)`" % _l,
           r"lang=%s conjunct=(NoUnion|NoNullPairUnion) .*input=.*%s" % (_l, NESTED_DISJ), "chain %s %s" % (_l, W_UNION_UNDER_BRANCH)),
        _f("C06/%s/union-in-map-index" % _l,
           "%s chain leaves a disjunction used as map index type (the visitor walks map values only)" % _l,
           r"lang=%s conjunct=(NoUnion|NoNullPairUnion) at=\S*/index\S* input=.*%s" % (_l, DISJ_IN_INDEX), "chain %s %s" % (_l, W_UNION_IN_INDEX)),
        _f("C06/%s/same-kind-scalar-union-drops-nullable" % _l,
           "%s chain: DisjunctionToType rewrites a union of same-kind scalars to `NewScalar(kind, Default(…))`, dropping Nullable: a non-required field ends up not nullable" % _l,
           r"lang=%s conjunct=NonRequiredNullable at=\S*:scalar\((?!any\)).*input=.*\(f \"[^\"]*\" \(disj " % _l, "chain %s %s" % (_l, W_SCALAR_UNION_NULLABLE)),
        _f("C06/%s/undiscriminated-union-to-any-drops-nullable" % _l,
           "%s chain: UndiscriminatedDisjunctionToAny replaces a union of references without discriminator/mapping by `ast.Any()`, which is not Nullable: a non-required field ends up not nullable (the jennies treat `any` as nullable through NullableKinds.AnyIsNullable, the IR flag is lost)" % _l,
           r"lang=%s conjunct=NonRequiredNullable at=\S*:scalar\(any\).*input=.*\(f \"[^\"]*\" \(disj " % _l, "chain %s %s" % (_l, W_ANY_NULLABLE)),
        _f("C06/%s/struct-lifted-out-of-allOf" % _l,
           "%s chain: a disjunction inside an allOf composition is lifted into a generated object by DisjunctionToType; anonymous structs below its branches (never named because AnonymousStructsToNamed skips intersections) end up outside any allOf" % _l,
           r"lang=%s conjunct=StructsNamedOutsideAllOf .*input=.*\(inter \(branches .*\(disj .*\(struct " % _l, "chain %s %s" % (_l, W_STRUCT_OUT_OF_ALLOF)),
    ]
PROPOSED.append(_f("C06/java/remove-intersections-rebuilds-field",
                   "java chain: RemoveIntersections rebuilds fields that refer to an aliased struct/array object with ast.NewStructField (Required=false, Nullable=false): a non-required, non-nullable field",
                   r"lang=java conjunct=NonRequiredNullable at=\S*:(ref|array)\b", "chain java %s" % W_JAVA_ALIAS))
PROPOSED.append(_f("C06/php/undiscriminated-union-to-any-drops-nullable",
                   "php chain: UndiscriminatedDisjunctionToAny replaces a union of references without discriminator/mapping by `ast.Any()`, which is not Nullable: a non-required field ends up not nullable",
                   r"lang=php conjunct=NonRequiredNullable at=\S*:scalar\(any\).*input=.*\(f \"[^\"]*\" \(disj ", "chain php %s" % W_ANY_NULLABLE))
PROPOSED.append(_f("C06/php/inline-drops-nullable",
                   "php chain: InlineObjectsWithTypes replaces a (nullable) reference by a deep copy of the referred type, losing Nullable: a non-required field ends up not nullable",
                   r"lang=php conjunct=NonRequiredNullable .*input=.*\(f \"[^\"]*\" \(ref ", "chain php %s" % W_PHP_INLINE))
for _l in ("php", "python"):
    _sfx = "_F" if _l == "php" else ""
    _W = {k: globals()[k + _sfx] for k in ("W_NULLPAIR_UNDER_BRANCH", "W_NULLPAIR_IN_INDEX", "W_FLATTEN_NULLPAIR")}
    PROPOSED += [
        _f("C06/%s/null-pair-under-union-branch" % _l,
           "%s chain leaves a two-branch `T | null` union below a branch of another union (DisjunctionWithNullToOptional does not recurse into branches)" % _l,
           r"lang=%s conjunct=NoNullPairUnion .*input=.*%s" % (_l, NESTED_DISJ), "chain %s %s" % (_l, _W["W_NULLPAIR_UNDER_BRANCH"])),
        _f("C06/%s/null-pair-in-map-index" % _l,
           "%s chain leaves `T | null` used as map index type (the visitor walks map values only)" % _l,
           r"lang=%s conjunct=NoNullPairUnion at=\S*/index\S* input=.*%s" % (_l, DISJ_IN_INDEX), "chain %s %s" % (_l, _W["W_NULLPAIR_IN_INDEX"])),
        _f("C06/%s/flatten-dedup-creates-null-pair" % _l,
           "%s chain: FlattenDisjunctions (after DisjunctionWithNullToOptional) de-duplicates branches by type name / drops unresolvable references, turning `A | A' | null` into a two-branch `A | null`" % _l,
           r"lang=%s conjunct=NoNullPairUnion at=%s\S* input=(?!.*%s)(?!.*%s)" % (_l, _VIS, NESTED_DISJ, DISJ_IN_INDEX), "chain %s %s" % (_l, _W["W_FLATTEN_NULLPAIR"])),
    ]
W_EMPTY_NAME = _schemas(_obj("E", _enum(("", "(i i64 0)", "int64"))))
W_DASH_NAME = _schemas(_obj("A", _struct(("e", _enum(("-", "(i i64 0)", "int64")), True))))
PROPOSED.insert(0, _f("C06/php/empty-enum-member-name-kept",
                      "php chain: since fix aceba4d SanitizeEnumMemberNames returns a member whose name is empty unchanged (it used to panic on member.Name[0]); the name is empty in the input or becomes empty when AnonymousEnumToExplicitType camel-cases a name without letters or digits (`-`, `_`)",
                      r"lang=php conjunct=EnumNames at=\S*member:\"\":unsanitised", "chain php %s" % W_DASH_NAME))
for _l in ("python", "typescript"):
    PROPOSED += [
        _f("C06/%s/anonymous-enum-numeric-member" % _l,
           "%s chain: RenameNumericEnumValues only renames members of enum OBJECTS; an anonymous enum (field, map index, allOf, or produced by DisjunctionOfConstantsToEnum from `1 | 2`) keeps purely numeric member names" % _l,
           r"lang=%s conjunct=EnumNames at=(?!pkg:[^/]*/obj:[^/]*/member:)" % _l, "chain %s %s" % (_l, W_ANON_ENUM_NUMERIC)),
        _f("C06/%s/numeric-member-out-of-int-range" % _l,
           "%s chain: RenameNumericEnumValues recognises numeric names with strconv.Atoi; an all-digit name outside the int64 range is not renamed" % _l,
           r"lang=%s conjunct=EnumNames at=pkg:[^/]*/obj:[^/]*/member:\"\d{19,}\"" % _l, "chain %s %s" % (_l, W_ENUM_OUT_OF_RANGE)),
    ]


def write_proposed():
    os.makedirs(WORK, exist_ok=True)
    blob = json.dumps({"comment": "proposed known findings of C06 (to be merged into /verif/known_findings.json by the coordinator); generated from checks/c06.py",
                       "findings": PROPOSED}, indent=1)
    try:
        if not os.path.exists(PROPOSED_PATH) or open(PROPOSED_PATH).read() != blob:
            with open(PROPOSED_PATH, "w") as fh:
                fh.write(blob)
    except OSError:
        pass


# ------------------------------------------------------------------ the check
def main():
    write_proposed()
    c = Check(PID)
    c.known = load_findings()
    c.trusted = [
        "Lean 4.33 kernel; axioms per theorem are listed in obligation_list (subset of propext, Classical.choice, Quot.sound)",
        "hand-written Lean models lean/Cog/Passes/*.lean of the 15 passes of internal/ast/compiler used by the five chains, tied to the code by the c06-pass / c06-chain correspondence streams (VIR byte-equal)",
        "VIR encoder/decoder pairs (harness/vir.go + harness/c06_virdec.go, lean/Cog/IR/Vir.lean); PassesTrail and the member Type options of enum values are not part of VIR",
        "the chain extractor extract/xchains (go/ast over internal/jennies/*/jennies.go), cross-checked on every run against the pass types returned at run time by CompilerPasses()",
        "tools.UpperCamelCase modelled for ASCII (x/text title-casing on [a-zA-Z0-9 ] only); c06-ucc stream",
        "cross-pass pointer sharing is NOT modelled: FlattenDisjunctions copies the branches of a referred union object without copying their kind pointers, and InlineObjectsWithTypes (PHP chain) later assigns children in place through them; the Lean chain model flags such inputs (`shared`, counted as skipped_shared) instead of claiming an output; minimal example: Foo={value: Qux|string}, Qux=[]Qux|string",
        "inputs on which cog's resolution helpers recurse forever (alias cycles) are not generated / not compared: a Go stack overflow cannot be recovered by the harness (C04's business)",
        "the Go oracle harness/c06_oracle.go and the Lean predicates lean/Cog/NF/Preds.lean are independent implementations of the property's normal forms; their verdicts are compared on every real chain output",
    ]
    c.assumptions = ["IRs without nil kind pointers (Ty.bad) below objects; PassesTrail ignored"]

    hb, err = build_c06_harness()
    c.oblige("harness builds against /repo working tree", hb is not None, err)
    ok, detail = gen_c06.regen()
    c.oblige("chains regenerated from internal/jennies/*/jennies.go (xchains)", ok, detail)

    theorems = theorem_names()
    okb, out = lake_build(("Cog.Props.C06",))
    c.oblige("lake build Cog.Props.C06", okb, out[-3000:] if not okb else "")
    okd, outd = lake_build(("drv",))
    c.oblige("lake build drv (line-protocol driver)", okd, outd[-3000:] if not okd else "")
    hits = [h for h in forbidden_scan() if re.search(r"Cog/(Passes|NF|Props/C06|Drv/PassDrv|Gen/Chains)", h)]
    c.oblige("no sorry/admit/axiom/native_decide/bv_decide/implemented_by/unsafe in the C06 lean sources", not hits, hits[:10])
    if okb:
        res, text = audit(theorems, ("Cog.Props.C06",))
        for t in theorems:
            o, ax = res[t]
            c.oblige("theorem %s (axioms: %s)" % (t, ",".join(ax) or "none"), o, text[-1500:] if not o else "")
    else:
        for t in theorems:
            c.oblige("theorem " + t, False, "build failed")
    c.cov["theorems"] = len(theorems)
    c.cov["passes"] = PASS_STATUS
    c.cov["modelled_only"] = [k for k, v in PASS_STATUS.items() if "ONLY" in v]
    c.cov["chain_theorems"] = CHAIN_THEOREMS

    if hb is None or not okb or not okd:
        # no driver / no harness: still try to find a concrete failing input with the oracle alone
        if hb is not None:
            oracle_only(c, hb)
        c.finish(CHECKER, RULE)

    if c.replay:
        replay(c, hb)

    # (1) extracted chains == runtime chains
    runtime = {r[1].split(" ")[0]: r[1].split(" ")[1:] for r in harness(hb, "c06-chains")}
    extracted = json.load(open(gen_c06.CHAINS_JSON))
    same = True
    for lang, names in runtime.items():
        ext = [p["name"] + (":" + ",".join(p["kinds"]) if p.get("kinds") is not None else "") for p in extracted.get(lang, [])]
        if ext != names:
            same = False
            log("chain mismatch", lang, ext, names)
    c.oblige("extracted chains equal the pass types returned at run time by CompilerPasses()", same, "")
    c.cov["chains"] = {k: len(v) for k, v in runtime.items()}

    # (2) witnesses of the Lean counterexample theorems + pinned inputs of the findings, on the real chain
    wl = drv(["c06witness list"])[0]
    wnames = wl.split(" ")[1:] if wl.startswith("ok") else []
    wit_rows = []
    if wnames:
        for name, reply in zip(wnames, drv(["c06witness " + n for n in wnames])):
            parts = reply.split(" ", 2)   # <lang> <conjunct> <vir>
            if len(parts) == 3:
                wit_rows.append((name, parts[0], parts[1], "chain %s %s" % (parts[0], parts[2])))
    c.oblige("the driver lists the witnesses of the counterexample theorems", len(wit_rows) > 0, wl[:200])
    if wit_rows:
        rows = eval_requests(hb, [w[3] for w in wit_rows])
        model = drv([w[3] for w in wit_rows])
        for (name, lang, conj, req), r, m in zip(wit_rows, rows, model):
            holds = conj in failing_conjuncts(r[2])
            c.count("witness", 1, [req])
            if m != r[1]:
                c.violation({"kind": "correspondence-broken", "stream": "witness", "broken": "Lean witness %s: model chain output differs from the real chain" % name,
                             "request": req, "impl": r[1], "model": m}, found_input=False)
            if holds:
                kf = c.match_known(case_text(lang, conj, r[2], req))
                if not kf:
                    c.violation({"kind": "oracle-failure", "stream": "witness", "request": req, "impl": r[1], "oracle": r[2],
                                 "note": "witness %s of a Lean counterexample fails on the real chain and matches no known finding" % name})
            else:
                log("witness", name, "no longer fails on the real chain:", r[2][:200])
            c.cov.setdefault("witnesses", {})[name] = "fails on the real chain (%s)" % conj if holds else "does NOT fail on the real chain any more"
    # inputs on which the passes panicked before the /repo fixes (Passes/PreFix.lean): must pass now
    fl = drv(["c06witness former"])[0]
    nformer = int(fl.split(" ")[1]) if fl.startswith("ok ") else 0
    if nformer:
        freqs = drv(["c06witness former:%d" % i for i in range(nformer)])
        frows = eval_requests(hb, freqs)
        fmodel = drv(freqs)
        bad = [(r[0][:300], r[1][:80], m[:80]) for r, m in zip(frows, fmodel) if not r[1].startswith("ok") or m != r[1]]
        c.oblige("the %d inputs of the former panics (Passes/PreFix.lean) run without panic on the real passes and agree with the model" % nformer, not bad, bad[:3])
        c.count("former-panics", nformer, freqs)
    else:
        c.oblige("the driver lists the former panic inputs", False, fl[:200])
    pinned = [(f["id"], f["pinned"]) for f in c.known if f.get("pinned")]
    if pinned:
        rows = eval_requests(hb, [p for _, p in pinned])
        for (fid, req), r in zip(pinned, rows):
            lang = req.split(" ")[1]
            hit = False
            for conj in failing_conjuncts(r[2]):
                f = next((x for x in c.known if x["id"] == fid), None)
                if f and re.search(f["match"], case_text(lang, conj, r[2], req), re.S):
                    hit = True
            if hit:
                c.known_hit[fid] = c.known_hit.get(fid, 0) + 1
            c.cov.setdefault("pinned", {})[fid] = "still fails" if hit else "does not fail (or no longer matches)"
            c.count("pinned", 1, [req])

    # (3) correspondence streams
    quick = c.tier == "quick"
    dist = collections.Counter()
    all_fail_rows = []
    n_dis = 0
    plan = [("c06-ucc", dict(n=400 if quick else 4000, seed=c.seed)),
            ("c06-pass", dict(n=2500 if quick else 40000, seed=c.seed, tier="quick")),
            ("c06-chain", dict(n=700 if quick else 8000, seed=c.seed, tier="quick"))]
    if not quick:
        plan += [("c06-pass", dict(n=15000, seed=c.seed + 100, tier="thorough")),
                 ("c06-chain", dict(n=3000, seed=c.seed + 100, tier="thorough"))]
    for stream, kw in plan:
        rows = harness(hb, stream, **kw)
        reqs = [r[0] for r in rows if r[0] != "-"]
        replies = drv(reqs)
        it = iter(replies)
        st = c.cov["streams"].setdefault(stream, {"evaluations": 0, "disagreements": 0, "oracle_failures": 0, "skipped_cycle": 0,
                                                 "nontrivial": 0, "panic": 0, "err": 0})
        dis = []
        nt = []
        for r in rows:
            feat = r[3] if len(r) > 3 else ""
            if stream != "c06-ucc" and feat:
                for fl in feat.split(","):
                    if fl and not fl.startswith("status=") and not fl.startswith("lang="):
                        dist[stream + ":" + fl] += 1
            if r[0] == "-":
                st["skipped_cycle"] += 1
                continue
            m = next(it)
            if m == "shared":
                # cross-pass pointer sharing (FlattenDisjunctions then InlineObjectsWithTypes): outside the tree model
                st["skipped_shared"] = st.get("skipped_shared", 0) + 1
                if len(r) > 2 and r[2].startswith("FAIL"):
                    all_fail_rows.append(r)
                    st["oracle_failures"] += 1
                continue
            if r[1] == "panic":
                st["panic"] += 1
            if r[1] == "err":
                st["err"] += 1
            if m != r[1]:
                dis.append((r, m))
            # non-trivial: the implementation changed the IR (or refused it)
            parts = r[0].split(" ", 2)
            if stream == "c06-ucc" or (len(parts) == 3 and r[1] != "ok " + parts[2] and not r[0].startswith("nf ")):
                nt.append(r[0] + "|" + r[1])
            if len(r) > 2 and r[2].startswith("FAIL"):
                all_fail_rows.append(r)
                st["oracle_failures"] += 1
        st["evaluations"] += len(rows)
        st["disagreements"] += len(dis)
        st["nontrivial"] += len(nt)
        c.count(stream, 0, nt, samples=[{"stream": stream, "request": r[0][:300], "impl": r[1][:300], "oracle": (r[2] if len(r) > 2 else "")[:200]}
                                        for r in rows[:: max(1, len(rows) // 2)][:2]])
        c.cov["evaluations"] += len(rows)
        c.cov["disagreements_checked"] += len(reqs)
        n_dis += len(dis)
        if dis:
            report_disagreement(c, hb, stream, kw, dis)
    c.cov["oracle_failures"] = len(all_fail_rows)
    c.cov["distribution"] = dict(sorted(dist.items()))

    # (4) classify the oracle failures
    classify_failures(c, hb, all_fail_rows, max_classes=45 if quick else 120)

    c.finish(CHECKER, RULE,
             explanation="Passes with a Lean model tied by correspondence only (no preservation theorem yet) are listed in cov.modelled_only; "
                         "the full statements C06_<lang>_full are refuted in Lean (counterexample theorems) and the refuting inputs are replayed on the real chains on every run.")


PASS_STATUS = {
    "AnonymousStructsToNamed": "model+correspondence; post (StructsNamedOutsideAllOf, any wfIR input); keeps SimpleIndex and leaf entry points",
    "NotRequiredFieldAsNullableType": "model+correspondence; post (NonRequiredNullable given SimpleIndex); keeps every Mono/DisjConst test",
    "DisjunctionWithNullToOptional": "model+correspondence; post (NoNullPairUnion given FlatUnionsN = flat unions and no `null | null`, which the pass returns unchanged since fix 30da046); keeps every Mono test",
    "DisjunctionOfConstantsToEnum": "model+correspondence; keeps every test that does not constrain enums",
    "AnonymousEnumToExplicitType": "model+correspondence; post (EnumsNamed, any input with leaf entry points); no preservation lemma for other tests yet",
    "PrefixEnumValues": "model+correspondence; post (Go enum prefixes, any input); keeps every test that ignores member names",
    "FlattenDisjunctions": "model+correspondence; keeps every test that ignores the branch list of a union; keeps Go enum prefixes",
    "DisjunctionOfAnonymousStructsToExplicit": "model+correspondence; keeps every Shape test; keeps Go enum prefixes",
    "DisjunctionInferMapping": "model+correspondence; keeps every test; keeps Go enum prefixes",
    "UndiscriminatedDisjunctionToAny": "model+correspondence; keeps every test that ignores Nullable (it does NOT keep NonRequiredNullable: the `any` it creates is not nullable)",
    "DisjunctionToType": "model+correspondence; post (NoUnion given FlatUnions); keeps every Shape test; keeps Go enum prefixes",
    "RemoveIntersections": "model+correspondence (shared field slices modelled); keeps every test that ignores fields",
    "SanitizeEnumMemberNames": "model+correspondence; post (PHP member names given EnumsNamed and NonEmptyEnumNames; sign-free names given EnumsNamed alone — an empty name passes unchanged since fix aceba4d); keeps every test that ignores member names",
    "RenameNumericEnumValues": "model+correspondence; post (no numeric member names given EnumsNamed and names in int range); keeps every test that ignores member names",
    "InlineObjectsWithTypes": "model+correspondence ONLY (store threaded in visiting order to reproduce the declaration-order dependence); no theorem yet",
}

CHAIN_THEOREMS = {
    "go": ["C06_go_EnumsNamed (all wfIR inputs)", "C06_go_EnumNames (all inputs)", "NoUnion/NoNullPairUnion/NonRequiredNullable/StructsNamedOutsideAllOf: refuted (counterexamples), pass-level post-conditions only"],
    "java": ["C06_java_EnumsNamed (all wfIR inputs)", "other conjuncts: refuted (counterexamples), pass-level post-conditions only"],
    "php": ["C06_php_beforeInline: EnumsNamed and sign-free member names hold for the IR handed to the last pass (all wfIR inputs)",
            "no theorem across InlineObjectsWithTypes (no preservation lemma); full statement refuted (that pass drops Nullable)"],
    "python": ["C06_python_StructsNamedOutsideAllOf (all wfIR inputs)", "C06_python_NonRequiredNullable_partial (SimpleIndex)", "NoNullPairUnion, EnumNames: refuted"],
    "typescript": ["C06_typescript_partial (EnumsNamed and NumericNamesInRange)", "full statement refuted"],
}

CHECKER = "cd /verif/lean && lake build Cog.Props.C06 drv && lake env lean <#print axioms of the C06_* theorems>; harness streams c06-ucc/c06-pass/c06-chain vs. drv"
RULE = ("random IRs (shared generator + injected deep shapes, object order permuted): every pass alone and after a real chain prefix, every language chain; "
        "non-trivial = the implementation changed or refused the IR; distinct by (request, reply); each real chain output judged by the Go oracle and by Lean")


def report_disagreement(c, hb, stream, kw, dis):
    """model != implementation: shrink the first one (keeping the disagreement) and report"""
    r, m = dis[0]

    def still(rows):
        reqs = [x[0] for x in rows]
        if not reqs:
            return None
        reps = drv(reqs)
        for i, (x, mm) in enumerate(zip(rows, reps)):
            if mm != x[1] and x[1] != "cycle" and mm != "shared":
                return i
        return None
    small = r[0]
    if stream != "c06-ucc":
        try:
            small = shrink(hb, r[0], still, budget_s=40)
        except Exception as e:  # noqa
            log("shrinking the disagreement failed:", e)
    rr = eval_requests(hb, [small])[0]
    c.violation({"kind": "correspondence-broken", "stream": stream, "args": kw,
                 "broken": "correspondence stream %s: the Lean model's reply differs from the implementation's (%d cases)" % (stream, len(dis)),
                 "request": small, "impl": rr[1], "model": drv([small])[0], "oracle": rr[2], "n_disagreements": len(dis)},
                found_input=rr[2].startswith("FAIL"))


def classify_failures(c, hb, fail_rows, max_classes):
    classes = {}
    for r in fail_rows:
        lang = r[0].split(" ")[1]
        for conj in failing_conjuncts(r[2]):
            for cl in sorted({coarse(p) for p in conjunct_paths(r[2], conj)}):
                classes.setdefault((lang, conj, cl), []).append(r)
    c.cov["failure_classes"] = len(classes)
    summary = {}
    reported = 0
    for k in sorted(classes, key=lambda k: -len(classes[k]))[:max_classes]:
        lang, conj, cl = k
        r = min(classes[k], key=lambda x: len(x[0]))

        # shrinking stays INSIDE the failure class (same conjunct, same shape of violating position),
        # so that a case of one mechanism cannot drift to the minimal case of another, known one
        def still(rows, conj=conj, cl=cl):
            for i, x in enumerate(rows):
                if len(x) > 2 and x[2].startswith("FAIL") and any(coarse(p) == cl for p in conjunct_paths(x[2], conj)):
                    return i
            return None
        small = shrink(hb, r[0], still)
        rr = eval_requests(hb, [small])[0]
        text = case_text(lang, conj, rr[2], small, cl)
        kf = c.match_known(text)
        if kf:
            c.known_hit[kf["id"]] += len(classes[k]) - 1
            summary["%s/%s/%s" % k] = {"cases": len(classes[k]), "finding": kf["id"]}
            continue
        summary["%s/%s/%s" % k] = {"cases": len(classes[k]), "finding": None}
        if reported < 5:
            c.violation({"kind": "oracle-failure", "stream": "c06-chain", "request": small, "impl": rr[1], "oracle": rr[2],
                         "class": "%s/%s/%s" % k, "case_text": text[:4000], "original_request": r[0][:6000]})
            reported += 1
    c.cov["failure_class_summary"] = summary


def oracle_only(c, hb):
    rows = harness(hb, "c06-chain", n=300, seed=c.seed, tier="quick")
    fails = [r for r in rows if len(r) > 2 and r[2].startswith("FAIL")]
    classify_failures(c, hb, fails, 45)


def replay(c, hb):
    rp = json.load(open(c.replay))
    req = rp.get("request")
    if not req:
        print("replay: the file names broken obligations, no input:", rp.get("broken"))
        sys.exit(1)
    r = eval_requests(hb, [req])[0]
    m = drv([req])[0]
    print("replay request:", req[:2000])
    print("implementation:", r[1][:2000])
    print("model         :", m[:2000])
    print("oracle        :", r[2])
    bad = (m != r[1] and m != "shared")
    if r[2].startswith("FAIL"):
        lang = req.split(" ")[1]
        for conj in failing_conjuncts(r[2]):
            if not c.match_known(case_text(lang, conj, r[2], req)):
                bad = True
    sys.exit(1 if bad else 0)


main()
