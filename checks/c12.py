"""C12 — the JSON Schema and OpenAPI documents cog emits are valid, closed, complete, and accept
every document the generated Go types encode."""
import json, os, re, subprocess, sys, tempfile
from decimal import Decimal
from verifkit.core import *

HARNESS_FILES = HARNESS_BASE + ["lab_*.go", "src_*.go", "c12_*.go"]

THEOREMS = [
    "Cog.Sem.JSOut.C12_refs_resolve",
    "Cog.Sem.JSOut.C12_refs_resolve_openapi",
    "Cog.Sem.JSOut.C12_objects_and_fields_present",
    "Cog.Sem.JSOut.C12_objects_own_definition_partial",
    "Cog.Sem.JSOut.C12_carried_over",
    "Cog.Sem.JSOut.C12_constraint_semantics_carried",
    "Cog.Sem.JSOut.C12_values_validate_node_partial",
    "Cog.Sem.JSOut.C12_values_validate_partial",
    "Cog.Sem.JSOut.C12_values_validate_same_ir_partial",
    "Cog.Sem.JSOut.emit_describes",
    "Cog.Sem.JSOut.C12_values_validate_counterexample_any",
    "Cog.Sem.JSOut.C12_values_validate_counterexample_required_nullable",
    "Cog.Sem.JSOut.C12_values_validate_counterexample_same_name",
    "Cog.Sem.JSOut.C12_foreign_definition_overwritten",
    "Cog.Sem.JSOut.C12_carried_over_counterexample_constant_reference",
    "Cog.Sem.JSOut.C12_intersection_emitted_empty",
    "Cog.Sem.JSOut.C12_emission_terminates",
    "Cog.Sem.JSOut.C12_refs_resolve_total",
    "Cog.Sem.JSOut.C12_prefix_loop_never_terminated",
    "Cog.Sem.JSOut.describes_sound",
    "Cog.Sem.JSOut.emitDefs_closed",
    # block of the c01-front builder (source JSON Schema → front-end → emitted schema)
    "Cog.Sem.JSOut.FE.C12_jsonschema_source_validates_emitted_partial",
    "Cog.Sem.JSOut.FE.C12_jsonschema_source_validates_emitted_counterexample",
    "Cog.Sem.JSOut.OA.C12_openapi_source_validates_emitted_partial",
]


def canon(text):
    """canonical JSON text: keys sorted, numbers as exact decimals"""
    def norm(x):
        if isinstance(x, dict):
            return {k: norm(v) for k, v in sorted(x.items())}
        if isinstance(x, list):
            return [norm(v) for v in x]
        if isinstance(x, Decimal):
            return "#" + format(x.normalize(), "f")
        return x
    return json.dumps(norm(json.loads(text, parse_float=Decimal, parse_int=Decimal)), sort_keys=True, ensure_ascii=False)


# second, independent validator: python `jsonschema` (tooling venv), Draft 7, run as a subprocess.
# stdin: one JSON object per line {"schema": <emitted document>, "root": name, "doc": <document>, "shrink": bool}
# stdout: one line per input: {"valid": bool, "shrunk": <document>?}
PY_VALIDATOR = r'''
import sys, json
from jsonschema import Draft7Validator
cache = {}
def validator(schema_text, root):
    k = (schema_text, root)
    if k not in cache:
        s = json.loads(schema_text)
        cache[k] = Draft7Validator({"$ref": "#/definitions/" + root.replace("~", "~0").replace("/", "~1"), "definitions": s.get("definitions", {})})
    return cache[k]
def children(doc):
    if isinstance(doc, dict):
        for k in list(doc):
            d = dict(doc); del d[k]; yield d
        for k, v in doc.items():
            for c in children(v):
                d = dict(doc); d[k] = c; yield d
    elif isinstance(doc, list):
        for i in range(len(doc)):
            yield doc[:i] + doc[i+1:]
        for i, v in enumerate(doc):
            for c in children(v):
                yield doc[:i] + [c] + doc[i+1:]
from jsonschema.exceptions import best_match
def signature(v, doc):
    e = best_match(v.iter_errors(doc))
    return None if e is None else (e.validator, tuple(str(x) for x in e.absolute_schema_path))
for line in sys.stdin:
    req = json.loads(line)
    v = validator(req["schema"], req["root"])
    doc = req["doc"]
    out = {"valid": v.is_valid(doc)}
    if req.get("shrink") and not out["valid"]:
        sig = signature(v, doc)
        changed, budget = True, 300
        while changed and budget > 0:
            changed = False
            for c in children(doc):
                budget -= 1
                if signature(v, c) == sig:     # still rejected for the same reason
                    doc, changed = c, True
                    break
                if budget <= 0:
                    break
        out["shrunk"] = doc
        out["reason"] = list(sig) if sig else None
    print(json.dumps(out), flush=True)
'''


def py_validate(reqs):
    """reqs: list of dicts (see PY_VALIDATOR); returns list of result dicts, or None when the tooling python is unavailable"""
    if not reqs:
        return []
    try:
        p = subprocess.run(["python3-vt", "-c", PY_VALIDATOR], input="\n".join(json.dumps(r) for r in reqs) + "\n",
                           capture_output=True, text=True, timeout=900)
    except (OSError, subprocess.TimeoutExpired):
        return None
    lines = [l for l in p.stdout.split("\n") if l]
    if p.returncode != 0 or len(lines) != len(reqs):
        log("python validator failed:", p.stderr[-2000:])
        return None
    return [json.loads(l) for l in lines]


def load_proposed(c):
    """entries of checks/c12.chain_defaults.proposed_findings.json that known_findings.json does not hold yet"""
    path = os.path.join(VERIF, "checks", "c12.chain_defaults.proposed_findings.json")
    if not os.path.exists(path):
        return
    have = {f["id"] for f in c.known}
    for f in json.load(open(path)).get("findings", []):
        if f["id"] not in have and f.get("property") == c.pid:
            c.known.append(f)


def lab_stat(c, stream, key):
    """a counter of the `stats map[...]` row of a lab stream"""
    m = re.search(r"[\[ ]%s:(\d+)" % re.escape(key), c.cov.get("c12", {}).get(stream + ".stats", ""))
    return int(m.group(1)) if m else 0


def flags(text):
    return dict(kv.split("=", 1) for kv in text.split(" ") if "=" in kv)


class Run:
    """rows of one stream against the Lean driver + oracle classification"""

    def __init__(self, c):
        self.c = c
        self.stats = {}
        self.dis = []          # (row, model, why)
        self.reported = 0
        self.seen_classes = {}
        self.pinned = {}       # lab case id -> id of the pinned term
        self.sources = {}      # lab case id -> schema text handed to cog (JSON string)

    def bump(self, k, n=1):
        self.stats[k] = self.stats.get(k, 0) + n

    def process(self, rows, stream, kw):
        c = self.c
        reqs = [r[0] for r in rows if r[0] != "-"]
        replies = drv(reqs) if reqs else []
        it = iter(replies)
        emitted = {}           # (schemas id, pkg) -> emitted JSON Schema text (for the python validator)
        cases = {}             # case id -> description row
        pyreqs, pyrows = [], []
        nontrivial = []
        for r in rows:
            if r[0] == "-":
                m = re.match(r"case (\S+) (.*)", r[1])
                if m:
                    cases[m.group(1)] = r[1]
                m = re.match(r"pinned (\S+) (\S+) ", r[1])
                if m:
                    self.pinned[m.group(2)] = m.group(1)
                m = re.match(r"source (\S+) (.*)", r[1])
                if m:
                    self.sources[m.group(1)] = m.group(2)
                self.oracle(r, "", stream, kw, cases, emitted)
                continue
            model = next(it)
            verb, rest = r[0].split(" ", 1)
            impl = r[1]
            if verb == "defschemas":
                if model != "ok":
                    self.dis.append((r, model, "the driver cannot read the IR"))
            elif verb == "jsemit":
                sid, pkg, kind = rest.split(" ")[:3]
                a, b = impl, model
                try:
                    if impl.startswith("ok "):
                        a = "ok " + canon(impl[3:])
                        if kind == "js":
                            emitted[(sid, pkg)] = impl[3:]
                    if model.startswith("ok "):
                        b = "ok " + canon(model[3:])
                except Exception:
                    pass
                self.bump("jsemit." + kind + "." + ("agree" if a == b else "DISAGREE"))
                if a != b:
                    self.dis.append((r, model, "emitted document differs from the model of the emitter"))
                elif impl.startswith("ok ") and len(impl) > 600:
                    nontrivial.append(b)
            elif verb == "jswf":
                fm, fi = flags(model), flags(impl)
                self.bump("jswf " + model)
                if fm.get("emitclosed") == "true" and fm.get("terminates") == "true" and fi.get("refs") != "true":
                    self.dis.append((r, model, "C12_refs_resolve: hypotheses hold, a $ref of the real document does not resolve"))
                if fm.get("terminates") == "true" and fi.get("present") != "true":
                    self.dis.append((r, model, "C12_objects_and_fields_present: an object has no definition in the real document"))
            elif verb == "jsself":
                self.bump("jsself " + model)
            elif verb == "jsvalid":
                if model.startswith("bad-json"):
                    self.bump("jsvalid.number-outside-model")
                else:
                    self.bump("jsvalid." + impl + "." + ("agree" if impl == model else "DISAGREE"))
                    if impl != model:
                        self.dis.append((r, model, "validation verdict of the real validator differs from jsValid"))
                    elif rest.count("(") >= 6:
                        nontrivial.append(r[0])
                sid, pkg, root = rest.split(" ")[:3]
                if (sid, pkg) in emitted and len(r) > 3:
                    pyreqs.append({"schema": emitted[(sid, pkg)], "root": root, "doc": json.loads(r[3])})
                    pyrows.append(r)
            elif verb == "jshyp":
                fm, fi = flags(model), flags(impl)
                hyp = fm.get("describes") == "true" and fm.get("den") == "true" and fm.get("sat") == "true"
                self.bump("jshyp describes=%s den=%s sat=%s real-valid=%s" % (fm.get("describes"), fm.get("den"), fm.get("sat"), fi.get("valid")))
                if hyp and (fm.get("valid") != "true" or fm.get("dec") != "ok"):
                    self.dis.append((r, model, "C12_values_validate_partial contradicted inside the model"))
                if hyp and fi.get("valid") != "true":
                    self.dis.append((r, model, "C12_values_validate_partial: hypotheses hold, the real validator rejects the real encoded value"))
                if hyp:
                    self.bump("theorem-instances-confirmed-on-real-code")
            self.oracle(r, model, stream, kw, cases, emitted)
        # second validator
        res = py_validate(pyreqs)
        if res is None:
            self.bump("python-jsonschema-unavailable")
        else:
            for r, x in zip(pyrows, res):
                same = (r[1] == "valid") == x["valid"]
                self.bump("validators-" + ("agree" if same else "DISAGREE"))
                if not same:
                    self.dis.append((r, "python-jsonschema valid=%s" % x["valid"], "santhosh-tekuri and python jsonschema disagree"))
        c.count(stream, len(rows), nontrivial,
                samples=[{"stream": stream, "request": r[0][:300], "impl": r[1][:300], "oracle": (r[2] if len(r) > 2 else "")[:200]}
                         for r in [x for x in rows if x[0] != "-"][:: max(1, len(rows) // 3)][:3]])
        c.cov["disagreements_checked"] += len(reqs)
        st = c.cov["streams"][stream]
        st["disagreements"] = st.get("disagreements", 0) + len(self.dis)
        st["args"] = kw

    def oracle(self, r, model, stream, kw, cases, emitted):
        c = self.c
        if len(r) < 3 or not r[2].startswith("FAIL"):
            return
        c.cov["oracle_failures"] += 1
        parts = []
        for part in r[2][5:].split(" ;; "):
            m = re.match(r"(encoded-value-rejected explained-by=)([a-z+]+)( .*)$", part, re.S)
            if m and "+" in m.group(2):
                # several recorded mechanisms are needed together: each must be a known finding
                parts += [m.group(1) + name + m.group(3) for name in m.group(2).split("+")]
            else:
                parts.append(part)
        for part in parts:
            text = r[0] + "\tFAIL " + part
            cls = re.sub(r"case=\S+|at=\S+|msg=.*|name=\S+|claimed-by=\S+|value=\S+|pkg=\S+|schema \"[^\"]*\"|\[[a-z0-9]+\] ", "", "FAIL " + part)
            if part.startswith("chain-default-"):
                # one class per (where the front-end default sits, emitted document, input format)
                cls = re.sub(r" kind=\S+ ir=.*?(?= doc=)", "", cls)
            cls = re.sub(r"[0-9]+", "N", cls)[:160]
            if cls in self.seen_classes:
                if self.seen_classes[cls]:
                    c.known_hit[self.seen_classes[cls]] += 1
                continue
            kf = c.match_known(text)
            self.seen_classes[cls] = kf["id"] if kf else None
            if kf:
                continue
            if self.reported < 5:
                self.reported += 1
                payload = {"kind": "oracle-failure", "stream": stream, "args": kw, "request": r[0][:20000], "impl": r[1][:20000],
                           "oracle": "FAIL " + part, "class": cls, "model": model[:2000]}
                m = re.search(r"case=(\S+)", part)
                if m and m.group(1) in self.pinned and stream == "c12-labpinned":
                    payload["args"] = dict(kw, id=self.pinned[m.group(1)])   # replay: this pinned term only
                if m and m.group(1) in self.sources:
                    try:
                        payload["source_text"] = json.loads(self.sources[m.group(1)])[:20000]
                    except ValueError:
                        pass
                if m and m.group(1) in cases:
                    payload["case"] = cases[m.group(1)]
                    sm = re.search(r"format=(\S+) .*src=(\(defs .*)$", cases[m.group(1)])
                    if sm:
                        payload["format"], payload["src"] = sm.group(1), sm.group(2)
                if r[0].startswith("jsvalid ") and len(r) > 3:
                    payload["doc"] = r[3]
                    if len(r) > 4:
                        payload["source_doc"] = r[4]
                    sid, pkg, root = r[0].split(" ")[1:4]
                    if (sid, pkg) in emitted:
                        payload["emitted_schema"] = emitted[(sid, pkg)][:20000]
                        sh = py_validate([{"schema": emitted[(sid, pkg)], "root": root, "doc": json.loads(r[3]), "shrink": True}])
                        if sh and "shrunk" in sh[0]:
                            payload["shrunk_doc"] = json.dumps(sh[0]["shrunk"])
                            payload["rejected_because"] = sh[0].get("reason")
                c.violation(payload)

    def finish(self, stream):
        c = self.c
        for (r, model, why) in self.dis[:3]:
            # a disagreement between model and implementation is never covered by a known finding
            c.violation({"kind": "correspondence-broken", "stream": stream, "broken": why, "request": r[0][:20000],
                         "impl": r[1][:20000], "model": model[:20000], "oracle": r[2] if len(r) > 2 else "",
                         "n_disagreements": len(self.dis)}, found_input=self.reported > 0)
        return self.stats


def run_stream(c, hb, stream, timeout=7200, **kw):
    try:
        rows = harness(hb, stream, timeout=timeout, **kw)
    except (RuntimeError, subprocess.TimeoutExpired) as e:
        # the emitter took the harness down (stack overflow, fatal error) or never returned
        c.violation({"kind": "harness-crashed", "stream": stream, "args": kw,
                     "broken": "stream %s: the harness process died or timed out while running the emitter" % stream,
                     "detail": str(e)[-3000:]}, found_input=False)
        return [], None
    x = Run(c)
    x.process(rows, stream, kw)
    st = x.finish(stream)
    c.cov.setdefault("c12", {})[stream] = st
    lab = [r[1] for r in rows if r[0] == "-" and r[1].startswith("stats")][:1]
    if lab:
        c.cov["c12"][stream + ".stats"] = lab[0][:3000]
    return rows, x


def replay(c, hb):
    """./check C12 --replay pinned:ir:<id> | pinned:lab:<id> | pinned:hang | <replay file written by a violation>"""
    target = c.replay
    if target.startswith("pinned:ir:"):
        rows, x = run_stream(c, hb, "c12-pinned", id=target.split(":", 2)[2])
    elif target.startswith("pinned:lab:"):
        rows, x = run_stream(c, hb, "c12-labpinned", id=target.split(":", 2)[2])
    elif target == "pinned:hang":
        rows, x = run_stream(c, hb, "c12-hang", ms=3000)
    else:
        rp = json.load(open(target))
        print(json.dumps({k: (v if len(str(v)) < 1500 else str(v)[:1500] + "…") for k, v in rp.items()}, indent=1))
        stream, args = rp.get("stream", ""), dict(rp.get("args", {}))
        if stream == "c12-lab" and rp.get("src"):
            with tempfile.NamedTemporaryFile("w", suffix=".sexp", dir=WORK, delete=False) as fh:
                fh.write(rp["src"] + "\n")
                srcfile = fh.name
            args = {"file": srcfile, "format": rp.get("format", "jsonschema"), "seed": rp.get("seed", 1), "tier": "replay"}
            fm = re.search(r"emitted-accepts-source-invalid kind=(\S+) .* path=(\S+)", rp.get("oracle", ""))
            if fm and rp.get("doc"):
                # a source-invalid document the emitted schema accepted: replayed as a fault document
                with tempfile.NamedTemporaryFile("w", suffix=".json", dir=WORK, delete=False) as fh:
                    fh.write(rp["doc"] + "\n")
                    args["faultfile"] = fh.name
                args["faultkind"], args["faultpath"], args["docs"] = fm.group(1), fm.group(2), 1
            elif rp.get("source_doc") or rp.get("doc"):
                with tempfile.NamedTemporaryFile("w", suffix=".json", dir=WORK, delete=False) as fh:
                    fh.write((rp.get("source_doc") or rp["doc"]) + "\n")
                    args["docfile"] = fh.name
            rows, x = run_stream(c, hb, "c12-lab", **args)
            for f in (srcfile, args.get("docfile"), args.get("faultfile")):
                if f and os.path.exists(f):
                    os.remove(f)
        elif stream == "c12-entry":
            args = {"seed": args.get("seed", rp.get("seed", 1)), "n": args.get("n", 4), "docs": args.get("docs", 8)}
            rows, x = run_stream(c, hb, "c12-entry", **args)
        elif stream == "c12-bounds":
            m = re.search(r"case=c(\d+)", rp.get("oracle", ""))
            idx = int(m.group(1)) // 3 if m else 0
            args = {"seed": args.get("seed", rp.get("seed", 1)), "from": idx, "n": 1, "docs": args.get("docs", 12)}
            rows, x = run_stream(c, hb, "c12-bounds", **args)
        elif stream == "c12-ir":
            m = re.match(r"\S+ i(\d+) ", rp.get("request", ""))
            args["from"], args["n"] = (int(m.group(1)) if m else 0), 1
            rows, x = run_stream(c, hb, "c12-ir", **args)
        elif stream in ("c12-pinned", "c12-labpinned", "c12-hang"):
            rows, x = run_stream(c, hb, stream, **args)
        # ---- BEGIN front-end → emitted-schema tie (owner: c01-front builder) ----
        elif stream in ("c01-front", "c01-front-oa") and rp.get("replay_args"):
            from verifkit import front_emit
            front_emit.load_proposed(c)
            st, bad, _, err = front_emit.run(c, **rp["replay_args"])
            print(err or dict(st))
            for b in [b for bs in bad.values() for b in bs if b["document"] == rp.get("document") and not c.match_known(b["case_text"])][:2]:
                c.violation(b)
            rows = []
        # ---- END front-end → emitted-schema tie ----
        else:
            print("nothing to re-run for this replay file (obligation / correspondence record)")
            sys.exit(1)
    for r in rows:
        if r[0] != "-" and not r[0].startswith("defschemas"):
            print("\t".join(x[:400] for x in r[:3]))
    # a replay does not replace the evidence of the last full run
    for f in c.known:
        if c.known_hit.get(f["id"]):
            print("KNOWN-FINDING: property=%s %s [%s]" % (c.pid, f["what"], f["id"]))
    for l in c.violation_lines:
        print(l)
    print("C12 replay %s: %s" % (target, "VIOLATED" if c.violation_lines else "no violation (failures, if any, are recorded findings)"))
    sys.exit(1 if c.violation_lines else 0)


# ---- BEGIN front-end → emitted-schema tie (owner: c01-front builder; verifkit/front_emit.py) ----------
def front_emit_tie(c):
    """SOURCE JSON Schema → real front-end → real jsonschema jenny: instances of C12_jsonschema_source_validates_emitted_partial on
       the REAL front-end IR, the model's emitted-schema verdict against the reference validator on the REAL emitted schema, and
       the measured equivalence `valid against the source` ⇔ `valid against the emitted schema` on the fragment FragJS (forward
       direction outside the exclusions of the known findings C12/nullable/…, C12/any/…; backward direction measured only)"""
    from verifkit import front_emit
    front_emit.load_proposed(c)
    for stream, key, frag, theorem in (("c01-front", "JSON Schema", "FragJS", "C12_jsonschema_source_validates_emitted_partial"),
                                       ("c01-front-oa", "OpenAPI", "FragOA", "C12_openapi_source_validates_emitted_partial")):
        st, bad, witness_ok, err = front_emit.run(c, stream=stream)
        c.oblige("%s: front-end → emitted-schema stream runs (%s)" % (key, stream), err is None, err or "")
        if err is not None:
            continue
        g = lambda k: st.get(k, 0)
        # failures a known finding explains (regex over `case_text`: stream, kind, case-level diagnosis) are counted, the others reported
        unexplained, explained = {}, {}
        for kind in ("instance", "respects", "emitted-verdict", "forward", "backward"):
            unexplained[kind] = [b for b in bad.get(kind, []) if not c.match_known(b["case_text"])]
            explained[kind] = len(bad.get(kind, [])) - len(unexplained[kind])
            for b in unexplained[kind][:2]:
                c.violation(b)
        c.oblige("%s: %s: instances on the REAL front-end IR hold (%d/%d documents with every hypothesis)" % (key, theorem, g("concl"), g("inst")),
                 not unexplained["instance"] and g("inst") >= 100 and g("bad_replies") == 0)
        c.oblige("%s, %s: documents strictly valid against the SOURCE schema respect the constraints / constants / enumerations of the REAL front-end IR after the Go chain (`satLax`: `sat` modulo null and any; %d/%d, %d explained by known findings)"
                 % (key, frag, g("source_valid_respects_ir"), g("source_valid_strict"), explained["respects"]),
                 not unexplained["respects"] and g("source_valid_strict") >= 100)
        c.oblige("%s: model verdict on the model-emitted schema = reference validator on the schema the REAL jenny emitted (%d/%d documents of fully modelled cases)" % (key, g("emitted_verdicts_agree"), g("emitted_verdicts")),
                 not unexplained["emitted-verdict"] and g("emitted_verdicts") >= 500)
        c.oblige("%s, %s, real code: source-valid documents outside the known exclusions validate against the REAL emitted schema (%d/%d, %d explained by known findings; %d source-valid documents excluded, %d of them rejected)"
                 % (key, frag, g("forward_ok"), g("forward"), explained["forward"], g("frag_source_valid_excluded"), g("frag_source_valid_excluded_rejected")),
                 not unexplained["forward"] and g("forward") >= 100)
        c.oblige("%s, %s, real code (measured, not proved): documents the REAL emitted schema accepts are valid against the source schema (%d/%d, %d explained by known findings; %d documents of cases with a closed property-less object, which the front-end reads as `any`, not compared)"
                 % (key, frag, g("backward_ok"), g("backward"), explained["backward"], g("backward_skipped_closed_empty_object")),
                 not unexplained["backward"] and g("backward") >= 100)
        if stream == "c01-front":
            c.oblige("witness of C12_jsonschema_source_validates_emitted_counterexample replays on the real front-end and jenny (pinnullreq: {\"x\": null} source-valid, rejected by the emitted schema, `sat` false)", witness_ok)
            if witness_ok:
                c.known_hit["C12/nullable/not-represented-null-rejected"] = c.known_hit.get("C12/nullable/not-represented-null-rejected", 0) + 1
        c.cov["front_emit_" + stream] = dict(st)
# ---- END front-end → emitted-schema tie ---------------------------------------------------------------


def main():
    c = Check("C12")
    # known findings come from /verif/known_findings.json (Check loads the entries of this property) plus the entries
    # proposed by the chain-default oracle that are not merged yet
    load_proposed(c)
    c.trusted = [
        "Lean 4.33 kernel; axioms per theorem in obligation_list",
        "hand-written model lean/Cog/Sem/JsonSchemaOut.lean of internal/jennies/jsonschema/schema.go (formatType, the foreign-object closure loop) and of the OpenAPI wrapper, tied on every run by `jsemit`: the files the real pipeline emits for lab cases (3 input formats) and the jennies' output on random multi-package IR must equal the model's document (canonical JSON)",
        "jsValid (validation semantics of the emitted subset, draft-07; `format` is an annotation) tied by `jsvalid`: verdicts of santhosh-tekuri/jsonschema on every re-encoded document; python jsonschema (Draft7Validator) must agree with santhosh",
        "C12_values_validate_partial speaks about goDecode/goEncode (C01's model of encoding/json on the generated types, tied by C01's stream) on the Go-chain IR and about the document emitted from the JSON-Schema-chain IR; the bridge between the two IRs is the decidable predicate `describes`, evaluated by the driver on every case (not proved for the chains); documents are source-valid documents decoded and re-encoded by real generated Go code",
        "the post-chain IRs handed to the model are the pipeline's own (harness VIR encoder, round-trip-checked by the vir stream); Config.Debug=false; numbers restricted to multiples of 0.25",
        "independent loaders: santhosh-tekuri/jsonschema (metaschema + every definition compiled), kin-openapi (load + Validate), cog's own internal/jsonschema and internal/openapi front-ends; their verdicts are the oracle for 'valid document of its kind'",
        "random IR (harness/irgen.go) is not necessarily producible by a front-end: the loaders are not consulted there",
    ]
    # a private copy of the repository (VERIF_REPO, mutants) gets its own binary: concurrent runs must not share one
    hb, err = build_go("verifharness", "harness", files=HARNESS_FILES, tag="c12" if REPO == "/repo" else "c12-alt")
    c.oblige("harness (lab + c12 streams) builds against the repository working tree", hb is not None, err[-3000:])
    c.lean_obligations(THEOREMS)
    if hb is None:
        c.finish("lake build", "n/a")
    if c.replay:
        replay(c, hb)
    quick = c.tier == "quick"
    run_stream(c, hb, "c12-pinned")
    # the recursive foreign object that used to keep GenerateSchema running forever (fixed in 56f489a): one real
    # run under a watchdog; a relapse answers `hang`, disagrees with the (terminating) model and matches no finding
    run_stream(c, hb, "c12-hang", ms=3000 if quick else 8000)
    run_stream(c, hb, "c12-labpinned")
    # chain-default oracle (harness/c12_chain.go): the defaults of the FRONT-END IR of the same run (before the compiler
    # passes the jsonschema / openapi languages run themselves) against the emitted properties; the pinned terms hold
    # `T | null` and `null | T` unions whose default sits on the non-null branch (JSON Schema) / on the union (CUE)
    nb, nu = lab_stat(c, "c12-labpinned", "chain-defaults:on-nullable-union-branch"), lab_stat(c, "c12-labpinned", "chain-defaults:on-nullable-union")
    c.oblige("chain-default oracle is not vacuous on the pinned terms: front-end IR members whose default sits on the non-null branch of a `T | null` / `null | T` union (%d) and on such a union itself (%d) were compared with the emitted JSON Schema properties" % (nb, nu),
             nb >= 8 and nu >= 6 and lab_stat(c, "c12-labpinned", "chain-defaults:no-front-end-ir") == 0)
    # boundary terms (zero / empty / equal bounds, enumerations holding 0, falsy defaults) x 3 formats: values AT the
    # bounds through real generated code, single-fault documents one step BEYOND them against the emitted schema
    run_stream(c, hb, "c12-bounds", n=8 if quick else 120, docs=12 if quick else 20, seed=c.seed)
    # entry points cog has to INFER (no root $ref / OpenAPI / CUE): the root object is spelled like the package in
    # several casings; the emitted top-level $ref must name a definition (part of emitClosed and of the $ref oracle)
    run_stream(c, hb, "c12-entry", n=4 if quick else 60, docs=8 if quick else 16, seed=c.seed)
    run_stream(c, hb, "c12-ir", n=400 if quick else 6000, seed=c.seed, tier=c.tier, malformed=1)
    n, docs = (16, 24) if quick else (300, 40)
    run_stream(c, hb, "c12-lab", n=n, docs=docs, seed=c.seed, tier=c.tier)
    # `any` members poison most documents of the default batch: a second batch without them so that the
    # hypotheses of C12_values_validate_partial hold for most documents
    if "c12-lab" in c.cov.get("c12", {}):
        c.cov["c12"]["c12-lab(default)"] = c.cov["c12"].pop("c12-lab")
    run_stream(c, hb, "c12-lab", n=n // 2, docs=docs, seed=c.seed + 1000, tier=c.tier, switches="-any")
    front_emit_tie(c)   # source JSON Schema → front-end → emitted schema (instances on the real IR, real emitter, real validator)
    c.finish("cd /verif/lean && lake build Cog.Props.C12 drv && lake env lean <#print axioms of the C12 theorems>",
             "pinned sets (one per recorded finding) + one watchdog run of the formerly non-terminating emission (foreign cycles are always run under a watchdog); random multi-package IR (every Kind, cross-package references, same-named objects) through the jennies vs the Lean emitter; Src terms x 3 input formats through the real pipeline: emitted JSON Schema / OpenAPI files vs the Lean emitter, independent loaders, $ref / presence / carried-over oracles, the chain-default oracle (front-end IR of the same run vs emitted `default`, across the language's own compiler passes), and every source-valid document re-encoded by real generated Go code validated against the emitted schema (santhosh + python jsonschema vs Lean jsValid; hypotheses of the partial theorem evaluated per document). non-trivial = emitted document > 600 bytes that the model reproduces, or validated document with >= 6 nested values")


main()
