"""C11 — generated Python types round-trip documents and agree with Go on the wire format.

Lean: `pyFromJson` / `pyToJson` / `pyDefault` (lean/Cog/Sem/PyCodec.lean, a transcription of
internal/jennies/python/rawtypes.go + tools.go + templates/runtime/encoder.tmpl over the
post-Python-chain IR), the fragment `pyDen`, the round-trip induction and the Go/Python agreement
theorem (lean/Cog/Props/C11.lean), the full statement `C11_full` with kernel-evaluated witnesses.
Tie: stream `c11-rows` — real cog pipeline → real generated Python imported and run, real generated
Go compiled and run, on source-valid (reference-validated) documents of Src terms in three formats:
  * `pyroundtrip` rows: the model must predict Python's reply (canonical JSON / `err`);
  * `c11agree` rows: the model must predict whether Python's and Go's outputs are JSON-equal; the
    reply also carries the decidable hypotheses `pyden` / `goden` of the theorems, so every failing
    document inside the proved fragment is reported as a contradicted theorem instance;
  * oracle A (Python output ≃ document, no null member added), oracle B (Python output = Go output).
Every witness of the Lean counterexamples is a pin of the stream's corpus and is replayed on real
generated code on every run.
"""
import json, os, re, sys, tempfile
from decimal import Decimal
from verifkit.core import *

THEOREMS = [
    "Cog.Sem.C11_roundtrip_partial", "Cog.Sem.C11_object_roundtrip_partial",
    "Cog.Sem.C11_decode_defined_partial", "Cog.Sem.C11_go_py_agree_partial",
    "Cog.Sem.py_roundtrip_core", "Cog.Sem.sub_trans",
    "Cog.Sem.C11_full_counterexample", "Cog.Sem.C11_full_roundtrip_counterexample",
    "Cog.Sem.C11_full_agree_counterexample",
    "Cog.Sem.C11_counterexample_explicit_null_struct",
    "Cog.Sem.C11_counterexample_explicit_null_array_of_structs",
    "Cog.Sem.C11_counterexample_explicit_null_map_of_structs",
    "Cog.Sem.C11_counterexample_explicit_null_union",
    "Cog.Sem.C11_counterexample_nested_map_shadowed_key",
    "Cog.Sem.C11_counterexample_nested_map_wrong_entry",
    "Cog.Sem.C11_counterexample_optional_default_emitted",
    "Cog.Sem.C11_counterexample_optional_constant_emitted",
    "Cog.Sem.C11_counterexample_empty_optional_list_differs_from_go",
    "Cog.Sem.C11_counterexample_required_absent_default",
]
HARNESS_FILES = HARNESS_BASE + ["lab_*.go", "src_*.go", "c01.go", "c11_*.go"]
PROPOSED = os.path.join(WORK, "proposed_findings_C11.json")


def canon(text):
    """canonical JSON text: keys sorted, numbers as exact decimals"""
    def norm(x):
        if isinstance(x, dict):
            return {k: norm(v) for k, v in sorted(x.items())}
        if isinstance(x, list):
            return [norm(v) for v in x]
        if isinstance(x, Decimal):
            return "#" + format(x.normalize(), "f")
        return x
    return json.dumps(norm(json.loads(text, parse_float=Decimal, parse_int=Decimal)), sort_keys=True, ensure_ascii=False)


STATS = {"py_model_unsup": 0, "py_compared": 0, "agree_compared": 0, "agree_na": 0,
         "pyden": 0, "goden": 0, "both": 0, "accepts": 0, "documents_with_flags": 0, "not_accepted_samples": []}
FLAGS = {}   # "<pkg> <root> <doc sexp>" -> {"pyden": bool, "goden": bool, "accepts": bool}


def reconcile(req, impl, model):
    if req.startswith("pyroundtrip "):
        if model.startswith("unsup") or model.startswith("bad-json"):
            # construct outside the modelled fragment (or a number that is not a multiple of 0.25): counted
            STATS["py_model_unsup"] += 1
            return "unsup", "unsup"
        STATS["py_compared"] += 1
        try:
            if impl.startswith("ok "):
                impl = "ok " + canon(impl[3:])
            if model.startswith("ok "):
                model = "ok " + canon(model[3:])
        except Exception:
            pass  # raw text stays: shows up as a disagreement
        return impl, model
    if req.startswith("c11agree "):
        toks = model.split(" ")
        fl = {}
        for t in toks[1:]:
            k, _, v = t.partition("=")
            fl[k] = (v == "true")
        key = req.split(" ", 3)[3]
        FLAGS[key] = fl
        STATS["documents_with_flags"] += 1
        for k in ("pyden", "goden", "accepts"):
            STATS[k] += 1 if fl.get(k) else 0
        STATS["both"] += 1 if fl.get("pyden") and fl.get("goden") else 0
        if not fl.get("accepts") and len(STATS["not_accepted_samples"]) < 3:
            STATS["not_accepted_samples"].append(key[:300])
        m = toks[0]
        if m not in ("same", "differ", "na"):
            return impl, model
        if m == "na" or impl == "na":
            STATS["agree_na"] += 1
            return "na", "na"
        STATS["agree_compared"] += 1
        return impl, m
    return impl, model


def flags_of(req):
    if req.startswith("pyroundtrip "):
        return FLAGS.get(req.split(" ", 2)[2])
    if req.startswith("c11agree "):
        return FLAGS.get(req.split(" ", 3)[3])
    return None


def fail_class(v):
    v = re.sub(r"case=\S+ ", "", v)
    v = re.sub(r" pin=\S+", "", v)
    v = re.sub(r" (path|reply)=.*", "", v)
    return re.sub(r"[0-9]+", "N", v)[:240]


def write_replay_input(rp, path):
    with open(path, "w") as fh:
        fh.write(rp["format"] + "\n" + rp["src"] + "\n" + "\n".join(rp["docs"]) + "\n")


def main():
    c = Check("C11")
    # findings proposed by this check and not merged yet are honoured like committed ones
    proposed = json.load(open(PROPOSED)) if os.path.exists(PROPOSED) else BUILTIN_FINDINGS
    have = {f["id"] for f in c.known}
    for f in proposed.get("findings", []):
        if f.get("property") == "C11" and f["id"] not in have:
            c.known.append(f)
    c.trusted = [
        "Lean 4.33 kernel; axioms per theorem are listed in obligation_list (subset of propext, Classical.choice, Quot.sound)",
        "PROVED for all schemas/types/documents/fuel: round trip of the model of generated Python on `pyDen` (lean/Cog/Sem/PyDen.lean) and JSON-equality of Python's and Go's outputs on `den` ∩ `pyDen`; NOT proved: that front-ends + Python pass chain map a source-valid document into `pyDen` (covered by this check's correspondence on source-valid documents only; the evidence counts the documents inside the fragment)",
        "hand-written model lean/Cog/Sem/{PyVal,PyCodec}.lean of what internal/jennies/python/rawtypes.go (from_json, to_json, __init__), tools.go (default expressions) and templates/runtime/encoder.tmpl emit, tied by the c11-rows stream: real pipeline -> real python3 import -> real from_json/to_json of every document",
        "lean/Cog/Sem/{GoVal,GoCodec,Den}.lean (C01): model of encoding/json on the generated Go types, tied by C01's godec stream and by this check's c11agree rows",
        "CPython's json module (loads/dumps: insertion-ordered dicts, exact ints, shortest-repr floats), Python identifier mapping `formatIdentifier` assumed injective on a struct's members (the generator never draws colliding names)",
        "source side: documents are drawn from the Src grammar and checked against the schema language's own validator (santhosh-tekuri/jsonschema, kin-openapi, cuelang) before use",
        "numbers restricted to integers and multiples of 0.25; duplicate keys outside the model; post-chain IRs handed to the model are the pipeline's own (harness VIR encoder, round-trip-checked by the vir stream)",
    ]
    hb, err = build_go("verifharness", "harness", files=HARNESS_FILES, tag="c11")
    c.oblige("harness (lab + c11 stream) builds against the repository working tree", hb is not None, err[-3000:])
    c.lean_obligations(THEOREMS)
    if hb is None:
        c.finish("lake build", "n/a")
    quick = c.tier == "quick"
    kw = dict(n=24, docs=30) if quick else dict(n=360, docs=40)
    extra = {}
    if c.replay:
        rp = json.load(open(c.replay))
        if "src" not in rp:
            print(json.dumps(rp, indent=1)[:4000])
            sys.exit(1)
        tmp = os.path.join(WORK, "c11-replay-%d.txt" % os.getpid())
        write_replay_input(rp, tmp)
        kw = dict(n=0, docs=0)
        extra = dict(replay=tmp, pins=0)
    try:
        rows = harness(hb, "c11-rows", seed=c.seed, tier=c.tier, timeout=7200, **kw, **extra)
    finally:
        if extra.get("replay") and os.path.exists(extra["replay"]):
            os.remove(extra["replay"])
    cases = {}
    skips = {}
    for r in rows:
        if r[0] == "-" and r[1].startswith("case "):
            m = re.match(r"case (\S+) format=(\S+).* src=(.*)$", r[1])
            if m:
                cases[m.group(1)] = {"format": m.group(2), "src": m.group(3)}
        if r[0] == "-" and r[1].startswith("skip"):
            k = " ".join(r[1].split(" ")[2:3])
            skips[k] = skips.get(k, 0) + 1

    # ---- correspondence (model vs. implementation); failures are handled below, not by `correspond`
    quiet = [[r[0], r[1], "ok"] for r in rows]
    _, dis, _ = c.correspond(hb, "c11-rows", rows=quiet, reconcile=reconcile,
                             nontrivial=lambda r: r[0].startswith("pyroundtrip ") and r[0].count("(") >= 6)
    if dis:
        # name the first disagreement with its schema so that it can be replayed
        r, m = dis[0]
        cid = r[0].split(" ")[2] if r[0].startswith("pyroundtrip") else r[0].split(" ")[3]
        info = cases.get(cid, {})
        log("model/implementation disagreement:", r[0][:600], "| impl:", r[1][:300], "| model:", m[:300])
        c.cov["first_disagreement"] = {"request": r[0][:2000], "impl": r[1][:1000], "model": m[:1000], **info}

    # ---- oracle failures: every one must be explained by a known finding
    fails = [r for r in rows if len(r) > 2 and r[2].startswith("FAIL")]
    c.cov["oracle_failures"] = len(fails)
    classes, unexplained, inside = {}, [], []
    for r in fails:
        fl = flags_of(r[0])
        if fl is not None:
            kind = r[2].split(" ")[1]
            in_fragment = fl.get("pyden") if kind in ("py-error", "py-reenc-differs", "py-reenc-invalid-json", "py-reenc-rejected-by-source-schema") \
                else (fl.get("pyden") and fl.get("goden"))
            # the theorems speak of JSON equality up to null members; the stricter null-presence checks of
            # the oracle are not instances of them
            if in_fragment and not re.search(r"class=null-member-(added|only-in-\w+)", r[2]):
                inside.append(r)
        kf = c.match_known(r[0] + "\t" + r[2])
        cls = fail_class(r[2])
        e = classes.setdefault(cls, {"n": 0, "finding": kf["id"] if kf else None})
        e["n"] += 1
        if not kf:
            unexplained.append(r)

    def payload(r, kind):
        cid = r[0].split(" ")[2] if r[0].startswith("pyroundtrip") else r[0].split(" ")[3]
        info = cases.get(cid, {})
        return {"kind": kind, "stream": "c11-rows", "request": r[0], "impl": r[1], "oracle": r[2],
                "class": fail_class(r[2]), "format": info.get("format"), "src": info.get("src"),
                "docs": [doc_json(r[0])]}

    seen = set()
    for r in unexplained:
        cls = fail_class(r[2])
        if cls in seen or len(seen) >= 5:
            continue
        seen.add(cls)
        c.violation(payload(r, "oracle-failure"))
    for r in inside[:3]:
        # the real code fails the property on a document inside the proved fragment: the model does not
        # describe the code (also visible as a correspondence disagreement) — concrete input at hand
        c.violation(payload(r, "theorem-instance-contradicted"))

    c.cov["skipped_cases"] = skips
    c.cov["model"] = {k: v for k, v in STATS.items()}
    c.cov["failure_classes"] = dict(sorted(classes.items(), key=lambda kv: -kv[1]["n"])[:60])
    c.cov["failure_class_count"] = len(classes)
    c.cov["unexplained_failures"] = len(unexplained)
    c.cov["failures_inside_proved_fragment"] = len(inside)
    c.cov["lab"] = [r[1][:3000] for r in rows if r[0] == "-" and r[1].startswith("stats")][:1]
    c.cov["pins"] = sorted({m.group(1) for r in rows if r[0] == "-" for m in [re.search(r" pin=(\S+)", r[1])] if m})
    if c.replay:
        for r in rows:
            if r[0] != "-":
                print("\t".join(r)[:1500])
    c.finish("cd /verif/lean && lake build Cog.Props.C11 drv && lake env lean <#print axioms of the C11 theorems>",
             "Src terms (every construct of the grammar) rendered to JSON Schema, OpenAPI and CUE, real pipeline run, generated Python imported and generated Go compiled; per case ~30 source-valid documents (reference-validated) through real from_json/to_json and real json.Unmarshal/Marshal; oracle A = Python output JSON-equal to the document (no member added), oracle B = Python output equals Go output; the Lean model must predict Python's reply and the agreement verdict; every oracle failure must match a known finding and lie outside the proved fragment; non-trivial = document with >= 6 nested values")


def doc_json(req):
    """the document of a request row as JSON text (S-expression → JSON, order-preserving)"""
    sx = req.split(" ", 4)[4] if req.startswith("pyroundtrip ") else req.split(" ", 5)[5]
    return sexp_to_json(sx)


def sexp_to_json(s):
    toks = re.findall(r'\(|\)|"(?:[^"\\]|\\.)*"|[^\s()]+', s)
    pos = [0]

    def unq(t):
        out, i, body = [], 0, t[1:-1]
        while i < len(body):
            ch = body[i]
            if ch == "\\":
                n = body[i + 1]
                if n == "x":
                    out.append(int(body[i + 2:i + 4], 16)); i += 4; continue
                out.append({"n": 10, "t": 9, "r": 13}.get(n, ord(n)) if n in "ntr" else None)
                if out[-1] is None:
                    out.pop(); out.extend(n.encode("utf-8"))
                i += 2
            else:
                out.extend(ch.encode("utf-8")); i += 1
        return bytes(out).decode("utf-8", "replace")

    def val():
        t = toks[pos[0]]
        if t != "(":
            pos[0] += 1
            return {"null": None, "true": True, "false": False}[t]
        pos[0] += 1
        head = toks[pos[0]]; pos[0] += 1
        if head == "n":
            v = Decimal(unq(toks[pos[0]])); pos[0] += 2
            return int(v) if v == v.to_integral_value() else float(v)
        if head == "s":
            v = unq(toks[pos[0]]); pos[0] += 2
            return v
        if head == "a":
            xs = []
            while toks[pos[0]] != ")":
                xs.append(val())
            pos[0] += 1
            return xs
        if head == "o":
            d = {}
            while toks[pos[0]] != ")":
                pos[0] += 1                       # (
                k = unq(toks[pos[0]]); pos[0] += 1
                d[k] = val()
                pos[0] += 1                       # )
            pos[0] += 1
            return d
        raise ValueError(head)
    return json.dumps(val(), ensure_ascii=False, separators=(",", ":"))

# Findings proposed by this check (copy of /verif/.work/proposed_findings_C11.json, used when that file is
# absent; `python3 checks/c11.py --write-proposed` rewrites the file from this copy).
BUILTIN_FINDINGS = json.loads(r'''{
 "findings": [
  {
   "id": "C11/python/from_json/explicit-null-for-optional-struct-raises",
   "property": "C11",
   "what": "generated Python `from_json` calls `X.from_json(data[\"k\"])` whenever the key is present: an explicit `null` for a nullable struct-typed member raises TypeError (`argument of type 'NoneType' is not iterable`) instead of decoding to None; when the class has only constant members no `in` test is emitted and `X.from_json(None)` returns `X()`: the null is replaced by an object holding the constants",
   "match": "FAIL (py-error class=TypeError|py-reenc-differs class=null-member-replaced|py-go-differ class=python-replaces-null) at=(\\S*/)?field\\([^)]*nullable[^)]*\\)/struct\\b",
   "pinned": {
    "pin": "explicit-null-optional-struct",
    "formats": [
     "jsonschema",
     "openapi",
     "cue"
    ],
    "defs": "(defs \"Root\" (\"Root\" (struct (field \"name\" (string - - false) true false -) (field \"child\" (ref \"Node\") false true -))) (\"Node\" (struct (field \"v\" (int 64 true - -) false false -))))",
    "docs": [
     "{\"name\":\"x\",\"child\":null}",
     "{\"name\":\"x\",\"child\":{\"v\":1}}",
     "{\"name\":\"x\"}"
    ],
    "document": "{\"name\":\"x\",\"child\":null}"
   },
   "lean_witness": "Cog.Sem.C11_counterexample_explicit_null_struct, Cog.Sem.C11_full_roundtrip_counterexample"
  },
  {
   "id": "C11/python/from_json/explicit-null-for-optional-union-raises",
   "property": "C11",
   "what": "an explicit `null` for a nullable member whose type is a discriminated union raises TypeError (`'NoneType' object is not subscriptable`): the decoding map is indexed with `data[\"k\"][\"<discriminator>\"]` unconditionally",
   "match": "FAIL py-error class=TypeError at=(\\S*/)?field\\([^)]*nullable[^)]*\\)/oneOfStructs\\b",
   "pinned": {
    "pin": "explicit-null-optional-union",
    "formats": [
     "jsonschema",
     "openapi",
     "cue"
    ],
    "defs": "(defs \"Root\" (\"Root\" (struct (field \"name\" (string - - false) true false -) (field \"shape\" (oneOfStructs \"kind\" (\"a\" \"A\") (\"b\" \"B\")) false true -))) (\"A\" (struct (field \"kind\" (const (s \"a\")) true false -) (field \"r\" (int 64 true - -) false false -))) (\"B\" (struct (field \"kind\" (const (s \"b\")) true false -) (field \"w\" (string - - false) false false -))))",
    "docs": [
     "{\"name\":\"x\",\"shape\":null}",
     "{\"name\":\"x\",\"shape\":{\"kind\":\"b\",\"w\":\"q\"}}"
    ],
    "document": "{\"name\":\"x\",\"shape\":null}"
   },
   "lean_witness": "Cog.Sem.C11_counterexample_explicit_null_union"
  },
  {
   "id": "C11/python/from_json/explicit-null-for-optional-array-of-non-scalars-raises",
   "property": "C11",
   "what": "an explicit `null` for a nullable array whose items are not scalars (objects, enums, unions, arrays, maps; with CUE also `time.Time`, which arrives as a reference to a `Time` object) raises TypeError (`'NoneType' object is not iterable`): `[… for item in data[\"k\"]]` is emitted without a None check (arrays of scalars are passed through and are fine)",
   "match": "FAIL py-error class=TypeError at=(\\S*/)?field\\([^)]*nullable[^)]*\\)/array\\((struct|enumS|enumI|oneOfStructs|oneOfScalars|array|dict|datetime)",
   "pinned": {
    "pin": "explicit-null-optional-array-of-structs",
    "formats": [
     "jsonschema",
     "openapi",
     "cue"
    ],
    "defs": "(defs \"Root\" (\"Root\" (struct (field \"name\" (string - - false) true false -) (field \"items\" (array (ref \"Node\")) false true -))) (\"Node\" (struct (field \"v\" (int 64 true - -) false false -))))",
    "docs": [
     "{\"name\":\"x\",\"items\":null}",
     "{\"name\":\"x\",\"items\":[{\"v\":1},{}]}"
    ],
    "document": "{\"name\":\"x\",\"items\":null}"
   },
   "lean_witness": "Cog.Sem.C11_counterexample_explicit_null_array_of_structs"
  },
  {
   "id": "C11/python/from_json/explicit-null-for-optional-map-of-non-scalars-raises",
   "property": "C11",
   "what": "an explicit `null` for a nullable map whose values are not scalars raises AttributeError (`'NoneType' object has no attribute 'keys'`): `{key: … for key in data[\"k\"].keys()}` is emitted without a None check",
   "match": "FAIL py-error class=AttributeError at=(\\S*/)?field\\([^)]*nullable[^)]*\\)/dict\\((struct|enumS|enumI|oneOfStructs|oneOfScalars|array|dict|datetime)",
   "pinned": {
    "pin": "explicit-null-optional-dict-of-structs",
    "formats": [
     "jsonschema",
     "openapi",
     "cue"
    ],
    "defs": "(defs \"Root\" (\"Root\" (struct (field \"name\" (string - - false) true false -) (field \"byKey\" (dict (ref \"Node\")) false true -) (field \"items\" (array (ref \"Node\")) false false -))) (\"Node\" (struct (field \"v\" (int 64 true - -) false false -))))",
    "docs": [
     "{\"name\":\"x\",\"byKey\":null}",
     "{\"name\":\"x\",\"byKey\":{\"k\":{\"v\":2}}}"
    ],
    "document": "{\"name\":\"x\",\"byKey\":null}"
   },
   "lean_witness": "Cog.Sem.C11_counterexample_explicit_null_map_of_structs"
  },
  {
   "id": "C11/python/from_json/nested-map-comprehension-shadows-key",
   "property": "C11",
   "what": "a map nested directly in a map of non-scalar values is decoded by `{key: {key: D(data[k][key][key]) for key in data[k][key].keys()} for key in data[k].keys()}`: every comprehension variable is named `key`, so the inner body reads `data[k][inner][inner]` — KeyError when the inner key is not also an outer key, and silently the WRONG entry when it is (grid.b.a receives grid.a.a)",
   "match": "FAIL (py-error class=KeyError at=\\S*dict\\(dict\\(\\S*/nested-dict|py-reenc-differs class=(string-changed|number-changed|other|value-dropped|bigint\\S*|absent-member-emitted|null-member-replaced|empty-collection\\S*) at=(\\S*/)?dict/dict(/\\S*)? |py-go-differ class=python-changes-value:\\S+ at=(\\S*/)?dict/dict(/\\S*)? )",
   "pinned": {
    "pin": "nested-dict-of-structs",
    "formats": [
     "jsonschema",
     "openapi",
     "cue"
    ],
    "defs": "(defs \"Root\" (\"Root\" (struct (field \"name\" (string - - false) true false -) (field \"grid\" (dict (dict (ref \"Node\"))) false false -) (field \"items\" (array (ref \"Node\")) false false -))) (\"Node\" (struct (field \"v\" (int 64 true - -) false false -))))",
    "docs": [
     "{\"name\":\"x\",\"grid\":{\"k1\":{\"k2\":{\"v\":1}}}}",
     "{\"name\":\"x\",\"grid\":{\"a\":{\"a\":{\"v\":1}},\"b\":{\"a\":{\"v\":2}}}}",
     "{\"name\":\"x\",\"grid\":{\"a\":{\"a\":{\"v\":1}}}}"
    ],
    "document": "{\"name\":\"x\",\"grid\":{\"k1\":{\"k2\":{\"v\":1}}}} (KeyError) and {\"name\":\"x\",\"grid\":{\"a\":{\"a\":{\"v\":1}},\"b\":{\"a\":{\"v\":2}}}} (grid.b.a.v becomes 1)"
   },
   "lean_witness": "Cog.Sem.C11_counterexample_nested_map_shadowed_key, Cog.Sem.C11_counterexample_nested_map_wrong_entry"
  },
  {
   "id": "C11/python/init/optional-member-with-default-emitted-when-absent",
   "property": "C11",
   "what": "an optional member that declares a default and is absent from the document is given the default by `__init__` and then emitted by `to_json` (`is not None`): the re-encoded document has a member the original lacks, and differs from what the Go SDK emits (Go leaves the pointer nil and omits the member)",
   "match": "FAIL py-(reenc-differs class=absent-member-emitted|go-differ class=python-adds-member) at=(\\S*/)?field\\(optional[^)]*\\+default\\)/",
   "pinned": {
    "pin": "optional-absent-with-default",
    "formats": [
     "jsonschema",
     "openapi",
     "cue"
    ],
    "defs": "(defs \"Root\" (\"Root\" (struct (field \"name\" (string - - false) true false -) (field \"note\" (int 64 true - -) false false (n \"7\")))))",
    "docs": [
     "{\"name\":\"x\"}",
     "{\"name\":\"x\",\"note\":3}"
    ],
    "document": "{\"name\":\"x\"}"
   },
   "lean_witness": "Cog.Sem.C11_counterexample_optional_default_emitted"
  },
  {
   "id": "C11/python/init/constant-member-emitted-when-absent-or-null",
   "property": "C11",
   "what": "a member whose type admits one value (constant, one-member enum, degenerate range) is assigned in `__init__` and never read from the document: when it is optional and absent, or nullable and given as `null`, `to_json` still emits the constant (Go omits it / emits null)",
   "match": "FAIL py-(reenc-differs class=(absent-member-emitted|null-member-replaced)|go-differ class=python-(adds-member|replaces-null)) at=(\\S*/)?field\\([^)]*\\)/const\\b",
   "pinned": {
    "pin": "optional-constant-absent",
    "formats": [
     "jsonschema",
     "openapi",
     "cue"
    ],
    "defs": "(defs \"Root\" (\"Root\" (struct (field \"name\" (string - - false) true false -) (field \"x\" (const (n \"72\")) false false -))))",
    "docs": [
     "{\"name\":\"x\"}",
     "{\"name\":\"x\",\"x\":72}"
    ],
    "document": "{\"name\":\"x\"}"
   },
   "lean_witness": "Cog.Sem.C11_counterexample_optional_constant_emitted"
  },
  {
   "id": "C11/python/init/explicit-null-replaced-by-default",
   "property": "C11",
   "what": "for members of kind ref/enum/array/map/union `__init__` emits `self.x = x if x is not None else <default>`: an explicit `null` for a nullable member that also has a default is replaced by the default and emitted (for scalar members `None` is kept)",
   "match": "FAIL py-(reenc-differs class=null-member-replaced|go-differ class=python-replaces-null) at=(\\S*/)?field\\([^)]*nullable\\+default\\)/(enumS|enumI|array|dict|struct|oneOf)",
   "pinned": {
    "pin": "null-replaced-by-default",
    "formats": [
     "jsonschema",
     "openapi",
     "cue"
    ],
    "defs": "(defs \"Root\" (\"Root\" (struct (field \"name\" (string - - false) true false -) (field \"mode\" (enumS \"a\" \"b\") true true (s \"b\")) (field \"tags\" (array (string - - false)) false true (a (s \"u\"))))))",
    "docs": [
     "{\"name\":\"x\",\"mode\":null}",
     "{\"name\":\"x\",\"mode\":\"a\",\"tags\":null}",
     "{\"name\":\"x\",\"mode\":\"a\",\"tags\":[\"w\"]}"
    ],
    "document": "{\"name\":\"x\",\"mode\":null} (cue) / {\"name\":\"x\",\"mode\":\"a\",\"tags\":null} (jsonschema)"
   }
  },
  {
   "id": "C11/go/omitempty/optional-empty-collection-only-in-python",
   "property": "C11",
   "what": "an optional array/map given as `[]`/`{}`: Python keeps it, the Go SDK drops it (`omitempty`, C01/omitempty/optional-empty-collection-dropped) — the two SDKs emit different JSON for the same document",
   "match": "FAIL py-go-differ class=empty-collection-only-in-python at=(\\S*/)?field\\(optional[^)]*\\)/(array|dict)\\b",
   "pinned": {
    "pin": "optional-empty-collections",
    "formats": [
     "jsonschema",
     "openapi",
     "cue"
    ],
    "defs": "(defs \"Root\" (\"Root\" (struct (field \"name\" (string - - false) true false -) (field \"tags\" (array (string - - false)) false false -) (field \"m\" (dict (int 64 true - -)) false false -))))",
    "docs": [
     "{\"name\":\"x\",\"tags\":[]}",
     "{\"name\":\"x\",\"m\":{}}",
     "{\"name\":\"x\",\"tags\":[\"a\"],\"m\":{\"k\":1}}"
    ],
    "document": "{\"name\":\"x\",\"tags\":[]}"
   },
   "lean_witness": "Cog.Sem.C11_counterexample_empty_optional_list_differs_from_go, Cog.Sem.C11_full_agree_counterexample"
  },
  {
   "id": "C11/go/cue/array-of-uint8-is-bytes",
   "property": "C11",
   "what": "CUE `[...uint8]` becomes Go `[]uint8` = `[]byte`, which encoding/json writes as a base64 string; Python keeps the list of numbers (C01/cue/array-of-uint8-is-bytes seen from the wire)",
   "match": "FAIL py-go-differ class=go-changes-value:array-became-string at=\\S*array\\(int8u\\) .*format=cue",
   "pinned": {
    "pin": "cue-array-of-uint8",
    "formats": [
     "cue"
    ],
    "defs": "(defs \"Root\" (\"Root\" (struct (field \"name\" (string - - false) true false -) (field \"b\" (array (int 8 false - -)) true false -))))",
    "docs": [
     "{\"name\":\"x\",\"b\":[1,2,3]}"
    ],
    "document": "{\"name\":\"x\",\"b\":[1,2,3]}"
   }
  },
  {
   "id": "C11/go/cue/nullable-union-of-structs-not-discriminated",
   "property": "C11",
   "what": "CUE `null | #A | #B`: the Go chain does not discriminate the union (C01/cue/nullable-union-of-structs-not-discriminated) and the Go SDK loses the branch's members; Python passes the dict through — outputs differ",
   "match": "FAIL py-go-differ class=(go-lacks-document-member|empty-collection-only-in-python) at=\\S*\\+nullable[^)]*\\)/oneOfStructs/\\S* .*format=cue",
   "pinned": {
    "pin": "explicit-null-optional-union",
    "formats": [
     "jsonschema",
     "openapi",
     "cue"
    ],
    "defs": "(defs \"Root\" (\"Root\" (struct (field \"name\" (string - - false) true false -) (field \"shape\" (oneOfStructs \"kind\" (\"a\" \"A\") (\"b\" \"B\")) false true -))) (\"A\" (struct (field \"kind\" (const (s \"a\")) true false -) (field \"r\" (int 64 true - -) false false -))) (\"B\" (struct (field \"kind\" (const (s \"b\")) true false -) (field \"w\" (string - - false) false false -))))",
    "docs": [
     "{\"name\":\"x\",\"shape\":null}",
     "{\"name\":\"x\",\"shape\":{\"kind\":\"b\",\"w\":\"q\"}}"
    ],
    "document": "{\"name\":\"x\",\"shape\":{\"kind\":\"b\",\"w\":\"q\"}}"
   }
  },
  {
   "id": "C11/cue/required-member-with-default-absent",
   "property": "C11",
   "what": "CUE `a: int64 | *5` accepts a document without `a` (unification supplies the default): Python emits `a: 5` (constructor default), Go emits `a: 0` (zero value) — neither reproduces the document, and they disagree with each other",
   "match": "FAIL py-(reenc-differs class=absent-member-emitted|go-differ class=both-differ:number-changed) at=field\\(required\\+default\\)/\\S+ .*format=cue pin=required-absent-with-default-cue",
   "pinned": {
    "pin": "required-absent-with-default-cue",
    "formats": [
     "cue"
    ],
    "defs": "(defs \"Root\" (\"Root\" (struct (field \"name\" (string - - false) true false -) (field \"a\" (int 64 true - -) true false (n \"5\")))))",
    "docs": [
     "{\"name\":\"x\"}",
     "{\"name\":\"x\",\"a\":9}"
    ],
    "document": "{\"name\":\"x\"}"
   },
   "lean_witness": "Cog.Sem.C11_counterexample_required_absent_default",
   "note": "only replayed from the pinned corpus: the document generator never omits a required member"
  },
  {
   "id": "C11/python/init/struct-default-overrides-constant-member",
   "property": "C11",
   "what": "a struct-valued default (CUE `#Child | *{items: 7.75, opts: -70}`) that names a member whose type admits one value is printed as `Child(items=7.75, opts=-70)`, but constant members are not constructor parameters: every `from_json` of a document that leaves the member out raises `TypeError: Child.__init__() got an unexpected keyword argument 'opts'` (lab known-bad KB06, third variant)",
   "match": "FAIL py-error class=TypeError at=\\S+ .*reply=err TypeError: \\w+\\.__init__\\(\\) got an unexpected keyword argument",
   "pinned": {
    "pin": "struct-default-overrides-constant-member",
    "formats": [
     "cue"
    ],
    "defs": "(defs \"Root\" (\"Root\" (struct (field \"name\" (string - - false) true false -) (field \"value\" (ref \"Child\") false false (o (\"items\" (n \"7.75\")) (\"opts\" (n \"-70\")))))) (\"Child\" (struct (field \"items\" (num 64 - -) true false -) (field \"opts\" (int 8 true -70 -70) true false -))))",
    "docs": [
     "{\"name\":\"x\"}",
     "{\"name\":\"x\",\"value\":{\"items\":1,\"opts\":-70}}"
    ],
    "document": "{\"name\":\"x\"}"
   },
   "note": "the Lean model answers `err` for such documents (pyDefault: override of a constant field)"
  }
 ]
}''')


if "--write-proposed" in sys.argv:
    with open(PROPOSED, "w") as fh:
        json.dump(BUILTIN_FINDINGS, fh, indent=1, ensure_ascii=False)
    print("wrote", PROPOSED)
    sys.exit(0)
main()
