"""C11 — generated Python types round-trip documents and agree with Go on the wire format.

Lean: `pyFromJson` / `pyToJson` / `pyDefault` (lean/Cog/Sem/PyCodec.lean, a transcription of
internal/jennies/python/rawtypes.go + tools.go + templates/runtime/encoder.tmpl over the
post-Python-chain IR), the fragment `pyDen`, the round-trip induction and the Go/Python agreement
theorem (lean/Cog/Props/C11.lean), the full statement `C11_full` with kernel-evaluated witnesses.
Tie: stream `c11-rows` — real cog pipeline → real generated Python imported and run, real generated
Go compiled and run, on source-valid (reference-validated) documents of Src terms in three formats:
  * `pyroundtrip` rows: the model must predict Python's reply (canonical JSON / `err`);
  * `c11agree` rows: the model must predict whether Python's and Go's outputs are JSON-equal; the
    reply also carries the decidable hypotheses `pyden` / `goden` of the theorems, so every failing
    document inside the proved fragment is reported as a contradicted theorem instance;
  * oracle A (Python output ≃ document, no null member added), oracle B (Python output = Go output).
Every witness of the Lean counterexamples is a pin of the stream's corpus and is replayed on real
generated code on every run.
"""
import json, os, re, sys, tempfile
from decimal import Decimal
from verifkit.core import *

THEOREMS = [
    "Cog.Sem.C11_roundtrip_partial", "Cog.Sem.C11_object_roundtrip_partial",
    "Cog.Sem.C11_decode_defined_partial", "Cog.Sem.C11_go_py_agree_partial",
    "Cog.Sem.py_roundtrip_core", "Cog.Sem.sub_trans",
    "Cog.Sem.C11_full_counterexample", "Cog.Sem.C11_full_roundtrip_counterexample",
    "Cog.Sem.C11_full_agree_counterexample",
    "Cog.Sem.C11_counterexample_explicit_null_struct",
    "Cog.Sem.C11_counterexample_explicit_null_array_of_structs",
    "Cog.Sem.C11_counterexample_explicit_null_map_of_structs",
    "Cog.Sem.C11_counterexample_explicit_null_union",
    "Cog.Sem.C11_nested_map_in_fragment", "Cog.Sem.C11_pinned_member_exact",
    "Cog.Sem.C11_counterexample_optional_default_emitted",
    "Cog.Sem.C11_counterexample_optional_constant_emitted",
    "Cog.Sem.C11_counterexample_empty_optional_list_differs_from_go",
    "Cog.Sem.C11_counterexample_required_absent_default",
]
HARNESS_FILES = HARNESS_BASE + ["lab_*.go", "src_*.go", "c01.go", "c11_*.go"]


def canon(text):
    """canonical JSON text: keys sorted, numbers as exact decimals"""
    def norm(x):
        if isinstance(x, dict):
            return {k: norm(v) for k, v in sorted(x.items())}
        if isinstance(x, list):
            return [norm(v) for v in x]
        if isinstance(x, Decimal):
            return "#" + format(x.normalize(), "f")
        return x
    return json.dumps(norm(json.loads(text, parse_float=Decimal, parse_int=Decimal)), sort_keys=True, ensure_ascii=False)


STATS = {"py_model_unsup": 0, "py_compared": 0, "agree_compared": 0, "agree_na": 0, "agree_go_model_limit": 0,
         "pyden": 0, "goden": 0, "both": 0, "accepts": 0, "documents_with_flags": 0, "not_accepted_samples": []}
FLAGS = {}   # "<pkg> <root> <doc sexp>" -> {"pyden": bool, "goden": bool, "accepts": bool}


def reconcile(req, impl, model):
    if req.startswith("pyroundtrip "):
        if model.startswith("unsup") or model.startswith("bad-json"):
            # construct outside the modelled fragment (or a number that is not a multiple of 0.25): counted
            STATS["py_model_unsup"] += 1
            return "unsup", "unsup"
        STATS["py_compared"] += 1
        try:
            if impl.startswith("ok "):
                impl = "ok " + canon(impl[3:])
            if model.startswith("ok "):
                model = "ok " + canon(model[3:])
        except Exception:
            pass  # raw text stays: shows up as a disagreement
        return impl, model
    if req.startswith("c11agree "):
        toks = model.split(" ")
        fl = {}
        for t in toks[1:]:
            k, _, v = t.partition("=")
            fl[k] = (v == "true")
        key = req.split(" ", 3)[3]
        FLAGS[key] = fl
        STATS["documents_with_flags"] += 1
        for k in ("pyden", "goden", "accepts"):
            STATS[k] += 1 if fl.get(k) else 0
        STATS["both"] += 1 if fl.get("pyden") and fl.get("goden") else 0
        if not fl.get("accepts") and len(STATS["not_accepted_samples"]) < 3:
            STATS["not_accepted_samples"].append(key[:300])
        m = toks[0]
        if m not in ("same", "differ", "na"):
            return impl, model
        impl, _, limit = impl.partition(" go-model-limit=")
        if limit and not fl.get("goden") and impl != m and m != "na":
            # an empty collection behind an optional reference to a collection alias (`*Alias` in Go, kept by
            # omitempty): C01's codec model reads the member as the collection itself (documented limit,
            # exclusion "empty-collection-behind-alias" of `den`); counted, the oracles ran on the document
            STATS["agree_go_model_limit"] += 1
            return "na", "na"
        if m == "na" or impl == "na":
            STATS["agree_na"] += 1
            return "na", "na"
        STATS["agree_compared"] += 1
        return impl, m
    return impl, model


def flags_of(req):
    if req.startswith("pyroundtrip "):
        return FLAGS.get(req.split(" ", 2)[2])
    if req.startswith("c11agree "):
        return FLAGS.get(req.split(" ", 3)[3])
    return None


def fail_class(v):
    v = re.sub(r"case=\S+ ", "", v)
    v = re.sub(r" pin=\S+", "", v)
    v = re.sub(r" (path|reply)=.*", "", v)
    return re.sub(r"[0-9]+", "N", v)[:240]


def write_replay_input(rp, path):
    with open(path, "w") as fh:
        fh.write(rp["format"] + "\n" + rp["src"] + "\n" + "\n".join(rp["docs"]) + "\n")


# ---- BEGIN pass widening tie for the Python chain (c11-src stream; owner: c01-widening builder) -----
# Self-contained: own scoped harness binary (harness/c01_src.go registers c01-src and c11-src), own
# driver verb `srcpy` (lean/Cog/Drv/SrcDenDrv.lean), theorems in the delimited block of Props/C11.lean.
PW_THEOREMS = [
    "Cog.Sem.C11w.C11_pass_widening_partial", "Cog.Sem.C11w.C11_pass_widening_struct_partial",
    "Cog.Sem.C11w.C11_python_chain_exact", "Cog.Sem.C11w.C11_source_roundtrip_partial",
    "Cog.Sem.C11w.C11_source_object_roundtrip_partial", "Cog.Sem.C11w.C11_source_agree_partial",
    "Cog.Sem.C11w.C11_pass_widening_counterexample",
    "Cog.Sem.Src.widen_py", "Cog.Sem.Src.widen_pyS", "Cog.Sem.Src.py_widen", "Cog.Sem.Src.pyDen_mono",
]


def pw_regen(c):
    """the widening theorems speak about the Python (and Go) chain the code runs: regenerate Cog/Gen/Chains.lean"""
    try:
        from verifkit import gen_c06
        okc, detail = gen_c06.regen()
    except Exception as e:
        okc, detail = False, "gen_c06.regen failed: %s" % e
    c.oblige("Cog/Gen/Chains.lean regenerated from the CompilerPasses() of internal/jennies/* (the chains of C11_pass_widening_*)", okc, detail)


def pw_tie(c):
    """PlainPyS ∧ srcDen ⇒ pyDen on the REAL post-Python-chain IR (instance of C11_pass_widening_struct_partial);
       with PlainS also ⇒ den on the REAL post-Go-chain IR (the two hypotheses of the agreement theorem)."""
    hbw, err = build_go("verifharness", "harness", files=HARNESS_BASE + ["lab_*.go", "src_*.go", "c01_src.go"], tag="c11w")
    c.oblige("harness (c11-src stream) builds against the repository working tree", hbw is not None, err[-3000:])
    if hbw is None:
        return
    quick = c.tier == "quick"
    n, docs, faults = (150, 10, 4) if quick else (1500, 14, 6)
    try:
        rows = harness(hbw, "c11-src", n=n, docs=docs, faults=faults, seed=c.seed, timeout=3600)
    except (RuntimeError, subprocess.TimeoutExpired) as e:
        c.oblige("c11-src stream runs", False, str(e)[-1500:])
        return
    replies = drv([r[0] for r in rows if r[0] != "-"])
    it = iter(replies)
    st = {"documents": 0, "valid": 0, "fragment_documents": 0, "fragment_valid": 0, "fragment_in_srcDen": 0,
          "fragment_in_srcDen_and_pyDen_real": 0, "common_fragment_in_srcDen": 0,
          "common_fragment_in_srcDen_and_den_and_pyDen_real": 0, "bad_replies": 0}
    cases, notpy, case_line = {}, {}, {}
    b_fail, m_fail, g_fail, pinned = [], [], [], []
    for r in rows:
        if r[0] == "-":
            if r[1].startswith("case "):
                case_line[r[1].split(" ")[1]] = r[1]
            continue
        m = next(it)
        if r[0].startswith("defschemas "):
            st["bad_replies"] += int(m != "ok")
            continue
        if not m.startswith("plainPyS="):
            st["bad_replies"] += 1
            continue
        d = dict(kv.split("=", 1) for kv in m.split(" "))
        cid = r[0].split(" ")[4]
        if r[1].endswith("doc=pinned"):
            pinned.append((r[0], r[1], m, "valid=true" in r[1] and d["src"] == "true" and d["pyden"] == "false" and d["mpyden"] == "false"))
            continue
        if cid not in cases:
            cases[cid] = (d["plainPyS"] == "true", d["plainS"] == "true")
            if d["plainPyS"] != "true":
                notpy[d["notpy"]] = notpy.get(d["notpy"], 0) + 1
        valid = "valid=true" in r[1]
        st["documents"] += 1
        st["valid"] += int(valid)
        if d["plainPyS"] != "true":
            continue
        st["fragment_documents"] += 1
        st["fragment_valid"] += int(valid)
        if d["src"] != "true":
            continue
        st["fragment_in_srcDen"] += 1
        if d["pyden"] == "true":
            st["fragment_in_srcDen_and_pyDen_real"] += 1
        else:
            b_fail.append((r, m))
        if d["mpyden"] != "true":
            m_fail.append((r, m))
        if d["plainS"] == "true":
            st["common_fragment_in_srcDen"] += 1
            if d["den"] == "true" and d["pyden"] == "true":
                st["common_fragment_in_srcDen_and_den_and_pyDen_real"] += 1
            elif d["den"] != "true":
                g_fail.append((r, m))
    def payload(kind, broken, r, m):
        cid = r[0].split(" ")[4]
        return {"kind": kind, "broken": broken, "stream": "c11-src", "request": r[0], "reference_validator": r[1], "driver": m,
                "case": case_line.get(cid, ""), "how_to_replay": "harness c11-src seed=%d n=%d docs=%d faults=%d, case %s" % (c.seed, n, docs, faults, cid)}
    for r, m in b_fail[:3]:
        c.violation(payload("theorem-instance-fails-on-real-passes", "C11_pass_widening_struct_partial: PlainPyS ∧ srcDen hold on the real pre-chain IR but the document is not in `pyDen` of the REAL post-Python-chain IR (pass model and real pass disagree)", r, m))
    for r, m in g_fail[:3]:
        c.violation(payload("theorem-instance-fails-on-real-passes", "C01_pass_widening_struct_partial (hypothesis of C11_source_agree_partial): PlainS ∧ srcDen hold but the document is not in `den` of the REAL post-Go-chain IR", r, m))
    for r, m in m_fail[:3]:
        c.violation(payload("theorem-instance-fails-on-model", "C11_pass_widening_struct_partial evaluated by the driver on the pass MODELS' output is false", r, m), found_input=False)
    npy = len([1 for v in cases.values() if v[0]])
    nboth = len([1 for v in cases.values() if v[0] and v[1]])
    c.oblige("c11-src: PlainPyS ∧ srcDen ⇒ pyDen on the REAL post-Python-chain IR (%d documents of %d cases in the fragment; common fragment with Go: %d documents of %d cases, all in `den` of the real Go IR too)"
             % (st["fragment_in_srcDen"], npy, st["common_fragment_in_srcDen"], nboth), not b_fail and not m_fail and not g_fail)
    c.oblige("witness of C11_pass_widening_counterexample replays on the real front-end and passes (source-valid, in srcDen, not in pyDen of the real post-Python-chain IR nor of the model's)",
             len(pinned) == 1 and all(p[3] for p in pinned), [(p[1], p[2]) for p in pinned] or "pinned row missing")
    c.oblige("c11-src is not vacuous (cases in the fragment, documents in srcDen)", npy >= 10 and st["fragment_in_srcDen"] >= 100,
             "cases in PlainPyS %d, documents in srcDen %d" % (npy, st["fragment_in_srcDen"]))
    c.count("c11-src", len(rows), [r[0] for r in rows if r[0].startswith("srcpy ") and r[0].count("(") >= 6],
            samples=[{"stream": "c11-src", "request": r[0][:400], "impl": r[1][:200], "oracle": "ok"} for r in rows if r[0].startswith("srcpy ")][:2])
    c.cov["disagreements_checked"] += st["fragment_in_srcDen"]
    c.cov["pass_widening"] = dict(st, cases=len(cases), cases_in_PlainPyS=npy, cases_in_PlainPyS_and_PlainS=nboth,
                                  not_in_fragment_first_reason=notpy,
                                  rate="%d/%d" % (st["fragment_in_srcDen_and_pyDen_real"], st["fragment_in_srcDen"]))
# ---- END pass widening tie for the Python chain ------------------------------------------------------


def load_proposed(c):
    """entries of checks/c11.round4.proposed_findings.json that known_findings.json does not hold yet"""
    path = os.path.join(VERIF, "checks", "c11.round4.proposed_findings.json")
    if not os.path.exists(path):
        return
    have = {f["id"] for f in c.known}
    for f in json.load(open(path)).get("findings", []):
        if f["id"] not in have and f.get("property") == c.pid:
            c.known.append(f)


def main():
    c = Check("C11")
    # known findings: /verif/known_findings.json (Check loads the entries of this property) plus proposed, unmerged ones
    load_proposed(c)
    c.trusted = [
        "Lean 4.33 kernel; axioms per theorem are listed in obligation_list (subset of propext, Classical.choice, Quot.sound)",
        "PROVED for all schemas/types/documents/fuel: round trip of the model of generated Python on `pyDen` (lean/Cog/Sem/PyDen.lean) and JSON-equality of Python's and Go's outputs on `den` ∩ `pyDen`; NOT proved: that front-ends + Python pass chain map a source-valid document into `pyDen` (covered by this check's correspondence on source-valid documents only; the evidence counts the documents inside the fragment)",
        "hand-written model lean/Cog/Sem/{PyVal,PyCodec}.lean of what internal/jennies/python/rawtypes.go (from_json, to_json, __init__), tools.go (default expressions) and templates/runtime/encoder.tmpl emit, tied by the c11-rows stream: real pipeline -> real python3 import -> real from_json/to_json of every document",
        "lean/Cog/Sem/{GoVal,GoCodec,Den}.lean (C01): model of encoding/json on the generated Go types, tied by C01's godec stream and by this check's c11agree rows",
        "CPython's json module (loads/dumps: insertion-ordered dicts, exact ints, shortest-repr floats), Python identifier mapping `formatIdentifier` assumed injective on a struct's members (the generator never draws colliding names)",
        "source side: documents are drawn from the Src grammar and checked against the schema language's own validator (santhosh-tekuri/jsonschema, kin-openapi, cuelang) before use",
        "numbers restricted to integers and multiples of 0.25; duplicate keys outside the model; post-chain IRs handed to the model are the pipeline's own (harness VIR encoder, round-trip-checked by the vir stream)",
    ]
    hb, err = build_go("verifharness", "harness", files=HARNESS_FILES, tag="c11")
    c.oblige("harness (lab + c11 stream) builds against the repository working tree", hb is not None, err[-3000:])
    pw_regen(c)                                  # pass widening block
    c.lean_obligations(THEOREMS + PW_THEOREMS)   # + pass widening theorems
    if hb is None:
        c.finish("lake build", "n/a")
    quick = c.tier == "quick"
    # aliased: terms of harness/c11_round4.go (collections reached through named aliases, integers beyond 2^53)
    kw = dict(n=24, docs=30, pinned=10, aliased=8) if quick else dict(n=360, docs=40, pinned=90, aliased=90)
    extra = {}
    if c.replay:
        rp = json.load(open(c.replay))
        if "src" not in rp:
            print(json.dumps(rp, indent=1)[:4000])
            sys.exit(1)
        tmp = os.path.join(WORK, "c11-replay-%d.txt" % os.getpid())
        write_replay_input(rp, tmp)
        kw = dict(n=0, docs=0)
        extra = dict(replay=tmp, pins=0)
    try:
        rows = harness(hb, "c11-rows", seed=c.seed, tier=c.tier, timeout=7200, **kw, **extra)
    finally:
        if extra.get("replay") and os.path.exists(extra["replay"]):
            os.remove(extra["replay"])
    cases = {}
    skips = {}
    for r in rows:
        if r[0] == "-" and r[1].startswith("case "):
            m = re.match(r"case (\S+) format=(\S+).* src=(.*)$", r[1])
            if m:
                cases[m.group(1)] = {"format": m.group(2), "src": m.group(3)}
        if r[0] == "-" and r[1].startswith("skip"):
            k = " ".join(r[1].split(" ")[2:3])
            skips[k] = skips.get(k, 0) + 1

    # ---- correspondence (model vs. implementation); failures are handled below, not by `correspond`
    quiet = [[r[0], r[1], "ok"] for r in rows]
    _, dis, _ = c.correspond(hb, "c11-rows", rows=quiet, reconcile=reconcile,
                             nontrivial=lambda r: r[0].startswith("pyroundtrip ") and r[0].count("(") >= 6)
    if dis:
        # name the first disagreement with its schema so that it can be replayed
        r, m = dis[0]
        toks = r[0].split(" ")
        cid = (toks[2] if r[0].startswith("pyroundtrip") else toks[3]) if len(toks) > 3 else (r[1].split(" ")[1] if len(r[1].split(" ")) > 1 else "")
        info = cases.get(cid, {})
        log("model/implementation disagreement:", r[0][:600], "| impl:", r[1][:300], "| model:", m[:300])
        c.cov["first_disagreement"] = {"request": r[0][:2000], "impl": r[1][:1000], "model": m[:1000], **info}

    # ---- oracle failures: every one must be explained by a known finding
    fails = [r for r in rows if len(r) > 2 and r[2].startswith("FAIL")]
    c.cov["oracle_failures"] = len(fails)
    classes, unexplained, inside = {}, [], []
    for r in fails:
        fl = flags_of(r[0])
        if fl is not None:
            kind = r[2].split(" ")[1]
            in_fragment = fl.get("pyden") if kind in ("py-error", "py-reenc-differs", "py-reenc-invalid-json", "py-reenc-rejected-by-source-schema") \
                else (fl.get("pyden") and fl.get("goden"))
            # the theorems speak of JSON equality up to null members; the stricter null-presence checks of
            # the oracle are not instances of them
            if in_fragment and not re.search(r"class=null-member-(added|only-in-\w+)", r[2]):
                inside.append(r)
        kf = c.match_known(r[0] + "\t" + r[2])
        cls = fail_class(r[2])
        e = classes.setdefault(cls, {"n": 0, "finding": kf["id"] if kf else None})
        e["n"] += 1
        if not kf:
            unexplained.append(r)

    def payload(r, kind):
        toks = r[0].split(" ")
        cid = (toks[2] if r[0].startswith("pyroundtrip") else toks[3]) if len(toks) > 3 else (r[1].split(" ")[1] if len(r[1].split(" ")) > 1 else "")
        info = cases.get(cid, {})
        return {"kind": kind, "stream": "c11-rows", "request": r[0], "impl": r[1], "oracle": r[2],
                "class": fail_class(r[2]), "format": info.get("format"), "src": info.get("src"),
                "docs": [doc_json(r[0])]}

    seen = set()
    for r in unexplained:
        cls = fail_class(r[2])
        if cls in seen or len(seen) >= 5:
            continue
        seen.add(cls)
        c.violation(payload(r, "oracle-failure"))
    for r in inside[:3]:
        # the real code fails the property on a document inside the proved fragment: the model does not
        # describe the code (also visible as a correspondence disagreement) — concrete input at hand
        c.violation(payload(r, "theorem-instance-contradicted"))

    c.cov["skipped_cases"] = skips
    c.cov["model"] = {k: v for k, v in STATS.items()}
    c.cov["failure_classes"] = dict(sorted(classes.items(), key=lambda kv: -kv[1]["n"])[:60])
    c.cov["failure_class_count"] = len(classes)
    c.cov["unexplained_failures"] = len(unexplained)
    c.cov["failures_inside_proved_fragment"] = len(inside)
    c.cov["lab"] = [r[1][:3000] for r in rows if r[0] == "-" and r[1].startswith("stats")][:1]
    c.cov["pins"] = sorted({m.group(1) for r in rows if r[0] == "-" for m in [re.search(r" pin=(\S+)", r[1])] if m})
    if c.replay:
        for r in rows:
            if r[0] != "-":
                print("\t".join(r)[:1500])
    else:
        pw_tie(c)                                # pass widening block
    c.finish("cd /verif/lean && lake build Cog.Props.C11 drv && lake env lean <#print axioms of the C11 theorems>",
             "Src terms (every construct of the grammar) rendered to JSON Schema, OpenAPI and CUE, real pipeline run, generated Python imported and generated Go compiled; per case ~30 source-valid documents (reference-validated) through real from_json/to_json and real json.Unmarshal/Marshal; oracle A = Python output JSON-equal to the document (no member added), oracle B = Python output equals Go output; the Lean model must predict Python's reply and the agreement verdict; every oracle failure must match a known finding and lie outside the proved fragment; non-trivial = document with >= 6 nested values")


def doc_json(req):
    """the document of a request row as JSON text (S-expression → JSON, order-preserving)"""
    parts = req.split(" ", 4) if req.startswith("pyroundtrip ") else req.split(" ", 5)
    want = 5 if req.startswith("pyroundtrip ") else 6
    if len(parts) < want:
        return None  # a row about a whole case (e.g. generated code does not compile), no document
    return sexp_to_json(parts[-1])


def sexp_to_json(s):
    toks = re.findall(r'\(|\)|"(?:[^"\\]|\\.)*"|[^\s()]+', s)
    pos = [0]

    def unq(t):
        out, i, body = [], 0, t[1:-1]
        while i < len(body):
            ch = body[i]
            if ch == "\\":
                n = body[i + 1]
                if n == "x":
                    out.append(int(body[i + 2:i + 4], 16)); i += 4; continue
                out.append({"n": 10, "t": 9, "r": 13}.get(n, ord(n)) if n in "ntr" else None)
                if out[-1] is None:
                    out.pop(); out.extend(n.encode("utf-8"))
                i += 2
            else:
                out.extend(ch.encode("utf-8")); i += 1
        return bytes(out).decode("utf-8", "replace")

    def val():
        t = toks[pos[0]]
        if t != "(":
            pos[0] += 1
            return {"null": None, "true": True, "false": False}[t]
        pos[0] += 1
        head = toks[pos[0]]; pos[0] += 1
        if head == "n":
            v = Decimal(unq(toks[pos[0]])); pos[0] += 2
            return int(v) if v == v.to_integral_value() else float(v)
        if head == "s":
            v = unq(toks[pos[0]]); pos[0] += 2
            return v
        if head == "a":
            xs = []
            while toks[pos[0]] != ")":
                xs.append(val())
            pos[0] += 1
            return xs
        if head == "o":
            d = {}
            while toks[pos[0]] != ")":
                pos[0] += 1                       # (
                k = unq(toks[pos[0]]); pos[0] += 1
                d[k] = val()
                pos[0] += 1                       # )
            pos[0] += 1
            return d
        raise ValueError(head)
    return json.dumps(val(), ensure_ascii=False, separators=(",", ":"))


main()
