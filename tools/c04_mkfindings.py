import json
F = []
def add(id, what, match, pinned, fix=None):
    e = {"id": id, "property": "C04", "what": what, "match": match, "pinned_input": pinned}
    if fix:
        e["fix_candidate"] = fix
    F.append(e)

add("C04/enum/member-value-not-string",
    "enum whose members are typed `string` (JSON Schema types all members after the first value; OpenAPI by `type`) but hold a non-string value (`enum: [\"a\", 1]`, `[1,2]` under type string, null): PrefixEnumValues (Go) / SanitizeEnumMemberNames (PHP) assert member.Value.(string)",
    r"frame=internal/ast/compiler\.\(\*(PrefixEnumValues|SanitizeEnumMemberNames)\)\.\w+ msg=interface conversion: interface \{\} is .*not string",
    "./check C04 --replay corpus:corpus/jsonschema-mixed-enum",
    "small safe fix: comma-ok assertions in enumMemberNameFromValue / sanitizeEnumMember")
add("C04/enum/member-value-uncomparable",
    "enum typed `string` whose member value is an array or an object (OpenAPI `type: string, enum: [[\"x\"]]`; same root as member-value-not-string): EnumType.MemberForValue compares the member values with `==`, which panics at run time for []interface{} / map values (reached from the TypeScript / Java / Python default-value formatters)",
    r"frame=internal/ast\.EnumType\.MemberForValue\S* msg=runtime error: comparing uncomparable type",
    "./check C04 --replay corpus:corpus/openapi-enum-array-member",
    "small safe fix: reject non-scalar enum values in the OpenAPI / JSON Schema walkEnum (error), or compare with reflect.DeepEqual")
add("C04/enum/empty-member-name",
    "enum member with an empty name (`enum: [1, \"\"]`: non-string first value -> int64 members named by %v; YAML-defined enums): member.Name[0] -> index out of range in PrefixEnumValues / SanitizeEnumMemberNames",
    r"frame=internal/ast/compiler\.\(\*(PrefixEnumValues|SanitizeEnumMemberNames)\)\.\w+ msg=runtime error: index out of range",
    "./check C04 --replay corpus:corpus-config/enum-empty-member-name",
    "small safe fix: `len(member.Name) > 0 &&` before indexing")
add("C04/enum/empty-enum",
    "OpenAPI `enum: []` (present but empty; JSON Schema rejects it, OpenAPI does not): ast.NewEnum with no values, then Values[0] in the Go/Java/PHP/Python/TypeScript formatters and in EnumType.MemberForValue",
    r"frame=(internal/jennies/\w+\.\S*([eE]num\w*|defaultValueFor\w+)\S*|internal/ast\.EnumType\.MemberForValue\S*) msg=runtime error: index out of range",
    "mutation `weird-enum` (enum: []) of testdata/openapi/refs, e.g. seed 1 mut/279",
    "small safe fix: error `enum with no values` in the OpenAPI walkEnum (as the JSON Schema front-end already does)")
add("C04/yaml/enum-member-without-type",
    "enum defined in YAML (`add_object`/`retype_*` `as: {kind: enum, enum: {values: [{name: a, value: a}]}}`) whose members have no `type`: member.Type.Scalar is nil in PrefixEnumValues, SanitizeEnumMemberNames, DisjunctionOfConstantsToEnum, EnumType.MemberForValue and the jennies",
    r"route=(config|passes-yaml|veneers-yaml) .*frame=(internal/ast/compiler\.\(\*(PrefixEnumValues|SanitizeEnumMemberNames)\)\.\w+|internal/ast/compiler\.\(\*DisjunctionOfConstantsToEnum\)\.\S+|internal/ast\.EnumType\.MemberForValue\S*|internal/ast\.Type\.AsScalar<-internal/(jennies/\S*[eE]num\S*|ast\.EnumType\S*)) msg=runtime error: invalid memory address",
    "./check C04 --replay corpus:corpus-config/enum-member-without-type")
add("C04/union/empty",
    "OpenAPI `oneOf: []` / `anyOf: []` (non-nil empty list): an empty union made only of references (vacuously): DisjunctionInferMapping.inferDiscriminatorField indexes def.Branches[0]",
    r"frame=internal/ast/compiler\.\(\*DisjunctionInferMapping\)\.inferDiscriminatorField msg=runtime error: index out of range",
    "mutation `oneOf-weird` (oneOf: []) of any OpenAPI testdata schema, e.g. seed 1 mut/80",
    "small safe fix: `len(def.Branches) == 0` guard in processDisjunction; the OpenAPI front-end could reject empty oneOf/anyOf like the JSON Schema one")
add("C04/union/null-null",
    "two-branch union whose branches are both `null` (JSON Schema `type: [null, null]`, YAML-defined unions): DisjunctionWithNullToOptional indexes NonNullTypes()[0]",
    r"frame=internal/ast/compiler\.\(\*DisjunctionWithNullToOptional\)\.processDisjunction msg=runtime error: index out of range",
    "harness c04-run streams=pyaml (generated unions) — Lean witness C04.wNullNull",
    "small safe fix: check `len(nonNull) == 0`")
add("C04/discriminator/branch-not-struct",
    "union of references with a `discriminator` (OpenAPI) where a branch resolves to a non-struct (`oneOf: [$ref A, $ref B]`, A a string): buildDiscriminatorMapping calls referredType.AsStruct() unchecked -> nil dereference",
    r"frame=internal/ast\.Type\.AsStruct<-internal/ast/compiler\.\(\*DisjunctionInferMapping\)\.buildDiscriminatorMapping",
    "./check C04 --replay corpus:corpus/openapi-discriminator-on-scalars",
    "small safe fix: `if !referredType.IsStruct() { return nil, error }`")
add("C04/discriminator/non-string-constant",
    "discriminator field holding a non-string constant (`kind: 1`): buildDiscriminatorMapping asserts Value.(string) / ReferenceValue.(string)",
    r"route=(ir|passes-yaml|veneers-yaml|config) .*frame=internal/ast/compiler\.\(\*DisjunctionInferMapping\)\.buildDiscriminatorMapping msg=interface conversion",
    "harness c04-run streams=pyaml seed=2 passes-yaml/2/2816 — Lean witness C04.wDiscriminatorNonString",
    "small safe fix: comma-ok assertions")
add("C04/alias-cycle/stack-overflow",
    "alias cycle (object whose type is a bare reference, chain returning to itself): Schemas.ResolveToType / Schema.Resolve / languages.Context.Resolve* recurse without a visited set -> Go stack overflow (fatal, not recoverable). Reachable from CUE (`#A: #A`), and from configuration: `retype_object` / `add_object` with `as:` a reference to the object itself",
    r"outcome=(crash|timeout) frame=recursion:internal/(ast\.Schemas\.ResolveToType|ast\.\(\*Schema\)\.Resolve|languages\.\(\*?Context\)?\.Resolve\w+|ast\.Schemas\.LocateObject\w*) msg=fatal error: stack overflow",
    "./check C04 --replay corpus:corpus-config/retype-self-reference ; corpus:corpus/cue-self-alias")
add("C04/recursive-union/stack-overflow",
    "union that refers to itself through a branch (`X: X | \"a\"`, JSON Schema `A: oneOf[$ref A, string]`): DisjunctionOfConstantsToEnum.resolvesToConcreteScalarsOnly recurses without a visited set -> stack overflow",
    r"frame=recursion:internal/ast/compiler\.\(\*DisjunctionOfConstantsToEnum\)",
    "Lean witness C04.wRecursiveUnion; mutation `ref=#/definitions/X` inside its own oneOf, e.g. seed 1 mut/75")
add("C04/recursive-type/jenny-stack-overflow",
    "recursive type reached through arrays / references in a jenny (`#A: [...#A]`, self-referencing definitions): python fromJSONForType, java formatArray, languages.Context.ResolveToComposableSlot recurse through references without a visited set (stack overflow), the Go / PHP type templates expand it until memory runs out (runaway: watchdog timeout or `out of memory`)",
    r"(outcome=(crash|timeout) frame=(recursion:internal/(jennies/\w+\.(RawTypes|\(\*?typeFormatter\)|\(\*?RawTypes\))\.\w+|languages\.\(\*?Context\)\.\w+)|hang:internal/jennies/\w+\.\(?\*?RawTypes\)?\.\w+) msg=(fatal error: stack overflow|no result within the watchdog time)|frame=internal/jennies/template\.\(\*Template\)\.Render msg=fatal error: out of memory)",
    "./check C04 --replay corpus:corpus/cue-recursive-array   (`#A: [...#A]`)")
add("C04/openapi/library-stack-overflow",
    "OpenAPI schema that contains itself under anyOf/oneOf (`Array: {anyOf: [.., {$ref: Array}]}`) with validation on: kin-openapi's Schema.IsEmpty / validation recurses forever (third-party code, but the cog run dies with a Go stack overflow)",
    r"outcome=crash frame=recursion:lib:github\.com/getkin/kin-openapi\S* msg=fatal error: stack overflow",
    "./check C04 --replay corpus:corpus/openapi-self-anyof-validated")
add("C04/openapi/loader-library-panic",
    "malformed OpenAPI document on which kin-openapi's loader itself panics (nil dereference inside LoadFromFile, e.g. a component replaced by a scalar/array): not recovered by cog",
    r"frame=internal/codegen\.\(\*OpenAPIInput\)\.loadSchema msg=runtime error",
    "mutation `replace@<component>` of testdata/openapi/refs, e.g. seed 11 mut/17209")
add("C04/jennies/default-on-non-struct-reference",
    "default value on a field whose type is a reference that does not resolve to a struct (CUE `x: #A | *{...}` shapes): java formatReferenceDefaults / typescript defaultValueForStructs call AsStruct() unchecked",
    r"frame=internal/ast\.Type\.AsStruct<-internal/jennies/\w+\.\S*([dD]efault\w*)",
    "mutation of testdata/schemas/defaults (cue-rhs:{a: 1} | {b: 2}), e.g. seed 11 mut/29122")
add("C04/cue/reference-resolver-selector",
    "CUE reference whose package part is a selector expression: referenceResolver.PackageForNode asserts .(*ast.Ident)",
    r"frame=internal/simplecue\.\(\*referenceResolver\)\.\w+ msg=interface conversion",
    "byte mutation of testdata/simplecue/time, e.g. thorough seed 1 mut/155321")
add("C04/cue/library-export-stack-overflow",
    "CUE field defined through a selector into its own definition (`#A: {x: #A.x}`, then `#a: #A & {x: 1}`): the CUE library's exporter (cue.Value.Syntax, called by simplecue's referenceResolver.buildImportsAliasMap / number constraints) recurses without bound -> fatal stack overflow inside cuelang.org/go; cog does not validate the value (v.Validate / v.Err) before asking for its syntax",
    r"route=input:cue outcome=crash frame=recursion:lib:cuelang\.org/go/internal/core/export\.\(\*exporter\)\.\w+ msg=fatal error: stack overflow",
    "./check C04 --replay corpus:corpus/cue-self-referential-field",
    "candidate: reject values with v.Validate() errors (structural / reference cycles) in simplecue.GenerateAST before walking; third-party recursion cannot be recovered")
add("C04/yaml/empty-enum",
    "enum without values written in YAML (`add_object` / `retype_*` / `add_fields` with `as: {kind: enum, enum: {values: []}}` or `enum: {}`; the OpenAPI front-end rejects `enum: []` since fix fd9167a, JSON Schema always did): the enum formatters of the Go, Java, PHP, Python jennies and the default-value code of PHP, Python, TypeScript index Values[0]. This is the YAML half of the former C04/enum/empty-enum",
    r"route=config .*frame=internal/jennies/\w+\.\S*([eE]num\w*|defaultValueFor\w+)\S* msg=runtime error: index out of range",
    "./check C04 --replay corpus:corpus-config/enum-empty-values",
    "small safe fix: reject an enum without values when decoding `as:` types (error), as both front-ends do")
add("C04/yaml/empty-union-default-value",
    "union without branches written in YAML (`add_fields` / `add_object` / `retype_*` with `{kind: disjunction, disjunction: {branches: []}}`; the front-ends reject `oneOf: []` since fix fd9167a) on a REQUIRED field: the Python, TypeScript and PHP raw-type jennies compute a default value and index `Branches[0]` in defaultValueForType. Exposed once DisjunctionInferMapping stopped panicking first (fix 146d1ec); Go and Java return the error `discriminator not set`. The languages of one run are processed concurrently, so with several languages the run ends either with that error or with this panic",
    r"route=config .*frame=internal/jennies/(python|typescript|php)\.\S*defaultValueForType msg=runtime error: index out of range",
    "./check C04 --replay corpus:corpus-config/union-empty-typescript",
    "small safe fix: `len(Branches) == 0` guard in the three defaultValueForType (or reject empty unions when decoding `as:` types)")
add("C04/python/intersection-not-implemented",
    "OpenAPI / JSON Schema `allOf` with the Python output: formatType panics explicitly `formatting intersection type is not implemented for python` (the repo's own testdata/openapi/intersections and external_refs trigger it)",
    r"frame=internal/jennies/python\.\(\*typeFormatter\)\.formatType msg=formatting intersection type is not implemented",
    "./check C04 --replay corpus:corpus/openapi-allof-python")
add("C04/tools/any-to-int64",
    "default / constant of an int enum that is not a number (list, map): EnumType.MemberForValue -> tools.AnyToInt64 ends in an unchecked value.(int64)",
    r"frame=internal/tools\.AnyToInt64",
    "mutation `weird-enum` + default, e.g. seed 1 mut/2450",
    "small safe fix: return (0, false) / an error instead of the final assertion")
add("C04/java/default-value-type-assertion",
    "default value whose dynamic type does not match the scalar kind (`type: number, default: \"x\"`): java formatType asserts .(float64) / .(int64)",
    r"frame=internal/jennies/java\.formatType\.func\d+ msg=interface conversion",
    "mutation of testdata/schemas/defaults (cue-rhs:float64), e.g. seed 1 mut/192")
add("C04/config/templates-directory",
    "`extra_files_templates` / `overrides_templates` naming a directory that does not exist (or holding a file that is not a template): initTemplates panics `could not initialize templates: …` instead of returning the error",
    r"frame=internal/jennies/\w+\.initTemplates msg=could not initialize templates",
    "harness c04-run streams=config (extra_files_templates: [/nonexistent/x]), e.g. seed 1 config/123")
add("C04/yaml/as-type-nil-kind-pointer",
    "a type written in YAML (`as:`, `fields: [{type: …}]`, veneer arguments) whose `kind` has no matching payload (`{kind: struct}`, payload null, payload of another kind): the decoder accepts it, every later As*() / kind-pointer dereference panics",
    r"route=(config|passes-yaml|veneers-yaml) .*frame=internal/(ast|jennies|languages|veneers)\S* msg=runtime error: invalid memory address.*(asbad=true|pinned-config=(retype-object-nil-struct|retype-field-nil-array|add-object-empty-kind))",
    "./check C04 --replay corpus:corpus-config/retype-object-nil-struct")
add("C04/yaml/constant-to-enum-non-string",
    "`constant_to_enum` on a string scalar whose constant is not a string (a type written in YAML with `scalar_kind: string, value: 1`; JSON Schema `{type: string, const: 1}`): processObject asserts Value.(string)",
    r"frame=internal/ast/compiler\.\(\*ConstantToEnum\)\.processObject msg=interface conversion",
    "./check C04 --replay corpus:corpus-config/constant-to-enum-non-string",
    "small safe fix: comma-ok assertion, leave the object alone otherwise")
add("C04/yaml/constraint-without-args",
    "scalar constraint written in YAML without `args` (`constraints: [{op: minLength}]`): WithTypeConstraints and the JSON Schema jenny index Args[0]",
    r"frame=(internal/ast\.FieldAssignment\.WithTypeConstraints\S*|internal/ast\.WithTypeConstraints\S*|internal/jennies/\w+\.\S*[cC]onstraint\S*) msg=runtime error: index out of range",
    "./check C04 --replay corpus:corpus-config/constraint-without-args")
add("C04/veneers/option-without-assignment",
    "option added by `add_option` without arguments / assignments, then targeted by `unfold_boolean`, `array_to_append`, `map_to_index`, `struct_fields_as_*`: option.Assignments[0] / Args[0] indexed unchecked",
    r"frame=internal/yaml\.(UnfoldBoolean|ArrayToAppend|MapToIndex|StructFieldsAsArguments|StructFieldsAsOptions)\.\S+ msg=runtime error: index out of range",
    "./check C04 --replay corpus:corpus-config/unfold-boolean-on-added-option")
add("C04/veneers/disjunction-as-options-index",
    "`disjunction_as_options` with an `argument_index` outside the option's arguments (or negative): option.Args[argumentIndex]",
    r"frame=internal/yaml\.DisjunctionAsOptions\.\S+ msg=runtime error: index out of range",
    "./check C04 --replay corpus:corpus-config/struct-fields-as-arguments-on-scalar",
    "small safe fix: bounds check returning an error")
add("C04/yaml/implements-variant-not-string",
    "`implements_variant` hint that is not a string (hint_object with a number / null; `hints: {implements_variant: ~}` in an `as:` type): Type.ImplementedVariant / IsDataqueryVariant assert .(string)",
    r"frame=internal/ast\.Type\.(ImplementedVariant|IsDataqueryVariant)\S* msg=interface conversion",
    "harness c04-run streams=config, e.g. seed 1 config/3437 — Lean witness C04.wVariantHint")
# fixed later (aceba4d 30da046 375123d 637545e 423e7f3 182b25c fd9167a 146d1ec): the ten ids in FIXED below are filtered out
# fixed in /repo and therefore removed here: openapi/enum-without-type 70c59a6, openapi/array-without-items 4e6f2a6, openapi/unresolved-ref-nil-value ca4fdd6,
# jsonschema/tuple-items f0d68ac, config/null-list-element 15208a9, config/null-document 4823a7e, yaml/hint-object-nil-map d683cb9, fromast/dangling-alias eed3e31
FIXED = ['C04/enum/member-value-not-string', 'C04/enum/empty-member-name', 'C04/union/null-null', 'C04/discriminator/branch-not-struct', 'C04/discriminator/non-string-constant', 'C04/yaml/constant-to-enum-non-string', 'C04/veneers/disjunction-as-options-index', 'C04/enum/member-value-uncomparable', 'C04/enum/empty-enum', 'C04/union/empty']
F = [e for e in F if e["id"] not in FIXED]
doc = {"comment": "PROPOSED known-findings entries of property C04 (to be merged into /verif/known_findings.json by the coordinator). checks/c04.py reads only /verif/known_findings.json.", "findings": F}
for p in ("/verif/.work/proposed_findings_C04.json",):
    json.dump(doc, open(p, "w"), indent=1)
print(len(F))
