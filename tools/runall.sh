#!/bin/sh
# Runs every claimed check (quick tier) on the unchanged /repo, sequentially; prints one line per check.
cd /verif
PYTHONPATH=/verif python3 tools/regen.py >/dev/null 2>&1
for id in $(python3 -c "import json; print(' '.join(c['property_id'] for c in json.load(open('MANIFEST.json'))['checks']))"); do
  t0=$(date +%s)
  timeout 1200 ./check $id > .work/runall-$id.out 2> .work/runall-$id.err; rc=$?
  t1=$(date +%s)
  echo "$id rc=$rc $(($t1-$t0))s known=$(grep -c '^KNOWN-FINDING' .work/runall-$id.out) viol=$(grep -c '^VIOLATION' .work/runall-$id.out) :: $(tail -1 .work/runall-$id.out | cut -c1-120)"
done
