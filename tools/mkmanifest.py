"""Writes /verif/MANIFEST.json from the table below (single source of truth for the interface)."""
import json, subprocess, os
V = os.path.dirname(os.path.dirname(os.path.abspath(__file__)))
props = [json.loads(l) for l in open(os.path.join(V, "properties.jsonl"))]
import glob

def _fix_commits():
    try:
        out = subprocess.run(["git", "-C", "/repo", "log", "--format=%h %s", "--grep=^fix:"], capture_output=True, text=True).stdout
        return [l.strip() for l in out.splitlines() if l.strip()]
    except Exception:
        return []

_kf = json.load(open("/verif/known_findings.json"))
NOTES = ("Technique: machine-checked proof in Lean 4 (theorems about models of cog, models tied to /repo on every run by regenerated facts "
         "and model/implementation correspondence). %d recorded known findings (known_findings.json: id, regex over the failing row, pinned input) and %d fixed entries. "
         "Unguarded `fix:` commits in /repo (each minimal, suite green): %s. seeded/: %s; benign/: behaviour-preserving refactors that must stay quiet."
         % (len(_kf.get("findings", [])), len(_kf.get("fixed", [])), "; ".join(_fix_commits()) or "see known_findings.json",
            "property-breaking changes by independent agents with the check that catches each (seeded/RESULTS.tsv)"))

CHECKS = {}
for f in sorted(glob.glob(os.path.join(V, "checks", "*.meta.json"))):
    m = json.load(open(f))
    CHECKS[m["property_id"]] = m
checks = []
for p in props:
    c = CHECKS.get(p["id"])
    if not c:
        continue
    checks.append({
        "property_id": p["id"],
        "quick_cmd": "./check %s --tier quick" % p["id"],
        "thorough_cmd": "./check %s --tier thorough" % p["id"],
        "evidence_file": "/verif/evidence/%s.json" % p["id"],
        "replay_cmd_template": "./check %s --replay {path}" % p["id"],
        "engine": "lean4+harness",
        "level_claimed": {"category": c["category"], "text": c["text"], "design_ref": c["design"]},
        "level_note": c["note"],
        "technique": c["technique"],
    })
na = [{"property_id": p["id"], "reason": "check not built yet in this round (planned, see DESIGN.md section 5); not claimed until its Lean theorems and tie exist"}
      for p in props if p["id"] not in CHECKS]
m = {
 "version": 1,
 "setup_cmd": "./setup.sh",
 "hooks": {"guard": "verif", "enable": "no source hooks: the harness is compiled into the cog module with `go build -overlay` (files under /verif/harness mapped to /repo/cmd/verifharness), rebuilt from /repo's working tree on every check",
           "baseline_off_cmd": "cd /repo && GOFLAGS=-mod=mod go test -vet=off -count=1 ./...",
           "source_commits": [], "add_only": True},
 "engines": [{"name": "lean4+harness", "path": "/verif/lean, /verif/harness, /verif/verifkit",
              "serves_properties": [c["property_id"] for c in checks],
              "kind_free_text": "Lean 4 models + theorems (lake build, #print axioms audit), Go harness compiled into cog via overlay for correspondence and oracle, Python orchestration"}],
 "checks": checks,
 "not_applicable": na,
 "notes": NOTES,
}
json.dump(m, open(os.path.join(V, "MANIFEST.json"), "w"), indent=1)
print("claimed:", [c["property_id"] for c in checks])
