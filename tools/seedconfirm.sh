#!/bin/sh
# usage: tools/seedconfirm.sh <seed-dir> '<demo command run from repo root>'
# Confirms in a scratch copy of /repo: patch applies, build + existing suite pass with it,
# demo FAILS with the patch and PASSES without it. The seed dir is copied to SEEDS/<name> in the copy.
seed="$1"; demo="$2"; name=$(basename "$seed")
copy="/tmp/repo-confirm-$$"
rsync -a --delete --exclude .git/worktrees /repo/ "$copy/"
mkdir -p "$copy/SEEDS"; cp -r "$seed" "$copy/SEEDS/$name"
cd "$copy"
export GOFLAGS=-mod=mod GOPROXY=off
sh -c "$demo" >/tmp/confirm-clean-$$.log 2>&1; clean=$?
git apply "SEEDS/$name/patch.diff" || { echo "PATCH-DOES-NOT-APPLY"; rm -rf "$copy"; exit 2; }
go build ./... >/tmp/confirm-build-$$.log 2>&1; build=$?
go test -vet=off -count=1 $(go list ./... | grep -v /SEEDS/) >/tmp/confirm-suite-$$.log 2>&1; suite=$?
sh -c "$demo" >/tmp/confirm-patched-$$.log 2>&1; patched=$?
echo "name=$name demo_clean_rc=$clean build_rc=$build suite_rc=$suite demo_patched_rc=$patched"
if [ $clean -eq 0 ] && [ $build -eq 0 ] && [ $suite -eq 0 ] && [ $patched -ne 0 ]; then echo CONFIRMED; else echo NOT-CONFIRMED; tail -n 8 /tmp/confirm-suite-$$.log; tail -n 8 /tmp/confirm-clean-$$.log; fi
rm -rf "$copy" /tmp/confirm-*-$$.log
