#!/usr/bin/env python3
# usage: tools/seedprompt.py <PID>  -> prints the prompt given to a fresh seeding agent (property text only, nothing from /verif)
import json, sys
pid = sys.argv[1]; wt = "/tmp/seed-" + pid.lower()
p = next(json.loads(l) for l in open("/verif/properties.jsonl") if json.loads(l)["id"] == pid)
tmpl = open("/verif/.work/seedprompt_C18.txt").read()
head, rest = tmpl.split("--- PROPERTY C18", 1)
_, tail = rest.split("\n---\n", 1)
body = "--- PROPERTY %s: %s\n%s\nScope: %s\nRelevant code: %s\n---\n" % (pid, p["title"], p["statement"], p["quantifier"]["text"], ", ".join(p["anchors"]["files"]))
print((head + body + tail).replace("/tmp/seed-c18", wt).replace('"C18"', '"%s"' % pid))
