#!/bin/sh
# usage: tools/seedkeep.sh <seed-dir> <PID> '<demo cmd>' '<detected-by text>'
# Copies a confirmed seed into /verif/seeded/<PID>-<name>/ and records what was run.
seed="$1"; pid="$2"; demo="$3"; det="$4"; name=$(basename "$seed")
dst="/verif/seeded/$pid-$name"; mkdir -p "$dst"
cp "$seed/patch.diff" "$dst/patch.diff"; rm -rf "$dst/demo"; cp -r "$seed/demo" "$dst/demo"
python3 - "$seed/meta.json" "$dst/meta.json" "$demo" "$det" "$pid" <<'PY'
import json,sys
src,dst,demo,det,pid=sys.argv[1:6]
try: m=json.load(open(src))
except Exception: m={}
m["property"]=pid
m["confirmed_by_coordinator"]={"how":"tools/seedconfirm.sh in a scratch copy of /repo: patch applies, go build + existing suite pass with it, demo fails with it and passes without","demo_cmd":demo}
m["checks"]=det
json.dump(m,open(dst,"w"),indent=1)
PY
echo kept $dst
