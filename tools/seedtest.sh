#!/bin/sh
# usage: tools/seedtest.sh <seed-dir> <property id> [extra check args]
# Applies <seed-dir>/patch.diff to a private copy of /repo and runs the check against it
# (VERIF_REPO), so that concurrent work in /repo is not disturbed. Prints the check's verdict.
set -e
seed="$1"; pid="$2"; shift 2
copy="/tmp/repo-seed-$$"
rsync -a --delete --exclude .git/worktrees /repo/ "$copy/"
( cd "$copy" && git checkout -q -- . 2>/dev/null; git apply "$seed/patch.diff" ) || { echo "PATCH-DOES-NOT-APPLY"; rm -rf "$copy"; exit 2; }
cd /verif
ev="/verif/evidence/$pid.json"; [ -f "$ev" ] && cp "$ev" "/verif/.work/ev-$$.json"
set +e
VERIF_REPO="$copy" ./check "$pid" "$@" > "/verif/.work/seedtest-$$.out" 2>"/verif/.work/seedtest-$$.err"
rc=$?
grep -E "^(VIOLATION|KNOWN-FINDING|C[0-9]+ )" "/verif/.work/seedtest-$$.out" | cut -c1-300
echo "exit=$rc"
[ -f "/verif/.work/ev-$$.json" ] && mv "/verif/.work/ev-$$.json" "$ev"
rm -rf "$copy" "/verif/.work/seedtest-$$.out" "/verif/.work/seedtest-$$.err"
# the seeded run regenerated lean/Cog/Gen/* from the patched copy: regenerate from /repo
PYTHONPATH=/verif python3 /verif/tools/regen.py >/dev/null 2>&1
exit 0
