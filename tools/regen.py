"""Regenerate lean/Cog/Gen/*.lean from /repo (fact extractors). One call per property module."""
import importlib, os, sys
sys.path.insert(0, os.path.dirname(os.path.dirname(os.path.abspath(__file__))))
MODULES = []  # e.g. "verifkit.gen_c18"  (each exposes regen() -> (ok, detail))
import glob
for f in sorted(glob.glob(os.path.join(os.path.dirname(os.path.dirname(os.path.abspath(__file__))), "verifkit", "gen_*.py"))):
    MODULES.append("verifkit." + os.path.basename(f)[:-3])
rc = 0
for m in MODULES:
    ok, detail = importlib.import_module(m).regen()
    print(m, "ok" if ok else "FAILED", detail[:500])
    if not ok:
        rc = 1
sys.exit(rc)
