"""Regenerate lean/Cog/Gen/*.lean from /repo (fact extractors). Filled in per property."""
import sys
sys.exit(0)
