#!/usr/bin/env python3
# Coordinator tool: merges the entries of checks/*.proposed_findings.json that known_findings.json does not hold yet
# (by id) into known_findings.json "findings". Never run by a check (checks never write known_findings.json).
import glob, json, sys
kf = json.load(open("/verif/known_findings.json"))
have = {f["id"] for f in kf["findings"]}
added = []
for p in sorted(glob.glob("/verif/checks/*.proposed_findings.json")):
    d = json.load(open(p))
    ents = d.get("findings", d) if isinstance(d, dict) else d
    for f in ents:
        if not isinstance(f, dict) or "id" not in f or "property" not in f or "match" not in f:
            print("SKIP malformed entry in", p, str(f)[:80]); continue
        if f["id"] in have: continue
        g = dict(f); g["merged_from"] = p.split("/")[-1]
        kf["findings"].append(g); have.add(f["id"]); added.append(f["id"])
if "--dry" not in sys.argv:
    json.dump(kf, open("/verif/known_findings.json", "w"), indent=1, ensure_ascii=False)
print("added", len(added)); [print(" ", a) for a in added]
