"""One-off generator of lean/Cog/Total/Reviewed.lean from the current partial-ops table.
The OUTPUT is committed and maintained by hand afterwards; this script documents the rules used."""
import json, re
d = json.load(open('/verif/.work/c04/partial_ops_base.json'))
ops = d['ops']

def esc(s):
    out = []
    for ch in s:
        if ch == '\\': out.append('\\\\')
        elif ch == '"': out.append('\\"')
        elif ch == '\n': out.append('\\n')
        elif ch == '\t': out.append('\\t')
        elif ord(ch) < 32: out.append('\\x%02x' % ord(ch))
        else: out.append(ch)
    return ''.join(out)

def key(o):
    return "%s|%s|%s|%s|%d|%s" % (o['file'], o['func'], o['kind'], o['guard'], o['n'], o['expr'])

# explicit dispositions: (file suffix, func, expr substring) -> (disp, args)
SITES = [
 # front-ends
 ("openapi/generator.go", "(*generator).walkEnum", "schema.Type.Slice()[0]", ("site", "OpenApi.walkDefinitions", "walkEnum: Type.Slice()[0]", "guarded since fix 70c59a6 (the site is an `err` in the current model, a panic in generateASTPreFix)", "")),
 ("openapi/utils.go", "getConstraints", "schema.Type.Slice()[0]", ("site", "OpenApi.getConstraints", "getConstraints: Type.Slice()[0]", "unreachable: scalarOf_noPanic (only called under Type.Is)", "")),
 ("jsonschema/generator.go", "(*generator).walkList", "schema.Items.(*schemaparser.Schema)", ("site", "JsonSchema.walkArr", "walkList: Items.(*Schema)", "comma-ok since fix f0d68ac", "")),
 ("jsonschema/generator.go", "(*generator).walkObject", "schema.AdditionalProperties.(*schemaparser.Schema)", ("site", "JsonSchema.walkObject", "walkObject: AdditionalProperties.(*Schema)", "okAddl: nil | bool | *Schema (library invariant)", "")),
 ("jsonschema/generator.go", "(*generator).walkBool", "schema.Constant[0]", ("site", "JsonSchema.typedConstant", "Constant[0]", "constantOk: Constant nil or non-empty (library invariant)", "")),
 ("jsonschema/generator.go", "(*generator).walkNumber", "schema.Constant[0]", ("site", "JsonSchema.typedConstant", "Constant[0]", "constantOk", "")),
 ("jsonschema/generator.go", "(*generator).walkString", "schema.Constant[0]", ("site", "JsonSchema.typedConstant", "Constant[0]", "constantOk", "")),
 ("jsonschema/generator.go", "(*generator).walkUntypedConstant", "schema.Constant[0]", ("dispatch", "only called under len(schema.Constant) != 0 (walkDefinition)")),
 ("jsonschema/generator.go", "(*generator).walkNumber", "schema.Types[0]", ("dispatch", "only called under len(schema.Types) == 1 (walkDefinition)")),
 ("jsonschema/generator.go", "GenerateAST", "Hints[ast.HintImplementsVariant]", ("freshMap", "every ast constructor makes the Hints map")),
 # passes
 ("prefix_enum_values.go", "(*PrefixEnumValues).enumMemberNameFromValue", "member.Value.(string)", ("site", "PrefixEnumValues.memberName", "PrefixEnumValues: member.Value.(string)", "memberTyped", "C04/enum/member-value-not-string")),
 ("prefix_enum_values.go", "(*PrefixEnumValues).enumMemberNameFromValue", "member.Name[0]", ("site", "PrefixEnumValues.memberName", "PrefixEnumValues: member.Name[0]", "memberNamed", "C04/enum/empty-member-name")),
 ("prefix_enum_values.go", "(*PrefixEnumValues).enumMemberNameFromValue", "member.Name[1:]", ("site", "PrefixEnumValues.memberName", "PrefixEnumValues: member.Name[0]", "after Name[0] succeeded", "")),
 ("prefix_enum_values.go", "(*PrefixEnumValues).enumMemberNameFromValue", "member.Type.Scalar.ScalarKind", ("site", "PrefixEnumValues.memberName", "PrefixEnumValues: member.Type.Scalar", "memberScalar (wfIR)", "C04/yaml/enum-member-without-type")),
 ("sanitize_enum_member_names.go", "(*SanitizeEnumMemberNames).sanitizeEnumMember", "member.Value.(string)", ("site", "SanitizeEnumMemberNames.sanitizeMember", "SanitizeEnumMemberNames: member.Value.(string)", "memberTyped", "C04/enum/member-value-not-string")),
 ("sanitize_enum_member_names.go", "(*SanitizeEnumMemberNames).sanitizeEnumMember", "member.Name[0]", ("site", "SanitizeEnumMemberNames.sanitizeMember", "SanitizeEnumMemberNames: member.Name[0]", "memberNamed", "C04/enum/empty-member-name")),
 ("sanitize_enum_member_names.go", "(*SanitizeEnumMemberNames).sanitizeEnumMember", "member.Name[1:]", ("site", "SanitizeEnumMemberNames.sanitizeMember", "SanitizeEnumMemberNames: member.Name[0]", "after Name[0] succeeded", "")),
 ("sanitize_enum_member_names.go", "(*SanitizeEnumMemberNames).sanitizeEnumMember", "member.Type.Scalar.ScalarKind", ("site", "SanitizeEnumMemberNames.sanitizeMember", "SanitizeEnumMemberNames: member.Type.Scalar", "memberScalar (wfIR)", "C04/yaml/enum-member-without-type")),
 ("rename_numeric_enum_values.go", "(*RenameNumericEnumValues).enumMemberNameFromValue", "member.Name[", ("dispatch", "only called when strconv.Atoi(member.Name) succeeds, hence Name is not empty (model: RenameNumericEnumValues.renameMember)")),
 ("disjunctions_with_null_to_optional.go", "(*DisjunctionWithNullToOptional).processDisjunction", "NonNullTypes()[0]", ("site", "DisjunctionWithNullToOptional.hook", "DisjunctionWithNullToOptional: NonNullTypes()[0]", "notNullOnlyNode", "C04/union/null-null")),
 ("disjunctions_infer_mapping.go", "(*DisjunctionInferMapping).inferDiscriminatorField", "def.Branches[0]", ("site", "DisjunctionInferMapping.qualifying", "DisjunctionInferMapping: def.Branches[0]", "inferNodeOk: not empty", "C04/union/empty")),
 ("disjunctions_infer_mapping.go", "(*DisjunctionInferMapping).buildDiscriminatorMapping", "referredType.AsStruct()", ("site", "DisjunctionInferMapping.build", "DisjunctionInferMapping: referredType.AsStruct()", "inferBranchOk", "C04/discriminator/branch-not-struct")),
 ("disjunctions_infer_mapping.go", "(*DisjunctionInferMapping).buildDiscriminatorMapping", "ReferenceValue.(string)", ("site", "DisjunctionInferMapping.build", "DisjunctionInferMapping: ReferenceValue.(string)", "fieldConstOk", "C04/discriminator/non-string-constant")),
 ("disjunctions_infer_mapping.go", "(*DisjunctionInferMapping).buildDiscriminatorMapping", "Value.(string)", ("site", "DisjunctionInferMapping.build", "DisjunctionInferMapping: Value.(string)", "fieldConstOk", "C04/discriminator/non-string-constant")),
 ("disjunctions_infer_mapping.go", "(*DisjunctionInferMapping).buildDiscriminatorMapping", "branch.AsRef()", ("site", "DisjunctionInferMapping.build", "DisjunctionInferMapping: branch.AsRef()", "unreachable: hasOnlyRefs checked by the caller", "")),
 ("disjunctions_infer_mapping.go", "(*DisjunctionInferMapping).inferDiscriminatorField", "AsRef()", ("dispatch", "hasOnlyRefs checked by processDisjunction")),
 ("disjunction_of_constants_to_enum.go", "(*DisjunctionOfConstantsToEnum).processDisjunction", "*member.Type.Scalar", ("site", "DisjunctionOfConstantsToEnum.enumMembers", "DisjunctionOfConstantsToEnum: member.Type.Scalar", "memberScalar (wfIR)", "C04/yaml/enum-member-without-type")),
 ("constant_to_enum.go", "(*ConstantToEnum).processObject", "Value.(string)", ("site", "Xform.ConstantToEnum.objFail", "panic", "ScalarConstantsTyped", "C04/yaml/constant-to-enum-non-string")),
 ("hint_object.go", "(*HintObject).processObject", "object.Type.Hints[hint] = val", ("guarded", "nil-check (fix d683cb9 of /repo: the nil Hints map is made first; was finding C04/yaml/hint-object-nil-map)")),
 ("prefix_objects_names.go", "(*PrefixObjectNames).processStruct", ".(ast.DisjunctionType)", ("site", "Xform.PrefixObjectNames.tyFail", "panic", "NoRawDisjunctionHint", "")),
 ("remove_intersections.go", "RemoveIntersections.processObject", "Hints[ast.HintImplementsVariant] = object.Type.ImplementedVariant()", ("site", "RemoveIntersections.phaseAOne", "RemoveIntersections: Hints[implements_variant].(string)", "variantHintOk (the assertion is inside ImplementedVariant)", "C04/yaml/implements-variant-not-string")),
 ("ast/types.go", "Type.ImplementedVariant", ".(string)", ("site", "RemoveIntersections.phaseAOne", "RemoveIntersections: Hints[implements_variant].(string)", "variantHintOk", "C04/yaml/implements-variant-not-string")),
 ("ast/types.go", "Type.IsDataqueryVariant", ".(string)", ("finding", "C04/yaml/implements-variant-not-string")),
 ("ast/types.go", "EnumType.MemberForValue", "Values[0].Type.Scalar", ("finding", "C04/enum/empty-or-untyped-default-lookup")),
 # builders
 ("ast/builder.go", "(*BuilderGenerator).structObjectToBuilder", "ResolveToType(object.Type).AsStruct()", ("site", "Builder.fromAST", "AsStruct", "Safe; IsStruct() guard since fix eed3e31", "")),
 ("ast/builder.go", "(*BuilderGenerator).structObjectToBuilder", "resolvedType.AsScalar()", ("site", "Builder.fromAST", "AsScalar", "Safe", "")),
 ("ast/builder.go", "WithTypeConstraints", "constraint.Args[0]", ("site", "Builder.withTypeConstraints", "WithTypeConstraints: Args[0]", "constraintsSafe (Safe)", "C04/yaml/constraint-without-args")),
 ("ast/builder.go", "Path.Last", "path[len(path)-1]", ("site", "Builder.Veneers", "Path.Last", "optShapeOk: non-empty path", "")),
 ("ast/builder.go", "Path.RemoveLast", "path[:len(path)-1]", ("crash", "veneer builder rules (compose, merge_into) are not under a theorem")),
 ("veneers/option/actions.go", "UnfoldBooleanAction", "option.Assignments[0]", ("site", "Builder.unfoldBooleanAction", "option.Assignments[0]", "optShapeOk", "C04/veneers/option-without-assignment")),
 ("veneers/option/actions.go", "UnfoldBooleanAction", "option.Default.ArgsValues[0]", ("site", "Builder.unfoldBooleanAction", "option.Default.ArgsValues[0]", "optShapeOk", "")),
 ("veneers/option/actions.go", "UnfoldBooleanAction", "newOpts[", ("loop", "newOpts is a two-element literal")),
 ("veneers/option/actions.go", "ArrayToAppendAction", "option.Assignments[0]", ("site", "Builder.arrayToAppendAction", "option.Assignments[0]", "optShapeOk", "C04/veneers/option-without-assignment")),
 ("veneers/option/actions.go", "MapToIndexAction", "option.Assignments[0]", ("site", "Builder.mapToIndexAction", "option.Assignments[0]", "optShapeOk", "C04/veneers/option-without-assignment")),
 ("veneers/option/actions.go", "disjunctionAsOptions", "option.Args[argIndex]", ("site", "Builder.disjunctionAsOptionsAction", "option.Args[argumentIndex]", "disjunctionIndexOk", "C04/veneers/disjunction-as-options-index")),
 ("veneers/option/actions.go", "disjunctionStructAsOptions", "option.Args[argIndex]", ("site", "Builder.disjunctionAsOptionsAction", "option.Args[argumentIndex]", "disjunctionIndexOk (checked by the caller's index)", "C04/veneers/disjunction-as-options-index")),
 ("tools/types.go", "AnyToInt64", "value.(int64)", ("finding", "C04/tools/any-to-int64")),
 ("codegen/pipeline.go", "(*Pipeline).interpolateParameters", "pipeline.Inputs", ("guardedElsewhere", "nil entries are skipped / reported since fix 15208a9")),
 ("codegen/pipeline.go", "(*Pipeline).LoadSchemas", "pipeline.Inputs", ("guardedElsewhere", "nil entries are skipped / reported since fix 15208a9")),
 ("codegen/pipeline.go", "(*Pipeline).OutputLanguages", "pipeline.Output.Languages", ("guardedElsewhere", "nil entries are skipped / reported since fix 15208a9")),
 ("codegen/output.go", "(*Output).interpolateParameters", "output.Languages", ("guardedElsewhere", "nil entries are skipped / reported since fix 15208a9")),
 ("codegen/output.go", "(*Output).interpolateParameters", "output.TemplatesData[key]", ("dispatch", "the write happens inside a range over the same map: a nil map has no iteration")),
 ("codegen/options.go", "Parameters", "pipeline.Parameters[key] = value", ("freshMap", "PipelineFromFile / NewPipeline assign the map before decoding; `parameters: ~` leaves it (yaml.v3 null does not reset a map)")),
 ("codegen/input.go", "(*Input).shouldLoadSchemas", "output.(bool)", ("guardedElsewhere", "the comma-ok form two lines above returns an error first")),
 ("ast/schema.go", "Schemas.Consolidate", "groupedSchemas[0]", ("guardedElsewhere", "every value of byPackage was built by append: never empty")),
 ("compiler/disjunctions.go", "(*DisjunctionToType).processDisjunction", "disjunction.Branches[0]", ("guardedElsewhere", "hasOnlySingleTypeScalars is false for an empty union (model: singleScalarKind [] = none)")),
 ("codegen/cue.go", "parseCueEntrypoint", "bis[0]", ("crash", "cue load.Instances returns one instance per argument (library contract)")),
]

KINDFUNC = re.compile(r'(process|Visit)(Array|Map|Struct|Disjunction|Intersection|Enum|Ref|ConstantRef)$')
PAYLOAD = {'Array': ['Array', 'AsArray'], 'Map': ['Map', 'AsMap'], 'Struct': ['Struct', 'AsStruct'], 'Disjunction': ['Disjunction', 'AsDisjunction'],
           'Intersection': ['Intersection', 'AsIntersection'], 'Enum': ['Enum', 'AsEnum'], 'Ref': ['Ref', 'AsRef'], 'ConstantRef': ['ConstantReference', 'AsConstantRef']}
REF_RECURSION = ['ResolveToType', '(*Schema).Resolve', 'ResolveRefs', 'ResolveToBuilder', 'ResolveToStruct', 'ResolveToComposableSlot', 'IsDisjunctionOfBuilders', 'resolvesToConcreteScalarsOnly', 'ResolveToConstraints']

def classify(o):
    f, fn, k, e, g = o['file'], o['func'], o['kind'], o['expr'], o['guard']
    for (fs, fns, sub, disp) in SITES:
        if f.endswith(fs) and fn == fns and sub in e:
            return disp
    if g != 'none':
        return ("guarded", g)
    if f.startswith('internal/simplecue'):
        return ("crash", "CUE front-end: no Lean model; crash stream only")
    if k == 'recursion':
        if any(r in fn or r in e for r in REF_RECURSION):
            return ("refRecursion", "follows references without a visited set: fuelled in the models; alias/union cycles are findings")
        return ("structural", "recursion on the input tree (IR / library value / builder IR)")
    if f.endswith('ast/types.go') and k == 'kindptr' and fn.startswith('Type.As'):
        return ("site", "IR.Ty.bad", fn.replace('Type.', ''), "NoBad (wfIR): Kind set ⇒ kind pointer set", "C04/yaml/as-type-nil-kind-pointer")
    m = KINDFUNC.search(fn)
    if m and k in ('kindptr', 'as') and any(p in e for p in PAYLOAD[m.group(2)]):
        return ("dispatch", "called by kind dispatch: Kind == %s; nil only for a malformed (`bad`) node — NoBad" % m.group(2).lower())
    if k == 'index' and re.search(r'\[(i|j)\]$', e):
        return ("loop", "index variable of the enclosing loop / sort callback over the same slice")
    if k == 'rangeptr':
        return ("nonNil", "[]*ast.Schema built by ast.NewSchema / DeepCopy: elements are never nil")
    if k == 'mapwrite':
        return ("freshMap", "map made in the same function, by a constructor of the receiver, or by an ast type constructor")
    if k in ('kindptr', 'as') and '/ast/compiler/' in f:
        return ("dispatch", "the enclosing hook is installed for this kind only (visitor dispatch) — NoBad")
    if k == 'kindptr' and ('jsonschema/' in f or 'openapi/' in f):
        return ("freshMap", "the type was just built by an ast constructor in the same function")
    if 'languages/' in f or 'veneers/' in f or 'orderedmap/' in f or 'tools/' in f:
        return ("crash", "no Lean model for this function; crash stream only")
    if k == 'index' and 'len(parts)-1' in e:
        return ("guardedElsewhere", "strings.Split never returns an empty slice")
    return ("crash", "not modelled; crash stream only")

lines = []
stats = {}
for o in ops:
    d_ = classify(o)
    stats[d_[0]] = stats.get(d_[0], 0) + 1
    kind = d_[0]
    if kind == 'site':
        disp = '.site "%s" "%s" "%s" "%s"' % tuple(esc(x) for x in d_[1:5])
    elif kind == 'finding':
        disp = '.finding "%s"' % esc(d_[1])
    else:
        disp = '.%s "%s"' % ({'guarded': 'guarded', 'dispatch': 'dispatch', 'loop': 'loopBounded', 'freshMap': 'freshMap', 'nonNil': 'nonNil',
                              'structural': 'structuralRec', 'refRecursion': 'refRecursion', 'crash': 'crashStreamOnly', 'guardedElsewhere': 'guardedElsewhere'}[kind], esc(d_[1]))
    lines.append('  ⟨"%s", "%s", "%s", "%s", %d, "%s", %s⟩' % (esc(o['file']), esc(o['func']), esc(o['kind']), esc(o['guard']), o['n'], esc(o['expr']), disp))
    # siblings: the same operation with FEWER copies, or with a guard ADDED, is harmless a fortiori
    GUARD = {'index': 'len', 'slice': 'len', 'as': 'kind', 'kindptr': 'kind', 'mapwrite': 'nil-check', 'rangeptr': 'nil-check'}
    variants = []
    for n in range(1, o['n'] + 1):
        guards = [o['guard']] + ([GUARD[o['kind']]] if o['guard'] == 'none' and o['kind'] in GUARD else [])
        for g in guards:
            if (n, g) != (o['n'], o['guard']):
                variants.append((n, g))
    for n, g in variants:
        lines.append('  ⟨"%s", "%s", "%s", "%s", %d, "%s", .guarded "sibling of the reviewed row: fewer copies and/or a guard added in the sources"⟩' % (esc(o['file']), esc(o['func']), esc(o['kind']), esc(g), n, esc(o['expr'])))
print(stats)
CH = 60
chunks = [lines[i:i + CH] for i in range(0, len(lines), CH)]
out = ['''/-
  C04 — the REVIEWED list of partial operations: one entry per row of the regenerated table
  `Cog.Gen.PartialOps.ops` (unchecked type assertions, `As*()` calls, kind-pointer dereferences,
  index / slice expressions, map writes, ranges over pointer slices, recursion), keyed by
      (file, function, kind, guard, multiplicity, expression text)
  (no line numbers: moving code does not change a key; removing a guard, adding a second identical
  operation, or adding a new one does).  Each entry says why the operation is harmless or which model
  site / recorded finding it is.  Maintained by hand; `partial_ops_accounted` (Cog/Total/Accounted.lean)
  fails when the regenerated table has a row that is not listed here.
-/
namespace Cog.Total.Reviewed

inductive Disp where
  /-- protected by a syntactic guard of this kind in the same function -/
  | guarded (kind : String)
  /-- protected by a check in the (only) caller / by an invariant stated in the note -/
  | guardedElsewhere (why : String)
  /-- an explicit panic site of a Lean model: model function, site string, the condition under which the
      theorem of Cog/Total excludes it, and the finding id when the condition can fail for reachable input -/
  | site (model site cond finding : String)
  /-- reached only through kind dispatch (the kind pointer is nil only for a malformed node) -/
  | dispatch (why : String)
  | loopBounded (why : String)
  | freshMap (why : String)
  | nonNil (why : String)
  | structuralRec (why : String)
  /-- recursion through references: fuelled in the models (Cog/Total/Resolve.lean) -/
  | refRecursion (why : String)
  /-- a recorded finding without a model site -/
  | finding (id : String)
  /-- no Lean model covers the function; exercised by the crash stream only -/
  | crashStreamOnly (why : String)
  deriving Repr

structure Entry where
  file : String
  func : String
  kind : String
  guard : String
  n : Nat
  expr : String
  disp : Disp
''']
for i, ch in enumerate(chunks):
    out.append('def entries%d : List Entry := [\n%s\n]\n' % (i, ',\n'.join(ch)))
out.append('def entries : List Entry := %s\n' % ' ++ '.join('entries%d' % i for i in range(len(chunks))))
out.append('end Cog.Total.Reviewed\n')
open('/verif/lean/Cog/Total/Reviewed.lean', 'w').write('\n'.join(out))
