#!/bin/sh
# usage: tools/seedsweep.sh [pattern]   — runs every kept seed (seeded/<ID>-<name>/) against the check of its
# property on a private patched copy and writes seeded/RESULTS.tsv (id, seed, verdict, concrete replay?, wall).
cd /verif
pat="${1:-*}"
out=seeded/RESULTS.tsv
[ "$pat" = "*" ] && : > $out
for d in seeded/$pat/; do
  [ -f "$d/patch.diff" ] || continue
  name=$(basename "$d"); pid=$(echo "$name" | cut -d- -f1)
  t0=$(date +%s)
  res=$(tools/seedtest.sh "/verif/$d" "$pid" 2>&1)
  t1=$(date +%s)
  if echo "$res" | grep -q "PATCH-DOES-NOT-APPLY"; then v="patch-does-not-apply"; c="-"
  elif echo "$res" | grep -q "^exit=1"; then v="caught"
    if echo "$res" | grep "^VIOLATION" | grep -qv "no-failing-input-found"; then c="concrete-replay"; else c="no-failing-input-found"; fi
  elif echo "$res" | grep -q "^exit=0"; then v="MISSED"; c="-"
  else v="error"; c="-"; fi
  printf "%s\t%s\t%s\t%s\t%ss\n" "$pid" "$name" "$v" "$c" "$((t1-t0))" | tee -a $out
done
