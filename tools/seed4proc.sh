#!/bin/sh
# usage: tools/seed4proc.sh <PID>  — confirm + test every seed delivered under /tmp/seed4-<pid>/SEEDS/ (round 4);
# writes .work/seed4-<PID>.txt (one block per seed). Keeps nothing by itself.
pid="$1"; lc=$(echo "$pid" | tr A-Z a-z); out="/verif/.work/seed4-$pid.txt"; : > "$out"
for d in /tmp/seed4-$lc/SEEDS/*/; do
  [ -f "$d/patch.diff" ] || continue
  name=$(basename "$d")
  demo="go test -vet=off -count=1 -tags seeddemo ./SEEDS/$name/demo/"
  echo "== $pid $name" >> "$out"
  /verif/tools/seedconfirm.sh "${d%/}" "$demo" >> "$out" 2>&1
  /verif/tools/seedtest.sh "${d%/}" "$pid" >> "$out" 2>&1
done
echo "done $pid" >> "$out"
