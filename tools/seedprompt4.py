#!/usr/bin/env python3
# usage: tools/seedprompt2.py <PID> -> round-4 prompt (property text only; worktree /tmp/seed4-<pid>)
import json, sys
pid = sys.argv[1]; wt = "/tmp/seed4-" + pid.lower()
p = next(json.loads(l) for l in open("/verif/properties.jsonl") if json.loads(l)["id"] == pid)
print(f"""You are testing how robust a Go project's guarantees are. Work ONLY inside the git worktree {wt} (a checkout of the project grafana/cog: a schema-driven code generator — JSON Schema / OpenAPI / CUE -> intermediate representation -> compiler passes and veneers -> generated Go/Java/PHP/Python/TypeScript types and builders). Do not read or write anything under /verif or /repo, and do not look for other verification material on this machine. No network: use `export GOFLAGS=-mod=mod GOPROXY=off` (do NOT set GOSUMDB=off). The existing test suite is `go test -vet=off -count=1 ./...` run from the worktree root (about 10 s; 542 tests; it passes now).

The project is supposed to satisfy this property:

--- PROPERTY {pid}: {p['title']}
{p['statement']}
Scope: {p['quantifier']['text']}
Relevant code: {', '.join(p['anchors']['files'])}
---

Your task: produce 2 DIFFERENT small source changes to the project (each one a separate, independent patch against the clean worktree; realistic — the kind of slip a maintainer could make in a refactor, an optimisation, a bug fix elsewhere or a feature addition; a few lines each) such that, for each change:
 1. the project still compiles and the EXISTING test suite still passes completely (run it and confirm);
 2. the property above is violated by the changed code;
 3. the violation is SUBTLE: it needs something specific to manifest — a rarely used operation or option, a corner of the input space (empty / single-element / duplicate / case-variant / deeply nested / cross-package / very large or negative values), a particular order of several operations, two cooperating sites that each look fine alone, or a code path outside the files listed above that the property nevertheless depends on (callers, helpers in internal/tools, the visitor, loaders, templates). A change that breaks ordinary inputs immediately is not interesting, and neither is the most obvious slip in the most obvious function — look for the second- and third-most-likely places;
 4. you have a small demonstration (a Go test file with the build tag `seeddemo`, under {wt}/SEEDS/<short-name>/demo/, runnable from the worktree root as `go test -vet=off -count=1 -tags seeddemo ./SEEDS/<short-name>/demo/`) that FAILS with your change applied and PASSES on the clean worktree. Run it both ways and confirm.

For each change deliver, under {wt}/SEEDS/<short-name>/ : `patch.diff` (output of `git diff` for the source change ONLY, applicable with `git apply` to the clean tree, not containing the demo), `demo/` (the demonstration files with a README line saying how to run it from the worktree root), and `meta.json` with keys: property ("{pid}"), name, summary (what the change does), needs (what specific circumstance is required for the violation to show), ran (the exact commands you ran and their outcome on clean vs changed tree). Leave the worktree's tracked files CLEAN at the end (git checkout the source changes; keep only the untracked SEEDS/ directory). The two changes must be in different files and exercise different aspects of the property; prefer places that are easy to overlook: the CUE front-end (internal/simplecue) and its handling of defaults, bounds, disjunctions, imports and attributes; a slip that only shows when TWO features meet (e.g. a nullable member that is also a reference to an alias, a default on a member of a nested anonymous struct, a constraint on an array item inside a map, a union branch that is itself an enum reference, an option created by one veneer rule and modified by a later one); state carried from one object / schema / builder to the next (caches, memo tables, counters, slices reused via append); and boundary values (empty string keys, names differing only in case or containing digits/underscores/dashes, int64 limits, zero-length collections). At least one of the two changes must NOT be in the file that first comes to mind for this property. Final answer: a short list of the seeds with one line each.""")
