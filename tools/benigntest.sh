#!/bin/sh
# usage: tools/benigntest.sh <benign-dir> [ids...]  — applies a behaviour-preserving patch to a private copy of
# /repo and runs the given checks (default: all claimed) against it; every check must stay quiet (exit 0).
seed="$1"; shift
name=$(basename "$seed")
copy="/tmp/repo-benign-$$"
rsync -a --delete --exclude .git/worktrees /repo/ "$copy/"
( cd "$copy" && git checkout -q -- . 2>/dev/null; git apply "$seed/patch.diff" ) || { echo "$name PATCH-DOES-NOT-APPLY"; rm -rf "$copy"; exit 2; }
( cd "$copy" && GOFLAGS=-mod=mod GOPROXY=off go build ./... ) || { echo "$name DOES-NOT-BUILD"; rm -rf "$copy"; exit 2; }
cd /verif
ids="$*"; [ -z "$ids" ] && ids=$(python3 -c "import json; print(' '.join(c['property_id'] for c in json.load(open('MANIFEST.json'))['checks']))")
mkdir -p .work/evsave-$$; cp evidence/*.json .work/evsave-$$/
for id in $ids; do
  VERIF_REPO="$copy" timeout 1500 ./check $id > ".work/benign-$name-$id.out" 2>".work/benign-$name-$id.err"; rc=$?
  echo "$name $id rc=$rc viol=$(grep -c '^VIOLATION' .work/benign-$name-$id.out) :: $(grep '^VIOLATION' .work/benign-$name-$id.out | head -2 | tr '\n' ' ' | cut -c1-200)"
done
cp .work/evsave-$$/*.json evidence/; rm -rf .work/evsave-$$ "$copy"
PYTHONPATH=/verif python3 /verif/tools/regen.py >/dev/null 2>&1
