#!/bin/sh
# usage: tools/runthorough.sh C19 C07 ...   runs the thorough tier of the given checks sequentially
cd /verif
for id in "$@"; do
  t0=$(date +%s)
  timeout 7200 ./check $id --tier thorough > .work/thorough-$id.out 2> .work/thorough-$id.err; rc=$?
  t1=$(date +%s)
  echo "$id rc=$rc $(($t1-$t0))s known=$(grep -c '^KNOWN-FINDING' .work/thorough-$id.out) viol=$(grep -c '^VIOLATION' .work/thorough-$id.out) :: $(tail -1 .work/thorough-$id.out | cut -c1-140)"
done
