"""Ties of the front-end "keeps" compositions (owner: c01-front builder).

The streams c01-front / c01-front-oa (harness/c01_front.go, c01_front_oa.go) hold, per case, the compiled source schema
(`jsfdef` / `oafdef`) and the REAL front-end IR (`defschemas <id>.fe`).  The driver verbs of lean/Cog/Drv/KeepsDrv.lean evaluate
on them the instances of
    keeps_property                                    (every typed scalar property is the field `scalarOf …` of the real struct),
    C10_{jsonschema,openapi}_default_{go,py}_end_to_end_partial   (jsfkeeps / oafkeeps),
    C08_{jsonschema,openapi}_validate_end_to_end_partial          (jsfc08 / oafc08: every sub-document at a flat object).
checks/c10.py and checks/c08.py call `run(c)` and turn the counts into obligations."""
import collections
from verifkit.core import *

FILES = HARNESS_BASE + ["lab_*.go", "src_*.go", "c01.go", "c01_src.go", "c01_front.go", "c01_front_oa.go"]
VERBS = {"c01-front": ("jsfdef", "jsfkeeps", "jsfc08"), "c01-front-oa": ("oafdef", "oafkeeps", "oafc08")}


def TAG():
    """one binary per source tree: a run against a private copy (VERIF_REPO) never swaps the binary under a run against /repo"""
    import hashlib
    from verifkit import core
    return "keeps" if os.path.realpath(core.REPO) == "/repo" else "keeps-" + hashlib.sha1(core.REPO.encode()).hexdigest()[:6]


def run(c):
    """returns (stats per stream: Counter, bad: list of payload dicts, error text or None)"""
    hb, err = build_go("verifharness", "harness", files=FILES, tag=TAG())
    if hb is None:
        return {}, [], "harness build failed: " + err[-1500:]
    quick = c.tier == "quick"
    n, docs, faults = (150, 8, 4) if quick else (1200, 10, 6)
    stats, bad = {}, []
    for stream, (vdef, vkeeps, vc08) in VERBS.items():
        try:
            rows = harness(hb, stream, n=n, docs=docs, faults=faults, seed=c.seed, timeout=3600)
        except (RuntimeError, subprocess.TimeoutExpired) as e:
            return stats, bad, "%s stream failed: %s" % (stream, str(e)[-1500:])
        reqs = [r[0] for r in rows if r[0] != "-" and r[0].split(" ")[0] in (vdef, "defschemas", vkeeps, vc08)]
        schema_text = {r[1].split(" ")[1]: r[1].split(" ", 2)[2] for r in rows if r[0] == "-" and r[1].startswith("schema ")}
        replies = drv(reqs)
        st = collections.Counter()
        for q, m in zip(reqs, replies):
            verb, cid = q.split(" ")[0], q.split(" ")[1]
            if verb in (vdef, "defschemas"):
                if m != "ok":
                    st["bad_replies"] += 1
                continue
            if "=" not in m:
                st["bad_replies"] += 1
                continue
            d = dict(x.split("=", 1) for x in m.split(" "))
            for k, x in d.items():
                if k != "bad":
                    st[("keeps." if verb == vkeeps else "c08.") + k] += int(x)
            if d["bad"] != "-":
                bad.append({"stream": stream, "verb": verb, "case": cid, "request": q[:4000], "driver": m[:2000],
                            "schema_text": schema_text.get(cid, "")[:8000],
                            "how_to_replay": "harness %s seed=%d n=%d docs=%d faults=%d, case %s" % (stream, c.seed, n, docs, faults, cid)})
        stats[stream] = st
        c.count(stream + "/keeps", len(reqs), [q for q in reqs if q.split(" ")[0] in (vkeeps, vc08)][:2000])
    return stats, bad, None
