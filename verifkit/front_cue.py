"""C01 (b) parser soundness, CUE front-end: the tie of lean/Cog/Front/Cue*.lean to internal/simplecue.

   stream c01-front-cue (harness/c01_front_cue.go) -> driver verbs cuefdef / cuefront / cuefdoc (lean/Cog/Drv/FrontCueDrv.lean)
   (1) the Lean model `cueFront` on the VIEW of the real cue.Value = the real simplecue.GenerateAST (VIR-equal, ok/err class);
   (2) `cueValid` = the CUE library's verdict (Unify + Validate(Concrete)) on every document of every schema in FragCue;
   (3) FragCue ∧ cueValid ⇒ srcDen evaluated on the REAL front-end IR (instance of C01_cue_parser_sound_partial) and on the model's;
   (4) the witness of C01_cue_parser_sound_counterexample replays on the real front-end.
   Called from checks/c01.py (one call); `--replay <file>` re-runs the schema text of a replay file."""
import json
import os
import subprocess

from verifkit.core import VERIF, harness, drv

STREAM = "c01-front-cue"
DOCS = True   # stage 2 (cueValid / FragCue / parser soundness instances) switches the document rows on
PROPOSED = os.path.join(VERIF, "checks", "c01.front_cue.proposed_findings.json")


def load_proposed(c):
    """entries of checks/c01.front_cue.proposed_findings.json that known_findings.json does not hold yet are treated as known"""
    try:
        prop = json.load(open(PROPOSED)).get("findings", [])
    except (OSError, ValueError):
        return
    have = {f["id"] for f in c.known}
    for f in prop:
        if f["id"] not in have and f.get("property") == c.pid:
            c.known.append(f)


def run_rows(hb, **kw):
    rows = harness(hb, STREAM, timeout=3600, **kw)
    if not DOCS:
        rows = [r for r in rows if not r[0].startswith("cuefdoc ")]
    reqs = [r[0] for r in rows if r[0] != "-"]
    return rows, drv(reqs)


def replay(c, hb, rp):
    """re-run the schema text stored in a replay file through the stream and the driver"""
    text = rp.get("schema_text_raw") or ""
    if not text:
        print("replay file carries no CUE text")
        return False
    os.makedirs(os.path.join(VERIF, ".work"), exist_ok=True)
    path = os.path.join(VERIF, ".work", "c01_front_cue_replay_%d.cue" % os.getpid())
    # the replay stream loads the text as package `replay`
    lines = text.split("\n")
    lines = ["package replay" if l.startswith("package ") else l for l in lines]
    open(path, "w").write("\n".join(lines))
    try:
        rows, replies = run_rows(hb, n=0, pinned=0, file=path)
    finally:
        os.remove(path)
    it = iter(replies)
    same = True
    for r in rows:
        if r[0] == "-":
            print("  ", r[1][:300])
            continue
        m = next(it)
        if r[0].startswith("cuefront "):
            print("   real :", r[1][:1500])
            print("   model:", m[:1500])
            same = same and m == r[1]
    print("replay: model %s real" % ("=" if same else "≠"))
    return same


def tie(c, hb, theorems_proved=True):
    quick = c.tier == "quick"
    n, docs, faults = (150, 10, 6) if quick else (1500, 14, 8)
    if not DOCS:
        docs, faults = 0, 0
    try:
        rows, replies = run_rows(hb, n=n, docs=docs, faults=faults, seed=c.seed)
    except (RuntimeError, subprocess.TimeoutExpired) as e:
        c.oblige("%s stream runs" % STREAM, False, str(e)[-1500:])
        return
    it = iter(replies)
    st = {"cases": 0, "front_ok_agree": 0, "front_err_agree": 0, "bad_replies": 0, "refused": {}, "skipped": {}, "generated": 0,
          "documents": 0, "valid": 0, "invalid": 0, "frag_cases": 0, "frag_documents": 0, "frag_valid": 0, "frag_valid_in_srcDen_real": 0,
          "inexact_documents": 0}
    kinds, notfrag, case_line, cvdef, schema_text = {}, {}, {}, {}, {}
    front_bad, oracle_bad, valid_bad, inst_bad, minst_bad, witness, strict_bad, e2e_bad, witness2 = [], [], [], [], [], [], [], [], []
    seen = set()
    for r in rows:
        if r[0] == "-":
            w = r[1].split(" ")
            if w[0] == "case":
                case_line[w[1]] = r[1]
                st["cases"] += 1
                kinds[w[2]] = kinds.get(w[2], 0) + 1
            elif w[0] == "schema":
                schema_text[w[1]] = r[1].split(" ", 2)[2]
            elif w[0] == "skip":
                if w[2] == "outside-fragment":
                    st["refused"][w[3]] = st["refused"].get(w[3], 0) + 1
                else:
                    st["skipped"][w[2]] = st["skipped"].get(w[2], 0) + 1
            if len(r) > 2 and r[2] != "ok":
                oracle_bad.append((r, ""))
            continue
        m = next(it)
        verb, cid = r[0].split(" ")[0], r[0].split(" ")[1]
        if verb == "cuefdef":
            cvdef[cid] = r[0]
        if verb in ("cuefdef", "defschemas"):
            if m != "ok":
                st["bad_replies"] += 1
                st.setdefault("bad_reply_samples", []).append((r[0][:120], m[:200]))
            continue
        if verb == "cuefront":
            if r[2] != "ok":
                oracle_bad.append((r, m))
            if m == r[1]:
                st["front_ok_agree" if m.startswith("ok") else "front_err_agree"] += 1
            else:
                front_bad.append((r, m))
            continue
        if verb != "cuefdoc":
            continue
        if not m.startswith("valid="):
            st["bad_replies"] += 1
            continue
        d = dict(kv.split("=", 1) for kv in m.split(" "))
        valid = "valid=true" in r[1]
        st["documents"] += 1
        st["valid" if valid else "invalid"] += 1
        if cid not in seen:
            seen.add(cid)
            notfrag[d["notfrag"]] = notfrag.get(d["notfrag"], 0) + 1
            st["frag_cases"] += int(d["frag"] == "true")
        is_witness = cid == "cuepinint" and r[0].endswith(' (n "9223372036854775808")')
        if is_witness:
            witness.append((r, m, valid and d["frag"] == "true" and d["valid"] == "true" and d["strict"] == "false" and d["src"] == "false" and d["msrc"] == "false"))
        if cid == "cuepinconst" and r[0].endswith(" (o)"):
            witness2.append((r, m, valid and d["frag"] == "true" and d["valid"] == "true" and d["strict"] == "false" and d["src"] == "false" and d["msrc"] == "false"))
        if d["frag"] != "true":
            continue
        st["frag_documents"] += 1
        # the Lean `Json` does not see whether 1 was written `1` or `1.0`: CUE's float types accept only the latter.
        # validF (literal reading) ⇒ CUE accepts ⇒ valid (permissive reading); equal verdicts = exact comparison
        if d["valid"] == d["validF"]:
            st["exact_documents"] = st.get("exact_documents", 0) + 1
        else:
            st["inexact_documents"] += 1
        if (valid and d["valid"] != "true") or (d["validF"] == "true" and not valid):
            valid_bad.append((r, m))
        if d["strict"] == "true" and d["valid"] != "true":
            strict_bad.append((r, m))
        if d["e2e"] != "n/a":
            st["end_to_end_instances"] = st.get("end_to_end_instances", 0) + 1
            if d["e2e"] != "true":
                e2e_bad.append((r, m))
        if d["strict"] == "true":
            st["frag_valid"] += 1
            if d["src"] == "true":
                st["frag_valid_in_srcDen_real"] += 1
            else:
                inst_bad.append((r, m))
            if d["msrc"] != "true":
                minst_bad.append((r, m))
        elif valid:
            st["frag_valid_not_strict"] = st.get("frag_valid_not_strict", 0) + 1

    def payload(kind, broken, r, m):
        cid = r[0].split(" ")[1] if r[0] != "-" else r[1].split(" ")[1]
        raw = ""
        try:
            raw = json.loads(schema_text.get(cid, '""'))
        except ValueError:
            pass
        return {"kind": kind, "broken": broken, "stream": STREAM, "request": r[0][:6000], "implementation": r[1][:6000], "oracle": (r[2] if len(r) > 2 else "")[:600],
                "driver": m[:6000], "case": case_line.get(cid, "")[:6000], "schema_text_raw": raw[:8000], "view": cvdef.get(cid, "")[:12000],
                "how_to_replay": "./check C01 --replay <this file> (re-runs the CUE text above); or harness %s seed=%d n=%d docs=%d faults=%d, case %s (pinned cases do not depend on the seed)" % (STREAM, c.seed, n, docs, faults, cid)}
    for r, m in front_bad[:3]:
        c.violation(payload("front-end-model-disagrees", "the Lean model `cueFront` (on the view of the real cue.Value) and the real simplecue.GenerateAST build different IR (VIR text) or differ in ok/err for this CUE text: the model no longer describes the code", r, m))
    for r, m in oracle_bad[:3]:
        c.violation(payload("front-end-oracle", "implementation-side oracle of the CUE front-end stream failed (GenerateAST panicked, or the pipeline's own load of the text gives another IR)", r, m))
    for r, m in valid_bad[:3]:
        c.violation(payload("cueValid-disagrees-with-cue", "the Lean validation semantics `cueValid` and the CUE library (Unify + Validate(Concrete)) disagree on this document", r, m))
    for r, m in strict_bad[:3]:
        c.violation(payload("strict-not-valid", "cueValid strict holds but the plain reading does not", r, m), found_input=False)
    for r, m in e2e_bad[:3]:
        c.violation(payload("end-to-end-instance-fails", "C01_cue_end_to_end_partial: FragCue ∧ PlainS (real front-end IR) ∧ Go chain ok ∧ strict validity hold but the model of the generated Go codec does not round-trip the document", r, m), found_input=False)
    for r, m in inst_bad[:3]:
        c.violation(payload("parser-soundness-instance-fails-on-real-IR", "C01_cue_parser_sound_partial: FragCue ∧ strict validity hold but the document is not in `srcDen` of the REAL front-end IR", r, m))
    for r, m in minst_bad[:3]:
        c.violation(payload("parser-soundness-instance-fails-on-model", "C01_cue_parser_sound_partial evaluated by the driver on the MODEL's IR is false", r, m), found_input=False)
    ncases = st["front_ok_agree"] + st["front_err_agree"] + len(front_bad)
    nref = sum(st["refused"].values())
    st["generated"] = ncases + nref
    c.oblige(STREAM + " (1): model of the CUE front-end on the view of the real cue.Value = real simplecue.GenerateAST, VIR-equal (%d texts: %d ok, %d err; %d more refused by the encoder as outside the view; kinds %s)"
             % (ncases, st["front_ok_agree"], st["front_err_agree"], nref, kinds), not front_bad and not oracle_bad and st["bad_replies"] == 0,
             "disagreements %d, oracle failures %d, bad driver replies %d %s" % (len(front_bad), len(oracle_bad), st["bad_replies"], st.get("bad_reply_samples", [])[:2]))
    if st["documents"]:
        c.oblige(STREAM + " (2): cueValid = CUE's Unify+Validate(Concrete) on every document of every schema in FragCue (%d documents, of %d in all; %d invalid; %d compared exactly, %d only as literal-float-reading ⇒ CUE ⇒ permissive reading); strict ⇒ valid" % (st["frag_documents"], st["documents"], st["invalid"], st.get("exact_documents", 0), st["inexact_documents"]), not valid_bad and not strict_bad)
        c.oblige(STREAM + " (3): FragCue ∧ strict validity ⇒ srcDen on the REAL front-end IR and on the model's (%d documents of %d schemas in the fragment)" % (st["frag_valid"], st["frag_cases"]), not inst_bad and not minst_bad)
        c.oblige(STREAM + " (3'): FragCue ∧ PlainS ∧ strict validity ⇒ decodes and round-trips (C01_cue_end_to_end_partial evaluated on the REAL front-end IR through the pass and codec models: %d documents)" % st.get("end_to_end_instances", 0), not e2e_bad)
        wok = len(witness) == 1 and all(w[2] for w in witness)
        c.oblige("witness of C01_cue_parser_sound_counterexample replays on the real front-end (2^63 unifies with CUE `int`, the text is in FragCue, the real IR says int64: not in srcDen)",
                 wok, [(w[0][1], w[1]) for w in witness] or "pinned row missing")
        if wok:
            line = "c01-front-cue pinned cuepinint\tFAIL source-valid document outside the IR's int64"
            load_proposed(c)
            c.match_known(line)
        wok2 = len(witness2) == 1 and all(w[2] for w in witness2)
        c.oblige("witness of C01_cue_parser_sound_counterexample_required_constant replays on the real front-end ({} unifies with `#R: {kind: \"fixed\"}`: CUE fills the constant in; the text is in FragCue, the real IR marks the member required: not in srcDen)",
                 wok2, [(w[0][1], w[1]) for w in witness2] or "pinned row missing")
        if wok2:
            load_proposed(c)
            c.match_known("c01-front-cue pinned cuepinconst\tFAIL source-valid document without a member the IR requires")
    c.oblige(STREAM + " is not vacuous (texts compared, err texts, share inside the view)",
             ncases >= 100 and st["front_err_agree"] >= 2 and ncases * 10 >= st["generated"] * 7,
             "texts %d, err %d, refused %d" % (ncases, st["front_err_agree"], nref))
    if st["documents"]:
        c.oblige(STREAM + " documents are not vacuous (schemas in FragCue, valid documents of the fragment, invalid documents)",
                 st["frag_cases"] >= 20 and st["frag_valid"] >= 150 and st["invalid"] >= 100,
                 "in FragCue %d, strict documents %d, invalid %d" % (st["frag_cases"], st["frag_valid"], st["invalid"]))
    c.count(STREAM, len(rows), [r[0] for r in rows if r[0].startswith("cuefront ")],
            samples=[{"stream": STREAM, "request": r[0][:400], "impl": r[1][:200], "oracle": "ok"} for r in rows if r[0].startswith("cuefront ")][:2])
    c.cov["disagreements_checked"] += ncases + st["frag_documents"] + st["frag_valid"]
    c.cov["parser_soundness_cue"] = dict(st, not_in_fragment_first_construct=notfrag, schema_kinds=kinds,
                                         keywords=[r[1] for r in rows if r[0] == "-" and r[1].startswith("stats keywords")][:1],
                                         rate_view="%d/%d generated texts inside the view" % (ncases, st["generated"]),
                                         rate_fragment="%d/%d schemas" % (st["frag_cases"], len(seen)),
                                         rate_instance="%d/%d" % (st["frag_valid_in_srcDen_real"], st["frag_valid"]))
