"""C20 — regenerate lean/Cog/Gen/ConfigFacts.lean (+ .work/c20/facts.json for the harness) from /repo.

The extractor (extract/xconfig, compiled into the cog module with the overlay build) reflects
over codegen.Pipeline / yaml.Compiler / yaml.Veneers, measures with yaml.v3 itself which keys
every struct accepts under KnownFields(true), parses schemas/*.json, reads the decoder
construction sites and the As…() functions (go/ast). It refuses on anything it does not
understand; a refusal removes the generated table so that no theorem can be checked against
stale facts.
"""
import os, subprocess
from verifkit.core import VERIF, REPO, WORK, LEAN, GOENV, Lock, build_go

OUT_LEAN = os.path.join(LEAN, "Cog", "Gen", "ConfigFacts.lean")
OUT_DIR = os.path.join(WORK, "c20")
OUT_JSON = os.path.join(OUT_DIR, "facts.json")


def session():
    """Held by a C20 check for its whole run: the generated table (and facts.json) are shared files,
    and a concurrent regeneration from ANOTHER tree (tools/regen.py at the end of somebody's
    seed/benign test, another `VERIF_REPO=… ./check C20`) between this run's regeneration and its
    Lean build / harness streams would make it judge the wrong tree."""
    return Lock("gen-c20-session")


def regen(in_session=False):
    if not in_session:
        with session():
            return regen(in_session=True)
    os.makedirs(OUT_DIR, exist_ok=True)
    os.makedirs(os.path.dirname(OUT_LEAN), exist_ok=True)
    binary, err = build_go("xconfig", "extract/xconfig")
    with Lock("gen-c20"):
        if binary is None:
            _invalidate()
            return False, "xconfig does not build against /repo: " + err[-1500:]
        tmp_lean = os.path.join(OUT_DIR, "ConfigFacts.lean.%d" % os.getpid())
        tmp_json = os.path.join(OUT_DIR, "facts.json.%d" % os.getpid())
        p = subprocess.run([binary, "repo=" + REPO, "lean=" + tmp_lean, "json=" + tmp_json],
                           cwd=REPO, env=GOENV, capture_output=True, text=True, timeout=600)
        if p.returncode not in (0, 3):
            for f in (tmp_lean, tmp_json):
                if os.path.exists(f):
                    os.remove(f)
            _invalidate()
            return False, (p.stderr or p.stdout)[-2000:].strip()
        new = open(tmp_lean).read()
        old = open(OUT_LEAN).read() if os.path.exists(OUT_LEAN) else None
        if new != old:
            os.replace(tmp_lean, OUT_LEAN)
        else:
            os.remove(tmp_lean)
        os.replace(tmp_json, OUT_JSON)
        if p.returncode == 3:
            # a decoder site or an As…() function has a shape the extractor does not understand:
            # tables are emitted with that fact in its pessimistic form (the Lean obligation fails)
            return False, (p.stderr or p.stdout)[-2000:].strip()
        return True, p.stdout.strip()


def _invalidate():
    for f in (OUT_LEAN, OUT_JSON):
        if os.path.exists(f):
            os.remove(f)
