"""C19 source tie: regenerate lean/Cog/Gen/OMapSrc.lean (method bodies of internal/orderedmap/map.go
translated into the mini-language of lean/Cog/OMap/Src.lean) from /repo."""
import os
from verifkit.core import VERIF, REPO, LEAN, WORK, build_go, run, GOENV

OMAP_JSON = os.path.join(WORK, "c19_omapsrc.json")


def regen():
    binary, err = build_go("xomap", "extract/xomap")
    if binary is None:
        return False, "xomap does not build: " + err[-2000:]
    gen = os.path.join(LEAN, "Cog", "Gen")
    os.makedirs(gen, exist_ok=True)
    out = os.path.join(gen, "OMapSrc.lean")
    tmp = out + ".tmp%d" % os.getpid()
    p = run([binary, "-lean", tmp, "-json", OMAP_JSON, REPO], env=GOENV)
    if p.returncode != 0:
        if os.path.exists(tmp):
            os.remove(tmp)
        return False, "xomap refused: " + (p.stderr or p.stdout)[-2000:]
    new = open(tmp).read()
    old = open(out).read() if os.path.exists(out) else None
    if new != old:
        os.replace(tmp, out)   # content-hash based rebuild: only touch when it changed
    else:
        os.remove(tmp)
    return True, "OMapSrc.lean %s" % ("unchanged" if new == old else "rewritten")
