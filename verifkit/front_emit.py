"""Tie of the front-end → emitted-schema composition (owner: c01-front builder).

Stream c01-front (harness/c01_front.go) holds, per case, the compiled SOURCE JSON Schema (`jsfdef`), the REAL front-end IR
(`defschemas <id>.fe`), the schema the REAL jsonschema jenny emits for that IR after the jsonschema language's own compiler
passes (`emitted` note) and, per document (`jsfc12` rows), the verdicts of the reference validator on the source schema
(`src=`) and on the emitted schema (`remit=`).  The driver verb `jsfc12` (lean/Cog/Drv/FrontEmitDrv.lean) evaluates on the
same case the hypotheses and the conclusion of C12_jsonschema_source_validates_emitted_partial (Props/C12.lean) and the
model-side verdicts.  Stream c01-front-oa / verb `oafc12`: the same for OpenAPI sources (source validator: kin-openapi's
VisitJSON; C12_openapi_source_validates_emitted_partial).  checks/c12.py calls `run(c)` and turns the result into obligations."""
import collections
import json
import re
from verifkit.core import *
from verifkit import front_keeps

WITNESS = ("pinnullreq", '(o ("x" null))')
# stream → (definition verb, tie verb, number of words before the document, suffix of lab case ids)
STREAMS = {"c01-front": ("jsfdef", "jsfc12", 3, "js"), "c01-front-oa": ("oafdef", "oafc12", 4, "oa")}


def _walk(x):
    if isinstance(x, dict):
        yield x
        for v in x.values():
            yield from _walk(v)
    elif isinstance(x, list):
        for v in x:
            yield from _walk(v)


def diagnose(source_text, emitted_text):
    """case-level facts a known finding may name: bounds of integer schemas that int64() cannot represent"""
    overflow = frac = False
    try:
        nodes = [n for n in _walk(json.loads(source_text)) if n.get("type") == "integer"]
    except (ValueError, AttributeError):
        nodes = []
    for n in nodes:
        for k in ("minimum", "maximum"):
            b = n.get(k)
            if isinstance(b, (int, float)) and not isinstance(b, bool):
                overflow |= float(b) >= 2.0 ** 63 or float(b) < -2.0 ** 63
                frac |= float(b) != int(b)
    overflow = overflow and re.search(r'"(maximum|minimum|exclusiveMaximum|exclusiveMinimum)":-9223372036854775808', emitted_text) is not None
    return "int-bound-overflow=%s fractional-integer-bound=%s" % ("yes" if overflow else "no", "yes" if frac else "no")


def load_proposed(c):
    """entries of checks/c12.front_emit.proposed_findings.json that known_findings.json does not hold yet"""
    path = os.path.join(VERIF, "checks", "c12.front_emit.proposed_findings.json")
    have = {f["id"] for f in c.known}
    for f in json.load(open(path)).get("findings", []):
        if f["id"] not in have and f.get("property") == c.pid:
            c.known.append(f)


def run(c, only=None, seed=None, docs=None, faults=None, stream="c01-front"):
    """returns (Counter, failures: dict kind -> list of payload dicts, witness_ok: bool, error text or None);
       `only` = one case id (replay): lab case f<i>js is regenerated from its index, other ids are pinned / testdata cases"""
    hb, err = build_go("verifharness", "harness", files=front_keeps.FILES, tag=front_keeps.TAG())
    if hb is None:
        return {}, {}, False, "harness build failed: " + err[-1500:]
    vdef, vtie, nwords, suffix = STREAMS[stream]
    quick = c.tier == "quick"
    n, docs0, faults0 = (150, 8, 4) if quick else (1200, 10, 6)
    docs, faults, seed = docs or docs0, faults or faults0, seed or c.seed
    extra = {}
    if only is not None:
        m = re.match(r"f(\d+)%s$" % suffix, only)
        extra, n = ({"from": int(m.group(1)), "pinned": 0, "testdata": 0}, 1) if m else ({}, 0)
    try:
        rows = harness(hb, stream, n=n, docs=docs, faults=faults, seed=seed, timeout=3600, **extra)
        if only is not None:
            rows = [r for r in rows if (r[0] == "-" and only in r[1].split(" ")[1:3]) or (r[0] != "-" and r[0].split(" ")[1] in (only, only + ".fe"))]
    except (RuntimeError, subprocess.TimeoutExpired) as e:
        return {}, {}, False, stream + " stream failed: " + str(e)[-1500:]
    keep = [r for r in rows if r[0] != "-" and r[0].split(" ")[0] in (vdef, "defschemas", vtie)]
    notes = collections.defaultdict(dict)
    for r in rows:
        if r[0] == "-":
            w = r[1].split(" ", 2)
            if w[0] in ("schema", "emitted", "emitted-err") and len(w) == 3:
                notes[w[1]][w[0]] = w[2]
    replies = drv([r[0] for r in keep])
    st, bad, witness_ok = collections.Counter(), collections.defaultdict(list), False
    for r, m in zip(keep, replies):
        verb, cid = r[0].split(" ")[0], r[0].split(" ")[1]
        if verb != vtie:
            if m != "ok":
                st["bad_replies"] += 1
            continue
        if not m.startswith("base="):
            st["bad_replies"] += 1
            continue
        d = dict(x.split("=", 1) for x in m.split(" "))
        real = dict(x.split("=", 1) for x in r[1].split(" "))
        doc = r[0].split(" ", nwords)[nwords]
        st["documents"] += 1

        def payload(kind, broken):
            return {"kind": kind, "broken": broken, "stream": stream, "case": cid, "document": doc[:4000], "real": r[1], "driver": m,
                    "source_schema": notes[cid].get("schema", "")[:8000], "emitted_schema": notes[cid].get("emitted", notes[cid].get("emitted-err", ""))[:8000],
                    "case_text": "front-emit stream=%s kind=%s %s" % (stream, kind, diagnose(notes[cid].get("schema", ""), notes[cid].get("emitted", ""))),
                    "replay_args": {"only": cid, "seed": seed, "docs": docs, "faults": faults, "stream": stream},
                    "how_to_replay": "./check C12 --replay <this file>  (harness %s seed=%d docs=%d faults=%d, case %s)" % (stream, seed, docs, faults, cid)}
        # instance of the theorem on the real front-end IR (pass models, emitter model, codec model)
        if d["inst"] == "true":
            st["inst"] += 1
            if d["concl"] == "true":
                st["concl"] += 1
            else:
                bad["instance"].append(payload("source-validates-emitted-instance-fails",
                                               "C12_jsonschema_source_validates_emitted_partial: every hypothesis holds on the REAL front-end IR, the conclusion does not"))
        # a document valid against the SOURCE schema respects the IR's constraints / constants / enumerations (`satLax`)
        if d["base"] == "true":
            st["source_valid_strict"] += 1
            if d["satlax"] == "true":
                st["source_valid_respects_ir"] += 1
            else:
                bad["respects"].append(payload("source-valid-document-violates-ir",
                                               "FragJS case, document strictly valid against the SOURCE schema: it violates a constraint / constant / enumeration / required member of the pass models' output of the REAL front-end IR (beyond `null` and `any`, which the known findings explain)"))
        if (cid, doc) == WITNESS:
            witness_ok = (real.get("src") == "true" and real.get("remit") == "false" and d["frag"] == "true" and d["satgap"] == "true"
                          and d["emjs"] == "false")
        if real.get("remit") not in ("true", "false"):
            st["no_emitted_schema"] += 1
            continue
        if d["modelled"] != "true":
            st["unmodelled_documents"] += 1
            continue
        # the model's verdict on the model-emitted schema = the reference validator on the REAL emitted schema
        if d["emjs"] in ("true", "false"):
            st["emitted_verdicts"] += 1
            if d["emjs"] == real["remit"]:
                st["emitted_verdicts_agree"] += 1
            else:
                bad["emitted-verdict"].append(payload("emitted-verdict-differs",
                                                      "JSOut.jsValid of emitDefs(model of the jsonschema chain on the real IR) differs from the reference validator on the schema the real jenny emitted"))
        if d["frag"] != "true":
            st["outside_fragment"] += 1
            if real["src"] == "false" and real["remit"] == "true":
                st["outside_fragment_emitted_laxer"] += 1
            continue
        st["frag_documents"] += 1
        st["frag_samedefs"] += d["samedefs"] == "true"
        excluded = not (d["satjs"] == "true" and d["nonull"] == "true")
        if real["src"] == "true":
            st["frag_source_valid"] += 1
            if excluded:
                st["frag_source_valid_excluded"] += 1
                st["frag_source_valid_excluded_rejected"] += real["remit"] == "false"
            else:
                st["forward"] += 1
                if real["remit"] == "true":
                    st["forward_ok"] += 1
                else:
                    bad["forward"].append(payload("source-valid-document-rejected-by-emitted-schema",
                                                  "FragJS case, document valid against the SOURCE schema, no null member, `sat` holds: the schema the real jenny emitted rejects it"))
        if real["remit"] == "true" and d.get("widened") == "true":
            # a closed object without properties is read as `any` by the front-end: the emitted schema is laxer by construction
            st["backward_skipped_closed_empty_object"] += 1
            st["backward_skipped_closed_empty_object_laxer"] += real["src"] == "false"
        elif real["remit"] == "true":
            st["backward"] += 1
            if real["src"] == "true":
                st["backward_ok"] += 1
            else:
                bad["backward"].append(payload("emitted-schema-accepts-what-source-rejects",
                                               "FragJS case: the schema the real jenny emitted accepts a document the SOURCE schema rejects"))
    c.count(stream + "/emit", len(keep), [r[0] for r in keep if r[0].startswith(vtie)][:2000])
    return st, bad, witness_ok, None
