"""C04 — regenerated facts: the table of PARTIAL OPERATIONS of cog's input-facing packages.

regen(): builds the fact extractor /verif/extract/xpartial into the cog module (overlay), runs it
on the working tree of verifkit.core.REPO and writes

  lean/Cog/Gen/PartialOps.lean   (git-ignored)  one entry (file, func, kind, expr, guard, n) per
                                 operation that can panic: type assertions, As…() on ast.Type,
                                 kind-pointer dereferences, index/slice expressions, writes into
                                 maps that may be nil, ranges over pointer elements, recursion
  .work/c04/partial_ops.json     the same table with line numbers and summary counts (messages)

When the extractor does not build or refuses, a FALLBACK table with one `unknown` entry and
`ok := false` is written, so that the Lean obligation over the table cannot be discharged.
"""
import json, os, re
from verifkit.core import REPO, WORK, LEAN, GOENV, Lock, build_go, run

GEN_LEAN = os.path.join(LEAN, "Cog", "Gen", "PartialOps.lean")
C04_WORK = os.path.join(WORK, "c04")
OPS_JSON = os.path.join(C04_WORK, "partial_ops.json")

FALLBACK = """/- GENERATED placeholder: the extractor /verif/extract/xpartial FAILED on the cog working tree — do not edit, not committed. -/
namespace Cog.Gen.PartialOps
structure Op where
  file : String
  func : String
  kind : String
  expr : String
  guard : String
  n : Nat
  deriving Repr, DecidableEq
def ops : List Op := [
  { file := "<extractor failed>", func := "<extractor failed: %s>", kind := "unknown", expr := "", guard := "none", n := 1 }
]
def loopBoundedIndexCount : Nat := 0
def ok : Bool := false
end Cog.Gen.PartialOps
"""


def _lean_escape(s):
    s = re.sub(r"\s+", " ", s).strip()[:300]
    return "".join(c if (" " <= c <= "~" and c not in '"\\') else "?" for c in s)


def _write_if_changed(path, text):
    os.makedirs(os.path.dirname(path), exist_ok=True)
    if os.path.exists(path) and open(path, encoding="utf-8").read() == text:
        return False
    tmp = path + ".tmp%d" % os.getpid()
    with open(tmp, "w", encoding="utf-8") as fh:
        fh.write(text)
    os.replace(tmp, path)
    return True


def _fail(reason, detail):
    _write_if_changed(GEN_LEAN, FALLBACK % _lean_escape(reason))
    _write_if_changed(OPS_JSON, json.dumps({"ops": [], "summary": {}, "failed": reason, "detail": detail[-4000:]}, indent=1))
    return False, "xpartial %s: %s" % (reason, detail[-1500:].strip())


def regen():
    os.makedirs(C04_WORK, exist_ok=True)
    binary, err = build_go("xpartial", "extract/xpartial")
    with Lock("gen-c04"):
        if binary is None:
            return _fail("build failed", err)
        tmp_lean = os.path.join(C04_WORK, "PartialOps.lean.%d" % os.getpid())
        tmp_json = os.path.join(C04_WORK, "partial_ops.json.%d" % os.getpid())
        try:
            p = run([binary, "-lean", tmp_lean, "-json", tmp_json, REPO], cwd=REPO, env=GOENV, timeout=900)
            if p.returncode != 0 or not os.path.exists(tmp_lean) or not os.path.exists(tmp_json):
                first = ((p.stderr or p.stdout).strip().splitlines() or ["no output"])[0]
                return _fail("refused (%s)" % first, p.stderr or p.stdout)
            changed = _write_if_changed(GEN_LEAN, open(tmp_lean, encoding="utf-8").read())
            os.replace(tmp_json, OPS_JSON)
            return True, p.stdout.strip() + (" (table changed)" if changed else " (table unchanged)")
        finally:
            for t in (tmp_lean, tmp_json):
                if os.path.exists(t):
                    os.remove(t)


def load_ops():
    return json.load(open(OPS_JSON))


if __name__ == "__main__":
    print(regen())
