"""C16 source tie: regenerate lean/Cog/Gen/FromASTSrc.lean (bodies of BuilderGenerator.FromAST,
structObjectToBuilder, fieldIsRefToConcrete, structFieldToOption of internal/ast/builder.go translated into
the mini-language of lean/Cog/Builder/Src.lean) from /repo."""
import os
from verifkit.core import VERIF, REPO, LEAN, WORK, build_go, run, GOENV

SRC_JSON = os.path.join(WORK, "c16_fromastsrc.json")


def regen():
    binary, err = build_go("xfromast", "extract/xfromast")
    if binary is None:
        return False, "xfromast does not build: " + err[-2000:]
    gen = os.path.join(LEAN, "Cog", "Gen")
    os.makedirs(gen, exist_ok=True)
    out = os.path.join(gen, "FromASTSrc.lean")
    tmp = out + ".tmp%d" % os.getpid()
    p = run([binary, "-lean", tmp, "-json", SRC_JSON, REPO], env=GOENV)
    if p.returncode != 0:
        if os.path.exists(tmp):
            os.remove(tmp)
        return False, "xfromast refused: " + (p.stderr or p.stdout)[-2000:]
    new = open(tmp).read()
    old = open(out).read() if os.path.exists(out) else None
    if new != old:
        os.replace(tmp, out)   # content-hash based rebuild: only touch when it changed
    else:
        os.remove(tmp)
    return True, "FromASTSrc.lean %s" % ("unchanged" if new == old else "rewritten")
