"""C03 — regenerated facts and generated inputs.

regen(): builds the fact extractor /verif/extract/xmaprange into the cog module (overlay),
runs it on /repo's working tree and writes

  lean/Cog/Gen/MapRangeSites.lean   (git-ignored)  every map-range site / leak call with its
                                    classified effects and callees, purity facts, sort facts
  .work/c03/sites.json              the same table for the check's evidence and messages

write_pipelines(): the pipeline configurations and schemas of the dynamic recipes.
"""
import json, os, shutil
from verifkit.core import VERIF, REPO, WORK, LEAN, GOENV, build_go, run

GEN_LEAN = os.path.join(LEAN, "Cog", "Gen", "MapRangeSites.lean")
C03_WORK = os.path.join(WORK, "c03")
SITES_JSON = os.path.join(C03_WORK, "sites.json")

FALLBACK = """/- GENERATED placeholder: the extractor /verif/extract/xmaprange FAILED on /repo's working tree
   (%s). The table holds one unknown site so that C03_sites cannot be discharged. -/
import Cog.Det.Site
namespace Cog.Gen
open Cog.Det
def mapRangeSites : List Site := [
  { file := "<extractor failed>", func := "<extractor failed>", line := 0, kind := .range, effects := [.unknown], callees := [], outsideRun := false, ptrKey := false }
]
def impureUses : List Fact := []
def sortFacts : List Fact := []
end Cog.Gen
"""


def _write_if_changed(path, text):
    os.makedirs(os.path.dirname(path), exist_ok=True)
    if os.path.exists(path) and open(path, encoding="utf-8").read() == text:
        return False
    tmp = path + ".tmp%d" % os.getpid()
    with open(tmp, "w", encoding="utf-8") as fh:
        fh.write(text)
    os.replace(tmp, path)
    return True


def regen(locked=False):
    """`locked=True` when the caller already holds Lock("c03-check") (the check does); otherwise
    (tools/regen.py, setup) the lock is taken here, so that a regeneration from /repo cannot slip
    in between a running check's own regeneration (possibly from a VERIF_REPO copy) and its
    Lean build."""
    if not locked:
        from verifkit.core import Lock
        with Lock("c03-check"):
            return regen(locked=True)
    os.makedirs(C03_WORK, exist_ok=True)
    binary, err = build_go("xmaprange", "extract/xmaprange")
    if binary is None:
        _write_if_changed(GEN_LEAN, FALLBACK % "build failed")
        return False, "xmaprange build failed: " + err[-1500:]
    tmp_lean = os.path.join(C03_WORK, "MapRangeSites.lean.%d" % os.getpid())
    tmp_json = os.path.join(C03_WORK, "sites.json.%d" % os.getpid())
    p = run([binary, "-lean", tmp_lean, "-json", tmp_json, REPO], cwd=REPO, env=GOENV)
    if p.returncode != 0 or not os.path.exists(tmp_lean):
        _write_if_changed(GEN_LEAN, FALLBACK % "refused")
        for t in (tmp_lean, tmp_json):
            if os.path.exists(t):
                os.remove(t)
        return False, "xmaprange refused: " + (p.stderr or p.stdout)[-1500:]
    changed = _write_if_changed(GEN_LEAN, open(tmp_lean, encoding="utf-8").read())
    os.replace(tmp_json, SITES_JSON)
    os.remove(tmp_lean)
    return True, p.stdout.strip() + (" (table changed)" if changed else " (table unchanged)")


def load_sites():
    return json.load(open(SITES_JSON))


# --------------------------------------------------------------------------------------------
# dynamic recipes that go through the real pipeline (config file -> codegen.PipelineFromFile)
# --------------------------------------------------------------------------------------------

ALL_LANGUAGES = """    - go:
        package_root: 'example.com/gen'
        generate_json_marshaller: true
        generate_strict_unmarshaller: true
        generate_equal: true
        generate_validate: true
    - jsonschema: {}
    - openapi: {}
    - php:
        namespace_root: 'Verif\\Gen'
        generate_json_marshaller: true
    - python:
        path_prefix: sdk
        generate_json_marshaller: true
    - typescript: {}
    - java:
        package_path: 'com.example.gen'
        generate_json_marshaller: true
"""

LANGS = ["go", "jsonschema", "openapi", "php", "python", "typescript", "java"]


def _letters(k):
    return [chr(ord("a") + i) for i in range(k)]


def _rich_jsonschema(k):
    """k+1 scalar properties, k refs to k definitions, nested objects, an enum, a map, an array,
    a oneOf with exactly ONE candidate discriminator (so the known infer-mapping site stays
    deterministic), defaults on scalars."""
    props, defs = {}, {}
    for l in _letters(k):
        props["s_" + l] = {"type": "string", "default": "d" + l, "description": "scalar " + l}
        props["n_" + l] = {"type": "integer", "minimum": 0, "maximum": 10 + len(props)}
        props["r_" + l] = {"$ref": "#/definitions/Def" + l.upper()}
        defs["Def" + l.upper()] = {
            "type": "object",
            "required": ["id_" + l],
            "properties": {
                "id_" + l: {"type": "string"},
                "w_" + l: {"type": "number"},
                "next_" + l: {"$ref": "#/definitions/DefA"},
                "tags_" + l: {"type": "array", "items": {"type": "string"}},
            },
        }
    props["color"] = {"type": "string", "enum": ["red", "green", "blue"], "default": "green"}
    props["labels"] = {"type": "object", "additionalProperties": {"type": "string"}}
    props["pet"] = {"oneOf": [{"$ref": "#/definitions/Cat"}, {"$ref": "#/definitions/Dog"}]}
    defs["Cat"] = {"type": "object", "required": ["kind"], "properties": {"kind": {"const": "cat"}, "lives": {"type": "integer"}}}
    defs["Dog"] = {"type": "object", "required": ["kind"], "properties": {"kind": {"const": "dog"}, "good": {"type": "boolean"}}}
    defs["Root"] = {"type": "object", "required": ["s_a"], "properties": props}
    return {"$schema": "http://json-schema.org/draft-07/schema#", "$ref": "#/definitions/Root", "definitions": defs}


def _rich_openapi(k):
    schemas = {}
    for l in _letters(k):
        schemas["Thing" + l.upper()] = {
            "type": "object",
            "required": ["name_" + l],
            "properties": {
                "name_" + l: {"type": "string"},
                "count_" + l: {"type": "integer", "format": "int32"},
                "other_" + l: {"$ref": "#/components/schemas/ThingA"},
                "list_" + l: {"type": "array", "items": {"$ref": "#/components/schemas/ThingA"}},
                "meta_" + l: {"type": "object", "additionalProperties": {"type": "string"}},
            },
        }
    schemas["Animal"] = {
        "oneOf": [{"$ref": "#/components/schemas/Lion"}, {"$ref": "#/components/schemas/Wolf"}],
        "discriminator": {"propertyName": "species", "mapping": {"lion": "Lion", "wolf": "Wolf"}},
    }
    schemas["Lion"] = {"type": "object", "required": ["species"], "properties": {"species": {"type": "string"}, "mane": {"type": "boolean"}}}
    schemas["Wolf"] = {"type": "object", "required": ["species"], "properties": {"species": {"type": "string"}, "pack": {"type": "integer"}}}
    return {"openapi": "3.0.0", "info": {"title": "verif", "version": "1"}, "paths": {}, "components": {"schemas": schemas}}


def _xlang_jsonschema():
    """shapes that language-specific passes rewrite IN PLACE through pointers held by a
    disjunction branch (array of anonymous structs, inline struct with a `T | null` field, map of
    anonymous structs): the languages run different pass chains on what must be separate deep
    copies of the loaded schemas, and Pipeline.Run ranges over the language map"""
    anon = {"type": "object", "additionalProperties": False, "required": ["expr"], "properties": {"expr": {"type": "string"}, "step": {"type": "integer"}}}
    nullable = {"type": "object", "additionalProperties": False, "required": ["name"],
                "properties": {"name": {"type": "string"}, "opt": {"oneOf": [{"type": "string"}, {"type": "null"}]}}}
    return {"$schema": "http://json-schema.org/draft-07/schema#", "$ref": "#/definitions/Query", "definitions": {
        "Query": {"type": "object", "additionalProperties": False, "required": ["target"], "properties": {
            "target": {"oneOf": [{"type": "string"}, {"type": "array", "items": anon}]},
            "alt": {"oneOf": [{"type": "string"}, nullable]},
            "many": {"type": "array", "items": {"oneOf": [{"type": "integer"}, {"type": "array", "items": anon}]}},
            "byName": {"type": "object", "additionalProperties": {"oneOf": [{"type": "boolean"}, {"type": "array", "items": nullable}]}},
        }}}}


def _write(path, text):
    os.makedirs(os.path.dirname(path), exist_ok=True)
    with open(path, "w", encoding="utf-8") as fh:
        fh.write(text)


def write_pipelines(root, k=3):
    """Writes every pipeline recipe under `root`; returns a list of dicts
    {name, cfg, modes: [...], site: <site or '-'>, expect: 'deterministic'|'known'}."""
    if os.path.exists(root):
        shutil.rmtree(root)
    os.makedirs(root)
    recipes = []

    def cfg(name, body):
        path = os.path.join(root, name, "cfg.yaml")
        _write(path, body)
        return path

    # ---- clean: every language, every kind of output, several packages from all three front ends
    d = os.path.join(root, "clean")
    _write(os.path.join(d, "rich.json"), json.dumps(_rich_jsonschema(k), indent=1))
    _write(os.path.join(d, "api.json"), json.dumps(_rich_openapi(k), indent=1))
    _write(os.path.join(d, "xlang.json"), json.dumps(_xlang_jsonschema(), indent=1))
    _write(os.path.join(d, "passes.yaml"), """passes:
  - hint_object:
      object: rich.Root
      hints: {skip_variant_plugin_registration: true, zzz: 1, aaa: two}
  - fields_set_default:
      defaults:
        rich.Root.n_a: 3
        rich.DefA.w_a: 1.5
        # the same field referred to with different casings and different values (references
        # are matched case-insensitively; which one wins must not depend on map order)
        rich.Root.s_b: 'first'
        rich.root.S_B: 'second'
        rich.ROOT.s_B: 'third'
  - hint_object:
      object: rich.DefB
      hints: {Mode: 1, mode: 2, MODE: 3}
""")
    _write(os.path.join(d, "veneers", "rich.yaml"), """language: all
package: rich
builders:
  - rename:
      by_object: DefA
      as: DefinitionA
  - add_factory:
      by_object: Root
      factory:
        name: emptyRoot
  - add_factory:
      by_object: DefB
      factory:
        name: emptyDefB
options:
  - rename:
      by_name: Root.color
      as: colour
""")
    _write(os.path.join(d, "veneers", "api.yaml"), """language: all
package: api
builders:
  - add_factory:
      by_object: ThingA
      factory:
        name: emptyThingA
""")
    _write(os.path.join(d, "veneers", "oarefs.yaml"), """language: all
package: defaults
builders:
  - add_factory:
      by_object: TextVariable
      factory:
        name: emptyTextVariable
""")
    for sub, content in (("common/README.md", "repo {{ .Extra.Note }}\n"), ("go/ci-go.yaml", "go: {{ .Extra.Note }}\n"),
                         ("python/ci-python.yaml", "python: {{ .Extra.Note }}\n"), ("typescript/ci-ts.yaml", "ts\n"),
                         ("java/ci-java.yaml", "java\n"), ("php/ci-php.yaml", "php\n")):
        _write(os.path.join(d, "repo_templates", sub), content)
    clean = cfg("clean", """parameters:
  base: '%s'
  note: 'n-%%base%%'
inputs:
  - cue:
      entrypoint: '%s/testdata/schemas/defaults'
  - cue:
      entrypoint: '%s/testdata/schemas/equality'
  - cue:
      entrypoint: '%s/testdata/schemas/validation'
  - jsonschema:
      path: '%%base%%/rich.json'
      package: rich
  - openapi:
      path: '%%base%%/api.json'
      package: api
  - jsonschema:
      path: '%%base%%/xlang.json'
      package: xlang
  - openapi:
      path: '%s/testdata/openapi/refs/schema.json'
      package: oarefs
transformations:
  schemas:
    - '%%base%%/passes.yaml'
  builders:
    - '%%base%%/veneers'
output:
  directory: 'out/%%l'
  types: true
  builders: true
  converters: true
  api_reference: true
  repository_templates: '%%base%%/repo_templates'
  templates_data:
    Note: 'x'
    Other: 'y'
    Third: 'z'
  languages:
%s""" % (d, REPO, REPO, REPO, REPO, ALL_LANGUAGES))
    modes = ["files", "schemas+canon"] + ["context:%s+canon" % l for l in LANGS]
    recipes.append({"name": "clean", "cfg": clean, "modes": modes, "site": "-", "expect": "deterministic"})
    # the same pipeline, IR exactly as `cog inspect` prints it (package order comes from Consolidate)
    recipes.append({"name": "fixed-consolidate", "cfg": clean, "modes": ["schemas"], "expect": "deterministic",
                    "site": "internal/codegen/pipeline.go:Pipeline.LoadSchemas"})

    # ---- one output kind at a time (types only / builders without converters), single language each
    for lang in ("go", "typescript", "python", "java", "php"):
        body = open(clean).read().replace("  converters: true\n", "").replace("  api_reference: true\n", "")
        head, _ = body.split("  languages:\n")
        one = [blk for blk in ALL_LANGUAGES.split("    - ") if blk.startswith(lang + ":")][0]
        recipes.append({"name": "clean-%s-builders" % lang, "cfg": cfg("clean-%s-builders" % lang, head + "  languages:\n    - " + one),
                        "modes": ["files"], "site": "-", "expect": "deterministic"})
    body = open(clean).read().replace("  builders: true\n", "").replace("  converters: true\n", "").replace("  api_reference: true\n", "")
    recipes.append({"name": "clean-types-only", "cfg": cfg("clean-types-only", body), "modes": ["files"], "site": "-", "expect": "deterministic"})

    # ---- two languages with different pass chains over schemas whose disjunction branches are
    #      rewritten in place by one of them (isolation of the per-language copies)
    d = os.path.join(root, "xlang")
    _write(os.path.join(d, "xlang.json"), json.dumps(_xlang_jsonschema(), indent=1))
    blocks = {b.split(":")[0]: b for b in ALL_LANGUAGES.split("    - ") if b.strip()}
    for pair in (("go", "typescript"), ("typescript", "java"), ("python", "typescript", "php"), ("jsonschema", "go", "openapi")):
        name = "xlang-" + "-".join(pair)
        recipes.append({"name": name, "expect": "deterministic", "site": "internal/codegen/run.go:Pipeline.Run", "modes": ["files"],
                        "cfg": cfg(name, """inputs:
  - jsonschema:
      path: '%s/xlang.json'
      package: xlang
output:
  directory: 'out/%%l'
  types: true
  builders: true
  languages:
%s""" % (d, "".join("    - " + blocks[l] for l in pair)))})

    # ---- repaired site (regression recipe): two candidate discriminator fields
    d = os.path.join(root, "fixed-infer")
    _write(os.path.join(d, "infer.json"), json.dumps({
        "$schema": "http://json-schema.org/draft-07/schema#", "$ref": "#/definitions/Root",
        "definitions": {
            "Root": {"type": "object", "properties": {"target": {"oneOf": [{"$ref": "#/definitions/Cat"}, {"$ref": "#/definitions/Dog"}]}}},
            "Cat": {"type": "object", "required": ["kind", "type"], "properties": {"kind": {"const": "cat"}, "type": {"const": "feline"}, "lives": {"type": "integer"}}},
            "Dog": {"type": "object", "required": ["kind", "type"], "properties": {"kind": {"const": "dog"}, "type": {"const": "canine"}, "good": {"type": "boolean"}}},
        }}, indent=1))
    recipes.append({"name": "fixed-infer", "expect": "deterministic",
                    "site": "internal/ast/compiler/disjunctions_infer_mapping.go:DisjunctionInferMapping.inferDiscriminatorField",
                    "modes": ["files", "context:go"],
                    "cfg": cfg("fixed-infer", """inputs:
  - jsonschema:
      path: '%s/infer.json'
      package: infer
output:
  directory: 'out/%%l'
  types: true
  builders: true
  languages:
    - go:
        package_root: 'example.com/gen'
        generate_json_marshaller: true
        generate_strict_unmarshaller: true
    - python:
        generate_json_marshaller: true
""" % d)})

    # ---- repaired site (regression recipe): nested parameters
    recipes.append({"name": "fixed-interpolate", "expect": "deterministic", "site": "internal/codegen/pipeline.go:Pipeline.interpolate",
                    "modes": ["config"],
                    "cfg": cfg("fixed-interpolate", """parameters:
  a: '%%b%%'
  b: 'x'
inputs:
  - jsonschema:
      path: '%s/fixed-infer/infer.json'
      package: 'p%%a%%'
output:
  directory: 'out/%%a%%/%%l'
  types: true
  languages:
    - go:
        package_root: 'example.com/gen'
""" % root)})

    # ---- repaired site (regression recipe): typescript prints a map default in map order
    d = os.path.join(root, "fixed-tsmap")
    _write(os.path.join(d, "s.json"), json.dumps({
        "$schema": "http://json-schema.org/draft-07/schema#", "$ref": "#/definitions/Root",
        "definitions": {"Root": {"type": "object", "properties": {
            "labels": {"type": "object", "additionalProperties": {"type": "string"}}, "name": {"type": "string"}}}}}, indent=1))
    _write(os.path.join(d, "passes.yaml"), "passes:\n  - fields_set_default:\n      defaults:\n        tsmap.Root.labels: {team: a, env: b, zone: c}\n")
    recipes.append({"name": "fixed-tsmap", "expect": "deterministic", "site": "internal/jennies/typescript/tools.go:formatValue",
                    "modes": ["files"],
                    "cfg": cfg("fixed-tsmap", """inputs:
  - jsonschema:
      path: '%s/s.json'
      package: tsmap
transformations:
  schemas:
    - '%s/passes.yaml'
output:
  directory: 'out/%%l'
  types: true
  languages:
    - typescript: {}
""" % (d, d))})
    # the same default through every other language must be deterministic
    recipes.append({"name": "mapdefault-other-languages", "expect": "deterministic", "site": "-", "modes": ["files"],
                    "cfg": cfg("mapdefault-other-languages", """inputs:
  - jsonschema:
      path: '%s/s.json'
      package: tsmap
transformations:
  schemas:
    - '%s/passes.yaml'
output:
  directory: 'out/%%l'
  types: true
  builders: true
  languages:
%s""" % (d, d, ALL_LANGUAGES.replace("    - typescript: {}\n", "")))})

    # ---- repaired site (regression recipe): converter with two list-of-disjunction options
    d = os.path.join(root, "fixed-converter")
    items = {"type": "array", "items": {"oneOf": [{"$ref": "#/definitions/Cat"}, {"$ref": "#/definitions/Dog"}]}}
    _write(os.path.join(d, "s.json"), json.dumps({
        "$schema": "http://json-schema.org/draft-07/schema#", "$ref": "#/definitions/Root",
        "definitions": {
            "Root": {"type": "object", "properties": {"itemsA": items, "itemsB": items}},
            "Cat": {"type": "object", "required": ["kind"], "properties": {"kind": {"const": "cat"}, "lives": {"type": "integer"}}},
            "Dog": {"type": "object", "required": ["kind"], "properties": {"kind": {"const": "dog"}, "good": {"type": "boolean"}}},
        }}, indent=1))
    _write(os.path.join(d, "veneers", "v.yaml"), """language: all
package: conv
options:
  - array_to_append:
      by_name: Root.itemsA
  - array_to_append:
      by_name: Root.itemsB
  - disjunction_as_options:
      by_name: Root.itemsA
  - disjunction_as_options:
      by_name: Root.itemsB
""")
    recipes.append({"name": "fixed-converter", "expect": "deterministic", "site": "internal/languages/converter.go:ConverterGenerator.FromBuilder",
                    "modes": ["files"],
                    "cfg": cfg("fixed-converter", """inputs:
  - jsonschema:
      path: '%s/s.json'
      package: conv
transformations:
  builders:
    - '%s/veneers'
output:
  directory: 'out/%%l'
  types: true
  builders: true
  converters: true
  languages:
    - go:
        package_root: 'example.com/gen'
""" % (d, d))})

    # ---- repaired site (regression recipe): two library import paths both contained in the file name of the schema
    d = os.path.join(root, "fixed-refresolver")
    _write(os.path.join(d, "main", "main.cue"), "package main\n\nRoot: {\n\tname: string\n\titems: [...#Local]\n}\n\n#Local: {\n\tlabel: string\n}\n")
    _write(os.path.join(d, "l1", "l1.cue"), "package l1\n#A: {x: string}\n")
    _write(os.path.join(d, "l2", "l2.cue"), "package l2\n#B: {y: string}\n")
    recipes.append({"name": "fixed-refresolver", "expect": "deterministic", "site": "internal/simplecue/referenceresolver.go:referenceResolver.packageForToken",
                    "modes": ["schemas"],
                    "cfg": cfg("fixed-refresolver", """inputs:
  - cue:
      entrypoint: '%s/main'
      cue_imports:
        - '%s/l1:github.com'
        - '%s/l2:github.com/cog-vfs'
output:
  directory: 'out/%%l'
  types: true
  languages:
    - go:
        package_root: 'example.com/gen'
""" % (d, d, d))})
    # ---- parameters defined in terms of other parameters, through the public option
    #      codegen.PipelineFromFile(file, codegen.Parameters(extra)) as `cog generate/inspect` do.
    #      Chains of 1..3 hops, going to alphabetically smaller and larger keys, in the file and
    #      in the extra map; what is observed is the interpolated configuration.
    chains = {
        "down2": ("output_dir: '%build_dir%/generated'\n  build_dir: '%__config_dir%/build'\n", ""),
        "up2": ("a_out: '%m_mid%/generated'\n  m_mid: '%z_root%/build'\n  z_root: '/abs'\n", ""),
        "mixed3": ("output_dir: '%stage%/generated'\n  stage: '%build_dir%/stage'\n  build_dir: '%__config_dir%/build'\n  aaa: '%output_dir%/a'\n  zzz: '%aaa%/z'\n", ""),
        "extra-over-file": ("output_dir: '%build_dir%/generated'\n  build_dir: 'file-build'\n", "build_dir:%__config_dir%/cli-build,extra_dir:%output_dir%/extra"),
        "self-and-cycle": ("output_dir: '%output_dir%/x'\n  p: '%q%'\n  q: '%p%'\n  build_dir: '%p%/%q%'\n", ""),
    }
    for cname, (params, extra) in chains.items():
        first = params.split(":")[0].strip()
        body = """parameters:
  %sinputs:
  - jsonschema:
      path: '%s/fixed-infer/infer.json'
      package: 'pkg'
      transformations:
        - '%%%s%%/passes.yaml'
output:
  directory: '%%%s%%/%%l'
  repository_templates: '%%%s%%/templates'
  templates_data:
    First: '%%%s%%'
    Config: '%%__config_dir%%'
    All: '%s'
  types: true
  languages:
    - typescript: {}
""" % (params, root, first, first, first, first, " ".join("%%%s%%" % l.split(":")[0].strip() for l in params.strip().split("\n")))
        r = {"name": "params-" + cname, "expect": "deterministic", "site": "internal/codegen/options.go:Parameters",
             "modes": ["config"], "cfg": cfg("params-" + cname, body)}
        if extra:
            r["params"] = extra
        recipes.append(r)
    # and one of them all the way through Run: the output paths contain the interpolated directory
    recipes.append({"name": "params-down2-run", "expect": "deterministic", "site": "internal/codegen/options.go:Parameters", "modes": ["files"],
                    "cfg": cfg("params-down2-run", """parameters:
  output_dir: '%%build_dir%%/generated'
  build_dir: '%%__config_dir%%/build'
inputs:
  - jsonschema:
      path: '%s/fixed-infer/infer.json'
      package: 'pkg'
output:
  directory: '%%output_dir%%/%%l'
  types: true
  languages:
    - typescript: {}
""" % root)})

    # ---- a discriminator mapping in which two values point to the same schema (legal OpenAPI):
    #      anything that orders the mapping by its *targets* has ties
    d = os.path.join(root, "shared-discriminator-target")
    _write(os.path.join(d, "pets.json"), json.dumps({
        "openapi": "3.0.0", "info": {"title": "pets", "version": "1"}, "paths": {},
        "components": {"schemas": {
            "Owner": {"type": "object", "properties": {"pet": {"$ref": "#/components/schemas/Pet"}}},
            "Pet": {"oneOf": [{"$ref": "#/components/schemas/Cat"}, {"$ref": "#/components/schemas/Dog"}, {"$ref": "#/components/schemas/Bird"}],
                    "discriminator": {"propertyName": "kind", "mapping": {"cat": "Cat", "kitten": "Cat", "dog": "Dog", "puppy": "Dog", "hound": "Dog", "bird": "Bird"}}},
            "Cat": {"type": "object", "required": ["kind"], "properties": {"kind": {"type": "string"}, "lives": {"type": "integer"}}},
            "Dog": {"type": "object", "required": ["kind"], "properties": {"kind": {"type": "string"}, "good": {"type": "boolean"}}},
            "Bird": {"type": "object", "required": ["kind"], "properties": {"kind": {"type": "string"}, "wings": {"type": "integer"}}},
        }}}, indent=1))
    recipes.append({"name": "shared-discriminator-target", "expect": "deterministic", "site": "-",
                    "modes": ["files", "context:python+canon", "context:go+canon"],
                    "cfg": cfg("shared-discriminator-target", """inputs:
  - openapi:
      path: '%s/pets.json'
      package: pets
output:
  directory: 'out/%%l'
  types: true
  builders: true
  converters: true
  api_reference: true
  languages:
%s""" % (d, ALL_LANGUAGES))})
    # ---- veneers whose configuration holds Go maps: merge_into with chained / swapped /
    #      case-overlapping rename_options (a rename's target is another rename's source)
    d = os.path.join(root, "veneer-maps")
    _write(os.path.join(d, "s.json"), json.dumps({
        "$schema": "http://json-schema.org/draft-07/schema#", "$ref": "#/definitions/Panel",
        "definitions": {
            "Panel": {"type": "object", "additionalProperties": False, "required": ["id", "options"],
                      "properties": {"id": {"type": "integer"}, "options": {"$ref": "#/definitions/Options"}}},
            "Options": {"type": "object", "additionalProperties": False, "required": ["name", "title"],
                        "properties": {"name": {"type": "string"}, "title": {"type": "string"}, "min": {"type": "integer"},
                                       "max": {"type": "integer"}, "unit": {"type": "string"}}},
        }}, indent=1))
    _write(os.path.join(d, "veneers", "v.yaml"), """language: all
package: vmaps
builders:
  - merge_into:
      destination: Panel
      source: Options
      under_path: options
      rename_options:
        title: label
        name: title
        min: max
        max: min
        Unit: unitUpper
        unit: unitLower
""")
    recipes.append({"name": "veneer-maps", "expect": "deterministic", "site": "-", "modes": ["files", "context:typescript+canon"],
                    "cfg": cfg("veneer-maps", """inputs:
  - jsonschema:
      path: '%s/s.json'
      package: vmaps
transformations:
  builders:
    - '%s/veneers'
output:
  directory: 'out/%%l'
  types: true
  builders: true
  languages:
    - typescript: {}
    - go:
        package_root: 'example.com/gen'
    - python: {}
""" % (d, d))})
    return recipes


if __name__ == "__main__":
    print(regen())
