"""C07 source tie: regenerate lean/Cog/Gen/MergeSrc.lean (bodies of Schemas.Consolidate, Schema.Merge,
Schema.AddObject, NewSchema, SchemaMeta.Equal of internal/ast/schema.go translated into the mini-language
of lean/Cog/Merge/Src.lean) from /repo."""
import os
from verifkit.core import VERIF, REPO, LEAN, WORK, build_go, run, GOENV

MERGE_JSON = os.path.join(WORK, "c07_mergesrc.json")


def regen():
    binary, err = build_go("xmerge", "extract/xmerge")
    if binary is None:
        return False, "xmerge does not build: " + err[-2000:]
    gen = os.path.join(LEAN, "Cog", "Gen")
    os.makedirs(gen, exist_ok=True)
    out = os.path.join(gen, "MergeSrc.lean")
    tmp = out + ".tmp%d" % os.getpid()
    p = run([binary, "-lean", tmp, "-json", MERGE_JSON, REPO], env=GOENV)
    if p.returncode != 0:
        if os.path.exists(tmp):
            os.remove(tmp)
        return False, "xmerge refused: " + (p.stderr or p.stdout)[-2000:]
    new = open(tmp).read()
    old = open(out).read() if os.path.exists(out) else None
    if new != old:
        os.replace(tmp, out)   # content-hash based rebuild: only touch when it changed
    else:
        os.remove(tmp)
    return True, "MergeSrc.lean %s" % ("unchanged" if new == old else "rewritten")
