"""Shared machinery of the /verif checks (see DESIGN.md section 2.7).

Every check:
  1. rebuilds the harness (and the fact extractors) from /repo's working tree (go build -overlay),
  2. regenerates lean/Cog/Gen/*.lean where the property has regenerated facts,
  3. lake build + axiom audit + forbidden-word scan  => proof obligations discharged or not,
  4. runs the correspondence streams (implementation vs. Lean driver) and the
     implementation-side oracle,
  5. classifies failures against known_findings.json,
  6. writes evidence/<id>.json and prints VIOLATION / KNOWN-FINDING lines.
"""
import fcntl, glob, hashlib, json, os, re, subprocess, sys, time

VERIF = os.path.dirname(os.path.dirname(os.path.abspath(__file__)))
REPO = os.environ.get("VERIF_REPO", "/repo")
WORK = os.path.join(VERIF, ".work")
LEAN = os.path.join(VERIF, "lean")
BIN = os.path.join(WORK, "bin")
DRV = os.path.join(LEAN, ".lake", "build", "bin", "drv")
ALLOWED_AXIOMS = {"propext", "Classical.choice", "Quot.sound"}
FORBIDDEN = re.compile(r"\b(sorry|admit|native_decide|bv_decide|implemented_by|unsafe)\b|^\s*axiom\s|maxHeartbeats\s+0")

GOENV = dict(os.environ, GOFLAGS="-mod=mod", GOPROXY="off")
GOENV.pop("GOSUMDB", None)  # GOSUMDB=off breaks the cached go1.23.6 toolchain switch


def log(*a):
    print("[verif]", *a, file=sys.stderr, flush=True)


class Lock:
    def __init__(self, name):
        os.makedirs(WORK, exist_ok=True)
        self.path = os.path.join(WORK, name + ".lock")

    def __enter__(self):
        self.f = open(self.path, "w")
        fcntl.flock(self.f, fcntl.LOCK_EX)
        return self

    def __exit__(self, *a):
        fcntl.flock(self.f, fcntl.LOCK_UN)
        self.f.close()


def run(cmd, cwd=None, env=None, input=None, timeout=None, check=False):
    p = subprocess.run(cmd, cwd=cwd, env=env, input=input, capture_output=True, text=True, timeout=timeout)
    if check and p.returncode != 0:
        raise RuntimeError("command failed: %s\n%s\n%s" % (cmd, p.stdout[-4000:], p.stderr[-4000:]))
    return p


HARNESS_BASE = ["main.go", "prng.go", "util.go", "vir.go", "irgen.go"]


def build_go(name, srcdir, files=None, tag=None):
    """Build /verif/<srcdir>/*.go as package cmd/<name> *inside the cog module* via -overlay.
    /repo is not touched; the binary is rebuilt from /repo's current working tree.
    `files` (glob patterns relative to srcdir) scopes the build to what one check needs, so that
    another property's half-written harness file cannot break it; `tag` names the binary."""
    os.makedirs(BIN, exist_ok=True)
    binname = name + ("-" + tag if tag else "")
    with Lock("gobuild-" + binname):
        rep = {}
        if files is None:
            paths = sorted(glob.glob(os.path.join(VERIF, srcdir, "*.go")))
        else:
            paths = []
            for pat in files:
                paths += glob.glob(os.path.join(VERIF, srcdir, pat))
            paths = sorted(set(paths))
        for f in paths:
            rep[os.path.join(REPO, "cmd", binname, os.path.basename(f))] = f
        ov = os.path.join(WORK, "overlay-%s.json" % binname)
        with open(ov, "w") as fh:
            json.dump({"Replace": rep}, fh)
        out = os.path.join(BIN, binname)
        for attempt in range(3):
            p = run(["go", "build", "-overlay", ov, "-o", out, "./cmd/" + binname], cwd=REPO, env=GOENV)
            if p.returncode == 0 or "go-build" not in p.stderr and "is not in std" not in p.stderr:
                break
            time.sleep(5)  # a concurrently reset build cache: retry
        if p.returncode != 0:
            return None, p.stderr
        return out, ""


def lake_build(targets=("Cog", "drv")):
    with Lock("lake"):
        p = run(["lake", "build", *targets], cwd=LEAN)
        if p.returncode == 0 and "drv" in targets:
            # private copy of the freshly linked driver, taken while no other lake build can relink it
            try:
                _PRIVATE_DRV.clear()
                private_drv()
            except Exception:
                pass
    return p.returncode == 0, (p.stdout + p.stderr)


def import_closure(modules):
    """Lean source files transitively imported (within this project) by the given modules."""
    seen, todo = set(), list(modules)
    while todo:
        m = todo.pop()
        if m in seen:
            continue
        path = os.path.join(LEAN, *m.split(".")) + ".lean"
        if not os.path.exists(path):
            continue
        seen.add(m)
        for line in open(path, encoding="utf-8"):
            mm = re.match(r"\s*import\s+([A-Za-z0-9_.]+)", line)
            if mm and (mm.group(1).startswith("Cog.") or mm.group(1) == "Main"):
                todo.append(mm.group(1))
    return [os.path.join(LEAN, *m.split(".")) + ".lean" for m in sorted(seen)]


def forbidden_scan(modules=None):
    hits = []
    files = import_closure(modules) if modules else [
        f for f in glob.glob(os.path.join(LEAN, "**", "*.lean"), recursive=True) if "/.lake/" not in f]
    for f in files:
        in_block = 0
        for i, line in enumerate(open(f, encoding="utf-8"), 1):
            # strip comments (block comments tracked coarsely, line comments exactly)
            code = line
            if in_block:
                if "-/" in code:
                    code = code.split("-/", 1)[1]
                    in_block = 0
                else:
                    continue
            while "/-" in code:
                pre, rest = code.split("/-", 1)
                if "-/" in rest:
                    code = pre + rest.split("-/", 1)[1]
                else:
                    code = pre
                    in_block = 1
                    break
            code = code.split("--", 1)[0]
            code = re.sub(r'"[^"]*"', '""', code)
            if FORBIDDEN.search(code):
                hits.append("%s:%d: %s" % (os.path.relpath(f, VERIF), i, line.strip()))
    return hits


def audit(theorems, imports):
    """#print axioms for every theorem; returns {name: (ok, axioms or error)}."""
    os.makedirs(WORK, exist_ok=True)
    path = os.path.join(WORK, "Audit_%d.lean" % os.getpid())
    with open(path, "w") as fh:
        for imp in imports:
            fh.write("import %s\n" % imp)
        for t in theorems:
            fh.write("#print axioms %s\n" % t)
    with Lock("lake"):
        p = run(["lake", "env", "lean", path], cwd=LEAN)
    os.remove(path)
    text = p.stdout + p.stderr
    res = {}
    for t in theorems:
        m = re.search(r"'%s' depends on axioms: \[([^\]]*)\]" % re.escape(t), text, re.S)
        if m:
            ax = [a.strip() for a in m.group(1).replace("\n", " ").split(",") if a.strip()]
            bad = [a for a in ax if a not in ALLOWED_AXIOMS]
            res[t] = (not bad, ax)
        elif re.search(r"'%s' does not depend on any axioms" % re.escape(t), text):
            res[t] = (True, [])
        else:
            res[t] = (False, ["<not found or error>"])
    if p.returncode != 0:
        for t in theorems:
            if res[t][0] and False:
                pass
    return res, text


_PRIVATE_DRV = {}


def private_drv():
    """A copy of the driver binary private to this process: another check's `lake build drv`
    relinks the shared binary (it is briefly absent / busy), which must not disturb a running check.
    Waits up to two minutes for the shared binary to (re)appear."""
    src = DRV
    if _PRIVATE_DRV.get("src") == src and os.path.exists(_PRIVATE_DRV.get("path", "")):
        return _PRIVATE_DRV["path"]
    import atexit, shutil
    os.makedirs(BIN, exist_ok=True)
    dst = os.path.join(BIN, "drv-p%d" % os.getpid())
    deadline = time.time() + 120
    while True:
        try:
            shutil.copy2(src, dst + ".tmp")
            os.replace(dst + ".tmp", dst)
            break
        except (FileNotFoundError, OSError):
            if time.time() > deadline:
                return src
            time.sleep(1.0)
    _PRIVATE_DRV.update(src=src, path=dst)
    atexit.register(lambda: os.path.exists(dst) and os.remove(dst))
    return dst


def drv(lines, timeout=1800):
    """Feed request lines to the Lean driver, return reply lines."""
    if not lines:
        return []
    p = subprocess.run([private_drv()], input="\n".join(lines) + "\n", capture_output=True, text=True, timeout=timeout)
    out = p.stdout.split("\n")
    if out and out[-1] == "":
        out.pop()
    if len(out) != len(lines):
        raise RuntimeError("driver returned %d replies for %d requests (rc=%s, stderr=%s)"
                           % (len(out), len(lines), p.returncode, p.stderr[-2000:]))
    return out


def harness(binary, stream, timeout=3600, **kw):
    args = [binary, stream] + ["%s=%s" % (k, v) for k, v in kw.items()]
    p = subprocess.run(args, capture_output=True, text=True, errors="replace", timeout=timeout, cwd=REPO, env=GOENV)
    if p.returncode != 0:
        raise RuntimeError("harness %s failed rc=%s: %s ... %s" % (stream, p.returncode, p.stderr[:1500], p.stderr[-2500:]))
    rows = []
    for l in p.stdout.split("\n"):
        if l:
            rows.append(l.split("\t"))
    return rows


def load_known():
    path = os.path.join(VERIF, "known_findings.json")
    if not os.path.exists(path):
        return {"findings": [], "fixed": []}
    return json.load(open(path))


def default_class(r):
    v = r[2] if len(r) > 2 else ""
    return re.sub(r"[0-9]+", "N", v)[:160]


def trim_go_cache(min_free_gb=12):
    """Last resort only: when the disk is critically low, reset the Go build cache with
    `go clean -cache` (deleting individual cache files by hand corrupts concurrent builds).
    The labs keep their throw-away packages in a bounded cache of their own (docs/LAB.md)."""
    try:
        import shutil
        if shutil.disk_usage("/").free > min_free_gb * (1 << 30):
            return
        subprocess.run(["go", "clean", "-cache"], cwd=REPO, env=GOENV, capture_output=True, timeout=600)
    except Exception:
        pass


class Check:
    def __init__(self, pid, level="proof"):
        trim_go_cache()
        self.pid = pid
        self.level = level
        self.t0 = time.time()
        self.tier = os.environ.get("VERIF_TIER", "quick")
        for i, a in enumerate(sys.argv):
            if a == "--tier" and i + 1 < len(sys.argv):
                self.tier = sys.argv[i + 1]
        if self.tier not in ("quick", "thorough"):
            self.tier = "quick"
        try:
            self.seed = int(os.environ.get("VERIF_SEED", "1"))
        except ValueError:
            self.seed = 1
        self.replay = None
        for i, a in enumerate(sys.argv):
            if a == "--replay" and i + 1 < len(sys.argv):
                self.replay = sys.argv[i + 1]
        self.obligations = []      # (name, ok, detail)
        self.violation_lines = []
        self.known_lines = []
        self.cov = {"evaluations": 0, "distinct_nontrivial": 0, "samples": [], "streams": {},
                    "disagreements_checked": 0, "oracle_failures": 0}
        self.assumptions = []
        self.trusted = []
        self.distinct = set()
        self.known = [f for f in load_known().get("findings", []) if f.get("property") == pid]
        self.known_hit = {}
        os.makedirs(os.path.join(VERIF, "replays"), exist_ok=True)
        os.makedirs(os.path.join(VERIF, "evidence"), exist_ok=True)

    # ---------- obligations ----------
    def oblige(self, name, ok, detail=""):
        self.obligations.append((name, bool(ok), detail))
        if not ok:
            log("obligation FAILED:", name, str(detail)[:2000])

    def lean_obligations(self, theorems, imports=None, targets=None):
        """Builds only what this property needs (its Props module, extra targets, the driver), so
        that a broken module of another property cannot mask this one."""
        imports = imports or ("Cog.Props.%s" % self.pid,)
        targets = tuple(targets) if targets else tuple(imports) + ("drv",)
        ok, out = lake_build(targets)
        self.oblige("lake build " + " ".join(targets), ok, out[-3000:] if not ok else "")
        hits = forbidden_scan(list(imports) + ["Main"])
        self.oblige("no sorry/admit/axiom/native_decide/bv_decide/implemented_by/unsafe in lean sources", not hits, hits[:10])
        if not ok:
            for t in theorems:
                self.oblige("theorem " + t, False, "build failed")
            return False
        res, text = audit(theorems, imports)
        for t in theorems:
            o, ax = res[t]
            self.oblige("theorem %s (axioms: %s)" % (t, ",".join(ax) or "none"), o, text[-1500:] if not o else "")
        return all(res[t][0] for t in theorems)

    def failed_obligations(self):
        return [o for o in self.obligations if not o[1]]

    # ---------- replay / violation ----------
    def write_replay(self, payload):
        blob = json.dumps(payload, indent=1, sort_keys=True)
        h = hashlib.sha1(blob.encode()).hexdigest()[:12]
        path = os.path.join(VERIF, "replays", "%s-%s.json" % (self.pid, h))
        with open(path, "w") as fh:
            fh.write(blob)
        return path

    def violation(self, payload, found_input=True):
        payload = dict(payload, property=self.pid, tier=self.tier, seed=self.seed)
        path = self.write_replay(payload)
        line = "VIOLATION property=%s replay=%s" % (self.pid, path)
        if not found_input:
            line += " no-failing-input-found"
        if line not in self.violation_lines:
            self.violation_lines.append(line)

    def match_known(self, case_text, what=""):
        """A failure is covered by a known finding iff the finding's regex matches the
        (shrunk) failing case description. Returns the finding or None."""
        for f in self.known:
            if re.search(f["match"], case_text, re.S):
                self.known_hit.setdefault(f["id"], 0)
                self.known_hit[f["id"]] += 1
                return f
        return None

    # ---------- coverage ----------
    def count(self, stream, n_eval, keys_nontrivial, samples=()):
        self.cov["evaluations"] += n_eval
        for k in keys_nontrivial:
            self.distinct.add(hashlib.sha1(k.encode()).digest()[:10])
        s = self.cov["streams"].setdefault(stream, {"evaluations": 0})
        s["evaluations"] += n_eval
        for x in samples:
            if len(self.cov["samples"]) < 12:
                self.cov["samples"].append(x)

    # ---------- correspondence ----------
    def correspond(self, binary, stream, nontrivial=None, classify=None, shrink=None, reconcile=None, rows=None, **kw):
        """rows from the harness: request \t impl reply \t oracle verdict.
        Disagreement (model != impl) => the model no longer describes the code => search:
        any oracle FAIL in this run is the concrete failing input; otherwise
        no-failing-input-found."""
        if rows is None:
            try:
                rows = harness(binary, stream, **kw)
            except (RuntimeError, subprocess.TimeoutExpired) as e:
                # the implementation crashed fatally (stack overflow, runtime throw) or hung inside
                # this stream: the stream arguments reproduce it deterministically
                msg = str(e)
                m = re.search(r"(fatal error: [^\n]*|panic: [^\n]*|timed out[^\n]*)", msg)
                self.violation({"kind": "stream-crashed", "stream": stream, "args": kw,
                                "how_to_replay": "cd %s && %s %s %s" % (REPO, binary, stream, " ".join("%s=%s" % i for i in kw.items())),
                                "error": (m.group(1) if m else msg[:300]), "detail": msg[-1500:]})
                self.cov["streams"].setdefault(stream, {"evaluations": 0})["crashed"] = True
                return [], [], []
        reqs = [r[0] for r in rows if r[0] != "-"]
        replies = drv(reqs) if reqs else []
        it = iter(replies)
        dis, fails = [], []
        for r in rows:
            if r[0] != "-":
                m = next(it)
                impl = r[1]
                if reconcile:
                    # canonicalise both replies (e.g. JSON key order / number spelling); a model
                    # reply outside its fragment may be reconciled to agreement and is counted
                    impl, m = reconcile(r[0], impl, m)
                if m != impl:
                    dis.append((r, m))
            if len(r) > 2 and r[2].startswith("FAIL"):
                fails.append(r)
        nt = [r[0] + "|" + r[1] for r in rows if (nontrivial(r) if nontrivial else True)]
        self.count(stream, len(rows), nt, samples=[{"stream": stream, "request": r[0][:400], "impl": r[1][:400], "oracle": r[2][:200] if len(r) > 2 else ""} for r in rows[:: max(1, len(rows) // 3)][:3]])
        self.cov["disagreements_checked"] += len(reqs)
        self.cov["oracle_failures"] += len(fails)
        st = self.cov["streams"][stream]
        st["disagreements"] = st.get("disagreements", 0) + len(dis)
        st["oracle_failures"] = st.get("oracle_failures", 0) + len(fails)
        reported = 0
        seen_classes = {}
        for r in fails:
            cls = classify(r) if classify else default_class(r)
            if cls in seen_classes:
                if seen_classes[cls]:
                    self.known_hit[seen_classes[cls]] += 1
                continue
            if len(seen_classes) >= 40:
                continue
            if shrink:
                r = shrink(r)
            case = r[0] + "\t" + (r[2] if len(r) > 2 else "")
            kf = self.match_known(case)
            seen_classes[cls] = kf["id"] if kf else None
            if kf:
                continue
            if reported < 5:
                self.violation({"kind": "oracle-failure", "stream": stream, "args": kw, "request": r[0], "impl": r[1], "oracle": r[2], "class": cls})
                reported += 1
        if dis and not reported:
            r, m = dis[0]
            unexplained = [d for d in dis if not self.match_known(d[0][0] + "\t" + (d[0][2] if len(d[0]) > 2 else ""))]
            if unexplained:
                r, m = unexplained[0]
                self.violation({"kind": "correspondence-broken", "stream": stream, "args": kw,
                                "broken": "correspondence stream %s: model reply differs from implementation" % stream,
                                "request": r[0], "impl": r[1], "model": m, "oracle": r[2] if len(r) > 2 else "",
                                "n_disagreements": len(dis)}, found_input=False)
        return rows, dis, fails

    # ---------- finish ----------
    def finish(self, checker_cmd, rule, explanation=""):
        failed = self.failed_obligations()
        if failed and not self.violation_lines:
            self.violation({"kind": "obligation-broken", "broken": [f[0] for f in failed],
                            "detail": [str(f[2])[:3000] for f in failed]}, found_input=False)
        for f in self.known:
            if self.known_hit.get(f["id"]):
                self.known_lines.append("KNOWN-FINDING: property=%s %s [%s]" % (self.pid, f["what"], f["id"]))
        self.cov["distinct_nontrivial"] = len(self.distinct)
        self.cov["rule"] = rule
        self.cov["obligations"] = len(self.obligations)
        self.cov["discharged"] = len([o for o in self.obligations if o[1]])
        self.cov["obligation_list"] = [{"name": o[0], "ok": o[1]} for o in self.obligations]
        self.cov["checker_cmd"] = checker_cmd
        self.cov["trusted_base"] = self.trusted
        self.cov["known_findings_hit"] = self.known_hit
        if explanation:
            self.cov["explanation"] = explanation
        if not self.cov["samples"]:
            self.cov["samples"] = [o[0] for o in self.obligations[:5]]
        ev = {"property_id": self.pid, "tier": self.tier, "seed": self.seed, "level": self.level,
              "coverage": self.cov, "assumptions": self.assumptions,
              "wall_s": round(time.time() - self.t0, 2), "violations": len(self.violation_lines)}
        with open(os.path.join(VERIF, "evidence", self.pid + ".json"), "w") as fh:
            json.dump(ev, fh, indent=1)
        for l in self.known_lines:
            print(l)
        for l in self.violation_lines:
            print(l)
        print("%s %s tier=%s seed=%d evaluations=%d obligations=%d/%d wall=%.1fs" % (
            self.pid, "VIOLATED" if self.violation_lines else "ok", self.tier, self.seed,
            self.cov["evaluations"], self.cov["discharged"], self.cov["obligations"], time.time() - self.t0))
        sys.exit(1 if self.violation_lines else 0)
