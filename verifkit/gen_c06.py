"""C06 facts: regenerate lean/Cog/Gen/Chains.lean (per-language CompilerPasses() lists) from /repo."""
import os
from verifkit.core import VERIF, REPO, LEAN, WORK, build_go, run, GOENV

CHAINS_JSON = os.path.join(WORK, "c06_chains.json")


def regen():
    binary, err = build_go("xchains", "extract/xchains")
    if binary is None:
        return False, "xchains does not build: " + err[-2000:]
    gen = os.path.join(LEAN, "Cog", "Gen")
    os.makedirs(gen, exist_ok=True)
    out = os.path.join(gen, "Chains.lean")
    tmp = out + ".tmp%d" % os.getpid()
    p = run([binary, "-lean", tmp, "-json", CHAINS_JSON, REPO], env=GOENV)
    if p.returncode != 0:
        if os.path.exists(tmp):
            os.remove(tmp)
        return False, "xchains refused: " + (p.stderr or p.stdout)[-2000:]
    new = open(tmp).read()
    old = open(out).read() if os.path.exists(out) else None
    if new != old:
        os.replace(tmp, out)   # content-hash based rebuild: only touch when it changed
    else:
        os.remove(tmp)
    return True, "Chains.lean %s" % ("unchanged" if new == old else "rewritten")
