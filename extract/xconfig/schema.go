package main

import (
	"encoding/json"
	"os"
	"sort"
	"strings"
)

// The JSON Schema subset that schemas/*.json use (draft 2020-12, produced by
// invopop/jsonschema):
//   root      : {$schema, $id, $ref: "#/$defs/N", $defs: {N: node…}}
//   node      : true | false
//             | {$ref: "#/$defs/N" [, description]}
//             | {[description]}                                   -- no constraint
//             | {type: string|boolean|integer|number [, description]}
//             | {type: array [, items: node] [, description]}
//             | {type: object [, properties: {k: node}] [, additionalProperties: node] [, description]}
// Anything else (required, enum, oneOf, patternProperties, if/then, $anchor, a node with
// `properties` but no `type: object`, …) makes the extractor refuse.

type schemaDoc struct {
	names []string
	index map[string]int
	defs  []pty
	root  int
	keys  map[string]bool
}

func parseSchema(path string) *schemaDoc {
	raw, err := os.ReadFile(path)
	if err != nil {
		refuse("read %s: %v", path, err)
	}
	var top map[string]json.RawMessage
	if err := json.Unmarshal(raw, &top); err != nil {
		refuse("%s: %v", path, err)
	}
	for k := range top {
		switch k {
		case "$schema", "$id", "$ref", "$defs":
		default:
			refuse("%s: unknown root keyword %q", path, k)
		}
	}
	var schemaURI string
	_ = json.Unmarshal(top["$schema"], &schemaURI)
	if schemaURI != "https://json-schema.org/draft/2020-12/schema" {
		refuse("%s: unexpected $schema %q", path, schemaURI)
	}
	var defs map[string]json.RawMessage
	if err := json.Unmarshal(top["$defs"], &defs); err != nil {
		refuse("%s: $defs: %v", path, err)
	}
	sd := &schemaDoc{index: map[string]int{}, keys: map[string]bool{}}
	for n := range defs {
		sd.names = append(sd.names, n)
	}
	sort.Strings(sd.names)
	for i, n := range sd.names {
		sd.index[n] = i
	}
	for _, n := range sd.names {
		sd.defs = append(sd.defs, sd.node(path+"#/$defs/"+n, defs[n]))
	}
	var rootRef string
	if err := json.Unmarshal(top["$ref"], &rootRef); err != nil {
		refuse("%s: root $ref: %v", path, err)
	}
	sd.root = sd.ref(path, rootRef)
	return sd
}

func (sd *schemaDoc) ref(where, r string) int {
	const p = "#/$defs/"
	if !strings.HasPrefix(r, p) {
		refuse("%s: unsupported $ref %q", where, r)
	}
	i, ok := sd.index[r[len(p):]]
	if !ok {
		refuse("%s: dangling $ref %q", where, r)
	}
	return i
}

func (sd *schemaDoc) node(where string, raw json.RawMessage) pty {
	var b bool
	if err := json.Unmarshal(raw, &b); err == nil {
		if b {
			return pty{K: "top"}
		}
		return pty{K: "bot"}
	}
	var m map[string]json.RawMessage
	if err := json.Unmarshal(raw, &m); err != nil {
		refuse("%s: neither boolean nor object schema", where)
	}
	delete(m, "description")
	if r, ok := m["$ref"]; ok {
		if len(m) != 1 {
			refuse("%s: $ref with sibling keywords", where)
		}
		var s string
		if err := json.Unmarshal(r, &s); err != nil {
			refuse("%s: $ref: %v", where, err)
		}
		return pty{K: "ref", Ref: sd.ref(where, s)}
	}
	if len(m) == 0 {
		return pty{K: "top"}
	}
	var ty string
	if err := json.Unmarshal(m["type"], &ty); err != nil {
		refuse("%s: node without a single string `type` (keywords: %v)", where, keysOf(m))
	}
	delete(m, "type")
	switch ty {
	case "string", "boolean", "integer", "number":
		if len(m) != 0 {
			refuse("%s: scalar node with extra keywords %v", where, keysOf(m))
		}
		return pty{K: "scalar", Ty: ty}
	case "array":
		out := pty{K: "arr", Items: &pty{K: "top"}}
		if it, ok := m["items"]; ok {
			n := sd.node(where+"/items", it)
			out.Items = &n
			delete(m, "items")
		}
		if len(m) != 0 {
			refuse("%s: array node with extra keywords %v", where, keysOf(m))
		}
		return out
	case "object":
		out := pty{K: "obj", Addl: &pty{K: "top"}}
		if pr, ok := m["properties"]; ok {
			var props map[string]json.RawMessage
			if err := json.Unmarshal(pr, &props); err != nil {
				refuse("%s: properties: %v", where, err)
			}
			names := keysOf(props)
			for _, k := range names {
				sd.keys[k] = true
				out.Props = append(out.Props, pprop{Key: k, Ty: sd.node(where+"/properties/"+k, props[k])})
			}
			delete(m, "properties")
		}
		if ap, ok := m["additionalProperties"]; ok {
			n := sd.node(where+"/additionalProperties", ap)
			out.Addl = &n
			delete(m, "additionalProperties")
		}
		if len(m) != 0 {
			refuse("%s: object node with extra keywords %v", where, keysOf(m))
		}
		return out
	}
	refuse("%s: unsupported type %q", where, ty)
	return pty{}
}

func keysOf[V any](m map[string]V) []string {
	out := make([]string, 0, len(m))
	for k := range m {
		out = append(out, k)
	}
	sort.Strings(out)
	return out
}

// matchHint proposes, for every published definition, the loader type expression it should be
// bisimilar to, by walking both trees from the roots in parallel. It is only a HINT: the Lean
// side re-checks it completely (Cog.Config.bisimCheck); a wrong or missing hint can only make
// that check fail, never succeed wrongly.
func matchHint(lenv []ldef, lroot int, sd *schemaDoc) []*lty {
	rof := make([]*lty, len(sd.defs))
	type pair struct {
		l lty
		p pty
	}
	var todo []pair
	todo = append(todo, pair{lty{K: "ref", Ref: lroot}, pty{K: "ref", Ref: sd.root}})
	for len(todo) > 0 {
		x := todo[0]
		todo = todo[1:]
		switch x.p.K {
		case "ref":
			if rof[x.p.Ref] == nil {
				l := x.l
				rof[x.p.Ref] = &l
				todo = append(todo, pair{x.l, sd.defs[x.p.Ref]})
			}
		case "arr":
			if x.l.K == "list" {
				todo = append(todo, pair{*x.l.Elem, *x.p.Items})
			}
		case "obj":
			switch x.l.K {
			case "fmap":
				todo = append(todo, pair{*x.l.Elem, *x.p.Addl})
			case "ref":
				d := lenv[x.l.Ref]
				for _, f := range d.Fields {
					for _, pp := range x.p.Props {
						if pp.Key == f.Key {
							todo = append(todo, pair{f.Ty, pp.Ty})
						}
					}
				}
				if d.InlineMap != nil {
					todo = append(todo, pair{*d.InlineMap, *x.p.Addl})
				}
			}
		}
	}
	return rof
}
