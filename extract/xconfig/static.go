package main

import (
	"encoding"
	"reflect"
	"sort"
	"strings"

	"gopkg.in/yaml.v3"
)

// Static view of a struct as yaml.v3 sees it (yaml.go:getStructInfo of v3.0.1):
//   - unexported non-embedded fields are skipped;
//   - the tag is `yaml:"…"`; a tag string without any ':' is taken whole;
//   - tag "-" skips the field; flags omitempty|flow|inline, any other flag is an error;
//   - ",inline" on a struct (or pointer to struct) flattens its fields, on a map[string]T makes
//     the struct accept every other key;
//   - the key is the tag name, else strings.ToLower(field name) (also for embedded structs
//     without ",inline": they are ordinary fields).
// This file must agree with measurement (measure.go) or the extractor refuses.

var (
	yamlUnmarshaler = reflect.TypeOf((*yaml.Unmarshaler)(nil)).Elem()
	textUnmarshaler = reflect.TypeOf((*encoding.TextUnmarshaler)(nil)).Elem()
	// yaml.v3 also honours the v2-style interface `UnmarshalYAML(func(interface{}) error) error`
	obsoleteUnmarshaler = reflect.TypeOf((*interface {
		UnmarshalYAML(func(interface{}) error) error
	})(nil)).Elem()
)

type walker struct {
	opaque    map[int]bool // defs whose type has a custom unmarshaller (not measured, `.any` in the model)
	defs      []ldef
	types     []reflect.Type
	index     map[reflect.Type]int
	fieldKeys map[reflect.Type]map[string]string // Go field name -> yaml key (direct fields only)
}

func newWalker() *walker {
	return &walker{index: map[reflect.Type]int{}, fieldKeys: map[reflect.Type]map[string]string{}, opaque: map[int]bool{}}
}

func typeName(t reflect.Type) string {
	if t.Name() == "" {
		return "anon:" + t.String()
	}
	parts := strings.Split(t.PkgPath(), "/")
	return parts[len(parts)-1] + "." + t.Name()
}

func customDecoding(t reflect.Type) bool {
	for _, x := range []reflect.Type{t, reflect.PointerTo(t)} {
		if x.Implements(yamlUnmarshaler) || x.Implements(textUnmarshaler) || x.Implements(obsoleteUnmarshaler) {
			return true
		}
	}
	return false
}

// def returns the index of struct type t in the environment, walking it on first sight.
func (w *walker) def(t reflect.Type) int {
	if i, ok := w.index[t]; ok {
		return i
	}
	if t.Kind() != reflect.Struct {
		refuse("def on non-struct %s", t)
	}
	custom := customDecoding(t)
	if custom && len(w.defs) == 0 {
		refuse("root type %s has a custom YAML/text unmarshaller", t)
	}
	if t.PkgPath() == "time" {
		refuse("time.%s is special-cased by yaml.v3", t.Name())
	}
	i := len(w.defs)
	w.index[t] = i
	w.defs = append(w.defs, ldef{Name: typeName(t)})
	w.types = append(w.types, t)
	if custom {
		// What this type accepts is decided by its UnmarshalYAML/UnmarshalText, not by the struct:
		// yaml.v3 hands the node over (and a nested node.Decode does NOT inherit KnownFields).
		// The model sees `.any` (so the bisimilarity obligation fails against a closed published
		// object); the fields are still walked so that the harness can build documents for it.
		w.opaque[i] = true
		softRefuse("type %s has a custom YAML/text unmarshaller: its keys cannot be read off the struct (modelled as free-form `any`)", t)
	}
	fields, inl, direct := w.structInfo(t, map[reflect.Type]bool{})
	sort.Slice(fields, func(a, b int) bool { return fields[a].Key < fields[b].Key })
	w.defs[i].Fields = fields
	w.defs[i].InlineMap = inl
	w.fieldKeys[t] = direct
	return i
}

func (w *walker) structInfo(t reflect.Type, inlining map[reflect.Type]bool) ([]lfield, *lty, map[string]string) {
	if inlining[t] {
		refuse("recursive ,inline through %s", t)
	}
	inlining[t] = true
	defer delete(inlining, t)
	var fields []lfield
	var inlineMap *lty
	direct := map[string]string{}
	seen := map[string]bool{}
	add := func(f lfield) {
		if seen[f.Key] {
			refuse("duplicated key %q in struct %s (yaml.v3 would fail at decode time)", f.Key, t)
		}
		seen[f.Key] = true
		fields = append(fields, f)
	}
	for i := 0; i < t.NumField(); i++ {
		f := t.Field(i)
		if f.PkgPath != "" && !f.Anonymous {
			continue
		}
		tag := f.Tag.Get("yaml")
		if tag == "" && !strings.Contains(string(f.Tag), ":") {
			tag = string(f.Tag)
		}
		if tag == "-" {
			continue
		}
		inline := false
		parts := strings.Split(tag, ",")
		if len(parts) > 1 {
			for _, flag := range parts[1:] {
				switch flag {
				case "omitempty", "flow":
				case "inline":
					inline = true
				default:
					refuse("unsupported yaml flag %q on %s.%s", flag, t, f.Name)
				}
			}
			tag = parts[0]
		}
		if inline {
			ft := f.Type
			switch ft.Kind() {
			case reflect.Map:
				if inlineMap != nil || ft.Key().Kind() != reflect.String {
					refuse("unsupported ,inline map on %s.%s", t, f.Name)
				}
				e := w.ty(ft.Elem())
				inlineMap = &e
			case reflect.Struct, reflect.Ptr:
				for ft.Kind() == reflect.Ptr {
					ft = ft.Elem()
				}
				if ft.Kind() != reflect.Struct {
					refuse(",inline on non-struct %s.%s", t, f.Name)
				}
				if customDecoding(ft) {
					refuse(",inline of a type with custom unmarshaller %s.%s", t, f.Name)
				}
				sub, subInline, _ := w.structInfo(ft, inlining)
				if subInline != nil {
					refuse(",inline map inside inlined struct %s.%s", t, f.Name)
				}
				for _, sf := range sub {
					add(sf)
				}
			default:
				refuse(",inline on %s.%s of kind %s", t, f.Name, ft.Kind())
			}
			continue
		}
		if f.PkgPath != "" {
			// embedded unexported struct without ,inline: yaml.v3 registers it as a field and
			// then fails to set it; no cog config struct does this
			refuse("embedded unexported field %s.%s without ,inline", t, f.Name)
		}
		key := tag
		if key == "" {
			key = strings.ToLower(f.Name)
		}
		direct[f.Name] = key
		add(lfield{Key: key, Ty: w.ty(f.Type)})
	}
	return fields, inlineMap, direct
}

// ty maps a Go type in field position to the model's type expression.
func (w *walker) ty(t reflect.Type) lty {
	if t.Kind() != reflect.Struct && t.Kind() != reflect.Ptr && customDecoding(t) {
		refuse("type %s has a custom YAML/text unmarshaller", t)
	}
	switch t.Kind() {
	case reflect.Ptr:
		return w.ty(t.Elem())
	case reflect.Struct:
		d := w.def(t)
		if w.opaque[d] {
			return lty{K: "opaque", Ref: d}
		}
		return lty{K: "ref", Ref: d}
	case reflect.Slice, reflect.Array:
		if t.Elem().Kind() == reflect.Uint8 {
			refuse("byte slices are decoded from !!binary scalars; not modelled (%s)", t)
		}
		e := w.ty(t.Elem())
		return lty{K: "list", Elem: &e}
	case reflect.Map:
		if t.Key().Kind() != reflect.String {
			refuse("map with non-string keys %s", t)
		}
		e := w.ty(t.Elem())
		return lty{K: "fmap", Elem: &e}
	case reflect.Interface:
		if t.NumMethod() != 0 {
			refuse("non-empty interface %s cannot be decoded by yaml.v3", t)
		}
		return lty{K: "any"}
	case reflect.Bool:
		return lty{K: "scalar", Go: "bool"}
	case reflect.Int, reflect.Int8, reflect.Int16, reflect.Int32, reflect.Int64:
		return lty{K: "scalar", Go: "int"}
	case reflect.Uint, reflect.Uint8, reflect.Uint16, reflect.Uint32, reflect.Uint64:
		return lty{K: "scalar", Go: "uint"}
	case reflect.Float32, reflect.Float64:
		return lty{K: "scalar", Go: "float"}
	case reflect.String:
		return lty{K: "scalar", Go: "string"}
	}
	refuse("unsupported kind %s (%s)", t.Kind(), t)
	return lty{}
}
