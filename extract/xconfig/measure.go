package main

import (
	"bytes"
	"reflect"
	"sort"
	"strings"

	"gopkg.in/yaml.v3"
)

// Measurement: which keys does yaml.v3 itself accept for struct type T under
// KnownFields(true)?  For every candidate key k the document `k: null` is decoded into a
// fresh T: a null decodes into every Go type, so the only possible error is
// "field k not found in type T".  Candidates: the statically computed keys, every Go field
// name (verbatim, lower-cased, and its json tag name) of T and of the structs it inlines,
// every key that occurs anywhere in the three published schemas, and a sentinel that must be
// rejected.  The measured set must equal the static set.

const sentinel = "zz_verif_unknown_key"

func candidateNames(t reflect.Type, into map[string]bool, depth int) {
	if depth > 6 {
		return
	}
	for i := 0; i < t.NumField(); i++ {
		f := t.Field(i)
		into[f.Name] = true
		into[strings.ToLower(f.Name)] = true
		if j := strings.Split(f.Tag.Get("json"), ",")[0]; j != "" && j != "-" {
			into[j] = true
		}
		if y := strings.Split(f.Tag.Get("yaml"), ",")[0]; y != "" && y != "-" {
			into[y] = true
		}
		ft := f.Type
		for ft.Kind() == reflect.Ptr {
			ft = ft.Elem()
		}
		if ft.Kind() == reflect.Struct && f.Anonymous {
			candidateNames(ft, into, depth+1)
		}
	}
}

func probe(t reflect.Type, key string) (accepted bool) {
	doc, err := yaml.Marshal(map[string]any{key: nil})
	if err != nil {
		refuse("cannot render probe for key %q: %v", key, err)
	}
	dec := yaml.NewDecoder(bytes.NewReader(doc))
	dec.KnownFields(true)
	target := reflect.New(t)
	err = dec.Decode(target.Interface())
	if err == nil {
		return true
	}
	if strings.Contains(err.Error(), "field "+key+" not found in type") {
		return false
	}
	refuse("probe %q into %s: unexpected error %v", key, t, err)
	return false
}

func (w *walker) measureAll(schemaKeys map[string]bool) int {
	n := 0
	for i := 0; i < len(w.types); i++ {
		t := w.types[i]
		if w.opaque[i] {
			continue // probes would run the custom unmarshaller, not yaml.v3's struct decoding
		}
		cands := map[string]bool{sentinel: true}
		for k := range schemaKeys {
			cands[k] = true
		}
		for _, f := range w.defs[i].Fields {
			cands[f.Key] = true
		}
		candidateNames(t, cands, 0)
		var measured []string
		for k := range cands {
			n++
			if probe(t, k) {
				measured = append(measured, k)
			}
		}
		sort.Strings(measured)
		var static []string
		for _, f := range w.defs[i].Fields {
			static = append(static, f.Key)
		}
		sort.Strings(static)
		if w.defs[i].InlineMap != nil {
			// open struct: every candidate is accepted, the sentinel included
			if !probe(t, sentinel) {
				refuse("%s has an inline map but rejects an unknown key", t)
			}
			continue
		}
		if strings.Join(measured, ",") != strings.Join(static, ",") {
			refuse("static and measured key sets of %s differ:\n static   %v\n measured %v", t, static, measured)
		}
	}
	return n
}
