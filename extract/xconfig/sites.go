package main

import (
	"fmt"
	"go/ast"
	"go/parser"
	"go/token"
	"io/fs"
	"path/filepath"
	"sort"
	"strconv"
	"strings"
)

const yamlImport = "gopkg.in/yaml.v3"

func funcName(fd *ast.FuncDecl) string {
	if fd.Recv == nil || len(fd.Recv.List) == 0 {
		return fd.Name.Name
	}
	t := fd.Recv.List[0].Type
	if s, ok := t.(*ast.StarExpr); ok {
		t = s.X
	}
	if id, ok := t.(*ast.Ident); ok {
		return id.Name + "." + fd.Name.Name
	}
	return "?." + fd.Name.Name
}

func exprString(e ast.Expr) string {
	switch x := e.(type) {
	case *ast.Ident:
		return x.Name
	case *ast.UnaryExpr:
		return x.Op.String() + exprString(x.X)
	case *ast.SelectorExpr:
		return exprString(x.X) + "." + x.Sel.Name
	case *ast.StarExpr:
		return "*" + exprString(x.X)
	}
	return "?"
}

// decoderSites lists every place in cog's non-test code (internal/, cmd/) where yaml.v3 decodes
// a document, with whether the decoder is strict (`KnownFields(true)`) when `Decode` is called;
// every `yaml.Unmarshal(…)` (which has no strict mode) is a non-strict site.
//
// A decoder value is followed through
//   - one or more local variables (`d := yaml.NewDecoder(r)`, `dec := d`),
//   - the single result of a same-package constructor helper (`func f(…) *yaml.Decoder`), whose
//     result is strict iff on every `return` the returned decoder is strict (a helper may call
//     another helper),
//   - a call chain `yaml.NewDecoder(r).Decode(x)` / `helper(r).Decode(x)`.
//
// A variable is strict at a `Decode` when it was born strict (strict helper) or
// `v.KnownFields(true)` is a statement of the function's top-level block located before it.
// Any other use of a decoder variable (argument of another call, stored in a field, captured
// by a closure that is passed around, …) is not understood: soft refusal + non-strict site.
//
// A site is attributed to a loader when the loader's function (looked up by name in the
// package directory of its source file) contains it or reaches it through same-package calls.
type srcFunc struct {
	file  string // relative to the repo
	dir   string
	alias string // name under which this file imports yaml.v3 ("" if it does not)
	decl  *ast.FuncDecl
	name  string
}

func decoderSites(repo string, sps []fileSpec) []site {
	fset := token.NewFileSet()
	byDir := map[string][]*srcFunc{}
	for _, top := range []string{"internal", "cmd"} {
		_ = filepath.WalkDir(filepath.Join(repo, top), func(path string, d fs.DirEntry, err error) error {
			if err != nil || d.IsDir() || !strings.HasSuffix(path, ".go") || strings.HasSuffix(path, "_test.go") {
				return nil
			}
			if strings.Contains(path, "/testdata/") {
				return nil
			}
			f, perr := parser.ParseFile(fset, path, nil, parser.SkipObjectResolution)
			if perr != nil {
				refuse("parse %s: %v", path, perr)
			}
			alias := ""
			for _, imp := range f.Imports {
				p, _ := strconv.Unquote(imp.Path.Value)
				if p == yamlImport {
					alias = "yaml"
					if imp.Name != nil {
						alias = imp.Name.Name
					}
				}
			}
			if alias == "_" {
				alias = ""
			}
			if alias == "." {
				refuse("%s dot-imports yaml.v3", path)
			}
			rel, _ := filepath.Rel(repo, path)
			dir := filepath.Dir(rel)
			for _, decl := range f.Decls {
				switch x := decl.(type) {
				case *ast.FuncDecl:
					if x.Body != nil {
						byDir[dir] = append(byDir[dir], &srcFunc{file: rel, dir: dir, alias: alias, decl: x, name: funcName(x)})
					}
				case *ast.GenDecl:
					if alias == "" {
						continue
					}
					// yaml decoding outside of a function body (package-level var) is not understood
					ast.Inspect(x, func(n ast.Node) bool {
						if isPkgCall(n, alias, "NewDecoder") || isPkgCall(n, alias, "Unmarshal") {
							refuse("%s: yaml decoding at package level", rel)
						}
						return true
					})
				}
			}
			return nil
		})
	}
	var sites []site
	var dirs []string
	for d := range byDir {
		dirs = append(dirs, d)
	}
	sort.Strings(dirs)
	siteFuncs := map[string]map[string]bool{} // dir -> functions holding a site
	for _, dir := range dirs {
		funcs := byDir[dir]
		usesYAML := false
		for _, f := range funcs {
			if f.alias != "" {
				usesYAML = true
			}
		}
		if !usesYAML {
			continue
		}
		// constructor helpers: fixed point on "the returned decoder is strict"
		helpers := map[string]bool{} // plain function name -> strict
		for _, f := range funcs {
			if f.decl.Recv == nil && f.alias != "" && returnsDecoder(f.decl, f.alias) {
				helpers[f.name] = false
			}
		}
		for round := 0; round <= len(helpers); round++ {
			changed := false
			for _, f := range funcs {
				if _, ok := helpers[f.name]; !ok || f.decl.Recv != nil {
					continue
				}
				a := analyseFunc(f, helpers, true)
				if a.returnsStrict != helpers[f.name] {
					helpers[f.name] = a.returnsStrict
					changed = true
				}
			}
			if !changed {
				break
			}
		}
		for _, f := range funcs {
			if f.alias == "" {
				continue
			}
			_, isHelper := helpers[f.name]
			a := analyseFunc(f, helpers, isHelper && f.decl.Recv == nil)
			for _, p := range a.problems {
				softRefuse("%s", p)
			}
			for _, s := range a.sites {
				sites = append(sites, s)
				if siteFuncs[dir] == nil {
					siteFuncs[dir] = map[string]bool{}
				}
				siteFuncs[dir][f.name] = true
			}
		}
	}
	sort.SliceStable(sites, func(a, b int) bool {
		if sites[a].File != sites[b].File {
			return sites[a].File < sites[b].File
		}
		return sites[a].Func < sites[b].Func
	})
	// attribution
	var attributed []site
	for _, sp := range sps {
		dir := filepath.Dir(sp.SrcFile)
		reach := reachable(byDir[dir], sp.SrcFunc)
		found := false
		for _, s := range sites {
			if filepath.Dir(s.File) == dir && reach[s.Func] {
				c := s
				c.Loader = sp.Name
				attributed = append(attributed, c)
				found = true
			}
		}
		if !found {
			softRefuse("no yaml decoding site is reached from %s (package %s) for the %s loader", sp.SrcFunc, dir, sp.Name)
		}
	}
	// sites that serve no loader are still listed (and must be strict)
	for _, s := range sites {
		served := false
		for _, a := range attributed {
			if a.File == s.File && a.Func == s.Func && a.Target == s.Target {
				served = true
			}
		}
		if !served {
			attributed = append(attributed, s)
		}
	}
	return attributed
}

// reachable: names of the functions of one package directory reachable from `from` through calls
// `g(…)` (plain functions) or `x.m(…)` (any method named m; over-approximation).
func reachable(funcs []*srcFunc, from string) map[string]bool {
	byName := map[string][]*srcFunc{}
	for _, f := range funcs {
		byName[f.name] = append(byName[f.name], f)
	}
	out := map[string]bool{}
	var visit func(name string)
	visit = func(name string) {
		if out[name] {
			return
		}
		fs, ok := byName[name]
		if !ok {
			return
		}
		out[name] = true
		for _, f := range fs {
			ast.Inspect(f.decl.Body, func(n ast.Node) bool {
				call, ok := n.(*ast.CallExpr)
				if !ok {
					return true
				}
				switch fun := call.Fun.(type) {
				case *ast.Ident:
					visit(fun.Name)
				case *ast.SelectorExpr:
					for other := range byName {
						if strings.HasSuffix(other, "."+fun.Sel.Name) {
							visit(other)
						}
					}
				}
				return true
			})
		}
	}
	visit(from)
	return out
}

func isPkgCall(n ast.Node, alias, fn string) bool {
	call, ok := n.(*ast.CallExpr)
	if !ok {
		return false
	}
	sel, ok := call.Fun.(*ast.SelectorExpr)
	if !ok || sel.Sel.Name != fn {
		return false
	}
	id, ok := sel.X.(*ast.Ident)
	return ok && id.Name == alias
}

// returnsDecoder: the function has exactly one result, of type *yaml.Decoder
func returnsDecoder(fd *ast.FuncDecl, alias string) bool {
	if fd.Type.Results == nil || len(fd.Type.Results.List) != 1 || len(fd.Type.Results.List[0].Names) > 1 {
		return false
	}
	star, ok := fd.Type.Results.List[0].Type.(*ast.StarExpr)
	if !ok {
		return false
	}
	sel, ok := star.X.(*ast.SelectorExpr)
	if !ok || sel.Sel.Name != "Decoder" {
		return false
	}
	id, ok := sel.X.(*ast.Ident)
	return ok && id.Name == alias
}

type funcAnalysis struct {
	sites         []site
	problems      []string
	returnsStrict bool // constructor helpers only
}

type decVar struct {
	born   token.Pos
	strict token.Pos // 0: not strict; 1: born strict (strict helper); else position of KnownFields(true)
	never  bool      // KnownFields was called with something else than the literal true
}

// helperCall: `h(…)` with h a constructor helper of this package
func helperCall(e ast.Expr, helpers map[string]bool) (strict, ok bool) {
	call, isCall := e.(*ast.CallExpr)
	if !isCall {
		return false, false
	}
	id, isIdent := call.Fun.(*ast.Ident)
	if !isIdent {
		return false, false
	}
	strict, ok = helpers[id.Name]
	return strict, ok
}

func analyseFunc(f *srcFunc, helpers map[string]bool, isHelper bool) funcAnalysis {
	var a funcAnalysis
	fd, alias, name := f.decl, f.alias, f.name
	problem := func(format string, args ...any) {
		a.problems = append(a.problems, f.file+":"+name+": "+fmt.Sprintf(format, args...))
	}
	nonStrict := func(target string) {
		a.sites = append(a.sites, site{File: f.file, Func: name, KnownFields: false, Target: target})
	}
	vars := map[string]*decVar{}
	allowed := map[token.Pos]bool{}      // identifier occurrences of decoder variables that are understood
	consumed := map[*ast.CallExpr]bool{} // constructor calls that are bound or chained
	// a decoder-producing expression: yaml.NewDecoder(…), helper(…), or a decoder variable
	produce := func(e ast.Expr) (*decVar, bool) {
		if isPkgCall(e, alias, "NewDecoder") {
			consumed[e.(*ast.CallExpr)] = true
			return &decVar{born: e.Pos()}, true
		}
		if strict, ok := helperCall(e, helpers); ok {
			consumed[e.(*ast.CallExpr)] = true
			d := &decVar{born: e.Pos()}
			if strict {
				d.strict = 1
			}
			return d, true
		}
		if id, ok := e.(*ast.Ident); ok {
			if d, ok := vars[id.Name]; ok {
				allowed[id.Pos()] = true
				return d, true // alias: shares the record
			}
		}
		return nil, false
	}
	bind := func(lhs ast.Expr, rhs ast.Expr) {
		d, ok := produce(rhs)
		if !ok {
			return
		}
		id, isIdent := lhs.(*ast.Ident)
		if !isIdent {
			problem("decoder assigned to a non-identifier")
			nonStrict("?")
			return
		}
		if old, dup := vars[id.Name]; dup && old != d {
			problem("decoder variable %s assigned twice", id.Name)
			nonStrict("?")
			return
		}
		vars[id.Name] = d
		allowed[id.Pos()] = true
	}
	// field names and composite-literal keys are not variable uses
	ast.Inspect(fd.Body, func(n ast.Node) bool {
		switch x := n.(type) {
		case *ast.SelectorExpr:
			allowed[x.Sel.Pos()] = true
		case *ast.KeyValueExpr:
			if id, ok := x.Key.(*ast.Ident); ok {
				allowed[id.Pos()] = true
			}
		}
		return true
	})
	// pass 1 (source order): bindings
	ast.Inspect(fd.Body, func(n ast.Node) bool {
		switch x := n.(type) {
		case *ast.AssignStmt:
			if len(x.Lhs) == len(x.Rhs) {
				for i := range x.Lhs {
					bind(x.Lhs[i], x.Rhs[i])
				}
			}
		case *ast.ValueSpec:
			if len(x.Names) == len(x.Values) {
				for i := range x.Names {
					bind(x.Names[i], x.Values[i])
				}
			}
		}
		return true
	})
	strictAt := func(d *decVar, pos token.Pos) bool {
		return !d.never && (d.strict == 1 || (d.strict != 0 && d.strict < pos))
	}
	// pass 2: KnownFields calls (before the uses are judged)
	ast.Inspect(fd.Body, func(n ast.Node) bool {
		call, ok := n.(*ast.CallExpr)
		if !ok {
			return true
		}
		sel, ok := call.Fun.(*ast.SelectorExpr)
		if !ok || sel.Sel.Name != "KnownFields" {
			return true
		}
		id, ok := sel.X.(*ast.Ident)
		if !ok {
			return true
		}
		d, ok := vars[id.Name]
		if !ok {
			return true
		}
		allowed[id.Pos()] = true
		lit, isLit := ast.Expr(nil), false
		if len(call.Args) == 1 {
			lit = call.Args[0]
			if l, ok := lit.(*ast.Ident); ok && l.Name == "true" {
				isLit = true
			}
		}
		switch {
		case !isLit:
			problem("KnownFields called with a non-literal or false argument")
			d.never = true
		case !strictUnconditional(fd, call.Pos()):
			// conditional strictness does not count (and is not an error by itself)
		case d.strict == 0:
			d.strict = call.Pos()
		}
		return true
	})
	// pass 3: uses
	ast.Inspect(fd.Body, func(n ast.Node) bool {
		switch x := n.(type) {
		case *ast.CallExpr:
			if isPkgCall(x, alias, "Unmarshal") {
				target := "?"
				if len(x.Args) == 2 {
					target = exprString(x.Args[1])
				}
				nonStrict("Unmarshal:" + target)
				return true
			}
			sel, ok := x.Fun.(*ast.SelectorExpr)
			if !ok {
				return true
			}
			var d *decVar
			if id, isIdent := sel.X.(*ast.Ident); isIdent {
				if v, ok := vars[id.Name]; ok {
					d = v
					allowed[id.Pos()] = true
				}
			} else if v, ok := produce(sel.X); ok {
				d = v // call chain: yaml.NewDecoder(r).Decode(x), helper(r).Decode(x)
			}
			if d == nil {
				return true
			}
			switch sel.Sel.Name {
			case "KnownFields":
			case "Decode":
				target := "?"
				if len(x.Args) == 1 {
					target = exprString(x.Args[0])
				}
				a.sites = append(a.sites, site{File: f.file, Func: name, KnownFields: strictAt(d, x.Pos()), Target: target})
			default:
				problem("unknown decoder method %s", sel.Sel.Name)
				nonStrict("?")
			}
		}
		return true
	})
	// constructor helpers: strict iff every return yields a decoder that is strict at that point
	if isHelper {
		a.returnsStrict = true
		any := false
		ast.Inspect(fd.Body, func(n ast.Node) bool {
			if _, isLit := n.(*ast.FuncLit); isLit {
				return false
			}
			ret, ok := n.(*ast.ReturnStmt)
			if !ok {
				return true
			}
			if len(ret.Results) != 1 {
				problem("constructor helper with a naked or multi-value return")
				a.returnsStrict = false
				return true
			}
			if id, isIdent := ret.Results[0].(*ast.Ident); isIdent && id.Name == "nil" {
				return true // a nil decoder cannot decode anything
			}
			d, ok := produce(ret.Results[0])
			any = true
			if !ok {
				problem("constructor helper returns something that is not followed")
				a.returnsStrict = false
				return true
			}
			if !strictAt(d, ret.Pos()) {
				a.returnsStrict = false
			}
			return true
		})
		if !any {
			a.returnsStrict = false
		}
	}
	// anything else done with a decoder: constructor calls that are neither bound nor chained,
	// decoder variables used outside of the understood positions
	ast.Inspect(fd.Body, func(n ast.Node) bool {
		switch x := n.(type) {
		case *ast.CallExpr:
			_, isH := helperCall(x, helpers)
			if (isPkgCall(x, alias, "NewDecoder") || isH) && !consumed[x] {
				problem("a decoder is constructed but not bound to a local variable, chained or returned")
				nonStrict("?")
			}
		case *ast.Ident:
			if _, ok := vars[x.Name]; ok && !allowed[x.Pos()] {
				problem("decoder variable %s is used in a way that is not followed (escapes?)", x.Name)
				nonStrict("?")
			}
		}
		return true
	})
	return a
}

// strictUnconditional: the KnownFields(true) call is a statement of the function's top-level
// block (not under an `if`/`for`/closure), so it is executed whenever what follows is reached.
func strictUnconditional(fd *ast.FuncDecl, pos token.Pos) bool {
	for _, st := range fd.Body.List {
		if es, ok := st.(*ast.ExprStmt); ok && es.X.Pos() <= pos && pos <= es.X.End() {
			return true
		}
	}
	return false
}

// unionArms reads the Go field names tested by a rule entry's As…() method. The only accepted
// shape is
//
//	func (r T) As…(…) (…, error) {
//	    if r.F1 != nil { …; return … }      (no else; body ends in a return)
//	    …
//	    return <zero>, fmt.Errorf("…") | errors.New("…")
//	}
func unionArms(path, fn string) []string {
	fset := token.NewFileSet()
	f, err := parser.ParseFile(fset, path, nil, parser.SkipObjectResolution)
	if err != nil {
		refuse("parse %s: %v", path, err)
	}
	bad := func(format string, a ...any) []string {
		softRefuse(format, a...)
		return nil
	}
	for _, decl := range f.Decls {
		fd, ok := decl.(*ast.FuncDecl)
		if !ok || fd.Body == nil || funcName(fd) != fn {
			continue
		}
		if fd.Recv == nil || len(fd.Recv.List[0].Names) != 1 {
			return bad("%s: receiver of %s is unnamed", path, fn)
		}
		recv := fd.Recv.List[0].Names[0].Name
		var fields []string
		n := len(fd.Body.List)
		if n == 0 {
			return bad("%s: %s has an empty body", path, fn)
		}
		for i, st := range fd.Body.List {
			if i == n-1 {
				ret, ok := st.(*ast.ReturnStmt)
				if !ok || len(ret.Results) != 2 {
					return bad("%s: %s does not end in `return x, err`", path, fn)
				}
				call, ok := ret.Results[1].(*ast.CallExpr)
				if !ok {
					return bad("%s: %s: final error is not a constructor call", path, fn)
				}
				s := exprString(call.Fun)
				if s != "fmt.Errorf" && s != "errors.New" {
					return bad("%s: %s: final error built by %s", path, fn, s)
				}
				break
			}
			ifs, ok := st.(*ast.IfStmt)
			if !ok || ifs.Init != nil || ifs.Else != nil {
				return bad("%s: %s: statement %d is not a plain `if`", path, fn, i)
			}
			be, ok := ifs.Cond.(*ast.BinaryExpr)
			if !ok || be.Op != token.NEQ || exprString(be.Y) != "nil" {
				return bad("%s: %s: condition %d is not `x.F != nil`", path, fn, i)
			}
			sel, ok := be.X.(*ast.SelectorExpr)
			if !ok || exprString(sel.X) != recv {
				return bad("%s: %s: condition %d does not test a receiver field", path, fn, i)
			}
			if len(ifs.Body.List) == 0 {
				return bad("%s: %s: arm %d is empty", path, fn, i)
			}
			if _, ok := ifs.Body.List[len(ifs.Body.List)-1].(*ast.ReturnStmt); !ok {
				return bad("%s: %s: arm %d does not end in a return", path, fn, i)
			}
			fields = append(fields, sel.Sel.Name)
		}
		return fields
	}
	return bad("%s: function %s not found", path, fn)
}
