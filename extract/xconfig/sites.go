package main

import (
	"go/ast"
	"go/parser"
	"go/token"
	"io/fs"
	"path/filepath"
	"sort"
	"strconv"
	"strings"
)

const yamlImport = "gopkg.in/yaml.v3"

func funcName(fd *ast.FuncDecl) string {
	if fd.Recv == nil || len(fd.Recv.List) == 0 {
		return fd.Name.Name
	}
	t := fd.Recv.List[0].Type
	if s, ok := t.(*ast.StarExpr); ok {
		t = s.X
	}
	if id, ok := t.(*ast.Ident); ok {
		return id.Name + "." + fd.Name.Name
	}
	return "?." + fd.Name.Name
}

func exprString(e ast.Expr) string {
	switch x := e.(type) {
	case *ast.Ident:
		return x.Name
	case *ast.UnaryExpr:
		return x.Op.String() + exprString(x.X)
	case *ast.SelectorExpr:
		return exprString(x.X) + "." + x.Sel.Name
	case *ast.StarExpr:
		return "*" + exprString(x.X)
	}
	return "?"
}

// decoderSites lists every place in cog's non-test code (internal/, cmd/) where yaml.v3 decodes
// a document: `d := yaml.NewDecoder(r)` … `d.Decode(x)`, with whether `d.KnownFields(true)`
// is called on the same variable in the same function before the Decode; and every
// `yaml.Unmarshal(…)` (which has no strict mode) as a non-strict site. Refuses on a decoder
// that is not bound to a plain local variable (its strictness could not be read off).
func decoderSites(repo string, sps []fileSpec) []site {
	var sites []site
	fset := token.NewFileSet()
	for _, top := range []string{"internal", "cmd"} {
		_ = filepath.WalkDir(filepath.Join(repo, top), func(path string, d fs.DirEntry, err error) error {
			if err != nil || d.IsDir() || !strings.HasSuffix(path, ".go") || strings.HasSuffix(path, "_test.go") {
				return nil
			}
			if strings.Contains(path, "/testdata/") {
				return nil
			}
			f, perr := parser.ParseFile(fset, path, nil, parser.SkipObjectResolution)
			if perr != nil {
				refuse("parse %s: %v", path, perr)
			}
			alias := ""
			for _, imp := range f.Imports {
				p, _ := strconv.Unquote(imp.Path.Value)
				if p == yamlImport {
					alias = "yaml"
					if imp.Name != nil {
						alias = imp.Name.Name
					}
				}
			}
			if alias == "" || alias == "_" {
				return nil
			}
			if alias == "." {
				refuse("%s dot-imports yaml.v3", path)
			}
			rel, _ := filepath.Rel(repo, path)
			for _, decl := range f.Decls {
				fd, ok := decl.(*ast.FuncDecl)
				if !ok || fd.Body == nil {
					continue
				}
				sites = append(sites, sitesIn(rel, fd, alias)...)
			}
			// yaml.NewDecoder outside of a function body (package-level var) is not understood
			for _, decl := range f.Decls {
				if gd, ok := decl.(*ast.GenDecl); ok {
					ast.Inspect(gd, func(n ast.Node) bool {
						if isPkgCall(n, alias, "NewDecoder") || isPkgCall(n, alias, "Unmarshal") {
							refuse("%s: yaml decoding at package level", rel)
						}
						return true
					})
				}
			}
			return nil
		})
	}
	sort.Slice(sites, func(a, b int) bool {
		if sites[a].File != sites[b].File {
			return sites[a].File < sites[b].File
		}
		return sites[a].Func < sites[b].Func
	})
	for _, sp := range sps {
		found := false
		for i := range sites {
			if sites[i].File == sp.SrcFile && sites[i].Func == sp.SrcFunc {
				sites[i].Loader = sp.Name
				found = true
			}
		}
		if !found {
			softRefuse("no yaml decoder construction site found in %s:%s for the %s loader", sp.SrcFile, sp.SrcFunc, sp.Name)
		}
	}
	return sites
}

func isPkgCall(n ast.Node, alias, fn string) bool {
	call, ok := n.(*ast.CallExpr)
	if !ok {
		return false
	}
	sel, ok := call.Fun.(*ast.SelectorExpr)
	if !ok || sel.Sel.Name != fn {
		return false
	}
	id, ok := sel.X.(*ast.Ident)
	return ok && id.Name == alias
}

func sitesIn(file string, fd *ast.FuncDecl, alias string) []site {
	var out []site
	name := funcName(fd)
	type decoder struct {
		pos    token.Pos
		strict token.Pos // position of KnownFields(true), 0 if none
	}
	decoders := map[string]*decoder{}
	bound := map[*ast.CallExpr]bool{}
	ast.Inspect(fd.Body, func(n ast.Node) bool {
		switch x := n.(type) {
		case *ast.AssignStmt:
			if len(x.Lhs) == 1 && len(x.Rhs) == 1 && isPkgCall(x.Rhs[0], alias, "NewDecoder") {
				id, ok := x.Lhs[0].(*ast.Ident)
				if !ok {
					softRefuse("%s:%s: decoder assigned to a non-identifier", file, name)
					out = append(out, site{File: file, Func: name, KnownFields: false, Target: "?"})
					return true
				}
				if _, dup := decoders[id.Name]; dup {
					softRefuse("%s:%s: decoder variable %s assigned twice", file, name, id.Name)
					out = append(out, site{File: file, Func: name, KnownFields: false, Target: "?"})
					return true
				}
				decoders[id.Name] = &decoder{pos: x.Pos()}
				bound[x.Rhs[0].(*ast.CallExpr)] = true
			}
		}
		return true
	})
	ast.Inspect(fd.Body, func(n ast.Node) bool {
		call, ok := n.(*ast.CallExpr)
		if !ok {
			return true
		}
		if isPkgCall(call, alias, "NewDecoder") && !bound[call] {
			softRefuse("%s:%s: yaml.NewDecoder result is not bound to a local variable", file, name)
			out = append(out, site{File: file, Func: name, KnownFields: false, Target: "?"})
			return true
		}
		if isPkgCall(call, alias, "Unmarshal") {
			target := "?"
			if len(call.Args) == 2 {
				target = exprString(call.Args[1])
			}
			out = append(out, site{File: file, Func: name, KnownFields: false, Target: "Unmarshal:" + target})
		}
		sel, ok := call.Fun.(*ast.SelectorExpr)
		if !ok {
			return true
		}
		id, ok := sel.X.(*ast.Ident)
		if !ok {
			return true
		}
		d, isDec := decoders[id.Name]
		if !isDec {
			return true
		}
		switch sel.Sel.Name {
		case "KnownFields":
			if len(call.Args) == 1 {
				if lit, ok := call.Args[0].(*ast.Ident); ok && lit.Name == "true" {
					if d.strict == 0 {
						d.strict = call.Pos()
					}
					return true
				}
			}
			softRefuse("%s:%s: KnownFields called with a non-literal or false argument", file, name)
		case "Decode":
			target := "?"
			if len(call.Args) == 1 {
				target = exprString(call.Args[0])
			}
			strict := d.strict != 0 && d.strict < call.Pos() && strictUnconditional(fd, d.strict)
			out = append(out, site{File: file, Func: name, KnownFields: strict, Target: target})
		default:
			softRefuse("%s:%s: unknown decoder method %s", file, name, sel.Sel.Name)
			out = append(out, site{File: file, Func: name, KnownFields: false, Target: "?"})
		}
		return true
	})
	for v := range decoders {
		used := false
		for _, s := range out {
			if s.Func == name {
				used = true
			}
		}
		if !used {
			softRefuse("%s:%s: decoder %s is never used with Decode in this function (escapes?)", file, name, v)
			out = append(out, site{File: file, Func: name, KnownFields: false, Target: "?"})
		}
	}
	return out
}

// strictUnconditional: the KnownFields(true) call is a statement of the function's top-level
// block (not under an `if`/`for`/closure), so it is executed whenever the Decode is reached.
func strictUnconditional(fd *ast.FuncDecl, pos token.Pos) bool {
	for _, st := range fd.Body.List {
		if es, ok := st.(*ast.ExprStmt); ok && es.X.Pos() <= pos && pos <= es.X.End() {
			return true
		}
	}
	return false
}

// unionArms reads the Go field names tested by a rule entry's As…() method. The only accepted
// shape is
//
//	func (r T) As…(…) (…, error) {
//	    if r.F1 != nil { …; return … }      (no else; body ends in a return)
//	    …
//	    return <zero>, fmt.Errorf("…") | errors.New("…")
//	}
func unionArms(path, fn string) []string {
	fset := token.NewFileSet()
	f, err := parser.ParseFile(fset, path, nil, parser.SkipObjectResolution)
	if err != nil {
		refuse("parse %s: %v", path, err)
	}
	bad := func(format string, a ...any) []string {
		softRefuse(format, a...)
		return nil
	}
	for _, decl := range f.Decls {
		fd, ok := decl.(*ast.FuncDecl)
		if !ok || fd.Body == nil || funcName(fd) != fn {
			continue
		}
		if fd.Recv == nil || len(fd.Recv.List[0].Names) != 1 {
			return bad("%s: receiver of %s is unnamed", path, fn)
		}
		recv := fd.Recv.List[0].Names[0].Name
		var fields []string
		n := len(fd.Body.List)
		if n == 0 {
			return bad("%s: %s has an empty body", path, fn)
		}
		for i, st := range fd.Body.List {
			if i == n-1 {
				ret, ok := st.(*ast.ReturnStmt)
				if !ok || len(ret.Results) != 2 {
					return bad("%s: %s does not end in `return x, err`", path, fn)
				}
				call, ok := ret.Results[1].(*ast.CallExpr)
				if !ok {
					return bad("%s: %s: final error is not a constructor call", path, fn)
				}
				s := exprString(call.Fun)
				if s != "fmt.Errorf" && s != "errors.New" {
					return bad("%s: %s: final error built by %s", path, fn, s)
				}
				break
			}
			ifs, ok := st.(*ast.IfStmt)
			if !ok || ifs.Init != nil || ifs.Else != nil {
				return bad("%s: %s: statement %d is not a plain `if`", path, fn, i)
			}
			be, ok := ifs.Cond.(*ast.BinaryExpr)
			if !ok || be.Op != token.NEQ || exprString(be.Y) != "nil" {
				return bad("%s: %s: condition %d is not `x.F != nil`", path, fn, i)
			}
			sel, ok := be.X.(*ast.SelectorExpr)
			if !ok || exprString(sel.X) != recv {
				return bad("%s: %s: condition %d does not test a receiver field", path, fn, i)
			}
			if len(ifs.Body.List) == 0 {
				return bad("%s: %s: arm %d is empty", path, fn, i)
			}
			if _, ok := ifs.Body.List[len(ifs.Body.List)-1].(*ast.ReturnStmt); !ok {
				return bad("%s: %s: arm %d does not end in a return", path, fn, i)
			}
			fields = append(fields, sel.Sel.Name)
		}
		return fields
	}
	return bad("%s: function %s not found", path, fn)
}
