// Command xconfig is the fact extractor of property C20 (config files are decoded strictly
// and match the published schemas). It is compiled INTO the cog module (go build -overlay),
// so it sees the real configuration structs, the real yaml.v3 and /repo's schemas/*.json.
//
// It produces
//   - lean/Cog/Gen/ConfigFacts.lean : the key tables of the three loaders (as yaml.v3 sees the
//     structs), the key tables of schemas/*.json, the matching hint rOf, the union members
//     recognised by the As…() functions, the decoder construction sites;
//   - a JSON rendering of the same facts for the harness' document generator.
//
// The loader key tables are computed twice: statically (yaml.v3's tag rules, static.go) and by
// measurement (measure.go: yaml.v3 itself is asked, under KnownFields(true), which keys each
// struct accepts). The two must agree. Every syntactic form that is not understood makes the
// extractor refuse (exit 1) instead of guessing.
//
// usage: xconfig repo=<dir> lean=<out.lean> json=<out.json>
package main

import (
	"fmt"
	"os"
	"path/filepath"
	"reflect"
	"sort"
	"strings"

	"github.com/grafana/cog/internal/codegen"
	cogyaml "github.com/grafana/cog/internal/yaml"
)

// refuse aborts the current phase. While the loader side of one file is being walked the
// refusal is recovered (see loaderSide): that file's loader table degrades to an empty root
// struct (the Lean bisimilarity obligation then fails), the published tables are still emitted so
// that the harness can generate documents from schemas/*.json alone and search for a concrete
// failing input on the real loaders. Anywhere else (schemas/*.json not understood) it is fatal.
type refusal struct{ msg string }

func refuse(format string, a ...any) {
	panic(refusal{fmt.Sprintf(format, a...)})
}

func fatalOnRefusal() {
	if r := recover(); r != nil {
		if rf, ok := r.(refusal); ok {
			fmt.Fprintf(os.Stderr, "xconfig: REFUSE: %s\n", rf.msg)
			os.Exit(1)
		}
		panic(r)
	}
}

// softRefuse: a form of the decoder sites / As…() functions that is not understood. The key
// tables are still emitted (so that the harness can search for a failing input), the fact in
// question is emitted in its pessimistic form (site not strict, no member recognised) so that
// the Lean obligation fails, and the extractor exits with status 3.
var softProblems []string

func softRefuse(format string, a ...any) {
	msg := fmt.Sprintf(format, a...)
	fmt.Fprintf(os.Stderr, "xconfig: REFUSE (facts emitted pessimistically): %s\n", msg)
	softProblems = append(softProblems, msg)
}

// fileSpec ties one configuration file kind to its Go root, its published schema, the
// function that constructs its decoder and the union ("rule entry") types it contains.
type fileSpec struct {
	Name     string       // pipeline | compiler | veneers
	Root     reflect.Type // struct decoded by the loader
	Schema   string       // file under schemas/
	SrcFile  string       // file holding the decoder construction site
	SrcFunc  string       // function holding it ("Recv.Name" for methods)
	Unions   []unionSpec  // rule-entry structs with an As…() function
	RuleKeys []ruleKey    // top-level keys holding lists of rule entries
}

type ruleKey struct {
	Key   string
	Union reflect.Type
}

type unionSpec struct {
	Type    reflect.Type
	SrcFile string
	Func    string // "Recv.Name"
}

func specs() []fileSpec {
	return []fileSpec{
		{Name: "pipeline", Root: reflect.TypeOf(codegen.Pipeline{}), Schema: "pipeline.json",
			SrcFile: "internal/codegen/pipeline.go", SrcFunc: "PipelineFromFile"},
		{Name: "compiler", Root: reflect.TypeOf(cogyaml.Compiler{}), Schema: "compiler_passes.json",
			SrcFile: "internal/yaml/compiler.go", SrcFunc: "CompilerLoader.Load",
			Unions:   []unionSpec{{reflect.TypeOf(cogyaml.CompilerPass{}), "internal/yaml/compilerpasses.go", "CompilerPass.AsCompilerPass"}},
			RuleKeys: []ruleKey{{"passes", reflect.TypeOf(cogyaml.CompilerPass{})}}},
		{Name: "veneers", Root: reflect.TypeOf(cogyaml.Veneers{}), Schema: "veneers.json",
			SrcFile: "internal/yaml/veneers.go", SrcFunc: "VeneersLoader.load",
			Unions: []unionSpec{
				{reflect.TypeOf(cogyaml.BuilderRule{}), "internal/yaml/builder.go", "BuilderRule.AsRewriteRule"},
				{reflect.TypeOf(cogyaml.OptionRule{}), "internal/yaml/option.go", "OptionRule.AsRewriteRule"}},
			RuleKeys: []ruleKey{{"builders", reflect.TypeOf(cogyaml.BuilderRule{})}, {"options", reflect.TypeOf(cogyaml.OptionRule{})}}},
	}
}

// ---------------------------------------------------------------------------------------
// facts, as emitted

type lty struct {
	K    string `json:"k"`              // scalar | any | ref | list | fmap | opaque (struct with a custom unmarshaller: Ref = its fields as reflection sees them; `.any` for the model)
	Go   string `json:"go,omitempty"`   // scalar: bool|int|uint|float|string
	Ref  int    `json:"ref,omitempty"`  // ref: index into LEnv
	Elem *lty   `json:"elem,omitempty"` // list, fmap
}

type lfield struct {
	Key string `json:"key"`
	Ty  lty    `json:"ty"`
}

type ldef struct {
	Name      string   `json:"name"`
	Fields    []lfield `json:"fields"`
	InlineMap *lty     `json:"inline_map,omitempty"`
}

type pty struct {
	K     string  `json:"k"` // top | bot | scalar | ref | arr | obj
	Ty    string  `json:"ty,omitempty"`
	Ref   int     `json:"ref,omitempty"`
	Items *pty    `json:"items,omitempty"`
	Props []pprop `json:"props,omitempty"`
	Addl  *pty    `json:"addl,omitempty"`
}

type pprop struct {
	Key string `json:"key"`
	Ty  pty    `json:"ty"`
}

type unionFacts struct {
	Def        int      `json:"def"`
	Name       string   `json:"name"`
	Recognised []string `json:"recognised"` // yaml keys whose field has an `if x.F != nil { return }` arm
	Declared   []string `json:"declared"`   // yaml keys of the struct
}

type site struct {
	File        string `json:"file"`
	Func        string `json:"func"`
	KnownFields bool   `json:"known_fields"`
	Target      string `json:"target"`
	Loader      string `json:"loader"` // which of the three files it serves, "" if none
}

type fileFacts struct {
	Name      string       `json:"name"`
	Schema    string       `json:"schema"`
	LEnv      []ldef       `json:"lenv"`
	LRoot     int          `json:"lroot"`
	PNames    []string     `json:"pnames"`
	PEnv      []pty        `json:"penv"`
	PRoot     int          `json:"proot"`
	ROf       []*lty       `json:"rof"`
	Unions    []unionFacts `json:"unions"`
	RuleLists [][2]any     `json:"rule_lists"` // (top-level key, LEnv index of the union)
}

type facts struct {
	Keys     []string    `json:"keys"`
	Files    []fileFacts `json:"files"`
	Sites    []site      `json:"sites"`
	Problems []string    `json:"problems"`
	Measured int         `json:"measured_probes"`
	Structs  int         `json:"structs"`
}

func main() {
	defer fatalOnRefusal()
	args := map[string]string{}
	for _, a := range os.Args[1:] {
		if i := strings.IndexByte(a, '='); i > 0 {
			args[a[:i]] = a[i+1:]
		}
	}
	repo := args["repo"]
	if repo == "" {
		repo = "."
	}
	var out facts
	allSchemaKeys := map[string]bool{}
	schemas := map[string]*schemaDoc{}
	for _, sp := range specs() {
		sd := parseSchema(filepath.Join(repo, "schemas", sp.Schema))
		schemas[sp.Name] = sd
		for k := range sd.keys {
			allSchemaKeys[k] = true
		}
	}
	for _, sp := range specs() {
		sd := schemas[sp.Name]
		ff := fileFacts{Name: sp.Name, Schema: sp.Schema, PNames: sd.names, PEnv: sd.defs, PRoot: sd.root}
		if !loaderSide(repo, sp, sd, allSchemaKeys, &ff, &out) {
			// loader side not understood: empty root struct, no hint, no unions
			ff.LEnv = []ldef{{Name: typeName(sp.Root) + " (NOT UNDERSTOOD)"}}
			ff.LRoot = 0
			ff.ROf = make([]*lty, len(sd.defs))
			ff.Unions, ff.RuleLists = nil, nil
		}
		out.Files = append(out.Files, ff)
	}
	func() {
		defer func() {
			if r := recover(); r != nil {
				rf, isRefusal := r.(refusal)
				if !isRefusal {
					panic(r)
				}
				softRefuse("decoder sites: %s", rf.msg)
				out.Sites = nil // sitesCover fails in Lean
			}
		}()
		out.Sites = decoderSites(repo, specs())
	}()
	// key interning: one table for loader and published keys
	keyset := map[string]bool{}
	for _, ff := range out.Files {
		for _, d := range ff.LEnv {
			for _, f := range d.Fields {
				keyset[f.Key] = true
			}
		}
	}
	for k := range allSchemaKeys {
		keyset[k] = true
	}
	for k := range keyset {
		out.Keys = append(out.Keys, k)
	}
	sort.Strings(out.Keys)
	out.Problems = softProblems
	if p := args["json"]; p != "" {
		writeJSON(p, out)
	}
	if p := args["lean"]; p != "" {
		writeLean(p, out)
	}
	if len(softProblems) > 0 {
		os.Exit(3)
	}
	fmt.Printf("xconfig ok: %d structs, %d measured probes, %d keys, %d decoder sites\n", out.Structs, out.Measured, len(out.Keys), len(out.Sites))
}

// loaderSide fills the loader part of ff (reflection + measurement + unions). A refusal inside
// it is recovered and reported as a soft problem; the caller then degrades the table.
func loaderSide(repo string, sp fileSpec, sd *schemaDoc, allSchemaKeys map[string]bool, ff *fileFacts, out *facts) (ok bool) {
	defer func() {
		if r := recover(); r != nil {
			rf, isRefusal := r.(refusal)
			if !isRefusal {
				panic(r)
			}
			softRefuse("%s loader: %s", sp.Name, rf.msg)
			ok = false
		}
	}()
	w := newWalker()
	root := w.def(sp.Root)
	// measured == static, for every struct reachable from the root
	out.Measured += w.measureAll(allSchemaKeys)
	out.Structs += len(w.defs)
	ff.LEnv, ff.LRoot = w.defs, root
	ff.ROf = matchHint(w.defs, root, sd)
	for _, u := range sp.Unions {
		idx, ok := w.index[u.Type]
		if !ok {
			refuse("union type %s is not reachable from root %s", u.Type, sp.Root)
		}
		fieldsRecognised := unionArms(filepath.Join(repo, u.SrcFile), u.Func)
		uf := unionFacts{Def: idx, Name: u.Type.Name()}
		fieldKey := w.fieldKeys[u.Type] // Go field name -> yaml key
		for _, f := range fieldsRecognised {
			k, ok := fieldKey[f]
			if !ok {
				softRefuse("%s tests field %s which yaml.v3 does not decode", u.Func, f)
				continue
			}
			uf.Recognised = append(uf.Recognised, k)
		}
		for _, f := range w.defs[idx].Fields {
			uf.Declared = append(uf.Declared, f.Key)
		}
		sort.Strings(uf.Recognised)
		ff.Unions = append(ff.Unions, uf)
	}
	for _, rk := range sp.RuleKeys {
		found := false
		for _, f := range w.defs[root].Fields {
			if f.Key == rk.Key {
				if f.Ty.K != "list" || f.Ty.Elem.K != "ref" || w.types[f.Ty.Elem.Ref] != rk.Union {
					refuse("root key %q of %s is not a list of %s", rk.Key, sp.Name, rk.Union)
				}
				ff.RuleLists = append(ff.RuleLists, [2]any{rk.Key, f.Ty.Elem.Ref})
				found = true
			}
		}
		if !found {
			refuse("root key %q not found in %s", rk.Key, sp.Name)
		}
	}
	return true
}
