package main

// The dynamic-value helper (`deepCopyValue` in internal/ast/types.go): a package-level
// func(any) any whose body is one type switch on its parameter.  Each case is analysed with the
// same machinery as a DeepCopy body, the case variable playing the receiver:
//
//   case []any:           [if v == nil { return v }]  n := make([]any, len(v))
//                         for i, x := range v { n[i] = <helper>(x) }   return n      => freshSlice dyn
//   case map[string]any:  n := make(map[string]any, len(v)); for k, x := range v { n[k] = <helper>(x) }  => freshMap dyn
//   case T (struct):      return v.DeepCopy()                                         => recur T
//   case T: return v      / default: return value                                     => assigned as-is
//
// An as-is case on a type that can hold mutable structure is recorded as `shared` (a bad entry).

import (
	"go/ast"
	"go/types"
)

func isDynSignature(fn *types.Func) bool {
	sig, ok := fn.Type().(*types.Signature)
	if !ok || sig.Recv() != nil || sig.Params().Len() != 1 || sig.Results().Len() != 1 {
		return false
	}
	isAny := func(t types.Type) bool {
		it, ok := t.Underlying().(*types.Interface)
		return ok && it.NumMethods() == 0
	}
	return isAny(sig.Params().At(0).Type()) && isAny(sig.Results().At(0).Type())
}

func (w *world) analyseDynHelper(fn *types.Func) {
	if w.dynFn != nil {
		if w.dynFn != fn {
			refuse("two dynamic-value helpers (%s, %s): the model has one", w.dynFn.Name(), fn.Name())
		}
		return
	}
	w.dynFn = fn
	w.out.DynHelper = fn.Name()
	info := w.info()
	var decl *ast.FuncDecl
	for _, f := range w.astPkg.Syntax {
		for _, d := range f.Decls {
			if fd, ok := d.(*ast.FuncDecl); ok && info.Defs[fd.Name] == fn {
				decl = fd
			}
		}
	}
	if decl == nil || decl.Body == nil || len(decl.Type.Params.List) != 1 || len(decl.Type.Params.List[0].Names) != 1 {
		refuse("dynamic-value helper %s: declaration not found", fn.Name())
	}
	param := info.Defs[decl.Type.Params.List[0].Names[0]]
	if len(decl.Body.List) != 1 {
		refuse("%s: the body of %s must be a single type switch", w.pos(decl), fn.Name())
	}
	ts, ok := decl.Body.List[0].(*ast.TypeSwitchStmt)
	if !ok || ts.Init != nil {
		refuse("%s: the body of %s must be a single type switch", w.pos(decl), fn.Name())
	}
	var ta *ast.TypeAssertExpr
	switch a := ts.Assign.(type) {
	case *ast.AssignStmt:
		if len(a.Rhs) == 1 {
			ta, _ = a.Rhs[0].(*ast.TypeAssertExpr)
		}
	case *ast.ExprStmt:
		ta, _ = a.X.(*ast.TypeAssertExpr)
	}
	if ta == nil {
		refuse("%s: unsupported type switch header", w.pos(ts))
	}
	if id, ok := ast.Unparen(ta.X).(*ast.Ident); !ok || info.Uses[id] != param {
		refuse("%s: the type switch is not on the parameter", w.pos(ts))
	}
	sawDefault := false
	returnsAsIs := func(cc *ast.CaseClause) bool {
		if len(cc.Body) != 1 {
			return false
		}
		r, ok := cc.Body[0].(*ast.ReturnStmt)
		if !ok || len(r.Results) != 1 {
			return false
		}
		id, ok := ast.Unparen(r.Results[0]).(*ast.Ident)
		if !ok {
			return false
		}
		o := info.Uses[id]
		return o == param || (o != nil && o == info.Implicits[cc])
	}
	for _, st := range ts.Body.List {
		cc := st.(*ast.CaseClause)
		if cc.List == nil {
			sawDefault = true
			if !returnsAsIs(cc) {
				refuse("%s: the default case of %s must return its argument", w.pos(cc), fn.Name())
			}
			continue
		}
		if len(cc.List) > 1 {
			if !returnsAsIs(cc) {
				refuse("%s: a case with several types must return its argument", w.pos(cc))
			}
			for _, tx := range cc.List {
				w.dynAsIs(info.TypeOf(tx), cc)
			}
			continue
		}
		T := info.TypeOf(cc.List[0])
		if b, isBasic := T.(*types.Basic); isBasic && b.Kind() == types.UntypedNil {
			if !returnsAsIs(cc) {
				refuse("%s: case nil must return its argument", w.pos(cc))
			}
			continue
		}
		if _, isIface := T.Underlying().(*types.Interface); isIface {
			refuse("%s: case on an interface type", w.pos(cc))
		}
		if returnsAsIs(cc) {
			w.dynAsIs(T, cc)
			continue
		}
		vobj := info.Implicits[cc]
		if vobj == nil {
			refuse("%s: case without a bound variable does not return its argument", w.pos(cc))
		}
		m := &method{decl: decl, recvName: vobj.Name(), recvObj: vobj, name: fn.Name() + " case " + typeName(T), base: T,
			result: fn.Type().(*types.Signature).Results().At(0).Type(), loose: true}
		fms, root := w.analyseFunc(m, cc.Body, cc)
		var md Mode
		if fms != nil {
			named, ok := types.Unalias(T).(*types.Named)
			if !ok {
				refuse("%s: inline rebuild of an unnamed struct", w.pos(cc))
			}
			w.addCopy(typeName(named), fms)
			md = Mode{K: "recur", T: typeName(named)}
		} else {
			md = *root
		}
		if md.K == "byValue" {
			w.out.DynAsIs = append(w.out.DynAsIs, typeName(T))
			continue
		}
		w.out.Dyn = append(w.out.Dyn, DynCase{GoType: typeName(T), Ty: w.tyOf(T, "case "+typeName(T)), Mode: md, How: "case of " + fn.Name()})
	}
	if !sawDefault {
		// without a default the helper returns the zero `any` for unknown dynamic types: not a copy
		refuse("%s: %s has no default case returning its argument", w.pos(ts), fn.Name())
	}
}

// dynAsIs: an explicit case that hands the value back.
func (w *world) dynAsIs(T types.Type, at ast.Node) {
	if immutable(T, map[types.Type]bool{}) {
		w.out.DynAsIs = append(w.out.DynAsIs, typeName(T))
		return
	}
	w.out.Dyn = append(w.out.Dyn, DynCase{GoType: typeName(T), Ty: w.tyOf(T, "case "+typeName(T)), Mode: Mode{K: "shared"}, How: "case returns its argument"})
}
