// Command xcopy extracts, from /repo's current source, how every DeepCopy method of
// internal/ast copies every field of its receiver (the "copy table" of property C18), together
// with the field list of every IR struct.  It is built into the cog module through
// `go build -overlay` and run from /repo.  Output: one JSON document on stdout.
//
// The analysis is syntactic over a small, explicit set of statement and expression forms (see
// analyse.go).  Anything else makes the extractor REFUSE (exit status 3) instead of guessing.
package main

import (
	"encoding/json"
	"fmt"
	"go/ast"
	"go/types"
	"os"
	"sort"
	"strings"

	"golang.org/x/tools/go/packages"
)

const (
	astPkgPath  = "github.com/grafana/cog/internal/ast"
	omapPkgPath = "github.com/grafana/cog/internal/orderedmap"
	toolPkgPath = "github.com/grafana/cog/internal/tools"
	compPkgPath = "github.com/grafana/cog/internal/ast/compiler"
)

type refusal struct{ msg string }

func refuse(format string, args ...any) {
	panic(refusal{fmt.Sprintf(format, args...)})
}

// ---------------------------------------------------------------- output model

// Ty is the aliasing-relevant shape of a Go type.
type Ty struct {
	K    string `json:"k"` // imm | slice | map | ptr | iface | named
	Elem *Ty    `json:"elem,omitempty"`
	Name string `json:"name,omitempty"`
}

// Mode is how one field (or element) is copied.
type Mode struct {
	K    string `json:"k"` // byValue | freshSlice | freshMap | recur | viaPtrRec | shared | omitted | dyn
	Elem *Mode  `json:"elem,omitempty"`
	T    string `json:"t,omitempty"`
}

type FieldInfo struct {
	Name   string `json:"name"`
	GoType string `json:"gotype"`
	Ty     Ty     `json:"ty"`
}

type FieldMode struct {
	Field string `json:"field"`
	Mode  Mode   `json:"mode"`
	How   string `json:"how"` // short human-readable justification (statement forms seen)
}

type Root struct {
	Name   string `json:"name"`
	Method string `json:"method"`
	Mode   Mode   `json:"mode"`
	Ty     Ty     `json:"ty"`
}

// DynCase is one case of the dynamic-value helper (deepCopyValue): what happens to an `any`
// holding a value of this dynamic type.  Dynamic types without a case are assigned as-is.
type DynCase struct {
	GoType string `json:"gotype"`
	Ty     Ty     `json:"ty"`
	Mode   Mode   `json:"mode"`
	How    string `json:"how"`
}

type Output struct {
	DynHelper   string                 `json:"dyn_helper"`
	Dyn         []DynCase              `json:"dyn"`
	DynAsIs     []string               `json:"dyn_asis"` // explicit cases that return the value as-is (scalars)
	Process     *ProcessFact           `json:"process"`
	CopyHelpers []string               `json:"copy_helpers"` // same-package helper functions followed, with the mode found
	Structs     map[string][]FieldInfo `json:"structs"`
	StructOrder []string               `json:"struct_order"`
	Skipped     map[string]string      `json:"skipped"` // ast structs that are not IR data (func/chan fields)
	Copy        map[string][]FieldMode `json:"copy"`
	CopyOrder   []string               `json:"copy_order"`
	Roots       []Root                 `json:"roots"`
	Helpers     map[string]string      `json:"helpers"` // helper function -> hash of its body (pinned)
}

// ---------------------------------------------------------------- world

type world struct {
	pkgs        map[string]*packages.Package
	astPkg      *packages.Package
	out         *Output
	dynFn       *types.Func
	helpers     map[*types.Func]Mode
	helperBusy  map[*types.Func]bool
	helperDepth int
	methods     map[string]*method // receiver base type name -> DeepCopy method
	done        map[string]bool    // methods analysed
	busy        map[string]bool
}

type method struct {
	decl     *ast.FuncDecl
	recvName string       // receiver variable name
	recvObj  types.Object // receiver variable
	name     string
	base     types.Type // receiver base type (a named type for methods; any type for a case of the dynamic-value helper)
	result   types.Type
	loose    bool  // result is `any` (case of the dynamic-value helper): no result-type identity check
	rootMode *Mode // for non-struct receivers: mode of the whole receiver
}

func qualifier(p *types.Package) string {
	if p.Path() == astPkgPath {
		return ""
	}
	return p.Name()
}

func typeName(t types.Type) string {
	s := types.TypeString(t, qualifier)
	return strings.ReplaceAll(s, " ", "")
}

func (w *world) info() *types.Info { return w.astPkg.TypesInfo }

// tyOf converts a Go type; struct types met on the way are queued for emission.
func (w *world) tyOf(t types.Type, where string) Ty {
	switch u := t.(type) {
	case *types.Basic:
		if u.Kind() == types.UnsafePointer {
			refuse("%s: unsafe.Pointer field", where)
		}
		return Ty{K: "imm"}
	case *types.Alias:
		return w.tyOf(types.Unalias(u), where)
	case *types.Named:
		switch uu := u.Underlying().(type) {
		case *types.Struct:
			name := typeName(u)
			w.emitStruct(name, uu, where)
			return Ty{K: "named", Name: name}
		case *types.Interface:
			return Ty{K: "iface"}
		default:
			return w.tyOf(uu, where)
		}
	case *types.Pointer:
		e := w.tyOf(u.Elem(), where)
		return Ty{K: "ptr", Elem: &e}
	case *types.Slice:
		e := w.tyOf(u.Elem(), where)
		return Ty{K: "slice", Elem: &e}
	case *types.Map:
		if k := w.tyOf(u.Key(), where); k.K != "imm" {
			refuse("%s: map with a non-scalar key type %s", where, u.Key())
		}
		e := w.tyOf(u.Elem(), where)
		return Ty{K: "map", Elem: &e}
	case *types.Interface:
		return Ty{K: "iface"}
	case *types.TypeParam:
		refuse("%s: uninstantiated type parameter %s", where, u)
	}
	refuse("%s: unsupported field type %s (%T)", where, t, t)
	return Ty{}
}

func (w *world) emitStruct(name string, st *types.Struct, where string) {
	if _, ok := w.out.Structs[name]; ok {
		return
	}
	w.out.Structs[name] = []FieldInfo{} // reserve (recursive types)
	w.out.StructOrder = append(w.out.StructOrder, name)
	fields := make([]FieldInfo, 0, st.NumFields())
	for i := 0; i < st.NumFields(); i++ {
		f := st.Field(i)
		if f.Embedded() {
			refuse("%s: struct %s embeds %s (embedding is not modelled)", where, name, f.Name())
		}
		fields = append(fields, FieldInfo{Name: f.Name(), GoType: typeName(f.Type()), Ty: w.tyOf(f.Type(), name+"."+f.Name())})
	}
	w.out.Structs[name] = fields
}

// immutable: no value of the type can hold a slice, map, pointer or interface.
func immutable(t types.Type, seen map[types.Type]bool) bool {
	t = types.Unalias(t)
	if seen[t] {
		return true
	}
	switch u := t.Underlying().(type) {
	case *types.Basic:
		return u.Kind() != types.UnsafePointer
	case *types.Struct:
		seen[t] = true
		for i := 0; i < u.NumFields(); i++ {
			if !immutable(u.Field(i).Type(), seen) {
				return false
			}
		}
		return true
	}
	return false
}

func asIsMode(t types.Type) Mode {
	if immutable(t, map[types.Type]bool{}) {
		return Mode{K: "byValue"}
	}
	return Mode{K: "shared"}
}

func hasFuncOrChan(t types.Type, seen map[types.Type]bool) bool {
	t = types.Unalias(t)
	if seen[t] {
		return false
	}
	seen[t] = true
	switch u := t.Underlying().(type) {
	case *types.Signature, *types.Chan:
		return true
	case *types.Struct:
		for i := 0; i < u.NumFields(); i++ {
			if hasFuncOrChan(u.Field(i).Type(), seen) {
				return true
			}
		}
	case *types.Pointer:
		return hasFuncOrChan(u.Elem(), seen)
	case *types.Slice:
		return hasFuncOrChan(u.Elem(), seen)
	case *types.Map:
		return hasFuncOrChan(u.Elem(), seen)
	}
	return false
}

// ---------------------------------------------------------------- main

func main() {
	defer func() {
		if r := recover(); r != nil {
			if rf, ok := r.(refusal); ok {
				fmt.Fprintln(os.Stderr, "xcopy REFUSES:", rf.msg)
				os.Exit(3)
			}
			panic(r)
		}
	}()

	cfg := &packages.Config{
		Mode: packages.NeedName | packages.NeedFiles | packages.NeedSyntax | packages.NeedTypes |
			packages.NeedTypesInfo | packages.NeedImports | packages.NeedDeps,
		Tests: false,
		Env:   os.Environ(),
	}
	loaded, err := packages.Load(cfg, astPkgPath, omapPkgPath, toolPkgPath, compPkgPath)
	if err != nil {
		fmt.Fprintln(os.Stderr, "xcopy: load:", err)
		os.Exit(2)
	}
	w := &world{helpers: map[*types.Func]Mode{}, helperBusy: map[*types.Func]bool{}, pkgs: map[string]*packages.Package{}, methods: map[string]*method{}, done: map[string]bool{}, busy: map[string]bool{},
		out: &Output{Structs: map[string][]FieldInfo{}, Copy: map[string][]FieldMode{}, Skipped: map[string]string{}, Helpers: map[string]string{}}}
	for _, p := range loaded {
		if len(p.Errors) > 0 {
			fmt.Fprintln(os.Stderr, "xcopy: package", p.PkgPath, "has errors:", p.Errors[0])
			os.Exit(2)
		}
		w.pkgs[p.PkgPath] = p
	}
	w.astPkg = w.pkgs[astPkgPath]
	if w.astPkg == nil || w.pkgs[omapPkgPath] == nil || w.pkgs[toolPkgPath] == nil {
		fmt.Fprintln(os.Stderr, "xcopy: packages not loaded")
		os.Exit(2)
	}

	w.checkHelpers()

	// 1. every DeepCopy method of package ast
	for _, f := range w.astPkg.Syntax {
		for _, d := range f.Decls {
			fd, ok := d.(*ast.FuncDecl)
			if !ok || fd.Recv == nil || fd.Name.Name != "DeepCopy" || fd.Body == nil {
				continue
			}
			m := w.newMethod(fd)
			if _, dup := w.methods[m.name]; dup {
				refuse("two DeepCopy methods on %s", m.name)
			}
			w.methods[m.name] = m
		}
	}
	names := make([]string, 0, len(w.methods))
	for n := range w.methods {
		names = append(names, n)
	}
	sort.Strings(names)
	for _, n := range names {
		w.analyse(n)
	}
	for _, n := range names {
		m := w.methods[n]
		r := Root{Name: n, Method: n + ".DeepCopy"}
		if _, isStruct := m.base.Underlying().(*types.Struct); isStruct {
			r.Mode = Mode{K: "recur", T: n}
			r.Ty = w.tyOf(m.base, "root "+n)
		} else {
			r.Mode = *m.rootMode
			r.Ty = w.tyOf(m.base.Underlying(), "root "+n)
		}
		w.out.Roots = append(w.out.Roots, r)
	}

	w.out.Process = w.processFact()

	// 2. every struct type of package ast (IRFields); non-data structs are listed as skipped
	scope := w.astPkg.Types.Scope()
	for _, n := range scope.Names() {
		tn, ok := scope.Lookup(n).(*types.TypeName)
		if !ok {
			continue
		}
		st, ok := tn.Type().Underlying().(*types.Struct)
		if !ok {
			continue
		}
		if named, ok := tn.Type().(*types.Named); ok && named.TypeParams().Len() > 0 {
			w.out.Skipped[n] = "generic"
			continue
		}
		if hasFuncOrChan(tn.Type(), map[types.Type]bool{}) {
			w.out.Skipped[n] = "has func/chan fields (not IR data)"
			continue
		}
		w.emitStruct(n, st, "package ast")
	}
	// a struct reachable from a copied value must not have been skipped
	for n, why := range w.out.Skipped {
		if _, emitted := w.out.Structs[n]; emitted {
			refuse("struct %s is reachable from a DeepCopy receiver but %s", n, why)
		}
	}
	sort.Strings(w.out.StructOrder)
	sort.Strings(w.out.CopyOrder)

	enc := json.NewEncoder(os.Stdout)
	enc.SetIndent("", " ")
	if err := enc.Encode(w.out); err != nil {
		fmt.Fprintln(os.Stderr, err)
		os.Exit(2)
	}
}

func (w *world) newMethod(fd *ast.FuncDecl) *method {
	if len(fd.Recv.List) != 1 || len(fd.Recv.List[0].Names) != 1 {
		refuse("%s: DeepCopy with an unnamed receiver", w.pos(fd))
	}
	if fd.Type.Params.NumFields() != 0 || fd.Type.Results.NumFields() != 1 {
		refuse("%s: DeepCopy must take no argument and return one value", w.pos(fd))
	}
	id := fd.Recv.List[0].Names[0]
	obj := w.info().Defs[id]
	t := obj.Type()
	if p, ok := t.(*types.Pointer); ok {
		t = p.Elem()
	}
	named, ok := types.Unalias(t).(*types.Named)
	if !ok {
		refuse("%s: DeepCopy receiver is not a named type", w.pos(fd))
	}
	res := w.info().TypeOf(fd.Type.Results.List[0].Type)
	return &method{decl: fd, recvName: id.Name, recvObj: obj, name: named.Obj().Name(), base: named, result: res}
}

func (w *world) pos(n ast.Node) string {
	p := w.astPkg.Fset.Position(n.Pos())
	return fmt.Sprintf("%s:%d", shortFile(p.Filename), p.Line)
}

func shortFile(f string) string {
	if i := strings.Index(f, "/internal/"); i >= 0 {
		return f[i+1:]
	}
	return f
}
