package main

// Per-method analysis.  Understood forms (everything else is refused):
//
//   res := T{F: <v>, ...}          res := make([]E, 0, n)      var res T
//   res.F = <v>                    res.F = append(res.F, recv.F...)
//   for k, x := range recv.F { res.F = append(res.F, <v of x>) }        (also: tmp := x.DeepCopy(); … &tmp)
//   for k, x := range recv.F { res.F[k] = <v of x> }
//   if recv.F != nil { tmp := recv.F.DeepCopy(); res.F = &tmp }
//   if len(recv.F) != 0 { res.F = make(...) }
//   return res | return T{...}
//
//   <v> ::= recv.F | recv.F.DeepCopy() | x | x.DeepCopy() | &tmp | make(...)
//         | tools.Map(recv.F, func(p E) E { return p.DeepCopy() | p })
//         | recv.F.Map(func(_ K, v V) V { return v.DeepCopy() | v })      (orderedmap)
//         | deepCopyValue(<v>)        the dynamic-value helper of package ast (func(any) any), analysed in dyn.go
//         | &T{G: <v>, ...}           inline copy of a pointed-to struct without DeepCopy method; its
//                                     fields are then filled through res.F.G / recv.F.G paths
//
//   recv.F may be a path recv.F.G (through a pointer, under `if recv.F != nil`).

import (
	"go/ast"
	"go/token"
	"go/types"
	"strings"
)

type src struct {
	field string // "" = the receiver itself
	part  string // "" whole | "elem" | "val" | "key"
}

type value struct {
	kind  string // asis | deep | ptrdeep | dyn | make | makeN | sliceOf | omapOf | appendSpread | appendOne | index | lit | ptrlit
	src   src
	mode  *Mode // deep/ptrdeep: mode of the copy; sliceOf/omapOf: element mode
	typ   types.Type
	inner *value            // appendOne / index
	dst   string            // appendSpread / appendOne: field appended to ("" = result itself)
	lit   map[string]*value // composite literal
	keys  []string
}

type menv struct {
	w        *world
	m        *method
	isStruct bool
	res      types.Object
	vars     map[types.Object]*value
	events   map[string][]*value
	consumed map[string]bool // nested event keys used by an inline struct copy
	direct   *Mode           // `return recv.DeepCopy()` / `return recv`
	loops    int
}

func (w *world) analyse(name string) {
	if w.done[name] {
		return
	}
	if w.busy[name] {
		return // recursive type graph: struct receivers need no result from the callee
	}
	w.busy[name] = true
	m := w.methods[name]
	fms, root := w.analyseFunc(m, m.decl.Body.List, m.decl)
	if fms != nil {
		w.addCopy(name, fms)
	} else {
		m.rootMode = root
	}
	w.done[name] = true
	w.busy[name] = false
}

// analyseFunc: the body of a copy routine for receiver m.recvObj of type m.base.  Returns the
// per-field modes (struct receivers built field by field) or the mode of the whole receiver.
func (w *world) analyseFunc(m *method, body []ast.Stmt, at ast.Node) ([]FieldMode, *Mode) {
	name := m.name
	e := &menv{w: w, m: m, vars: map[types.Object]*value{}, events: map[string][]*value{}, consumed: map[string]bool{}}
	st, isStruct := m.base.Underlying().(*types.Struct)
	e.isStruct = isStruct
	if isStruct {
		if !m.loose && !types.Identical(m.result, m.base) {
			refuse("%s: copy of struct %s returns %s", w.pos(at), name, m.result)
		}
	} else {
		switch m.base.Underlying().(type) {
		case *types.Slice, *types.Map:
		default:
			refuse("%s: copy receiver %s is neither a struct, a slice nor a map", w.pos(at), name)
		}
		if !m.loose && !types.Identical(m.result.Underlying(), m.base.Underlying()) {
			refuse("%s: copy of %s returns %s", w.pos(at), name, m.result)
		}
	}
	if len(body) == 0 {
		refuse("%s: empty copy body", w.pos(at))
	}
	for i, s := range body {
		e.stmt(s, "", i == len(body)-1)
	}
	if e.direct != nil {
		if len(e.events) != 0 {
			refuse("%s: direct return mixed with field writes", w.pos(at))
		}
		return nil, e.direct
	}
	if isStruct {
		w.tyOf(m.base, "receiver "+name)
		fms := make([]FieldMode, 0, st.NumFields())
		for i := 0; i < st.NumFields(); i++ {
			f := st.Field(i)
			md, how := e.classify(f.Name(), f.Type(), at)
			fms = append(fms, FieldMode{Field: f.Name(), Mode: md, How: how})
		}
		for fname := range e.events {
			top := fname
			if i := strings.Index(fname, "."); i >= 0 {
				top = fname[:i]
				if !e.consumed[fname] {
					refuse("%s: write to nested field %q that is not part of an inline struct copy", w.pos(at), fname)
				}
			}
			if top == "" || !hasField(st, top) {
				refuse("%s: assignment to unknown field %q", w.pos(at), fname)
			}
		}
		return fms, nil
	}
	md, _ := e.classify("", m.base.Underlying(), at)
	return nil, &md
}

func hasField(st *types.Struct, name string) bool {
	for i := 0; i < st.NumFields(); i++ {
		if st.Field(i).Name() == name {
			return true
		}
	}
	return false
}

func (w *world) addCopy(name string, fms []FieldMode) {
	if old, ok := w.out.Copy[name]; ok {
		if len(old) != len(fms) {
			refuse("conflicting copy entries for %s", name)
		}
		for i := range old {
			if !modeEq(old[i].Mode, fms[i].Mode) || old[i].Field != fms[i].Field {
				refuse("conflicting copy entries for %s.%s", name, old[i].Field)
			}
		}
		return
	}
	w.out.Copy[name] = fms
	w.out.CopyOrder = append(w.out.CopyOrder, name)
}

func modeEq(a, b Mode) bool {
	if a.K != b.K || a.T != b.T || (a.Elem == nil) != (b.Elem == nil) {
		return false
	}
	return a.Elem == nil || modeEq(*a.Elem, *b.Elem)
}

// ---------------------------------------------------------------- statements

func (e *menv) pos(n ast.Node) string { return e.w.pos(n) }

func (e *menv) event(field string, v *value, at ast.Node, guard string) {
	if guard != "" && guard != field && !strings.HasPrefix(field, guard+".") {
		refuse("%s: statement guarded by / ranging over field %q writes field %q", e.pos(at), guard, field)
	}
	e.events[field] = append(e.events[field], v)
}

func (e *menv) stmt(s ast.Stmt, guard string, last bool) {
	switch st := s.(type) {
	case *ast.AssignStmt:
		if len(st.Lhs) != 1 || len(st.Rhs) != 1 || (st.Tok != token.DEFINE && st.Tok != token.ASSIGN) {
			refuse("%s: unsupported assignment form", e.pos(s))
		}
		e.assign(st.Lhs[0], st.Rhs[0], st.Tok == token.DEFINE, guard, s)
	case *ast.DeclStmt:
		gd, ok := st.Decl.(*ast.GenDecl)
		if !ok || gd.Tok != token.VAR || len(gd.Specs) != 1 {
			refuse("%s: unsupported declaration", e.pos(s))
		}
		vs := gd.Specs[0].(*ast.ValueSpec)
		if len(vs.Names) != 1 || len(vs.Values) != 0 || e.res != nil {
			refuse("%s: unsupported var declaration", e.pos(s))
		}
		obj := e.w.info().Defs[vs.Names[0]]
		if !types.Identical(obj.Type(), e.m.result) && !types.Identical(obj.Type(), e.m.base) {
			refuse("%s: var of type %s is not the result", e.pos(s), obj.Type())
		}
		e.res = obj
	case *ast.RangeStmt:
		if e.loops > 0 {
			refuse("%s: nested loop", e.pos(s))
		}
		x := e.eval(st.X)
		if x.kind != "asis" || x.src.part != "" {
			refuse("%s: range over something that is not a receiver field", e.pos(s))
		}
		if guard != "" && x.src.field != guard && !strings.HasPrefix(x.src.field, guard+".") {
			refuse("%s: loop over %q inside a block guarded by %q", e.pos(s), x.src.field, guard)
		}
		var kt, vt types.Type
		vpart := "elem"
		switch u := x.typ.Underlying().(type) {
		case *types.Slice:
			kt, vt = types.Typ[types.Int], u.Elem()
		case *types.Map:
			kt, vt = u.Key(), u.Elem()
			vpart = "val"
		default:
			refuse("%s: range over %s", e.pos(s), x.typ)
		}
		bind := func(ex ast.Expr, part string, t types.Type) {
			if ex == nil {
				return
			}
			id, ok := ex.(*ast.Ident)
			if !ok {
				refuse("%s: range variable is not an identifier", e.pos(s))
			}
			if id.Name == "_" {
				return
			}
			obj := e.w.info().Defs[id]
			if obj == nil {
				refuse("%s: range statement must define its variables (:=)", e.pos(s))
			}
			e.vars[obj] = &value{kind: "asis", src: src{field: x.src.field, part: part}, typ: t}
		}
		bind(st.Key, "key", kt)
		bind(st.Value, vpart, vt)
		g := x.src.field
		if g == "" {
			g = "\x00self"
		}
		e.loops++
		for _, b := range st.Body.List {
			e.stmt(b, g, false)
		}
		e.loops--
	case *ast.IfStmt:
		if st.Else != nil || st.Init != nil || guard != "" {
			refuse("%s: unsupported if form", e.pos(s))
		}
		if e.nilReceiverReturn(st) {
			return // `if recv == nil { return recv }` on a slice/map receiver: nil stays nil
		}
		f := e.guardField(st.Cond)
		for _, b := range st.Body.List {
			e.stmt(b, f, false)
		}
	case *ast.ReturnStmt:
		if !last || guard != "" || len(st.Results) != 1 {
			refuse("%s: return must be the last statement and return one value", e.pos(s))
		}
		switch r := ast.Unparen(st.Results[0]).(type) {
		case *ast.Ident:
			if e.res == nil && e.w.info().Uses[r] == e.m.recvObj {
				md := asIsMode(e.m.base) // the receiver itself is handed back
				e.direct = &md
				return
			}
			if e.res == nil || e.w.info().Uses[r] != e.res {
				refuse("%s: returns %s which is not the result variable", e.pos(s), r.Name)
			}
		case *ast.CallExpr:
			v := e.eval(r)
			if e.res != nil || v.src != (src{}) {
				refuse("%s: unsupported return expression", e.pos(s))
			}
			switch v.kind {
			case "deep":
				e.direct = v.mode
			case "sliceOf":
				e.direct = &Mode{K: "freshSlice", Elem: v.mode}
			default:
				refuse("%s: unsupported return expression (%s)", e.pos(s), v.kind)
			}
		case *ast.CompositeLit:
			if e.res != nil {
				refuse("%s: returns a literal although a result variable exists", e.pos(s))
			}
			v := e.eval(r)
			if !types.Identical(v.typ, e.m.result) && !(e.m.loose && types.Identical(v.typ, e.m.base)) {
				refuse("%s: returns a literal of type %s", e.pos(s), v.typ)
			}
			e.takeLit(v, s)
		default:
			refuse("%s: unsupported return expression", e.pos(s))
		}
	default:
		refuse("%s: unsupported statement %T", e.pos(s), s)
	}
}

// guardField: `recv.F != nil`, `len(recv.F) != 0`, `len(recv.F) > 0`
func (e *menv) guardField(cond ast.Expr) string {
	be, ok := ast.Unparen(cond).(*ast.BinaryExpr)
	if !ok {
		refuse("%s: unsupported condition", e.pos(cond))
	}
	x := ast.Unparen(be.X)
	if call, ok := x.(*ast.CallExpr); ok {
		if id, ok := call.Fun.(*ast.Ident); ok && id.Name == "len" && len(call.Args) == 1 {
			if _, isBuiltin := e.w.info().Uses[id].(*types.Builtin); isBuiltin {
				if lit, ok := be.Y.(*ast.BasicLit); ok && lit.Value == "0" && (be.Op == token.NEQ || be.Op == token.GTR) {
					v := e.eval(call.Args[0])
					if v.kind == "asis" && v.src.part == "" && v.src.field != "" {
						return v.src.field
					}
				}
			}
		}
		refuse("%s: unsupported condition", e.pos(cond))
	}
	if id, ok := be.Y.(*ast.Ident); ok && id.Name == "nil" && be.Op == token.NEQ {
		v := e.eval(x)
		if v.kind == "asis" && v.src.part == "" && v.src.field != "" {
			return v.src.field
		}
	}
	refuse("%s: unsupported condition", e.pos(cond))
	return ""
}

func (e *menv) takeLit(v *value, at ast.Node) {
	if v.kind != "lit" {
		refuse("%s: expected a composite literal of the result type", e.pos(at))
	}
	for _, k := range v.keys {
		e.event(k, v.lit[k], at, "")
	}
}

// resPath: ex is the result variable ("" , true) or a field path below it ("F", "F.G").
func (e *menv) resPath(ex ast.Expr) (string, bool) {
	ex = ast.Unparen(ex)
	if id, ok := ex.(*ast.Ident); ok {
		return "", e.res != nil && e.w.info().Uses[id] == e.res
	}
	sel, ok := ex.(*ast.SelectorExpr)
	if !ok {
		return "", false
	}
	if s := e.w.info().Selections[sel]; s == nil || s.Kind() != types.FieldVal {
		return "", false
	}
	p, ok := e.resPath(sel.X)
	if !ok {
		return "", false
	}
	if p == "" {
		return sel.Sel.Name, true
	}
	return p + "." + sel.Sel.Name, true
}

func (e *menv) fieldOfRes(ex ast.Expr) (string, bool) {
	p, ok := e.resPath(ex)
	if !ok || (p == "") == e.isStruct {
		return "", false // the bare result is a target only for slice/map results; a path only for struct results
	}
	return p, true
}

// nilReceiverReturn: `if recv == nil { return recv }` (slice / map receivers)
func (e *menv) nilReceiverReturn(st *ast.IfStmt) bool {
	if e.isStruct || len(st.Body.List) != 1 {
		return false
	}
	be, ok := ast.Unparen(st.Cond).(*ast.BinaryExpr)
	if !ok || be.Op != token.EQL {
		return false
	}
	x, ok1 := ast.Unparen(be.X).(*ast.Ident)
	y, ok2 := ast.Unparen(be.Y).(*ast.Ident)
	if !ok1 || !ok2 || e.w.info().Uses[x] != e.m.recvObj || y.Name != "nil" {
		return false
	}
	r, ok := st.Body.List[0].(*ast.ReturnStmt)
	if !ok || len(r.Results) != 1 {
		return false
	}
	id, ok := ast.Unparen(r.Results[0]).(*ast.Ident)
	return ok && e.w.info().Uses[id] == e.m.recvObj
}

func (e *menv) assign(lhs, rhs ast.Expr, define bool, guard string, at ast.Stmt) {
	g := guard
	if g == "\x00self" {
		g = ""
	}
	chk := func(field string) {
		if guard == "\x00self" && field != "" {
			refuse("%s: loop over the receiver writes field %q", e.pos(at), field)
		}
	}
	// res.F[k] = v
	if ix, ok := ast.Unparen(lhs).(*ast.IndexExpr); ok && !define {
		f, ok := e.fieldOfRes(ix.X)
		if !ok {
			refuse("%s: indexed assignment to something that is not a result field", e.pos(at))
		}
		k := e.eval(ix.Index)
		if k.kind != "asis" || k.src.part != "key" || k.src.field != f {
			refuse("%s: index is not the key of the ranged field", e.pos(at))
		}
		v := e.eval(rhs)
		chk(f)
		e.event(f, &value{kind: "index", inner: v}, at, g)
		return
	}
	// res.F = v   /  res = append(res, …)
	if f, ok := e.fieldOfRes(lhs); ok && !define {
		v := e.eval(rhs)
		if (v.kind == "appendSpread" || v.kind == "appendOne") && v.dst != f {
			refuse("%s: append to %q assigned to %q", e.pos(at), v.dst, f)
		}
		chk(f)
		e.event(f, v, at, g)
		return
	}
	id, ok := ast.Unparen(lhs).(*ast.Ident)
	if !ok || !define {
		refuse("%s: unsupported assignment target", e.pos(at))
	}
	obj := e.w.info().Defs[id]
	if obj == nil {
		refuse("%s: unsupported assignment target", e.pos(at))
	}
	v := e.eval(rhs)
	switch {
	case v.kind == "lit" && e.res == nil && guard == "" && e.isStruct:
		if !types.Identical(v.typ, e.m.result) && !(e.m.loose && types.Identical(v.typ, e.m.base)) {
			refuse("%s: literal of type %s is not the result", e.pos(at), v.typ)
		}
		e.res = obj
		e.takeLit(v, at)
	case (v.kind == "make" || v.kind == "makeN") && e.res == nil && guard == "" && !e.isStruct:
		if v.kind == "makeN" && v.src != (src{}) {
			refuse("%s: result sized after something that is not the receiver", e.pos(at))
		}
		e.res = obj
		e.event("", v, at, "")
	case v.kind == "deep":
		e.vars[obj] = v // tmp := x.DeepCopy()
	default:
		refuse("%s: unsupported local definition (%s)", e.pos(at), v.kind)
	}
}

// ---------------------------------------------------------------- expressions

func (e *menv) eval(ex ast.Expr) *value {
	info := e.w.info()
	switch x := ast.Unparen(ex).(type) {
	case *ast.Ident:
		obj := info.Uses[x]
		if obj == e.m.recvObj {
			return &value{kind: "asis", src: src{}, typ: e.m.base}
		}
		if v, ok := e.vars[obj]; ok {
			return v
		}
		refuse("%s: identifier %s is neither the receiver, a range variable nor a copy temporary", e.pos(ex), x.Name)
	case *ast.SelectorExpr:
		if sel := info.Selections[x]; sel != nil && sel.Kind() == types.FieldVal {
			if _, isCall := ast.Unparen(x.X).(*ast.CallExpr); !isCall {
				b := e.eval(x.X)
				if b.kind == "asis" && b.src.part == "" {
					f := x.Sel.Name
					if b.src.field != "" {
						f = b.src.field + "." + f
					}
					return &value{kind: "asis", src: src{field: f}, typ: sel.Type()}
				}
			}
		}
		refuse("%s: unsupported selector expression", e.pos(ex))
	case *ast.UnaryExpr:
		if x.Op == token.AND {
			if cl, isLit := ast.Unparen(x.X).(*ast.CompositeLit); isLit {
				v := e.eval(cl)
				return &value{kind: "ptrlit", lit: v.lit, keys: v.keys, typ: types.NewPointer(v.typ)}
			}
			v := e.eval(x.X)
			if _, isId := ast.Unparen(x.X).(*ast.Ident); isId && v.kind == "deep" {
				return &value{kind: "ptrdeep", src: v.src, mode: v.mode, typ: types.NewPointer(v.typ)}
			}
		}
		refuse("%s: unsupported unary expression", e.pos(ex))
	case *ast.CompositeLit:
		t := info.TypeOf(x)
		if _, isStruct := t.Underlying().(*types.Struct); !isStruct {
			refuse("%s: composite literal of type %s", e.pos(ex), t)
		}
		v := &value{kind: "lit", lit: map[string]*value{}, typ: t}
		for _, el := range x.Elts {
			kv, ok := el.(*ast.KeyValueExpr)
			if !ok {
				refuse("%s: positional composite literal", e.pos(ex))
			}
			k := kv.Key.(*ast.Ident).Name
			v.lit[k] = e.eval(kv.Value)
			v.keys = append(v.keys, k)
		}
		return v
	case *ast.IndexExpr:
		// recv.F[i] (or recv[i]) where i is the key variable of the loop over the same source
		b := e.eval(x.X)
		k := e.eval(x.Index)
		if b.kind == "asis" && b.src.part == "" && k.kind == "asis" && k.src.part == "key" && k.src.field == b.src.field {
			switch u := b.typ.Underlying().(type) {
			case *types.Slice:
				return &value{kind: "asis", src: src{field: b.src.field, part: "elem"}, typ: u.Elem()}
			case *types.Map:
				return &value{kind: "asis", src: src{field: b.src.field, part: "val"}, typ: u.Elem()}
			}
		}
		refuse("%s: unsupported index expression", e.pos(ex))
	case *ast.CallExpr:
		return e.call(x)
	}
	refuse("%s: unsupported expression %T", e.pos(ex), ex)
	return nil
}

func (e *menv) call(c *ast.CallExpr) *value {
	info := e.w.info()
	if id, ok := ast.Unparen(c.Fun).(*ast.Ident); ok {
		if _, isBuiltin := info.Uses[id].(*types.Builtin); isBuiltin {
			switch id.Name {
			case "make":
				t := info.TypeOf(c.Args[0])
				switch t.Underlying().(type) {
				case *types.Slice:
					if len(c.Args) < 2 {
						refuse("%s: make without length", e.pos(c))
					}
					if lit, ok := c.Args[1].(*ast.BasicLit); !ok || lit.Value != "0" {
						// make([]T, len(x)): to be filled by index over a loop on x
						if lc, ok := ast.Unparen(c.Args[1]).(*ast.CallExpr); ok && len(c.Args) == 2 && len(lc.Args) == 1 {
							if lid, ok := lc.Fun.(*ast.Ident); ok && lid.Name == "len" {
								if _, isB := info.Uses[lid].(*types.Builtin); isB {
									if lv := e.eval(lc.Args[0]); lv.kind == "asis" && lv.src.part == "" {
										return &value{kind: "makeN", src: lv.src, typ: t}
									}
								}
							}
						}
						refuse("%s: make of a slice with a length that is neither 0 nor len(source)", e.pos(c))
					}
				case *types.Map:
				default:
					refuse("%s: make of %s", e.pos(c), t)
				}
				return &value{kind: "make", typ: t}
			case "append":
				dst, ok := e.fieldOfRes(c.Args[0])
				if !ok {
					refuse("%s: append to something that is not a result field", e.pos(c))
				}
				if c.Ellipsis != token.NoPos {
					if len(c.Args) != 2 {
						refuse("%s: unsupported append form", e.pos(c))
					}
					v := e.eval(c.Args[1])
					if v.kind != "asis" || v.src.part != "" {
						refuse("%s: append(…, x...) where x is not a receiver field", e.pos(c))
					}
					return &value{kind: "appendSpread", src: v.src, typ: v.typ, dst: dst}
				}
				if len(c.Args) != 2 {
					refuse("%s: unsupported append form", e.pos(c))
				}
				return &value{kind: "appendOne", inner: e.eval(c.Args[1]), dst: dst}
			}
			refuse("%s: builtin %s in value position", e.pos(c), id.Name)
		}
	}
	if id, ok := ast.Unparen(c.Fun).(*ast.Ident); ok {
		if fn, ok := info.Uses[id].(*types.Func); ok && fn.Pkg() != nil && fn.Pkg().Path() == astPkgPath && isDynSignature(fn) && len(c.Args) == 1 {
			e.w.analyseDynHelper(fn)
			x := e.eval(c.Args[0])
			if x.kind != "asis" {
				refuse("%s: %s applied to something that is not (part of) the receiver", e.pos(c), fn.Name())
			}
			if _, isIface := x.typ.Underlying().(*types.Interface); !isIface {
				refuse("%s: %s applied to a value of static type %s", e.pos(c), fn.Name(), x.typ)
			}
			return &value{kind: "dyn", src: x.src, mode: &Mode{K: "dyn"}, typ: x.typ}
		}
	}
	if id, ok := ast.Unparen(c.Fun).(*ast.Ident); ok {
		if fn, ok := info.Uses[id].(*types.Func); ok && fn.Pkg() != nil && fn.Pkg().Path() == astPkgPath && len(c.Args) == 1 && c.Ellipsis == token.NoPos {
			if sig := fn.Type().(*types.Signature); sig.Recv() == nil && sig.Params().Len() == 1 && sig.Results().Len() == 1 && !sig.Variadic() {
				x := e.eval(c.Args[0])
				if x.kind != "asis" {
					refuse("%s: helper %s applied to something that is not (part of) the receiver", e.pos(c), fn.Name())
				}
				if !types.Identical(x.typ, sig.Params().At(0).Type()) && !types.Identical(x.typ.Underlying(), sig.Params().At(0).Type().Underlying()) {
					refuse("%s: helper %s takes %s, applied to %s", e.pos(c), fn.Name(), sig.Params().At(0).Type(), x.typ)
				}
				md := e.w.analyseHelper(fn, c)
				return &value{kind: "deep", src: x.src, mode: &md, typ: sig.Results().At(0).Type()}
			}
		}
	}
	sel, ok := ast.Unparen(c.Fun).(*ast.SelectorExpr)
	if !ok {
		refuse("%s: unsupported call", e.pos(c))
	}
	// tools.Map(recv.F, func(p E) E { return … })
	if fn, ok := info.Uses[sel.Sel].(*types.Func); ok && fn.Pkg() != nil && fn.Pkg().Path() == toolPkgPath && fn.Name() == "Map" && info.Selections[sel] == nil {
		if len(c.Args) != 2 {
			refuse("%s: tools.Map arity", e.pos(c))
		}
		x := e.eval(c.Args[0])
		if x.kind != "asis" || x.src.part != "" {
			refuse("%s: tools.Map over something that is not a receiver field", e.pos(c))
		}
		sl, ok := x.typ.Underlying().(*types.Slice)
		if !ok {
			refuse("%s: tools.Map over %s", e.pos(c), x.typ)
		}
		em := e.closure(c.Args[1], 0, 1, src{field: x.src.field, part: "elem"}, sl.Elem())
		return &value{kind: "sliceOf", src: x.src, mode: &em, typ: x.typ}
	}
	msel := info.Selections[sel]
	if msel == nil || msel.Kind() != types.MethodVal {
		refuse("%s: unsupported call %s", e.pos(c), sel.Sel.Name)
	}
	fn := msel.Obj().(*types.Func)
	recvT := fn.Type().(*types.Signature).Recv().Type()
	if p, ok := recvT.(*types.Pointer); ok {
		recvT = p.Elem()
	}
	named, _ := types.Unalias(recvT).(*types.Named)
	if named == nil {
		refuse("%s: method on unnamed type", e.pos(c))
	}
	switch {
	case fn.Name() == "DeepCopy" && fn.Pkg().Path() == astPkgPath && len(c.Args) == 0:
		x := e.eval(sel.X)
		if x.kind != "asis" {
			refuse("%s: DeepCopy called on something that is not (part of) the receiver", e.pos(c))
		}
		name := named.Obj().Name()
		callee, ok := e.w.methods[name]
		if !ok {
			refuse("%s: DeepCopy method of %s not found", e.pos(c), name)
		}
		var md Mode
		if _, isStruct := named.Underlying().(*types.Struct); isStruct {
			md = Mode{K: "recur", T: name}
		} else {
			e.w.analyse(name)
			if callee.rootMode == nil {
				refuse("%s: recursive DeepCopy through non-struct type %s", e.pos(c), name)
			}
			md = *callee.rootMode
		}
		return &value{kind: "deep", src: x.src, mode: &md, typ: named}
	case fn.Name() == "Map" && fn.Pkg().Path() == omapPkgPath:
		x := e.eval(sel.X)
		if x.kind != "asis" || x.src.part != "" || len(c.Args) != 1 {
			refuse("%s: orderedmap Map over something that is not a receiver field", e.pos(c))
		}
		pt, ok := x.typ.(*types.Pointer)
		if !ok {
			refuse("%s: orderedmap receiver is not a pointer field", e.pos(c))
		}
		inst := types.Unalias(pt.Elem()).(*types.Named)
		if inst.TypeArgs().Len() != 2 {
			refuse("%s: orderedmap instantiation", e.pos(c))
		}
		em := e.closure(c.Args[0], 1, 2, src{field: x.src.field, part: "val"}, inst.TypeArgs().At(1))
		iname := typeName(inst)
		e.w.tyOf(inst, "orderedmap instance")
		ist := inst.Underlying().(*types.Struct)
		if ist.NumFields() != 2 || ist.Field(0).Name() != "records" || ist.Field(1).Name() != "order" {
			refuse("orderedmap.Map no longer has exactly the fields records, order")
		}
		e.w.addCopy(iname, []FieldMode{
			{Field: "records", Mode: Mode{K: "freshMap", Elem: &em}, How: "orderedmap.Map.Map: New() + Set(key, callback(value)) (helper body pinned)"},
			{Field: "order", Mode: Mode{K: "freshSlice", Elem: &Mode{K: "byValue"}}, How: "orderedmap.Map.Map: Set appends each key to a nil slice (helper body pinned)"},
		})
		md := Mode{K: "viaPtrRec", T: iname}
		return &value{kind: "omapOf", src: x.src, mode: &md, typ: x.typ}
	}
	refuse("%s: unsupported method call %s", e.pos(c), fn.FullName())
	return nil
}

// closure: `func(p…) T { return <v of p[idx]> }`; returns the element mode.
func (e *menv) closure(ex ast.Expr, idx, nparams int, s src, elemT types.Type) Mode {
	fl, ok := ast.Unparen(ex).(*ast.FuncLit)
	if !ok {
		refuse("%s: mapper is not a function literal", e.pos(ex))
	}
	var params []*ast.Ident
	for _, f := range fl.Type.Params.List {
		params = append(params, f.Names...)
	}
	if len(params) != nparams || len(fl.Body.List) != 1 {
		refuse("%s: unsupported mapper shape", e.pos(ex))
	}
	ret, ok := fl.Body.List[0].(*ast.ReturnStmt)
	if !ok || len(ret.Results) != 1 {
		refuse("%s: mapper must be a single return", e.pos(ex))
	}
	obj := e.w.info().Defs[params[idx]]
	if obj != nil {
		e.vars[obj] = &value{kind: "asis", src: s, typ: elemT}
		defer delete(e.vars, obj)
	}
	v := e.eval(ret.Results[0])
	return e.elemMode(v, s, ex)
}

func (e *menv) elemMode(v *value, want src, at ast.Node) Mode {
	if v.src != want {
		refuse("%s: element value does not come from the corresponding element of the source", e.pos(at))
	}
	switch v.kind {
	case "asis":
		return asIsMode(v.typ)
	case "deep":
		return *v.mode
	case "dyn":
		return Mode{K: "dyn"}
	case "ptrdeep":
		if v.mode.K != "recur" {
			refuse("%s: pointer to a non-struct deep copy", e.pos(at))
		}
		return Mode{K: "viaPtrRec", T: v.mode.T}
	}
	refuse("%s: unsupported element value (%s)", e.pos(at), v.kind)
	return Mode{}
}

// ---------------------------------------------------------------- classification of one field

func (e *menv) classify(field string, t types.Type, at ast.Node) (Mode, string) {
	return e.classifyEvents(field, t, e.events[field], at)
}

func (e *menv) classifyEvents(field string, t types.Type, evs []*value, at ast.Node) (Mode, string) {
	kinds := make([]string, len(evs))
	for i, v := range evs {
		kinds[i] = v.kind
		if v.kind == "appendOne" || v.kind == "index" {
			kinds[i] += "(" + v.inner.kind + ")"
		}
	}
	how := strings.Join(kinds, ",")
	if how == "" {
		how = "never assigned"
	}
	whole := src{field: field}
	sameSrc := func(v *value) {
		if v.src != whole {
			refuse("%s: field %q is filled from %q", e.pos(at), field, v.src.field)
		}
	}
	rest := evs
	made := false
	if len(rest) > 0 && rest[0].kind == "make" {
		made = true
		rest = rest[1:]
	}
	if len(rest) == 2 && !made && rest[0].kind == "makeN" && rest[1].kind == "index" {
		// make([]E, len(src)) then res[i] = <v of src[i]> over a loop on src
		sameSrc(rest[0])
		if _, ok := t.Underlying().(*types.Slice); !ok {
			refuse("%s: sized make on non-slice %q", e.pos(at), field)
		}
		em := e.elemMode(rest[1].inner, src{field: field, part: "elem"}, at)
		return Mode{K: "freshSlice", Elem: &em}, how
	}
	switch {
	case len(rest) == 0:
		return Mode{K: "omitted"}, how
	case len(rest) == 1 && !made && rest[0].kind == "dyn":
		sameSrc(rest[0])
		if _, ok := t.Underlying().(*types.Interface); !ok {
			refuse("%s: dynamic-value copy assigned to non-interface field %q", e.pos(at), field)
		}
		return Mode{K: "dyn"}, how
	case len(rest) == 1 && !made && rest[0].kind == "ptrlit":
		// res.F = &T{G: …}: inline copy of the pointed-to struct, field by field
		pt, ok := t.Underlying().(*types.Pointer)
		if !ok || !types.Identical(pt, rest[0].typ) {
			refuse("%s: pointer literal of type %s assigned to field %q", e.pos(at), rest[0].typ, field)
		}
		named, _ := types.Unalias(pt.Elem()).(*types.Named)
		var pst *types.Struct
		if named != nil {
			pst, _ = named.Underlying().(*types.Struct)
		}
		if pst == nil {
			refuse("%s: pointer literal of a non-struct type for field %q", e.pos(at), field)
		}
		fms := make([]FieldMode, 0, pst.NumFields())
		for i := 0; i < pst.NumFields(); i++ {
			g := pst.Field(i)
			key := field + "." + g.Name()
			var gevs []*value
			if lv, ok := rest[0].lit[g.Name()]; ok {
				gevs = append(gevs, lv)
			}
			gevs = append(gevs, e.events[key]...)
			e.consumed[key] = true
			md, ghow := e.classifyEvents(key, g.Type(), gevs, at)
			fms = append(fms, FieldMode{Field: g.Name(), Mode: md, How: "inline in " + e.m.name + ": " + ghow})
		}
		tname := typeName(named)
		e.w.tyOf(named, "inline copy of "+tname)
		e.w.addCopy(tname, fms)
		return Mode{K: "viaPtrRec", T: tname}, how
	case len(rest) == 1 && !made && rest[0].kind == "asis":
		sameSrc(rest[0])
		return asIsMode(t), how
	case len(rest) == 1 && !made && rest[0].kind == "deep":
		sameSrc(rest[0])
		if _, isPtr := t.Underlying().(*types.Pointer); isPtr {
			refuse("%s: deep copy value assigned to pointer field %q", e.pos(at), field)
		}
		return *rest[0].mode, how
	case len(rest) == 1 && !made && rest[0].kind == "ptrdeep":
		sameSrc(rest[0])
		if rest[0].mode.K != "recur" {
			refuse("%s: pointer to a non-struct deep copy", e.pos(at))
		}
		return Mode{K: "viaPtrRec", T: rest[0].mode.T}, how
	case len(rest) == 1 && !made && rest[0].kind == "sliceOf":
		sameSrc(rest[0])
		return Mode{K: "freshSlice", Elem: rest[0].mode}, how
	case len(rest) == 1 && !made && rest[0].kind == "omapOf":
		sameSrc(rest[0])
		return *rest[0].mode, how
	case len(rest) == 1 && rest[0].kind == "appendSpread":
		sameSrc(rest[0])
		sl, ok := t.Underlying().(*types.Slice)
		if !ok {
			refuse("%s: append on non-slice field %q", e.pos(at), field)
		}
		em := asIsMode(sl.Elem())
		return Mode{K: "freshSlice", Elem: &em}, how
	case len(rest) == 1 && rest[0].kind == "appendOne":
		if _, ok := t.Underlying().(*types.Slice); !ok {
			refuse("%s: append on non-slice field %q", e.pos(at), field)
		}
		em := e.elemMode(rest[0].inner, src{field: field, part: "elem"}, at)
		return Mode{K: "freshSlice", Elem: &em}, how
	case len(rest) == 1 && made && rest[0].kind == "index":
		if _, ok := t.Underlying().(*types.Map); !ok {
			refuse("%s: indexed fill of non-map field %q", e.pos(at), field)
		}
		em := e.elemMode(rest[0].inner, src{field: field, part: "val"}, at)
		return Mode{K: "freshMap", Elem: &em}, how
	}
	refuse("%s: field %q: unsupported sequence of writes [%s]", e.pos(at), field, how)
	return Mode{}, how
}

// ---------------------------------------------------------------- same-package copy helpers

// analyseHelper: an unexported package-level func(x T) T' of package ast called on (part of) the
// receiver.  Its body is read with the rules of a DeepCopy body, the parameter playing the
// receiver and the result the copy; the mode of the whole parameter is returned.  Helpers may
// call helpers, two levels deep at most.
func (w *world) analyseHelper(fn *types.Func, at ast.Node) Mode {
	if md, ok := w.helpers[fn]; ok {
		return md
	}
	if w.helperBusy[fn] {
		refuse("%s: recursive copy helper %s", w.pos(at), fn.Name())
	}
	if w.helperDepth >= 2 {
		refuse("%s: copy helpers nested more than two levels deep (%s)", w.pos(at), fn.Name())
	}
	var decl *ast.FuncDecl
	for _, f := range w.astPkg.Syntax {
		for _, d := range f.Decls {
			if fd, ok := d.(*ast.FuncDecl); ok && w.info().Defs[fd.Name] == fn {
				decl = fd
			}
		}
	}
	if decl == nil || decl.Body == nil || len(decl.Type.Params.List) != 1 || len(decl.Type.Params.List[0].Names) != 1 {
		refuse("%s: copy helper %s: unsupported declaration", w.pos(at), fn.Name())
	}
	pid := decl.Type.Params.List[0].Names[0]
	param := w.info().Defs[pid]
	sig := fn.Type().(*types.Signature)
	base := param.Type()
	if _, ok := base.(*types.Pointer); ok {
		refuse("%s: copy helper %s takes a pointer", w.pos(at), fn.Name())
	}
	m := &method{decl: decl, recvName: pid.Name, recvObj: param, name: "helper " + fn.Name(), base: base, result: sig.Results().At(0).Type()}
	w.helperBusy[fn] = true
	w.helperDepth++
	fms, root := w.analyseFunc(m, decl.Body.List, decl)
	w.helperDepth--
	w.helperBusy[fn] = false
	var md Mode
	if fms != nil {
		named, ok := types.Unalias(base).(*types.Named)
		if !ok {
			refuse("%s: copy helper %s rebuilds an unnamed struct", w.pos(at), fn.Name())
		}
		w.addCopy(typeName(named), fms) // must agree with the struct's DeepCopy method, if any
		md = Mode{K: "recur", T: typeName(named)}
	} else {
		md = *root
	}
	w.helpers[fn] = md
	w.out.CopyHelpers = append(w.out.CopyHelpers, fn.Name()+": "+modeString(md))
	return md
}

func modeString(m Mode) string {
	switch m.K {
	case "freshSlice", "freshMap":
		return m.K + "(" + modeString(*m.Elem) + ")"
	case "recur", "viaPtrRec":
		return m.K + " " + m.T
	}
	return m.K
}
