package main

// The two copy helpers called from DeepCopy methods — tools.Map and (*orderedmap.Map).Map (with
// New and Set, which it calls) — are not analysed statement by statement: their bodies are
// pinned.  What the table assumes about them:
//   tools.Map(xs, f)      nil ↦ nil; otherwise a new slice ys with ys[i] = f(xs[i])
//   m.Map(f)              a new *Map (New: new records map, nil order) filled with
//                         Set(k, f(k, m.records[k])) for k in m.order (Set appends new keys)
// A changed body makes the extractor refuse (the dynamic check of C18 exercises both anyway).

import (
	"bytes"
	"crypto/sha1"
	"fmt"
	"go/ast"
	"go/printer"
	"go/token"
	"os"

	"golang.org/x/tools/go/packages"
)

var pinnedHelpers = map[string]string{
	"tools.Map":          "dc5c95bd179c59ee",
	"orderedmap.New":     "e712857229280c80",
	"orderedmap.Map.Set": "cd825be539800805",
	"orderedmap.Map.Map": "6d81a5a4d6376543",
}

func findFunc(p *packages.Package, recv, name string) *ast.FuncDecl {
	for _, f := range p.Syntax {
		for _, d := range f.Decls {
			fd, ok := d.(*ast.FuncDecl)
			if !ok || fd.Name.Name != name || fd.Body == nil {
				continue
			}
			r := ""
			if fd.Recv != nil && len(fd.Recv.List) == 1 {
				t := fd.Recv.List[0].Type
				if s, ok := t.(*ast.StarExpr); ok {
					t = s.X
				}
				if ix, ok := t.(*ast.IndexListExpr); ok {
					t = ix.X
				}
				if ix, ok := t.(*ast.IndexExpr); ok {
					t = ix.X
				}
				if id, ok := t.(*ast.Ident); ok {
					r = id.Name
				}
			}
			if r == recv {
				return fd
			}
		}
	}
	return nil
}

func bodyHash(fset *token.FileSet, fd *ast.FuncDecl) string {
	cp := *fd
	cp.Doc = nil
	var buf bytes.Buffer
	if err := printer.Fprint(&buf, fset, &cp); err != nil {
		refuse("cannot print helper %s: %v", fd.Name.Name, err)
	}
	return fmt.Sprintf("%x", sha1.Sum(buf.Bytes()))[:16]
}

func (w *world) checkHelpers() {
	type h struct {
		key, pkg, recv, name string
	}
	for _, x := range []h{
		{"tools.Map", toolPkgPath, "", "Map"},
		{"orderedmap.New", omapPkgPath, "", "New"},
		{"orderedmap.Map.Set", omapPkgPath, "Map", "Set"},
		{"orderedmap.Map.Map", omapPkgPath, "Map", "Map"},
	} {
		p := w.pkgs[x.pkg]
		fd := findFunc(p, x.recv, x.name)
		if fd == nil {
			refuse("copy helper %s not found", x.key)
		}
		got := bodyHash(p.Fset, fd)
		w.out.Helpers[x.key] = got
		if os.Getenv("XCOPY_NOPIN") == "" && got != pinnedHelpers[x.key] {
			refuse("copy helper %s changed (body hash %s, pinned %s): its copy behaviour must be re-read", x.key, got, pinnedHelpers[x.key])
		}
	}
}
