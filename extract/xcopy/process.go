package main

// The transformation-chain entry point: compiler.Passes.Process must duplicate its input before
// anything else and hand back only the duplicate.  Syntactic fact, checked on the current source:
//
//   (1) the `schemas` parameter is used exactly once in the whole body, as the receiver of
//       ast.Schemas.DeepCopy();
//   (2) that call is the right-hand side of a statement at the top level of the body (not under an
//       if / for / switch): it is executed unconditionally;
//   (3) no return statement precedes it;
//   (4) every return statement returns `nil` or the variable that received the copy.
//
// (1) alone means that neither a pass nor the caller can get the input through Process; (2)–(4)
// exclude the "empty chain returns its input" shortcut and its variants.

import (
	"bytes"
	"go/ast"
	"go/printer"
	"go/types"
)

type ProcessFact struct {
	Found              bool   `json:"found"`
	Func               string `json:"func"`
	InputUses          int    `json:"input_uses"`
	OnlyUseIsDeepCopy  bool   `json:"only_use_is_deepcopy"`
	CopyAtTopLevel     bool   `json:"copy_at_top_level"`
	NoReturnBeforeCopy bool   `json:"no_return_before_copy"`
	ReturnsCopyOrNil   bool   `json:"returns_copy_or_nil"`
	CopyStmt           string `json:"copy_stmt"`
	Detail             string `json:"detail"`
}

func (w *world) processFact() *ProcessFact {
	pf := &ProcessFact{Func: "compiler.Passes.Process"}
	p := w.pkgs[compPkgPath]
	if p == nil {
		pf.Detail = "package internal/ast/compiler not loaded"
		return pf
	}
	fd := findFunc(p, "Passes", "Process")
	if fd == nil || fd.Type.Params.NumFields() != 1 || len(fd.Type.Params.List[0].Names) != 1 {
		pf.Detail = "method Passes.Process(schemas) not found"
		return pf
	}
	pf.Found = true
	info := p.TypesInfo
	param := info.Defs[fd.Type.Params.List[0].Names[0]]

	// (1) uses of the parameter
	var uses []*ast.Ident
	ast.Inspect(fd.Body, func(n ast.Node) bool {
		if id, ok := n.(*ast.Ident); ok && info.Uses[id] == param {
			uses = append(uses, id)
		}
		return true
	})
	pf.InputUses = len(uses)

	isCopyCall := func(ex ast.Expr) bool {
		call, ok := ast.Unparen(ex).(*ast.CallExpr)
		if !ok || len(call.Args) != 0 {
			return false
		}
		sel, ok := ast.Unparen(call.Fun).(*ast.SelectorExpr)
		if !ok || sel.Sel.Name != "DeepCopy" {
			return false
		}
		id, ok := ast.Unparen(sel.X).(*ast.Ident)
		if !ok || info.Uses[id] != param {
			return false
		}
		s := info.Selections[sel]
		if s == nil || s.Kind() != types.MethodVal {
			return false
		}
		fn := s.Obj().(*types.Func)
		return fn.Pkg() != nil && fn.Pkg().Path() == astPkgPath
	}

	// (2) the copy statement at the top level of the body
	copyIdx := -1
	var local types.Object
	for i, st := range fd.Body.List {
		switch s := st.(type) {
		case *ast.AssignStmt:
			if len(s.Lhs) == 1 && len(s.Rhs) == 1 && isCopyCall(s.Rhs[0]) {
				if id, ok := s.Lhs[0].(*ast.Ident); ok {
					copyIdx = i
					if local = info.Defs[id]; local == nil {
						local = info.Uses[id]
					}
				}
			}
		case *ast.DeclStmt:
			if gd, ok := s.Decl.(*ast.GenDecl); ok && len(gd.Specs) == 1 {
				if vs, ok := gd.Specs[0].(*ast.ValueSpec); ok && len(vs.Names) == 1 && len(vs.Values) == 1 && isCopyCall(vs.Values[0]) {
					copyIdx = i
					local = info.Defs[vs.Names[0]]
				}
			}
		}
		if copyIdx >= 0 {
			break
		}
	}
	pf.CopyAtTopLevel = copyIdx >= 0 && local != nil
	pf.OnlyUseIsDeepCopy = pf.InputUses == 1 && pf.CopyAtTopLevel
	if !pf.CopyAtTopLevel {
		pf.Detail = "no top-level statement `x := schemas.DeepCopy()`"
		return pf
	}
	var buf bytes.Buffer
	_ = printer.Fprint(&buf, p.Fset, fd.Body.List[copyIdx])
	pf.CopyStmt = buf.String()

	// (3) no return before the copy
	pf.NoReturnBeforeCopy = true
	for _, st := range fd.Body.List[:copyIdx] {
		ast.Inspect(st, func(n ast.Node) bool {
			if _, ok := n.(*ast.ReturnStmt); ok {
				pf.NoReturnBeforeCopy = false
			}
			return true
		})
	}

	// (4) what is returned
	pf.ReturnsCopyOrNil = true
	ast.Inspect(fd.Body, func(n ast.Node) bool {
		if _, ok := n.(*ast.FuncLit); ok {
			return false
		}
		r, ok := n.(*ast.ReturnStmt)
		if !ok {
			return true
		}
		if len(r.Results) == 0 {
			pf.ReturnsCopyOrNil = false
			return true
		}
		id, ok := ast.Unparen(r.Results[0]).(*ast.Ident)
		if !ok {
			pf.ReturnsCopyOrNil = false
			return true
		}
		if _, isNil := info.Uses[id].(*types.Nil); isNil {
			return true
		}
		if info.Uses[id] != local {
			pf.ReturnsCopyOrNil = false
		}
		return true
	})
	return pf
}
