// Command xfromast is the source TRANSLATOR of /verif's C16 check.
//
// It parses internal/ast/builder.go with go/ast and turns the bodies of
//
//	BuilderGenerator.FromAST, .structObjectToBuilder, .fieldIsRefToConcrete, .structFieldToOption
//
// into closed terms of the deep-embedded mini-language `Cog.Builder.Src.Stmt`
// (lean/Cog/Builder/Src.lean).  Output: the Lean module `Cog.Gen.FromASTSrc` (-lean) and the same
// facts as JSON (-json).
//
// Purely syntactic.  The receiver is renamed `r`, parameters p0, p1, … and local variables
// x0, x1, … in order of declaration (original names are kept in comments).  Scoping follows Go's
// blocks: a name may be declared again in a SIBLING block (it gets a fresh canonical name), a
// declaration that would shadow a visible name is REFUSED.  It REFUSES (exit 1, message naming
// the node and its position) on every statement/expression form outside the grammar of Src.lean,
// and when the structs Builder / Option / Argument / OptionDefault / Constructor do not have exactly the fields the interpreter knows.
//
// Every other function of the file is listed as `untranslated` with the reason and a sha256 of
// its printed source (calls to them from a translated body are refused by the grammar).
package main

import (
	"bytes"
	"crypto/sha256"
	"encoding/json"
	"flag"
	"fmt"
	"go/ast"
	"go/parser"
	"go/printer"
	"go/token"
	"os"
	"path/filepath"
	"strconv"
	"strings"
)

// translated functions: "Recv.Name" (Recv empty for free functions)
var translate = []string{"BuilderGenerator.FromAST", "BuilderGenerator.structObjectToBuilder", "BuilderGenerator.fieldIsRefToConcrete", "BuilderGenerator.structFieldToOption"}

// Lean identifier prefix per translated function
var leanName = map[string]string{
	"BuilderGenerator.FromAST": "fromAST", "BuilderGenerator.structObjectToBuilder": "structObjectToBuilder",
	"BuilderGenerator.fieldIsRefToConcrete": "fieldIsRefToConcrete", "BuilderGenerator.structFieldToOption": "structFieldToOption",
}

// struct name -> field names in order, exactly what lean/Cog/Builder/Src.lean (zero values, withField, setPath) knows
var pinnedStructs = map[string][]string{
	"Builder":       {"For", "Package", "Name", "Properties", "Constructor", "Options", "VeneerTrail", "Factories"},
	"Option":        {"Name", "Comments", "VeneerTrail", "Args", "Assignments", "Default"},
	"Argument":      {"Name", "Type"},
	"OptionDefault": {"ArgsValues"},
	"Constructor":   {"Args", "Assignments"},
}

// reasons for the untranslated functions the interpreter gives a meaning to (trusted base of Src.lean)
var trustedCallee = map[string]string{
	".PathFromStructField": "callee, meaning = the model's pathFromStructField (a one-element Path literal of PathItem: outside the grammar)",
	".ConstantAssignment":  "callee, meaning = the model's constantAssignment (variadic options, closures: outside the grammar; called here without options)",
	".FieldAssignment":     "callee, meaning = the model's fieldAssignment (builds closures WithTypeConstraints and applies them: outside the grammar)",
	".ArgumentAssignment":  "called by FieldAssignment only (variadic options applied in a loop of closures: outside the grammar)",
	".WithTypeConstraints": "called by FieldAssignment only (returns a closure: outside the grammar)",
}

const notCalled = "not called by FromAST/structObjectToBuilder/fieldIsRefToConcrete/structFieldToOption (a call to it from a translated body is refused)"

var fset = token.NewFileSet()

func refuse(n ast.Node, format string, a ...any) {
	pos := ""
	if n != nil {
		pos = fset.Position(n.Pos()).String() + ": "
	}
	fmt.Fprintf(os.Stderr, "xfromast: REFUSE: "+pos+format+"\n", a...)
	os.Exit(1)
}

func src(n ast.Node) string {
	var b bytes.Buffer
	_ = printer.Fprint(&b, fset, n)
	s := b.String()
	if len(s) > 120 {
		s = s[:120] + "…"
	}
	return strings.ReplaceAll(s, "\n", " ")
}

func q(s string) string { return strconv.Quote(s) }

type scope struct {
	fn     string
	frames []map[string]string // innermost last: Go name -> canonical name
	orig   []string            // "canonical=original" for the comment
	nLocal int
	inFunc bool // inside the closure passed to Iterate
	loops  int  // enclosing for statements (not crossing a function literal)
}

func (sc *scope) lookup(name string) (string, bool) {
	for i := len(sc.frames) - 1; i >= 0; i-- {
		if c, ok := sc.frames[i][name]; ok {
			return c, true
		}
	}
	return "", false
}

func (sc *scope) push() { sc.frames = append(sc.frames, map[string]string{}) }
func (sc *scope) pop()  { sc.frames = sc.frames[:len(sc.frames)-1] }

func (sc *scope) declare(id *ast.Ident) string {
	if id.Name == "_" {
		refuse(id, "blank identifier not allowed here")
	}
	if _, vis := sc.lookup(id.Name); vis {
		refuse(id, "redeclaration/shadowing of the visible name %q in %s (flat naming would be unsound)", id.Name, sc.fn)
	}
	switch id.Name {
	case "nil", "len", "append", "make", "true", "false", "ConstantAssignment", "PathFromStructField", "FieldAssignment":
		refuse(id, "declaration shadows the predeclared/package-level name %q", id.Name)
	}
	c := "x" + strconv.Itoa(sc.nLocal)
	sc.nLocal++
	sc.frames[len(sc.frames)-1][id.Name] = c
	sc.orig = append(sc.orig, c+"="+id.Name)
	return c
}

// localVar: e is an identifier naming the receiver, a parameter or a local
func (sc *scope) localVar(e ast.Expr) (string, bool) {
	id, ok := e.(*ast.Ident)
	if !ok {
		return "", false
	}
	return sc.lookup(id.Name)
}

var zeroTypes = map[string][]string{ // composite literal type -> keys the interpreter knows
	"Builder":       {"Package", "For", "Name"},
	"Option":        {"Name", "Comments", "Args", "Assignments"},
	"Argument":      {"Name", "Type"},
	"OptionDefault": {"ArgsValues"},
}
var sliceElems = map[string]bool{"Argument": true, "Assignment": true, "any": true, "Builder": true}

// methods (of types / schemas / the generator) the interpreter gives a meaning to, by arity
var methods = map[string]int{
	"IsScalar": 0, "AsScalar": 0, "IsConcrete": 0, "IsStruct": 0, "AsStruct": 0, "IsRef": 0, "IsConstantRef": 0,
	"IsConcreteScalar": 0, "ResolveToType": 1,
	"fieldIsRefToConcrete": 2, "structFieldToOption": 1, "structObjectToBuilder": 3,
}

// free functions of builder.go the interpreter gives a meaning to, by arity
var funcs = map[string]int{"ConstantAssignment": 2, "PathFromStructField": 1, "FieldAssignment": 1}

func (sc *scope) lit(cl *ast.CompositeLit, elided string) string {
	tn := elided
	if cl.Type != nil {
		tn = src(cl.Type)
	}
	if strings.HasPrefix(tn, "[]") {
		el := tn[2:]
		if !sliceElems[el] {
			refuse(cl, "slice literal of element type %s", el)
		}
		out := "(.emptySlice " + q(el) + ")"
		for _, e := range cl.Elts {
			var x string
			if c, ok := e.(*ast.CompositeLit); ok {
				x = sc.lit(c, el)
			} else if _, ok := e.(*ast.KeyValueExpr); ok {
				refuse(e, "keyed slice literal element")
			} else {
				x = sc.expr(e)
			}
			out = "(.append1 " + out + " " + x + ")"
		}
		return out
	}
	keys, ok := zeroTypes[tn]
	if !ok {
		refuse(cl, "composite literal of type %q", tn)
	}
	out := "(.zero " + q(tn) + ")"
	seen := map[string]bool{}
	for _, el := range cl.Elts {
		kv, ok := el.(*ast.KeyValueExpr)
		if !ok {
			refuse(el, "unkeyed composite literal element")
		}
		k, ok := kv.Key.(*ast.Ident)
		if !ok || seen[k.Name] {
			refuse(el, "composite literal key %s", src(kv.Key))
		}
		known := false
		for _, kk := range keys {
			known = known || kk == k.Name
		}
		if !known {
			refuse(el, "key %s of %s is not known to the interpreter", k.Name, tn)
		}
		seen[k.Name] = true
		var v string
		if c, ok := kv.Value.(*ast.CompositeLit); ok {
			v = sc.lit(c, "")
		} else {
			v = sc.expr(kv.Value)
		}
		out = "(.withField " + out + " " + q(k.Name) + " " + v + ")"
	}
	return out
}

func (sc *scope) expr(e ast.Expr) string {
	switch e := e.(type) {
	case *ast.ParenExpr:
		return sc.expr(e.X)
	case *ast.Ident:
		if c, ok := sc.lookup(e.Name); ok {
			return "(.var " + q(c) + ")"
		}
		switch e.Name {
		case "nil":
			return ".nil"
		case "true", "false":
			return "(.bool " + e.Name + ")"
		}
		refuse(e, "unknown identifier %q", e.Name)
	case *ast.SelectorExpr:
		return "(.field " + sc.expr(e.X) + " " + q(e.Sel.Name) + ")"
	case *ast.CompositeLit:
		if e.Type == nil {
			refuse(e, "composite literal without a type")
		}
		return sc.lit(e, "")
	case *ast.UnaryExpr:
		switch e.Op {
		case token.NOT:
			return "(.not " + sc.expr(e.X) + ")"
		case token.AND:
			cl, ok := e.X.(*ast.CompositeLit)
			if !ok || cl.Type == nil {
				refuse(e, "address-of %s", src(e))
			}
			return "(.addr " + sc.lit(cl, "") + ")"
		}
		refuse(e, "unary operator %s", e.Op)
	case *ast.BinaryExpr:
		switch e.Op {
		case token.LAND:
			return "(.and " + sc.expr(e.X) + " " + sc.expr(e.Y) + ")"
		case token.NEQ, token.EQL:
			if id, ok := e.Y.(*ast.Ident); ok && id.Name == "nil" {
				if _, local := sc.lookup("nil"); !local {
					if e.Op == token.NEQ {
						return "(.neNil " + sc.expr(e.X) + ")"
					}
					return "(.not (.neNil " + sc.expr(e.X) + "))"
				}
			}
		}
		refuse(e, "binary operator %s in %s", e.Op, src(e))
	case *ast.CallExpr:
		if e.Ellipsis.IsValid() {
			refuse(e, "variadic call %s", src(e))
		}
		var args []string
		switch f := e.Fun.(type) {
		case *ast.Ident:
			if _, local := sc.lookup(f.Name); local {
				refuse(e, "call of a local function value %s", src(e))
			}
			switch {
			case f.Name == "append" && len(e.Args) == 2:
				return "(.append1 " + sc.expr(e.Args[0]) + " " + sc.expr(e.Args[1]) + ")"
			case f.Name == "make":
				return sc.makeExpr(e)
			}
			if n, ok := funcs[f.Name]; ok && n == len(e.Args) {
				for _, a := range e.Args {
					args = append(args, sc.expr(a))
				}
				return "(.call" + strconv.Itoa(n) + " " + q(f.Name) + " " + strings.Join(args, " ") + ")"
			}
		case *ast.SelectorExpr:
			if n, ok := methods[f.Sel.Name]; ok && n == len(e.Args) {
				for _, a := range e.Args {
					args = append(args, sc.expr(a))
				}
				return strings.TrimSpace("(.mcall"+strconv.Itoa(n)+" "+sc.expr(f.X)+" "+q(f.Sel.Name)+" "+strings.Join(args, " ")) + ")"
			}
		}
		refuse(e, "call %s", src(e))
	}
	refuse(e, "expression %T %s", e, src(e))
	return ""
}

// make([]T, 0, len(x)): an empty slice (capacity is not observable; len(x) of a visible name cannot panic)
func (sc *scope) makeExpr(e *ast.CallExpr) string {
	if len(e.Args) != 3 {
		refuse(e, "make form %s", src(e))
	}
	t, ok := e.Args[0].(*ast.ArrayType)
	if !ok || t.Len != nil || !sliceElems[src(t.Elt)] {
		refuse(e, "make form %s", src(e))
	}
	if l, ok := e.Args[1].(*ast.BasicLit); !ok || l.Value != "0" {
		refuse(e, "make: length must be the literal 0 in %s", src(e))
	}
	c, ok := e.Args[2].(*ast.CallExpr)
	if !ok || src(c.Fun) != "len" || len(c.Args) != 1 {
		refuse(e, "make: capacity must be len(x) in %s", src(e))
	}
	if _, ok := sc.localVar(c.Args[0]); !ok {
		refuse(e, "make: capacity must be len(x) of a visible name in %s", src(e))
	}
	return "(.emptySlice " + q(src(t.Elt)) + ")"
}

func seq(parts []string) string {
	if len(parts) == 0 {
		return ".skip"
	}
	if len(parts) == 1 {
		return parts[0]
	}
	return "(.seq " + parts[0] + "\n    " + seq(parts[1:]) + ")"
}

func (sc *scope) block(b *ast.BlockStmt) string {
	sc.push()
	defer sc.pop()
	var parts []string
	for _, s := range b.List {
		parts = append(parts, sc.stmt(s)...)
	}
	return seq(parts)
}

func (sc *scope) assign(s *ast.AssignStmt) []string {
	if len(s.Lhs) != 1 || len(s.Rhs) != 1 || (s.Tok != token.DEFINE && s.Tok != token.ASSIGN) {
		refuse(s, "assignment form %s", src(s))
	}
	rhs := sc.expr(s.Rhs[0]) // evaluated before the left-hand side is declared
	switch l := s.Lhs[0].(type) {
	case *ast.Ident:
		if s.Tok == token.DEFINE {
			return []string{"(.assign " + q(sc.declare(l)) + " " + rhs + ")"}
		}
		c, ok := sc.lookup(l.Name)
		if !ok {
			refuse(s, "assignment to %q", l.Name)
		}
		return []string{"(.assign " + q(c) + " " + rhs + ")"}
	case *ast.SelectorExpr: // x.F.G = e
		var path []string
		var cur ast.Expr = l
		for {
			se, ok := cur.(*ast.SelectorExpr)
			if !ok {
				break
			}
			path = append([]string{q(se.Sel.Name)}, path...)
			cur = se.X
		}
		if x, ok := sc.localVar(cur); ok && s.Tok == token.ASSIGN {
			return []string{"(.setPath " + q(x) + " [" + strings.Join(path, ", ") + "] " + rhs + ")"}
		}
	}
	refuse(s, "assignment target %s", src(s))
	return nil
}

func (sc *scope) stmt(s ast.Stmt) []string {
	switch s := s.(type) {
	case *ast.EmptyStmt:
		return nil
	case *ast.AssignStmt:
		return sc.assign(s)
	case *ast.IfStmt:
		if s.Init != nil {
			refuse(s.Init, "if-init %s", src(s.Init))
		}
		cond := sc.expr(s.Cond)
		body := sc.block(s.Body)
		switch el := s.Else.(type) {
		case nil:
			return []string{"(.ifThen " + cond + " " + body + ")"}
		case *ast.BlockStmt:
			return []string{"(.ifElse " + cond + " " + body + " " + sc.block(el) + ")"}
		case *ast.IfStmt:
			return []string{"(.ifElse " + cond + " " + body + " " + seq(sc.stmt(el)) + ")"}
		}
		refuse(s, "else form")
	case *ast.RangeStmt:
		k, ok := s.Key.(*ast.Ident)
		v, ok2 := s.Value.(*ast.Ident)
		if !ok || !ok2 || k.Name != "_" || s.Tok != token.DEFINE {
			refuse(s, "range form (want `for _, x := range e`)")
		}
		e := sc.expr(s.X)
		sc.push()
		defer sc.pop()
		x := sc.declare(v)
		sc.loops++
		body := sc.block(s.Body)
		sc.loops--
		return []string{"(.forRange " + q(x) + " " + e + " " + body + ")"}
	case *ast.BranchStmt:
		if s.Tok != token.CONTINUE || s.Label != nil || sc.loops == 0 {
			refuse(s, "branch statement %s", src(s))
		}
		return []string{".cont"}
	case *ast.ReturnStmt:
		if sc.inFunc {
			if len(s.Results) != 0 {
				refuse(s, "return with a value inside the Iterate callback")
			}
			return []string{".ret0"}
		}
		switch len(s.Results) {
		case 0:
			return []string{".ret0"}
		case 1:
			return []string{"(.ret1 " + sc.expr(s.Results[0]) + ")"}
		}
		refuse(s, "return of %d values", len(s.Results))
	case *ast.ExprStmt:
		c, ok := s.X.(*ast.CallExpr)
		if !ok || c.Ellipsis.IsValid() {
			refuse(s, "expression statement %s", src(s))
		}
		sel, ok := c.Fun.(*ast.SelectorExpr)
		if !ok {
			refuse(s, "call statement %s", src(s))
		}
		if sel.Sel.Name == "Iterate" && len(c.Args) == 1 { // e.Iterate(func(k K, v V) { … })
			fl, ok := c.Args[0].(*ast.FuncLit)
			if !ok || sc.inFunc || fl.Type.Results != nil || fl.Type.Params == nil {
				refuse(s, "Iterate argument %s", src(c.Args[0]))
			}
			var ps []*ast.Ident
			for _, f := range fl.Type.Params.List {
				ps = append(ps, f.Names...)
			}
			if len(ps) != 2 {
				refuse(s, "Iterate callback with %d parameters", len(ps))
			}
			e := sc.expr(sel.X)
			sc.push()
			defer sc.pop()
			k := "_"
			if ps[0].Name != "_" {
				k = sc.declare(ps[0])
			}
			v := sc.declare(ps[1])
			sc.inFunc = true
			saved := sc.loops
			sc.loops = 0 // `continue` does not cross a function literal
			body := sc.block(fl.Body)
			sc.loops = saved
			sc.inFunc = false
			return []string{"(.iterate " + e + " " + q(k) + " " + q(v) + " " + body + ")"}
		}
		refuse(s, "call statement %s", src(s))
	}
	refuse(s, "statement %T %s", s, src(s))
	return nil
}

type funcOut struct {
	Name   string   `json:"name"`
	Lean   string   `json:"lean"`
	Params []string `json:"params"`
	Names  []string `json:"names"`
	Body   string   `json:"body"`
	Hash   string   `json:"hash"`
}
type untr struct {
	Name   string `json:"name"`
	Reason string `json:"reason"`
	Hash   string `json:"hash"`
}

func hashOf(n ast.Node) string {
	var b bytes.Buffer
	_ = printer.Fprint(&b, fset, n)
	return fmt.Sprintf("%x", sha256.Sum256(b.Bytes()))
}

func recvType(fd *ast.FuncDecl) string {
	if fd.Recv == nil {
		return ""
	}
	if len(fd.Recv.List) != 1 {
		refuse(fd, "receiver list")
	}
	t := fd.Recv.List[0].Type
	if st, ok := t.(*ast.StarExpr); ok {
		t = st.X
	}
	id, ok := t.(*ast.Ident)
	if !ok {
		refuse(fd, "receiver type %s", src(t))
	}
	return id.Name
}

func main() {
	leanOut := flag.String("lean", "", "output Lean file")
	jsonOut := flag.String("json", "", "output JSON file")
	flag.Parse()
	if flag.NArg() != 1 {
		refuse(nil, "usage: xfromast -lean F -json F <repo>")
	}
	path := filepath.Join(flag.Arg(0), "internal/ast/builder.go")
	file, err := parser.ParseFile(fset, path, nil, 0)
	if err != nil {
		refuse(nil, "cannot parse %s: %v", path, err)
	}
	// the structs must have exactly the fields the interpreter knows
	structSeen := map[string]bool{}
	for _, d := range file.Decls {
		gd, ok := d.(*ast.GenDecl)
		if !ok || gd.Tok != token.TYPE {
			continue
		}
		for _, s := range gd.Specs {
			ts := s.(*ast.TypeSpec)
			want, pinned := pinnedStructs[ts.Name.Name]
			if !pinned {
				continue
			}
			st, ok := ts.Type.(*ast.StructType)
			if !ok {
				refuse(ts, "type %s is not a struct", ts.Name.Name)
			}
			var got []string
			for _, f := range st.Fields.List {
				if len(f.Names) == 0 {
					refuse(f, "embedded field in %s", ts.Name.Name)
				}
				for _, n := range f.Names {
					got = append(got, n.Name)
				}
			}
			if strings.Join(got, ",") != strings.Join(want, ",") {
				refuse(ts, "type %s has fields %v, the interpreter knows %v", ts.Name.Name, got, want)
			}
			structSeen[ts.Name.Name] = true
		}
	}
	for n := range pinnedStructs {
		if !structSeen[n] {
			refuse(nil, "type %s not found", n)
		}
	}
	want := map[string]bool{}
	for _, n := range translate {
		want[n] = true
	}
	var funcs []funcOut
	var untrs []untr
	seen := map[string]bool{}
	for _, d := range file.Decls {
		fd, ok := d.(*ast.FuncDecl)
		if !ok {
			continue
		}
		full := recvType(fd) + "." + fd.Name.Name
		if seen[full] {
			refuse(fd, "duplicate function %s", full)
		}
		seen[full] = true
		if !want[full] {
			reason := notCalled
			if r, ok := trustedCallee[full]; ok {
				reason = r
			}
			untrs = append(untrs, untr{strings.TrimPrefix(full, "."), reason, hashOf(fd)})
			continue
		}
		if fd.Body == nil || fd.Type.TypeParams != nil {
			refuse(fd, "%s: no body / generic", full)
		}
		sc := &scope{fn: full}
		sc.push()
		if fd.Recv != nil {
			if len(fd.Recv.List[0].Names) != 1 || fd.Recv.List[0].Names[0].Name == "_" {
				refuse(fd, "%s: unnamed receiver", full)
			}
			rn := fd.Recv.List[0].Names[0].Name
			sc.frames[0][rn] = "r"
			sc.orig = append(sc.orig, "r="+rn)
		}
		var params []string
		for _, f := range fd.Type.Params.List {
			if _, isFunc := f.Type.(*ast.FuncType); isFunc {
				refuse(f, "%s: function-typed parameter", full)
			}
			if _, isEll := f.Type.(*ast.Ellipsis); isEll {
				refuse(f, "%s: variadic parameter", full)
			}
			for _, n := range f.Names {
				if _, dup := sc.lookup(n.Name); dup || n.Name == "_" {
					refuse(n, "%s: parameter name %q", full, n.Name)
				}
				c := "p" + strconv.Itoa(len(params))
				sc.frames[0][n.Name] = c
				sc.orig = append(sc.orig, c+"="+n.Name)
				params = append(params, c)
			}
		}
		if fd.Type.Results != nil {
			for _, f := range fd.Type.Results.List {
				if len(f.Names) != 0 {
					refuse(f, "%s: named results", full)
				}
			}
		}
		body := sc.block(fd.Body)
		funcs = append(funcs, funcOut{strings.TrimPrefix(full, "."), leanName[full], params, sc.orig, body, hashOf(fd)})
	}
	for _, n := range translate {
		if !seen[n] {
			refuse(nil, "function %s not found in %s", n, path)
		}
	}

	var b strings.Builder
	b.WriteString("/- GENERATED by /verif/extract/xfromast from internal/ast/builder.go — do not edit.\n")
	b.WriteString("   Bodies of BuilderGenerator.FromAST, structObjectToBuilder, fieldIsRefToConcrete, structFieldToOption\n")
	b.WriteString("   as closed terms of Cog.Builder.Src.Stmt. -/\n")
	b.WriteString("import Cog.Builder.Src\nnamespace Cog.Gen.FromASTSrc\nopen Cog.Builder.Src\n\n")
	for _, m := range funcs {
		fmt.Fprintf(&b, "/-- `%s`: %s -/\n", m.Name, strings.Join(m.Names, ", "))
		qs := make([]string, len(m.Params))
		for i, p := range m.Params {
			qs[i] = q(p)
		}
		fmt.Fprintf(&b, "def %sParams : List String := [%s]\n", m.Lean, strings.Join(qs, ", "))
		fmt.Fprintf(&b, "def %sBody : Stmt :=\n  %s\n\n", m.Lean, m.Body)
	}
	var tn []string
	for _, m := range funcs {
		tn = append(tn, q(m.Name))
	}
	fmt.Fprintf(&b, "def translated : List String := [%s]\n\n", strings.Join(tn, ", "))
	b.WriteString("/-- (function, reason it is not translated, sha256 of its printed source) -/\n")
	b.WriteString("def untranslated : List (String × String × String) := [\n")
	for i, u := range untrs {
		sep := ","
		if i == len(untrs)-1 {
			sep = ""
		}
		fmt.Fprintf(&b, "  (%s, %s, %s)%s\n", q(u.Name), q(u.Reason), q(u.Hash), sep)
	}
	b.WriteString("]\n\nend Cog.Gen.FromASTSrc\n")
	if *leanOut != "" {
		if err := os.WriteFile(*leanOut, []byte(b.String()), 0o644); err != nil {
			refuse(nil, "write: %v", err)
		}
	}
	if *jsonOut != "" {
		js, _ := json.MarshalIndent(map[string]any{"translated": funcs, "untranslated": untrs}, "", " ")
		if err := os.WriteFile(*jsonOut, js, 0o644); err != nil {
			refuse(nil, "write: %v", err)
		}
	}
}
