// Command xmerge is the source TRANSLATOR of /verif's C07 check.
//
// It parses internal/ast/schema.go with go/ast and turns the bodies of
//
//	Schemas.Consolidate, Schema.Merge, Schema.AddObject, NewSchema, SchemaMeta.Equal
//
// into closed terms of the deep-embedded mini-language `Cog.Merge.Src.Stmt`
// (lean/Cog/Merge/Src.lean).  Output: the Lean module `Cog.Gen.MergeSrc` (-lean) and the same
// facts as JSON (-json).
//
// Purely syntactic.  The receiver is renamed `r`, parameters p0, p1, … and local variables
// x0, x1, … in order of declaration (original names are kept in comments).  Scoping follows Go's
// blocks: a name may be declared again in a SIBLING block (it gets a fresh canonical name), a
// declaration that would shadow a visible name is REFUSED.  It REFUSES (exit 1, message naming
// the node and its position) on every statement/expression form outside the grammar of Src.lean,
// and when the structs Schema / SchemaMeta do not have exactly the fields the interpreter knows.
//
// Every other function of the file is listed as `untranslated` with the reason and a sha256 of
// its printed source (calls to them from a translated body are refused by the grammar).
package main

import (
	"bytes"
	"crypto/sha256"
	"encoding/json"
	"flag"
	"fmt"
	"go/ast"
	"go/parser"
	"go/printer"
	"go/token"
	"os"
	"path/filepath"
	"strconv"
	"strings"
)

// translated functions: "Recv.Name" (Recv empty for free functions)
var translate = []string{"Schemas.Consolidate", "Schema.Merge", "Schema.AddObject", ".NewSchema", "SchemaMeta.Equal"}

// Lean identifier prefix per translated function
var leanName = map[string]string{
	"Schemas.Consolidate": "consolidate", "Schema.Merge": "merge", "Schema.AddObject": "addObject",
	".NewSchema": "newSchema", "SchemaMeta.Equal": "metaEqual",
}

// struct name -> field names in order, exactly what lean/Cog/Merge/Src.lean: evalField knows
var pinnedStructs = map[string][]string{
	"Schema":     {"Package", "Metadata", "EntryPoint", "EntryPointType", "Objects"},
	"SchemaMeta": {"Kind", "Variant", "Identifier"},
}

const notCalled = "not called by Merge/Consolidate/AddObject/NewSchema/SchemaMeta.Equal (a call to it from a translated body is refused)"

var fset = token.NewFileSet()

func refuse(n ast.Node, format string, a ...any) {
	pos := ""
	if n != nil {
		pos = fset.Position(n.Pos()).String() + ": "
	}
	fmt.Fprintf(os.Stderr, "xmerge: REFUSE: "+pos+format+"\n", a...)
	os.Exit(1)
}

func src(n ast.Node) string {
	var b bytes.Buffer
	_ = printer.Fprint(&b, fset, n)
	s := b.String()
	if len(s) > 120 {
		s = s[:120] + "…"
	}
	return strings.ReplaceAll(s, "\n", " ")
}

func q(s string) string { return strconv.Quote(s) }

type scope struct {
	fn     string
	frames []map[string]string // innermost last: Go name -> canonical name
	orig   []string            // "canonical=original" for the comment
	nLocal int
	inFunc bool // inside the closure passed to Iterate
}

func (sc *scope) lookup(name string) (string, bool) {
	for i := len(sc.frames) - 1; i >= 0; i-- {
		if c, ok := sc.frames[i][name]; ok {
			return c, true
		}
	}
	return "", false
}

func (sc *scope) push() { sc.frames = append(sc.frames, map[string]string{}) }
func (sc *scope) pop()  { sc.frames = sc.frames[:len(sc.frames)-1] }

func (sc *scope) declare(id *ast.Ident) string {
	if id.Name == "_" {
		refuse(id, "blank identifier not allowed here")
	}
	if _, vis := sc.lookup(id.Name); vis {
		refuse(id, "redeclaration/shadowing of the visible name %q in %s (flat naming would be unsound)", id.Name, sc.fn)
	}
	switch id.Name {
	case "nil", "len", "append", "make", "true", "false", "fmt", "orderedmap", "NewSchema", "ErrCannotMergeSchemas":
		refuse(id, "declaration shadows the predeclared/package-level name %q", id.Name)
	}
	c := "x" + strconv.Itoa(sc.nLocal)
	sc.nLocal++
	sc.frames[len(sc.frames)-1][id.Name] = c
	sc.orig = append(sc.orig, c+"="+id.Name)
	return c
}

// localVar: e is an identifier naming the receiver, a parameter or a local
func (sc *scope) localVar(e ast.Expr) (string, bool) {
	id, ok := e.(*ast.Ident)
	if !ok {
		return "", false
	}
	return sc.lookup(id.Name)
}

// pureArg: an argument of fmt.Errorf that is dropped (the message is abstracted): it must be
// side-effect free: selector chains over known names, optionally `.String()`, or ErrCannotMergeSchemas
func (sc *scope) pureArg(e ast.Expr) bool {
	switch e := e.(type) {
	case *ast.Ident:
		if _, ok := sc.lookup(e.Name); ok {
			return true
		}
		return e.Name == "ErrCannotMergeSchemas"
	case *ast.SelectorExpr:
		return sc.pureArg(e.X)
	case *ast.CallExpr:
		sel, ok := e.Fun.(*ast.SelectorExpr)
		return ok && len(e.Args) == 0 && sel.Sel.Name == "String" && sc.pureArg(sel.X)
	}
	return false
}

var binops = map[token.Token]string{token.EQL: "eq", token.NEQ: "ne", token.LAND: "and", token.LOR: "or", token.SUB: "sub"}

func (sc *scope) expr(e ast.Expr) string {
	switch e := e.(type) {
	case *ast.ParenExpr:
		return sc.expr(e.X)
	case *ast.Ident:
		if c, ok := sc.lookup(e.Name); ok {
			return "(.var " + q(c) + ")"
		}
		if e.Name == "nil" {
			return ".nil"
		}
		refuse(e, "unknown identifier %q", e.Name)
	case *ast.BasicLit:
		switch e.Kind {
		case token.INT:
			n, err := strconv.ParseInt(e.Value, 0, 64)
			if err != nil {
				refuse(e, "integer literal %s", e.Value)
			}
			return "(.lit " + strconv.FormatInt(n, 10) + ")"
		case token.STRING:
			s, err := strconv.Unquote(e.Value)
			if err != nil {
				refuse(e, "string literal %s", e.Value)
			}
			return "(.str " + q(s) + ")"
		}
		refuse(e, "literal %s", e.Value)
	case *ast.SelectorExpr:
		return "(.field " + sc.expr(e.X) + " " + q(e.Sel.Name) + ")"
	case *ast.IndexExpr:
		return "(.index " + sc.expr(e.X) + " " + sc.expr(e.Index) + ")"
	case *ast.UnaryExpr:
		switch e.Op {
		case token.NOT:
			return "(.not " + sc.expr(e.X) + ")"
		case token.AND:
			return sc.schemaLit(e)
		}
		refuse(e, "unary operator %s", e.Op)
	case *ast.BinaryExpr:
		op := binops[e.Op]
		if op == "" {
			refuse(e, "binary operator %s in %s", e.Op, src(e))
		}
		return "(." + op + " " + sc.expr(e.X) + " " + sc.expr(e.Y) + ")"
	case *ast.CallExpr:
		if e.Ellipsis.IsValid() {
			refuse(e, "variadic call %s", src(e))
		}
		switch f := e.Fun.(type) {
		case *ast.Ident:
			if _, local := sc.lookup(f.Name); local {
				refuse(e, "call of a local function value %s", src(e))
			}
			switch {
			case f.Name == "len" && len(e.Args) == 1:
				return "(.len " + sc.expr(e.Args[0]) + ")"
			case f.Name == "append" && len(e.Args) == 2:
				return "(.append1 " + sc.expr(e.Args[0]) + " " + sc.expr(e.Args[1]) + ")"
			case f.Name == "make":
				return sc.makeExpr(e)
			case f.Name == "NewSchema" && len(e.Args) == 2:
				return "(.call2 \"NewSchema\" " + sc.expr(e.Args[0]) + " " + sc.expr(e.Args[1]) + ")"
			}
		case *ast.IndexListExpr: // orderedmap.New[string, Object]()
			if src(f) == "orderedmap.New[string, Object]" && len(e.Args) == 0 {
				return ".newOMap"
			}
		case *ast.SelectorExpr:
			if x, ok := f.X.(*ast.Ident); ok && x.Name == "fmt" && f.Sel.Name == "Errorf" {
				if _, local := sc.lookup("fmt"); local || len(e.Args) < 1 {
					refuse(e, "call %s", src(e))
				}
				lit, ok := e.Args[0].(*ast.BasicLit)
				if !ok || lit.Kind != token.STRING {
					refuse(e, "fmt.Errorf without a literal format: %s", src(e))
				}
				for _, a := range e.Args[1:] {
					if !sc.pureArg(a) {
						refuse(a, "fmt.Errorf argument is not a pure selector chain: %s", src(a))
					}
				}
				s, _ := strconv.Unquote(lit.Value)
				return "(.errorf " + q(s) + ")"
			}
			// pure one-argument methods
			if len(e.Args) == 1 && (f.Sel.Name == "Equal" || f.Sel.Name == "Has" || f.Sel.Name == "Get") {
				return "(.mcall1 " + sc.expr(f.X) + " " + q(f.Sel.Name) + " " + sc.expr(e.Args[0]) + ")"
			}
		}
		refuse(e, "call %s", src(e))
	}
	refuse(e, "expression %T %s", e, src(e))
	return ""
}

// make(map[string]Schemas, n) | make([]string, 0, n) | make([]*Schema, 0, n)
func (sc *scope) makeExpr(e *ast.CallExpr) string {
	if len(e.Args) < 2 {
		refuse(e, "make form %s", src(e))
	}
	switch t := e.Args[0].(type) {
	case *ast.MapType:
		if src(t) != "map[string]Schemas" || len(e.Args) != 2 {
			refuse(e, "make of map type %s", src(e))
		}
		return "(.makeMap " + sc.expr(e.Args[1]) + ")"
	case *ast.ArrayType:
		if t.Len != nil || len(e.Args) != 3 {
			refuse(e, "make form %s", src(e))
		}
		if l, ok := e.Args[1].(*ast.BasicLit); !ok || l.Value != "0" {
			refuse(e, "make: length must be the literal 0 in %s", src(e))
		}
		kind := map[string]string{"string": "string", "*Schema": "schema"}[src(t.Elt)]
		if kind == "" {
			refuse(e, "make: element type %s", src(t.Elt))
		}
		return "(.makeSlice " + q(kind) + " " + sc.expr(e.Args[2]) + ")"
	}
	refuse(e, "make form %s", src(e))
	return ""
}

// &Schema{F: e, …} with keyed fields, `Objects` present (a nil Objects pointer is not modelled)
func (sc *scope) schemaLit(u *ast.UnaryExpr) string {
	cl, ok := u.X.(*ast.CompositeLit)
	if !ok || src(cl.Type) != "Schema" {
		refuse(u, "address-of %s", src(u))
	}
	out := ".zeroSchema"
	hasObjects := false
	seen := map[string]bool{}
	for _, el := range cl.Elts {
		kv, ok := el.(*ast.KeyValueExpr)
		if !ok {
			refuse(el, "unkeyed composite literal element")
		}
		k, ok := kv.Key.(*ast.Ident)
		if !ok || seen[k.Name] {
			refuse(el, "composite literal key %s", src(kv.Key))
		}
		seen[k.Name] = true
		if k.Name == "Objects" {
			hasObjects = true
		}
		out = "(.withField " + out + " " + q(k.Name) + " " + sc.expr(kv.Value) + ")"
	}
	if !hasObjects {
		refuse(u, "Schema literal without Objects (nil ordered map is outside the model)")
	}
	return out
}

func seq(parts []string) string {
	if len(parts) == 0 {
		return ".skip"
	}
	if len(parts) == 1 {
		return parts[0]
	}
	return "(.seq " + parts[0] + "\n    " + seq(parts[1:]) + ")"
}

func (sc *scope) block(b *ast.BlockStmt) string {
	sc.push()
	defer sc.pop()
	var parts []string
	for _, s := range b.List {
		parts = append(parts, sc.stmt(s)...)
	}
	return seq(parts)
}

// effectful methods a translated body may call on a local/receiver variable; their meaning in
// the interpreter is the model function proved equal to their own translated body
var effectStmt = map[string]bool{"AddObject": true} // x.AddObject(e)
var effectAssign = map[string]bool{"Merge": true}  // y := x.Merge(e)

func (sc *scope) assign(s *ast.AssignStmt) []string {
	// _, x := m[k]
	if len(s.Lhs) == 2 && len(s.Rhs) == 1 {
		blank, ok := s.Lhs[0].(*ast.Ident)
		x, ok2 := s.Lhs[1].(*ast.Ident)
		ix, ok3 := s.Rhs[0].(*ast.IndexExpr)
		if !ok || !ok2 || !ok3 || blank.Name != "_" || s.Tok != token.DEFINE {
			refuse(s, "assignment form %s", src(s))
		}
		m, k := sc.expr(ix.X), sc.expr(ix.Index)
		return []string{"(.commaOk " + q(sc.declare(x)) + " " + m + " " + k + ")"}
	}
	if len(s.Lhs) != 1 || len(s.Rhs) != 1 || (s.Tok != token.DEFINE && s.Tok != token.ASSIGN) {
		refuse(s, "assignment form %s", src(s))
	}
	// y := x.Merge(e)
	if call, ok := s.Rhs[0].(*ast.CallExpr); ok {
		if sel, ok := call.Fun.(*ast.SelectorExpr); ok && effectAssign[sel.Sel.Name] {
			x, isVar := sc.localVar(sel.X)
			y, isId := s.Lhs[0].(*ast.Ident)
			if !isVar || !isId || len(call.Args) != 1 || call.Ellipsis.IsValid() {
				refuse(s, "effectful call form %s", src(s))
			}
			arg := sc.expr(call.Args[0])
			var yc string
			if s.Tok == token.DEFINE {
				yc = sc.declare(y)
			} else if c, ok := sc.lookup(y.Name); ok {
				yc = c
			} else {
				refuse(s, "assignment to %q", y.Name)
			}
			return []string{"(.mcallAssign " + q(yc) + " " + q(x) + " " + q(sel.Sel.Name) + " " + arg + ")"}
		}
	}
	rhs := sc.expr(s.Rhs[0]) // evaluated before the left-hand side is declared
	switch l := s.Lhs[0].(type) {
	case *ast.Ident:
		if s.Tok == token.DEFINE {
			return []string{"(.assign " + q(sc.declare(l)) + " " + rhs + ")"}
		}
		c, ok := sc.lookup(l.Name)
		if !ok {
			refuse(s, "assignment to %q", l.Name)
		}
		return []string{"(.assign " + q(c) + " " + rhs + ")"}
	case *ast.SelectorExpr: // x.F = e
		if x, ok := sc.localVar(l.X); ok && s.Tok == token.ASSIGN {
			return []string{"(.setField " + q(x) + " " + q(l.Sel.Name) + " " + rhs + ")"}
		}
	case *ast.IndexExpr: // m[k] = e
		if m, ok := sc.localVar(l.X); ok && s.Tok == token.ASSIGN {
			return []string{"(.mapSet " + q(m) + " " + sc.expr(l.Index) + " " + rhs + ")"}
		}
	}
	refuse(s, "assignment target %s", src(s))
	return nil
}

func (sc *scope) stmt(s ast.Stmt) []string {
	switch s := s.(type) {
	case *ast.EmptyStmt:
		return nil
	case *ast.DeclStmt: // var err error
		gd, ok := s.Decl.(*ast.GenDecl)
		if !ok || gd.Tok != token.VAR || len(gd.Specs) != 1 {
			refuse(s, "declaration %s", src(s))
		}
		vs := gd.Specs[0].(*ast.ValueSpec)
		if len(vs.Names) != 1 || len(vs.Values) != 0 || vs.Type == nil || src(vs.Type) != "error" {
			refuse(s, "declaration %s (want `var x error`)", src(s))
		}
		return []string{"(.declNil " + q(sc.declare(vs.Names[0])) + ")"}
	case *ast.AssignStmt:
		return sc.assign(s)
	case *ast.IfStmt:
		sc.push() // scope of the init statement
		defer sc.pop()
		var out []string
		if s.Init != nil {
			a, ok := s.Init.(*ast.AssignStmt)
			if !ok {
				refuse(s.Init, "if-init %s", src(s.Init))
			}
			out = append(out, sc.assign(a)...)
		}
		cond := sc.expr(s.Cond)
		body := sc.block(s.Body)
		switch el := s.Else.(type) {
		case nil:
			return append(out, "(.ifThen "+cond+" "+body+")")
		case *ast.BlockStmt:
			return append(out, "(.ifElse "+cond+" "+body+" "+sc.block(el)+")")
		case *ast.IfStmt:
			return append(out, "(.ifElse "+cond+" "+body+" "+seq(sc.stmt(el))+")")
		}
		refuse(s, "else form")
	case *ast.RangeStmt:
		k, ok := s.Key.(*ast.Ident)
		v, ok2 := s.Value.(*ast.Ident)
		if !ok || !ok2 || k.Name != "_" || s.Tok != token.DEFINE {
			refuse(s, "range form (want `for _, x := range e`)")
		}
		e := sc.expr(s.X)
		sc.push()
		defer sc.pop()
		x := sc.declare(v)
		return []string{"(.forRange " + q(x) + " " + e + " " + sc.block(s.Body) + ")"}
	case *ast.ReturnStmt:
		if sc.inFunc {
			if len(s.Results) != 0 {
				refuse(s, "return with a value inside the Iterate callback")
			}
			return []string{".ret0"}
		}
		switch len(s.Results) {
		case 0:
			return []string{".ret0"}
		case 1:
			return []string{"(.ret1 " + sc.expr(s.Results[0]) + ")"}
		case 2:
			return []string{"(.ret2 " + sc.expr(s.Results[0]) + " " + sc.expr(s.Results[1]) + ")"}
		}
		refuse(s, "return of %d values", len(s.Results))
	case *ast.ExprStmt:
		c, ok := s.X.(*ast.CallExpr)
		if !ok || c.Ellipsis.IsValid() {
			refuse(s, "expression statement %s", src(s))
		}
		sel, ok := c.Fun.(*ast.SelectorExpr)
		if !ok {
			refuse(s, "call statement %s", src(s))
		}
		switch {
		case sel.Sel.Name == "Iterate" && len(c.Args) == 1: // e.Iterate(func(k K, v V) { … })
			fl, ok := c.Args[0].(*ast.FuncLit)
			if !ok || sc.inFunc || fl.Type.Results != nil || fl.Type.Params == nil {
				refuse(s, "Iterate argument %s", src(c.Args[0]))
			}
			var ps []*ast.Ident
			for _, f := range fl.Type.Params.List {
				ps = append(ps, f.Names...)
			}
			if len(ps) != 2 {
				refuse(s, "Iterate callback with %d parameters", len(ps))
			}
			e := sc.expr(sel.X)
			sc.push()
			defer sc.pop()
			k, v := sc.declare(ps[0]), sc.declare(ps[1])
			sc.inFunc = true
			body := sc.block(fl.Body)
			sc.inFunc = false
			return []string{"(.iterate " + e + " " + q(k) + " " + q(v) + " " + body + ")"}
		case effectStmt[sel.Sel.Name] && len(c.Args) == 1: // x.AddObject(e)
			if x, ok := sc.localVar(sel.X); ok {
				return []string{"(.mcallStmt " + q(x) + " " + q(sel.Sel.Name) + " " + sc.expr(c.Args[0]) + ")"}
			}
		case sel.Sel.Name == "Set" && len(c.Args) == 2: // x.F.Set(k, v)
			if fs, ok := sel.X.(*ast.SelectorExpr); ok {
				if x, ok := sc.localVar(fs.X); ok {
					return []string{"(.fieldSet " + q(x) + " " + q(fs.Sel.Name) + " " + sc.expr(c.Args[0]) + " " + sc.expr(c.Args[1]) + ")"}
				}
			}
		}
		refuse(s, "call statement %s", src(s))
	}
	refuse(s, "statement %T %s", s, src(s))
	return nil
}

type funcOut struct {
	Name   string   `json:"name"`
	Lean   string   `json:"lean"`
	Params []string `json:"params"`
	Names  []string `json:"names"`
	Body   string   `json:"body"`
	Hash   string   `json:"hash"`
}
type untr struct {
	Name   string `json:"name"`
	Reason string `json:"reason"`
	Hash   string `json:"hash"`
}

func hashOf(n ast.Node) string {
	var b bytes.Buffer
	_ = printer.Fprint(&b, fset, n)
	return fmt.Sprintf("%x", sha256.Sum256(b.Bytes()))
}

func recvType(fd *ast.FuncDecl) string {
	if fd.Recv == nil {
		return ""
	}
	if len(fd.Recv.List) != 1 {
		refuse(fd, "receiver list")
	}
	t := fd.Recv.List[0].Type
	if st, ok := t.(*ast.StarExpr); ok {
		t = st.X
	}
	id, ok := t.(*ast.Ident)
	if !ok {
		refuse(fd, "receiver type %s", src(t))
	}
	return id.Name
}

func main() {
	leanOut := flag.String("lean", "", "output Lean file")
	jsonOut := flag.String("json", "", "output JSON file")
	flag.Parse()
	if flag.NArg() != 1 {
		refuse(nil, "usage: xmerge -lean F -json F <repo>")
	}
	path := filepath.Join(flag.Arg(0), "internal/ast/schema.go")
	file, err := parser.ParseFile(fset, path, nil, 0)
	if err != nil {
		refuse(nil, "cannot parse %s: %v", path, err)
	}
	// the structs must have exactly the fields the interpreter knows
	structSeen := map[string]bool{}
	for _, d := range file.Decls {
		gd, ok := d.(*ast.GenDecl)
		if !ok || gd.Tok != token.TYPE {
			continue
		}
		for _, s := range gd.Specs {
			ts := s.(*ast.TypeSpec)
			want, pinned := pinnedStructs[ts.Name.Name]
			if !pinned {
				if ts.Name.Name == "Schemas" && src(ts.Type) != "[]*Schema" {
					refuse(ts, "type Schemas is %s, want []*Schema", src(ts.Type))
				}
				continue
			}
			st, ok := ts.Type.(*ast.StructType)
			if !ok {
				refuse(ts, "type %s is not a struct", ts.Name.Name)
			}
			var got []string
			for _, f := range st.Fields.List {
				if len(f.Names) == 0 {
					refuse(f, "embedded field in %s", ts.Name.Name)
				}
				for _, n := range f.Names {
					got = append(got, n.Name)
				}
			}
			if strings.Join(got, ",") != strings.Join(want, ",") {
				refuse(ts, "type %s has fields %v, the interpreter knows %v", ts.Name.Name, got, want)
			}
			structSeen[ts.Name.Name] = true
		}
	}
	for n := range pinnedStructs {
		if !structSeen[n] {
			refuse(nil, "type %s not found", n)
		}
	}
	want := map[string]bool{}
	for _, n := range translate {
		want[n] = true
	}
	var funcs []funcOut
	var untrs []untr
	seen := map[string]bool{}
	for _, d := range file.Decls {
		fd, ok := d.(*ast.FuncDecl)
		if !ok {
			continue
		}
		full := recvType(fd) + "." + fd.Name.Name
		if seen[full] {
			refuse(fd, "duplicate function %s", full)
		}
		seen[full] = true
		if !want[full] {
			untrs = append(untrs, untr{strings.TrimPrefix(full, "."), notCalled, hashOf(fd)})
			continue
		}
		if fd.Body == nil || fd.Type.TypeParams != nil {
			refuse(fd, "%s: no body / generic", full)
		}
		sc := &scope{fn: full}
		sc.push()
		if fd.Recv != nil {
			if len(fd.Recv.List[0].Names) != 1 || fd.Recv.List[0].Names[0].Name == "_" {
				refuse(fd, "%s: unnamed receiver", full)
			}
			rn := fd.Recv.List[0].Names[0].Name
			sc.frames[0][rn] = "r"
			sc.orig = append(sc.orig, "r="+rn)
		}
		var params []string
		for _, f := range fd.Type.Params.List {
			if _, isFunc := f.Type.(*ast.FuncType); isFunc {
				refuse(f, "%s: function-typed parameter", full)
			}
			if _, isEll := f.Type.(*ast.Ellipsis); isEll {
				refuse(f, "%s: variadic parameter", full)
			}
			for _, n := range f.Names {
				if _, dup := sc.lookup(n.Name); dup || n.Name == "_" {
					refuse(n, "%s: parameter name %q", full, n.Name)
				}
				c := "p" + strconv.Itoa(len(params))
				sc.frames[0][n.Name] = c
				sc.orig = append(sc.orig, c+"="+n.Name)
				params = append(params, c)
			}
		}
		if fd.Type.Results != nil {
			for _, f := range fd.Type.Results.List {
				if len(f.Names) != 0 {
					refuse(f, "%s: named results", full)
				}
			}
		}
		body := sc.block(fd.Body)
		funcs = append(funcs, funcOut{strings.TrimPrefix(full, "."), leanName[full], params, sc.orig, body, hashOf(fd)})
	}
	for _, n := range translate {
		if !seen[n] {
			refuse(nil, "function %s not found in %s", n, path)
		}
	}

	var b strings.Builder
	b.WriteString("/- GENERATED by /verif/extract/xmerge from internal/ast/schema.go — do not edit.\n")
	b.WriteString("   Bodies of Schemas.Consolidate, Schema.Merge, Schema.AddObject, NewSchema, SchemaMeta.Equal\n")
	b.WriteString("   as closed terms of Cog.Merge.Src.Stmt. -/\n")
	b.WriteString("import Cog.Merge.Src\nnamespace Cog.Gen.MergeSrc\nopen Cog.Merge.Src\n\n")
	for _, m := range funcs {
		fmt.Fprintf(&b, "/-- `%s`: %s -/\n", m.Name, strings.Join(m.Names, ", "))
		qs := make([]string, len(m.Params))
		for i, p := range m.Params {
			qs[i] = q(p)
		}
		fmt.Fprintf(&b, "def %sParams : List String := [%s]\n", m.Lean, strings.Join(qs, ", "))
		fmt.Fprintf(&b, "def %sBody : Stmt :=\n  %s\n\n", m.Lean, m.Body)
	}
	var tn []string
	for _, m := range funcs {
		tn = append(tn, q(m.Name))
	}
	fmt.Fprintf(&b, "def translated : List String := [%s]\n\n", strings.Join(tn, ", "))
	b.WriteString("/-- (function, reason it is not translated, sha256 of its printed source) -/\n")
	b.WriteString("def untranslated : List (String × String × String) := [\n")
	for i, u := range untrs {
		sep := ","
		if i == len(untrs)-1 {
			sep = ""
		}
		fmt.Fprintf(&b, "  (%s, %s, %s)%s\n", q(u.Name), q(u.Reason), q(u.Hash), sep)
	}
	b.WriteString("]\n\nend Cog.Gen.MergeSrc\n")
	if *leanOut != "" {
		if err := os.WriteFile(*leanOut, []byte(b.String()), 0o644); err != nil {
			refuse(nil, "write: %v", err)
		}
	}
	if *jsonOut != "" {
		js, _ := json.MarshalIndent(map[string]any{"translated": funcs, "untranslated": untrs}, "", " ")
		if err := os.WriteFile(*jsonOut, js, 0o644); err != nil {
			refuse(nil, "write: %v", err)
		}
	}
}
