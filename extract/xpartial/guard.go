package main

// Syntactic guard classification; the rules are documented in the header of main.go.

import (
	"go/ast"
	"go/token"
	"strings"
)

type cond struct {
	e   ast.Expr
	tag bool // the tag of an enclosing switch (not a boolean condition)
}

func terminates(b *ast.BlockStmt) bool {
	if len(b.List) == 0 {
		return false
	}
	switch s := b.List[len(b.List)-1].(type) {
	case *ast.ReturnStmt:
		return true
	case *ast.BranchStmt:
		return s.Tok != token.FALLTHROUGH
	case *ast.ExprStmt:
		if call, ok := unparen(s.X).(*ast.CallExpr); ok {
			id, ok := unparen(call.Fun).(*ast.Ident)
			return ok && id.Name == "panic"
		}
	}
	return false
}

// preceding: rule (b) for the statements of `list` before `child`.
func preceding(list []ast.Stmt, child ast.Node, everyIf bool, out []cond) []cond {
	for _, s := range list {
		if s == child {
			break
		}
		if l, ok := s.(*ast.LabeledStmt); ok {
			s = l.Stmt
		}
		for ifs, _ := s.(*ast.IfStmt); ifs != nil; ifs, _ = ifs.Else.(*ast.IfStmt) {
			if everyIf || terminates(ifs.Body) {
				out = append(out, cond{e: ifs.Cond})
			}
		}
	}
	return out
}

// conds: the context conditions of node n (rules a, b, c).
func (c *fnCtx) conds(n ast.Node, everyIf bool) []cond {
	var out []cond
	child := n
	for par := c.parents[child]; par != nil && child != c.decl; child, par = par, c.parents[par] {
		switch p := par.(type) {
		case *ast.IfStmt:
			if child == ast.Node(p.Body) || child == ast.Node(p.Else) {
				out = append(out, cond{e: p.Cond})
			}
		case *ast.ForStmt:
			if p.Cond != nil && (child == ast.Node(p.Body) || child == ast.Node(p.Post)) {
				out = append(out, cond{e: p.Cond})
			}
		case *ast.BinaryExpr:
			if (p.Op == token.LAND || p.Op == token.LOR) && child == ast.Node(p.Y) {
				out = append(out, cond{e: p.X})
			}
		case *ast.BlockStmt:
			out = preceding(p.List, child, everyIf, out)
		case *ast.CommClause:
			out = preceding(p.Body, child, everyIf, out)
		case *ast.CaseClause:
			inBody := false
			for _, s := range p.Body {
				inBody = inBody || ast.Node(s) == child
			}
			if !inBody {
				break
			}
			out = preceding(p.Body, child, everyIf, out)
			for _, e := range p.List {
				out = append(out, cond{e: e})
			}
			blk, _ := c.parents[p].(*ast.BlockStmt)
			sw, ok := c.parents[blk].(*ast.SwitchStmt)
			if !ok {
				break // type switch
			}
			if sw.Tag != nil {
				out = append(out, cond{e: sw.Tag, tag: true})
				break
			}
			for _, cl := range blk.List {
				if cl == ast.Stmt(p) {
					break
				}
				for _, e := range cl.(*ast.CaseClause).List {
					out = append(out, cond{e: e})
				}
			}
		}
	}
	return out
}

func anyNode(cs []cond, pred func(cond, ast.Node) bool) bool {
	found := false
	for _, cd := range cs {
		ast.Inspect(cd.e, func(n ast.Node) bool {
			found = found || (n != nil && pred(cd, n))
			return !found
		})
	}
	return found
}

// comparison: n is `a == b` / `a != b` with is(a) && other(b) or the converse.
func comparison(n ast.Node, is, other func(ast.Expr) bool) bool {
	be, ok := n.(*ast.BinaryExpr)
	if !ok || (be.Op != token.EQL && be.Op != token.NEQ) {
		return false
	}
	return (is(be.X) && other(be.Y)) || (is(be.Y) && other(be.X))
}

func (c *fnCtx) lenGuard(n ast.Node, operand string, isString bool) string {
	same := func(e ast.Expr) bool { return text(e) == operand }
	empty := func(e ast.Expr) bool {
		lit, ok := unparen(e).(*ast.BasicLit)
		return ok && (lit.Value == `""` || lit.Value == "``")
	}
	if anyNode(c.conds(n, false), func(_ cond, nd ast.Node) bool {
		if e, ok := nd.(ast.Expr); ok && isLenOf(e, operand) {
			return true
		}
		return isString && comparison(nd, same, empty)
	}) {
		return "len"
	}
	return "none"
}

// kindGuard: recv is the text of the ast.Type-valued expression; field the kind pointer
// dereferenced (kindptr: sameField) or "" (as: a nil test of any kind field counts).
func (c *fnCtx) kindGuard(n ast.Node, recv, field string, sameField bool) string {
	selOf := func(e ast.Expr, name func(string) bool) bool {
		s, ok := unparen(e).(*ast.SelectorExpr)
		return ok && name(s.Sel.Name) && text(s.X) == recv
	}
	isKind := func(e ast.Expr) bool { return selOf(e, func(s string) bool { return s == "Kind" }) }
	isField := func(e ast.Expr) bool {
		return selOf(e, func(s string) bool { return (sameField && s == field) || (!sameField && kindFieldNames[s]) })
	}
	anything := func(ast.Expr) bool { return true }
	if anyNode(c.conds(n, false), func(cd cond, nd ast.Node) bool {
		if cd.tag {
			return nd == ast.Node(cd.e) && isKind(cd.e)
		}
		if call, ok := nd.(*ast.CallExpr); ok && selOf(call.Fun, func(s string) bool { return strings.HasPrefix(s, "Is") }) {
			return true
		}
		return comparison(nd, isKind, anything) || comparison(nd, isField, isNil)
	}) {
		return "kind"
	}
	return "none"
}

func (c *fnCtx) nilGuard(n ast.Node, m string) string {
	same := func(e ast.Expr) bool { return text(e) == m }
	if anyNode(c.conds(n, true), func(cd cond, nd ast.Node) bool {
		return !cd.tag && comparison(nd, same, isNil)
	}) {
		return "nil-check"
	}
	return "none"
}
