package main

// Structural descent of the calls inside a recursion group.
//
// A call site  f(args) / recv.f(args)  inside a function F is classified by its DATA operands (the
// receiver of a method call and every argument of pointer, slice, map, struct, array, interface or
// type-parameter type; strings, numbers, booleans and function values are ignored):
//
//	strict      every data operand is a strict sub-component of a parameter / the receiver of F:
//	            a field selection, index, dereference of it, an element ranged over it, or a local
//	            variable defined once from such an expression
//	non-strict  every data operand is a parameter / the receiver of F itself, or a sub-component
//	unknown     anything else (call results, literals, package variables, no data operand at all)
//
// A parameter of a function literal counts as a strict sub-component when the literal is passed
// directly to a call whose receiver or another argument is a parameter / sub-component of F
// (`tools.Map(xs, func(x T) …)`, `m.Iterate(func(k, v) …)`: the callback is applied to elements).
//
// A recursion group (a cycle of the static call graph) is STRUCTURAL when none of its internal
// edges is unknown and its non-strict internal edges form no cycle: the pair (largest data operand,
// rank in the non-strict order) then decreases on every internal call, so the recursion ends on
// every finite acyclic value (IR trees, decoded JSON / YAML values).  Structural groups are not
// rows of the table (they are counted and listed in the JSON as `recursion_structural`), in the
// same way as indexes by a bounding loop variable.  Any group with one undecided edge stays a row
// named by all its members.

import (
	"go/ast"
	"go/token"
	"go/types"
)

const (
	lvlUnknown   = 1
	lvlNonStrict = 2
	lvlStrict    = 3
)

type descentInfo struct {
	own     map[types.Object]bool           // parameters and receiver of the declaration itself
	ranged  map[types.Object]*ast.RangeStmt // key / value variables of `for k, v := range X`
	litPar  map[types.Object]*ast.FuncLit   // parameters of function literals
	assigns map[types.Object]int            // number of assignments (incl. definition, ++, &x) per local variable
}

func (c *fnCtx) descentPrepare() *descentInfo {
	d := &descentInfo{own: map[types.Object]bool{}, ranged: map[types.Object]*ast.RangeStmt{},
		litPar: map[types.Object]*ast.FuncLit{}, assigns: map[types.Object]int{}}
	names := func(fl *ast.FieldList, f func(types.Object)) {
		if fl == nil {
			return
		}
		for _, fld := range fl.List {
			for _, id := range fld.Names {
				if obj := c.info.Defs[id]; obj != nil {
					f(obj)
				}
			}
		}
	}
	if fd, ok := c.decl.(*ast.FuncDecl); ok {
		names(fd.Recv, func(o types.Object) { d.own[o] = true })
		names(fd.Type.Params, func(o types.Object) { d.own[o] = true })
	}
	count := func(e ast.Expr) {
		if id, ok := unparen(e).(*ast.Ident); ok {
			if obj := c.info.ObjectOf(id); obj != nil {
				d.assigns[obj]++
			}
		}
	}
	ast.Inspect(c.decl, func(n ast.Node) bool {
		switch s := n.(type) {
		case *ast.FuncLit:
			names(s.Type.Params, func(o types.Object) { d.litPar[o] = s })
		case *ast.RangeStmt:
			if s.Tok == token.DEFINE {
				for _, kv := range []ast.Expr{s.Key, s.Value} {
					if id, ok := kv.(*ast.Ident); ok && id.Name != "_" {
						if obj := c.info.Defs[id]; obj != nil {
							d.ranged[obj] = s
						}
					}
				}
			} else {
				for _, kv := range []ast.Expr{s.Key, s.Value} {
					if kv != nil {
						count(kv)
					}
				}
			}
		case *ast.AssignStmt:
			for _, l := range s.Lhs {
				count(l)
			}
		case *ast.IncDecStmt:
			count(s.X)
		case *ast.UnaryExpr:
			if s.Op == token.AND {
				count(s.X)
				count(s.X) // an address-taken variable may change behind the analysis: never "defined once"
			}
		case *ast.ValueSpec:
			for _, id := range s.Names {
				if obj := c.info.Defs[id]; obj != nil {
					d.assigns[obj]++
				}
			}
		}
		return true
	})
	return d
}

func isDataType(t types.Type) bool {
	if t == nil {
		return false
	}
	if _, ok := types.Unalias(t).(*types.TypeParam); ok {
		return true
	}
	switch t.Underlying().(type) {
	case *types.Pointer, *types.Slice, *types.Map, *types.Struct, *types.Array, *types.Interface:
		return true
	}
	return false
}

// level of one operand: lvlUnknown, lvlNonStrict (a parameter itself) or lvlStrict (a strict sub-component)
func (c *fnCtx) operandLevel(d *descentInfo, e ast.Expr, depth int) int {
	if depth > 12 {
		return lvlUnknown
	}
	sub := func(x ast.Expr) int { // one step inside x
		if c.operandLevel(d, x, depth+1) >= lvlNonStrict {
			return lvlStrict
		}
		return lvlUnknown
	}
	switch e := unparen(e).(type) {
	case *ast.Ident:
		obj := c.info.ObjectOf(e)
		if obj == nil {
			return lvlUnknown
		}
		if d.own[obj] {
			if d.assigns[obj] > 0 {
				return lvlUnknown // a parameter that is reassigned
			}
			return lvlNonStrict
		}
		if rs := d.ranged[obj]; rs != nil && d.assigns[obj] == 0 {
			return sub(rs.X)
		}
		if lit := d.litPar[obj]; lit != nil && d.assigns[obj] == 0 {
			call, ok := c.parents[lit].(*ast.CallExpr)
			if !ok {
				return lvlUnknown
			}
			isArg := false
			for _, a := range call.Args {
				isArg = isArg || a == ast.Expr(lit)
			}
			if !isArg {
				return lvlUnknown
			}
			others := append([]ast.Expr{}, call.Args...)
			if sel, ok := unparen(call.Fun).(*ast.SelectorExpr); ok {
				if s := c.info.Selections[sel]; s != nil && s.Kind() == types.MethodVal {
					others = append(others, sel.X)
				}
			}
			for _, o := range others {
				if o != ast.Expr(lit) && c.operandLevel(d, o, depth+1) >= lvlNonStrict {
					return lvlStrict
				}
			}
			return lvlUnknown
		}
		// the variable of `switch v := x.(type)`: the same value as x
		if _, isVar := obj.(*types.Var); isVar {
			for par := c.parents[ast.Node(e)]; par != nil; par = c.parents[par] {
				if ts, ok := par.(*ast.TypeSwitchStmt); ok {
					if as, ok := ts.Assign.(*ast.AssignStmt); ok && len(as.Lhs) == 1 && len(as.Rhs) == 1 {
						if id, ok := as.Lhs[0].(*ast.Ident); ok && id.Name == e.Name {
							if ta, ok := unparen(as.Rhs[0]).(*ast.TypeAssertExpr); ok && c.info.Defs[id] == nil && c.isImplicitOf(ts, obj) {
								return c.operandLevel(d, ta.X, depth+1)
							}
						}
					}
				}
				if par == c.decl {
					break
				}
			}
		}
		// a local variable defined exactly once
		if defs := c.defs[obj]; len(defs) == 1 && d.assigns[obj] == 1 && !c.params[obj] {
			return c.operandLevel(d, defs[0], depth+1)
		}
		return lvlUnknown
	case *ast.SelectorExpr:
		if s := c.info.Selections[e]; s != nil && s.Kind() == types.FieldVal {
			return sub(e.X)
		}
		return lvlUnknown
	case *ast.IndexExpr:
		switch coreUnder(c.info.TypeOf(e.X)).(type) {
		case *types.Slice, *types.Array, *types.Map, *types.Pointer:
			return sub(e.X)
		}
		return lvlUnknown
	case *ast.StarExpr:
		return sub(e.X)
	case *ast.UnaryExpr:
		if e.Op == token.AND {
			return c.operandLevel(d, e.X, depth+1)
		}
		return lvlUnknown
	case *ast.TypeAssertExpr:
		return c.operandLevel(d, e.X, depth+1)
	case *ast.SliceExpr:
		if l := c.operandLevel(d, e.X, depth+1); l >= lvlNonStrict {
			return min(l, lvlNonStrict+0) // a sub-slice is no larger; not claimed strictly smaller
		}
		return lvlUnknown
	}
	return lvlUnknown
}

func (c *fnCtx) isImplicitOf(ts *ast.TypeSwitchStmt, obj types.Object) bool {
	for _, cl := range ts.Body.List {
		if c.info.Implicits[cl] == obj {
			return true
		}
	}
	return false
}

// callLevel: the classification of one call site (see the head of this file)
func (c *fnCtx) callLevel(call *ast.CallExpr) int {
	if c.descent == nil {
		c.descent = c.descentPrepare()
	}
	var operands []ast.Expr
	if sel, ok := unparen(call.Fun).(*ast.SelectorExpr); ok {
		if s := c.info.Selections[sel]; s != nil && s.Kind() == types.MethodVal {
			operands = append(operands, sel.X)
		}
	}
	for _, a := range call.Args {
		if isDataType(c.info.TypeOf(a)) {
			if tv, ok := c.info.Types[a]; ok && tv.IsNil() {
				continue
			}
			operands = append(operands, a)
		}
	}
	if len(operands) == 0 {
		return lvlUnknown
	}
	level := lvlStrict
	for _, o := range operands {
		level = min(level, c.operandLevel(c.descent, o, 0))
	}
	return level
}

// structural: no unknown internal edge, and the non-strict internal edges are acyclic
func structuralGroup(comp []*cgNode) bool {
	in := map[string]*cgNode{}
	for _, n := range comp {
		in[n.key] = n
	}
	weak := map[string][]string{}
	for _, n := range comp {
		for to := range n.out {
			if in[to] == nil {
				continue
			}
			switch n.level[to] {
			case lvlStrict:
			case lvlNonStrict:
				weak[n.key] = append(weak[n.key], to)
			default:
				return false
			}
		}
	}
	state := map[string]int{}
	var visit func(k string) bool
	visit = func(k string) bool {
		switch state[k] {
		case 1:
			return false
		case 2:
			return true
		}
		state[k] = 1
		for _, to := range weak[k] {
			if !visit(to) {
				return false
			}
		}
		state[k] = 2
		return true
	}
	for _, n := range comp {
		if !visit(n.key) {
			return false
		}
	}
	return true
}
