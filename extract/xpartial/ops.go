package main

// Detection of the partial operations of one function (or package-level initialiser).

import (
	"fmt"
	"go/ast"
	"go/parser"
	"go/token"
	"go/types"

	"golang.org/x/tools/go/packages"
)

type fnCtx struct {
	x       *extractor
	p       *packages.Package
	info    *types.Info
	file    string
	name    string   // display name of the enclosing named function
	node    *cgNode  // call-graph node (nil for package-level initialisers)
	decl    ast.Node // *ast.FuncDecl or *ast.GenDecl
	parents map[ast.Node]ast.Node
	params  map[types.Object]bool       // parameters, results, receivers (also of literals)
	defs    map[types.Object][]ast.Expr // local variable -> right-hand sides of its definitions
	descent *descentInfo
}

func (c *fnCtx) emit(kind string, n ast.Node, expr, guard string) {
	c.x.add(c.file, c.name, kind, expr, guard, "", n.Pos())
}

// coreUnder: the underlying type; for a type parameter the common underlying type of its terms.
func coreUnder(t types.Type) types.Type {
	tp, ok := types.Unalias(t).(*types.TypeParam)
	if !ok {
		return t.Underlying()
	}
	iface, _ := tp.Constraint().Underlying().(*types.Interface)
	var core types.Type
	for i := 0; iface != nil && i < iface.NumEmbeddeds(); i++ {
		u, ok := iface.EmbeddedType(i).(*types.Union)
		if !ok {
			return nil
		}
		for j := 0; j < u.Len(); j++ {
			tu := u.Term(j).Type().Underlying()
			if core != nil && !types.Identical(core, tu) {
				return nil
			}
			core = tu
		}
	}
	return core
}

// indexable classifies the operand of x[i] / x[a:b]: "seq" (slice, string), "array", "map", "skip".
func (c *fnCtx) indexable(n ast.Node, x ast.Expr) (class string, isString bool) {
	if tv, ok := c.info.Types[x]; ok && tv.IsType() {
		return "skip", false // instantiation of a generic type
	}
	t := c.info.TypeOf(x)
	if t == nil {
		fail("%v: no type for the operand of %s", c.x.fset.Position(n.Pos()), c.x.source(n))
	}
	if _, isFn := t.(*types.Signature); isFn {
		return "skip", false // instantiation of a generic function
	}
	u := coreUnder(t)
	if p, ok := u.(*types.Pointer); ok {
		if _, isArr := coreUnder(p.Elem()).(*types.Array); isArr {
			return "array", false
		}
	}
	switch u := u.(type) {
	case *types.Slice:
		return "seq", false
	case *types.Basic:
		if u.Info()&types.IsString != 0 {
			return "seq", true
		}
	case *types.Array:
		return "array", false
	case *types.Map:
		return "map", false
	}
	fail("%v: cannot classify the operand type %v of %s", c.x.fset.Position(n.Pos()), t, c.x.source(n))
	return "", false
}

func (c *fnCtx) isConst(e ast.Expr) bool {
	tv, ok := c.info.Types[e]
	return ok && tv.Value != nil
}

func (c *fnCtx) isNamedAstType(t types.Type) bool {
	if p, ok := t.(*types.Pointer); ok {
		t = p.Elem()
	}
	n, ok := types.Unalias(t).(*types.Named)
	return ok && n.Obj() == c.x.astType
}

// kindSel: e is X.F with F one of the kind pointer fields of ast.Type.
func (c *fnCtx) kindSel(e ast.Expr) *ast.SelectorExpr {
	s, ok := unparen(e).(*ast.SelectorExpr)
	if !ok {
		return nil
	}
	if v, ok := c.info.Uses[s.Sel].(*types.Var); ok && c.x.kindFields[v] {
		return s
	}
	return nil
}

func (c *fnCtx) run() {
	c.prepass()
	ast.Inspect(c.decl, func(n ast.Node) bool {
		switch e := n.(type) {
		case *ast.TypeAssertExpr:
			if e.Type == nil {
				break // type switch
			}
			if _, commaOk := c.info.TypeOf(e).(*types.Tuple); !commaOk {
				c.emit("assert", e, c.x.source(e), "none")
			}
		case *ast.CallExpr:
			c.call(e)
		case *ast.SelectorExpr:
			if in := c.kindSel(e.X); in != nil {
				c.emit("kindptr", e, c.x.source(e), c.kindGuard(e, text(in.X), in.Sel.Name, true))
			}
		case *ast.StarExpr:
			if in := c.kindSel(e.X); in != nil {
				c.emit("kindptr", e, c.x.source(e), c.kindGuard(e, text(in.X), in.Sel.Name, true))
			}
		case *ast.IndexExpr:
			c.index(e)
		case *ast.SliceExpr:
			c.slice(e)
		case *ast.AssignStmt:
			for _, l := range e.Lhs {
				c.mapWrite(e, l)
			}
		case *ast.IncDecStmt:
			c.mapWrite(e, e.X)
		case *ast.RangeStmt:
			c.rangePtr(e)
		case *ast.BinaryExpr:
			c.ifaceCmp(e)
		}
		return true
	})
}

// ifaceCmp: `a == b` / `a != b` with both operands of a (non-error) interface type: a run-time panic
// ("comparing uncomparable type") when both hold a slice / map / func of the same dynamic type.
func (c *fnCtx) ifaceCmp(e *ast.BinaryExpr) {
	if e.Op != token.EQL && e.Op != token.NEQ {
		return
	}
	isIface := func(x ast.Expr) bool {
		tv, ok := c.info.Types[x]
		if !ok || tv.Type == nil || tv.IsNil() {
			return false
		}
		if b, ok := tv.Type.(*types.Basic); ok && b.Kind() == types.UntypedNil {
			return false
		}
		if _, ok := types.Unalias(tv.Type).(*types.TypeParam); ok {
			return false
		}
		if !types.IsInterface(tv.Type) {
			return false
		}
		if n, ok := types.Unalias(tv.Type).(*types.Named); ok && n.Obj().Pkg() == nil && n.Obj().Name() == "error" {
			return false
		}
		return true
	}
	if isIface(e.X) && isIface(e.Y) {
		c.emit("ifacecmp", e, c.x.source(e), "none")
	}
}

// prepass: parameters and the definitions of local variables (for mapwrite), self-recursive literals.
func (c *fnCtx) prepass() {
	c.params, c.defs = map[types.Object]bool{}, map[types.Object][]ast.Expr{}
	fields := func(fl *ast.FieldList) {
		for _, f := range fl.List {
			for _, id := range f.Names {
				c.params[c.info.Defs[id]] = true
			}
		}
	}
	def := func(lhs ast.Expr, rhs ast.Expr) {
		id, ok := unparen(lhs).(*ast.Ident)
		if !ok || id.Name == "_" {
			return
		}
		obj := c.info.ObjectOf(id)
		c.defs[obj] = append(c.defs[obj], rhs)
		if lit, ok := unparen(rhs).(*ast.FuncLit); ok && c.node != nil && c.callsVar(lit, obj) {
			c.x.graph.selfLoop(c.node, id.Name, lit.Pos())
		}
	}
	pick := func(rhs []ast.Expr, i, n int) ast.Expr {
		if len(rhs) == n {
			return rhs[i]
		}
		if len(rhs) == 1 {
			return rhs[0] // multi-value call, comma-ok form
		}
		return &ast.BadExpr{}
	}
	ast.Inspect(c.decl, func(n ast.Node) bool {
		switch s := n.(type) {
		case *ast.FuncDecl:
			if s.Recv != nil {
				fields(s.Recv)
			}
		case *ast.FuncType:
			fields(s.Params)
			if s.Results != nil {
				fields(s.Results)
			}
		case *ast.AssignStmt:
			if s.Tok == token.DEFINE || s.Tok == token.ASSIGN {
				for i, l := range s.Lhs {
					def(l, pick(s.Rhs, i, len(s.Lhs)))
				}
			}
		case *ast.ValueSpec:
			for i, id := range s.Names {
				if len(s.Values) > 0 {
					def(id, pick(s.Values, i, len(s.Names)))
				}
			}
		case *ast.RangeStmt:
			for _, e := range []ast.Expr{s.Key, s.Value} {
				if e != nil {
					def(e, &ast.BadExpr{})
				}
			}
		}
		return true
	})
}

func (c *fnCtx) callsVar(lit *ast.FuncLit, v types.Object) bool {
	found := false
	ast.Inspect(lit.Body, func(n ast.Node) bool {
		if call, ok := n.(*ast.CallExpr); ok {
			if id, ok := unparen(call.Fun).(*ast.Ident); ok && c.info.Uses[id] == v {
				found = true
			}
		}
		return !found
	})
	return found
}

// call: As…() on ast.Type, and the static call-graph edge.
func (c *fnCtx) call(call *ast.CallExpr) {
	fun := unparen(call.Fun)
	for {
		switch f := fun.(type) {
		case *ast.IndexExpr:
			fun = unparen(f.X)
			continue
		case *ast.IndexListExpr:
			fun = unparen(f.X)
			continue
		}
		break
	}
	var id *ast.Ident
	sel, isSel := fun.(*ast.SelectorExpr)
	if isSel {
		id = sel.Sel
	} else if id, _ = fun.(*ast.Ident); id == nil {
		return // call of a literal, of a call result, conversion to a composite type …
	}
	obj := c.info.Uses[id]
	if isSel && asMethod.MatchString(id.Name) {
		s := c.info.Selections[sel]
		switch {
		case s != nil && s.Kind() == types.MethodVal:
			if c.isNamedAstType(s.Recv()) {
				c.emit("as", call, c.x.source(call), c.kindGuard(call, text(sel.X), "", false))
			}
		case s != nil && s.Kind() == types.FieldVal: // a func-typed field named As…: not a method
		default:
			if f, isFn := obj.(*types.Func); !isFn || f.Type().(*types.Signature).Recv() != nil {
				fail("%v: cannot determine the receiver of %s", c.x.fset.Position(call.Pos()), c.x.source(call))
			}
		}
	}
	if f, ok := obj.(*types.Func); ok && c.node != nil && f.Pkg() != nil && c.x.listed[f.Pkg().Path()] {
		f = f.Origin()
		if r := f.Type().(*types.Signature).Recv(); r != nil {
			if _, isIface := r.Type().Underlying().(*types.Interface); isIface {
				return // dynamic dispatch: callee not known statically
			}
		}
		c.x.graph.edge(c.node, f.Pkg().Name()+"."+display(f), c.callLevel(call))
	}
}

func (x *extractor) noteBounded(c *fnCtx, e ast.Expr) {
	_, line := x.rel(e.Pos())
	x.bounded = append(x.bounded, fmt.Sprintf("%s:%d %s %s", c.file, line, c.name, x.source(e)))
}

// loopVar: idx is the variable of an enclosing loop that keeps it below len(operand).
func (c *fnCtx) loopVar(n ast.Node, operand string, idx ast.Expr) bool {
	id, ok := unparen(idx).(*ast.Ident)
	if !ok {
		return false
	}
	obj := c.info.Uses[id]
	for par := c.parents[n]; par != nil && obj != nil; par = c.parents[par] {
		switch l := par.(type) {
		case *ast.FuncLit:
			// sort.Slice(x, func(i, j int) bool { … x[i] … x[j] … }): the contract of sort.Slice /
			// sort.SliceStable is 0 <= i, j < len(x); x must not be assigned inside the callback
			call, ok := c.parents[l].(*ast.CallExpr)
			if !ok || len(call.Args) != 2 || call.Args[1] != ast.Expr(l) || text(call.Args[0]) != operand {
				break
			}
			sel, ok := unparen(call.Fun).(*ast.SelectorExpr)
			if !ok {
				break
			}
			fn, ok := c.info.Uses[sel.Sel].(*types.Func)
			if !ok || fn.Pkg() == nil || fn.Pkg().Path() != "sort" || (fn.Name() != "Slice" && fn.Name() != "SliceStable") {
				break
			}
			isParam := false
			for _, f := range l.Type.Params.List {
				for _, pn := range f.Names {
					isParam = isParam || c.info.Defs[pn] == obj
				}
			}
			if isParam && !c.assigns(l.Body, obj) && !c.assignsText(l.Body, operand) {
				return true
			}
		case *ast.RangeStmt:
			k, ok := l.Key.(*ast.Ident)
			if ok && l.Tok == token.DEFINE && c.info.Defs[k] == obj && n.Pos() >= l.Body.Pos() &&
				(text(l.X) == operand || c.madeWithLenOf(operand, l.X)) && !c.assigns(l.Body, obj) {
				return true
			}
		case *ast.ForStmt:
			be, ok := l.Cond.(*ast.BinaryExpr)
			if !ok || be.Op != token.LSS || n.Pos() < l.Body.Pos() {
				break
			}
			v, ok := unparen(be.X).(*ast.Ident)
			if ok && c.info.Uses[v] == obj && !c.assigns(l.Body, obj) {
				if isLenOf(be.Y, operand) {
					return true
				}
				if call, isCall := unparen(be.Y).(*ast.CallExpr); isCall && len(call.Args) == 1 && isLenOf(be.Y, text(call.Args[0])) &&
					c.madeWithLenOf(operand, call.Args[0]) {
					return true
				}
			}
		}
		if par == c.decl {
			break
		}
	}
	return false
}

// madeWithLenOf: the slice written `operand` (a local variable `y`, or `v.F` for a local variable v)
// was created in this function by make([]T, len(X)) — `y := make(…)`, or the field F of the single
// composite literal that defines v — where X is the (slice / array / string) expression ranged over;
// neither `operand` nor X is assigned anywhere else in the function.  Then len(operand) == len(X)
// throughout, and an index below len(X) is in bounds.
func (c *fnCtx) madeWithLenOf(operand string, ranged ast.Expr) bool {
	switch coreUnder(c.info.TypeOf(ranged)).(type) {
	case *types.Slice, *types.Array, *types.Basic:
	default:
		return false // a map / channel / function / integer range: the key is not an index below len
	}
	x := text(ranged)
	isMake := func(e ast.Expr) bool {
		call, ok := unparen(e).(*ast.CallExpr)
		if !ok || len(call.Args) != 2 {
			return false
		}
		id, ok := unparen(call.Fun).(*ast.Ident)
		if !ok || id.Name != "make" || c.info.Uses[id] != types.Universe.Lookup("make") {
			return false
		}
		return isLenOf(call.Args[1], x)
	}
	// every assignment / definition / address-of in the function whose target is written like `operand` or like X
	var operandDefs []ast.Expr
	clean := true
	ast.Inspect(c.decl, func(n ast.Node) bool {
		switch s := n.(type) {
		case *ast.AssignStmt:
			for i, l := range s.Lhs {
				switch text(l) {
				case operand:
					if len(s.Lhs) == len(s.Rhs) && (s.Tok == token.DEFINE || s.Tok == token.ASSIGN) {
						operandDefs = append(operandDefs, s.Rhs[i])
					} else {
						clean = false
					}
				case x:
					clean = false
				}
			}
		case *ast.ValueSpec:
			for i, id := range s.Names {
				if id.Name == operand || id.Name == x {
					if id.Name == operand && len(s.Values) == len(s.Names) {
						operandDefs = append(operandDefs, s.Values[i])
					} else {
						clean = false
					}
				}
			}
		case *ast.IncDecStmt:
			if t := text(s.X); t == operand || t == x {
				clean = false
			}
		case *ast.UnaryExpr:
			if t := text(s.X); s.Op == token.AND && (t == operand || t == x) {
				clean = false
			}
		case *ast.RangeStmt:
			for _, kv := range []ast.Expr{s.Key, s.Value} {
				if kv != nil && (text(kv) == operand || text(kv) == x) {
					clean = false
				}
			}
		}
		return clean
	})
	if !clean {
		return false
	}
	if len(operandDefs) == 1 {
		return isMake(operandDefs[0])
	}
	if len(operandDefs) != 0 {
		return false
	}
	// v.F with v := T{…, F: make([]E, len(X)), …} (or &T{…}) as the only definition of v
	sel, ok := func() (*ast.SelectorExpr, bool) {
		e, err := parser.ParseExpr(operand)
		if err != nil {
			return nil, false
		}
		s, ok := e.(*ast.SelectorExpr)
		return s, ok
	}()
	if !ok {
		return false
	}
	base, ok := sel.X.(*ast.Ident)
	if !ok {
		return false
	}
	var baseObj types.Object
	var baseDefs []ast.Expr
	for obj, defs := range c.defs {
		if obj != nil && obj.Name() == base.Name {
			if baseObj != nil {
				return false // two local variables of that name: not decided
			}
			baseObj, baseDefs = obj, defs
		}
	}
	if baseObj == nil || c.params[baseObj] || len(baseDefs) != 1 {
		return false
	}
	def := unparen(baseDefs[0])
	if u, ok := def.(*ast.UnaryExpr); ok && u.Op == token.AND {
		def = unparen(u.X)
	}
	lit, ok := def.(*ast.CompositeLit)
	if !ok {
		return false
	}
	for _, el := range lit.Elts {
		kv, ok := el.(*ast.KeyValueExpr)
		if !ok {
			return false
		}
		if k, ok := kv.Key.(*ast.Ident); ok && k.Name == sel.Sel.Name {
			return isMake(kv.Value)
		}
	}
	return false
}

func isLenOf(e ast.Expr, operand string) bool {
	call, ok := unparen(e).(*ast.CallExpr)
	if !ok || len(call.Args) != 1 {
		return false
	}
	id, ok := unparen(call.Fun).(*ast.Ident)
	return ok && id.Name == "len" && text(call.Args[0]) == operand
}

// assignsText: some assignment in body has a left-hand side written like `target`
func (c *fnCtx) assignsText(body ast.Node, target string) bool {
	found := false
	ast.Inspect(body, func(n ast.Node) bool {
		if s, ok := n.(*ast.AssignStmt); ok {
			for _, l := range s.Lhs {
				found = found || text(l) == target
			}
		}
		return !found
	})
	return found
}

func (c *fnCtx) assigns(body ast.Node, v types.Object) bool {
	found := false
	is := func(e ast.Expr) bool {
		id, ok := unparen(e).(*ast.Ident)
		return ok && c.info.ObjectOf(id) == v
	}
	ast.Inspect(body, func(n ast.Node) bool {
		switch s := n.(type) {
		case *ast.AssignStmt:
			for _, l := range s.Lhs {
				found = found || is(l)
			}
		case *ast.IncDecStmt:
			found = found || is(s.X)
		case *ast.UnaryExpr:
			found = found || (s.Op == token.AND && is(s.X))
		}
		return !found
	})
	return found
}

func (c *fnCtx) index(e *ast.IndexExpr) {
	class, isString := c.indexable(e, e.X)
	switch {
	case class == "skip" || class == "map" || c.isConst(e):
		return
	case class == "array" && c.isConst(e.Index):
		return // checked by the compiler
	}
	if c.loopVar(e, text(e.X), e.Index) {
		c.x.loopIdx++
		c.x.noteBounded(c, e)
		return
	}
	c.emit("index", e, c.x.source(e), c.lenGuard(e, text(e.X), isString))
}

func (c *fnCtx) slice(e *ast.SliceExpr) {
	class, isString := c.indexable(e, e.X)
	if class == "skip" || class == "map" {
		fail("%v: slice expression on a %s operand", c.x.fset.Position(e.Pos()), class)
	}
	operand := text(e.X)
	nontrivial, bounded := 0, 0
	for _, b := range []ast.Expr{e.Low, e.High, e.Max} {
		if b == nil || isLenOf(b, operand) {
			continue
		}
		if lit, ok := unparen(b).(*ast.BasicLit); ok && lit.Value == "0" {
			continue
		}
		nontrivial++
		i := unparen(b)
		if be, ok := i.(*ast.BinaryExpr); ok && be.Op == token.ADD {
			if lit, ok := unparen(be.Y).(*ast.BasicLit); ok && lit.Value == "1" {
				i = be.X
			}
		}
		if c.loopVar(e, operand, i) {
			bounded++
		}
	}
	switch {
	case nontrivial == 0:
	case bounded == nontrivial:
		c.x.loopSlice++
		c.x.noteBounded(c, e)
	default:
		c.emit("slice", e, c.x.source(e), c.lenGuard(e, operand, isString))
	}
}

func (c *fnCtx) mapWrite(stmt ast.Stmt, lhs ast.Expr) {
	ix, ok := unparen(lhs).(*ast.IndexExpr)
	if !ok {
		return
	}
	if class, _ := c.indexable(ix, ix.X); class != "map" {
		return
	}
	if id, ok := unparen(ix.X).(*ast.Ident); ok && c.safeLocal(c.info.ObjectOf(id)) {
		return
	}
	c.emit("mapwrite", stmt, c.x.source(stmt), c.nilGuard(stmt, text(ix.X)))
}

// safeLocal: a variable declared in this function (not a parameter/result) every definition of
// which is make(…), a composite literal or a call result.
func (c *fnCtx) safeLocal(o types.Object) bool {
	v, ok := o.(*types.Var)
	if !ok || v.IsField() || c.params[o] || o.Pos() < c.decl.Pos() || o.Pos() >= c.decl.End() {
		return false
	}
	if _, pkgLevel := c.decl.(*ast.GenDecl); pkgLevel || len(c.defs[o]) == 0 {
		return false
	}
	for _, rhs := range c.defs[o] {
		switch r := unparen(rhs).(type) {
		case *ast.CompositeLit:
		case *ast.CallExpr:
			if tv, ok := c.info.Types[r.Fun]; ok && tv.IsType() {
				return false // conversion
			}
		default:
			return false
		}
	}
	return true
}

func (c *fnCtx) rangePtr(rs *ast.RangeStmt) {
	id, ok := rs.Value.(*ast.Ident)
	if !ok || id.Name == "_" {
		return
	}
	v := c.info.ObjectOf(id)
	t := c.info.TypeOf(rs.X)
	if t == nil || v == nil {
		fail("%v: no type for range clause", c.x.fset.Position(rs.Pos()))
	}
	u := coreUnder(t)
	if p, ok := u.(*types.Pointer); ok {
		u = coreUnder(p.Elem())
	}
	var elem types.Type
	switch s := u.(type) {
	case *types.Slice:
		elem = s.Elem()
	case *types.Array:
		elem = s.Elem()
	default:
		return
	}
	if _, isPtr := coreUnder(elem).(*types.Pointer); !isPtr {
		return
	}
	is := func(e ast.Expr) bool {
		i, ok := unparen(e).(*ast.Ident)
		return ok && c.info.Uses[i] == v
	}
	deref, checked := false, false
	ast.Inspect(rs.Body, func(n ast.Node) bool {
		switch e := n.(type) {
		case *ast.SelectorExpr:
			deref = deref || is(e.X)
		case *ast.StarExpr:
			deref = deref || is(e.X)
		case *ast.BinaryExpr:
			if e.Op == token.EQL || e.Op == token.NEQ {
				checked = checked || (is(e.X) && isNil(e.Y)) || (is(e.Y) && isNil(e.X))
			}
		}
		return true
	})
	if deref {
		guard := "none"
		if checked {
			guard = "nil-check"
		}
		c.emit("rangeptr", rs, c.x.source(rs.X), guard)
	}
}

func isNil(e ast.Expr) bool {
	id, ok := unparen(e).(*ast.Ident)
	return ok && id.Name == "nil"
}
