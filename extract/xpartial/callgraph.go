package main

// Static call graph restricted to the listed packages, its cycles, and the two output formats.
//
// Nodes: the function declarations of the listed packages ("<pkg name>.<display name>") and, for a
// function literal assigned to a local variable that calls that variable, "<enclosing>.<var>" with
// a self-loop.  Edges: calls whose callee go/types resolves to a function or to a method with a
// concrete receiver (calls in literals belong to the enclosing function).  Calls through
// interfaces, fields and function values are NOT edges.

import (
	"crypto/sha1"
	"encoding/json"
	"fmt"
	"go/token"
	"sort"
	"strings"
)

type cgNode struct {
	key, file, fn string
	pos           token.Pos
	out           map[string]bool
	level         map[string]int // worst classification of the call sites of each edge (descent.go)
	index, low    int
	onStack       bool
}

type callGraph struct{ nodes map[string]*cgNode }

func newCallGraph() *callGraph { return &callGraph{nodes: map[string]*cgNode{}} }

func (g *callGraph) node(key, file, fn string, pos token.Pos) *cgNode {
	n := g.nodes[key]
	if n == nil { // several init/_ functions share one node
		n = &cgNode{key: key, file: file, fn: fn, pos: pos, out: map[string]bool{}, level: map[string]int{}}
		g.nodes[key] = n
	}
	return n
}

func (g *callGraph) edge(from *cgNode, to string, level int) {
	from.out[to] = true
	if old, ok := from.level[to]; !ok || level < old {
		from.level[to] = level
	}
}

func (g *callGraph) selfLoop(encl *cgNode, varName string, pos token.Pos) {
	n := g.node(encl.key+"."+varName, encl.file, encl.fn, pos)
	n.out[n.key] = true
	n.level[n.key] = lvlUnknown
}

// sccs: Tarjan; only the components that contain a cycle.
func (g *callGraph) sccs() [][]*cgNode {
	keys := make([]string, 0, len(g.nodes))
	for k := range g.nodes {
		keys = append(keys, k)
	}
	sort.Strings(keys)
	var out [][]*cgNode
	var stack []*cgNode
	next := 1
	var visit func(n *cgNode)
	visit = func(n *cgNode) {
		n.index, n.low, n.onStack = next, next, true
		next++
		stack = append(stack, n)
		for to := range n.out {
			m := g.nodes[to]
			if m == nil {
				continue // no declaration with a body in the listed packages
			}
			if m.index == 0 {
				visit(m)
				n.low = min(n.low, m.low)
			} else if m.onStack {
				n.low = min(n.low, m.index)
			}
		}
		if n.low != n.index {
			return
		}
		var comp []*cgNode
		for {
			m := stack[len(stack)-1]
			stack = stack[:len(stack)-1]
			m.onStack = false
			comp = append(comp, m)
			if m == n {
				break
			}
		}
		if len(comp) > 1 || n.out[n.key] {
			out = append(out, comp)
		}
	}
	for _, k := range keys {
		if g.nodes[k].index == 0 {
			visit(g.nodes[k])
		}
	}
	return out
}

func (x *extractor) recursion() {
	for _, comp := range x.graph.sccs() {
		names := make([]string, len(comp))
		for i, n := range comp {
			names[i] = n.key
		}
		sort.Strings(names)
		full := strings.Join(names, ",")
		if structuralGroup(comp) {
			x.recStructural = append(x.recStructural, full)
			continue
		}
		expr := full
		if len(full) > 120 { // keep the entry sensitive to every member of a large component
			expr = truncate(fmt.Sprintf("%s...(%d functions, sha1 %x", truncate(full, 80), len(names), sha1.Sum([]byte(full))), 119) + ")"
		}
		for _, n := range comp {
			x.add(n.file, n.fn, "recursion", expr, "none", full, n.pos)
		}
	}
}

// ---------------------------------------------------------------- output

func shortPkg(file string) string {
	if i := strings.LastIndex(file, "/"); i >= 0 {
		return file[:i]
	}
	return file
}

func (x *extractor) counts(ops []*Op) (kinds, guards, pkgs, kindGuard map[string]int) {
	kinds, guards, pkgs, kindGuard = map[string]int{}, map[string]int{}, map[string]int{}, map[string]int{}
	for _, o := range ops {
		kinds[o.Kind] += o.N
		guards[o.Guard] += o.N
		pkgs[shortPkg(o.File)] += o.N
		kindGuard[o.Kind+"/"+o.Guard] += o.N
	}
	return
}

func (x *extractor) summaryLine(ops []*Op) string {
	_, _, _, kg := x.counts(ops)
	keys := make([]string, 0, len(kg))
	for k := range kg {
		keys = append(keys, k)
	}
	sort.Strings(keys)
	parts := []string{fmt.Sprintf("entries=%d files=%d", len(ops), x.nfiles)}
	for _, k := range keys {
		parts = append(parts, fmt.Sprintf("%s=%d", k, kg[k]))
	}
	parts = append(parts, fmt.Sprintf("index_loop_bounded=%d slice_loop_bounded=%d recursion_structural=%d", x.loopIdx, x.loopSlice, len(x.recStructural)))
	return strings.Join(parts, " ")
}

func (x *extractor) json(ops []*Op) []byte {
	kinds, guards, pkgs, kg := x.counts(ops)
	sort.Strings(x.bounded)
	sort.Strings(x.recStructural)
	blob, err := json.MarshalIndent(map[string]any{
		"ops": ops, "loop_bounded": x.bounded, "recursion_structural": x.recStructural,
		"summary": map[string]any{"entries": len(ops), "files": x.nfiles, "per_kind": kinds, "per_guard": guards,
			"per_package": pkgs, "per_kind_guard": kg, "index_loop_bounded": x.loopIdx, "slice_loop_bounded": x.loopSlice},
	}, "", " ")
	if err != nil {
		fail("json: %v", err)
	}
	return blob
}

func leanStr(s string) string {
	var b strings.Builder
	b.WriteByte('"')
	for _, r := range s {
		switch {
		case r == '"' || r == '\\':
			b.WriteByte('\\')
			b.WriteRune(r)
		case r >= 0x20 && r <= 0x7e:
			b.WriteRune(r)
		case r < 0x100:
			fmt.Fprintf(&b, "\\x%02x", r)
		case r <= 0xffff:
			fmt.Fprintf(&b, "\\u%04x", r)
		default:
			fail("character %U in %q cannot be written as a Lean string escape", r, s)
		}
	}
	b.WriteByte('"')
	return b.String()
}

const chunk = 100

func (x *extractor) lean(ops []*Op) string {
	var b strings.Builder
	fmt.Fprintf(&b, "/- GENERATED by /verif/extract/xpartial from %d files of the cog module — do not edit, not committed. -/\n", x.nfiles)
	b.WriteString("namespace Cog.Gen.PartialOps\nstructure Op where\n  file : String\n  func : String\n  kind : String\n" +
		"  expr : String\n  guard : String\n  n : Nat\n  deriving Repr, DecidableEq\n")
	var names []string
	for i := 0; i < len(ops); i += chunk {
		name := fmt.Sprintf("ops%d", i/chunk)
		names = append(names, name)
		fmt.Fprintf(&b, "def %s : List Op := [\n", name)
		end := min(i+chunk, len(ops))
		for j, o := range ops[i:end] {
			sep := ","
			if i+j+1 == end {
				sep = ""
			}
			fmt.Fprintf(&b, "  { file := %s, func := %s, kind := %s, expr := %s, guard := %s, n := %d }%s\n",
				leanStr(o.File), leanStr(o.Func), leanStr(o.Kind), leanStr(o.Expr), leanStr(o.Guard), o.N, sep)
		}
		b.WriteString("]\n")
	}
	if len(names) == 0 {
		names = []string{"[]"}
	}
	fmt.Fprintf(&b, "def ops : List Op := %s\n", strings.Join(names, " ++ "))
	fmt.Fprintf(&b, "def loopBoundedIndexCount : Nat := %d\ndef ok : Bool := true\nend Cog.Gen.PartialOps\n", x.loopIdx)
	return b.String()
}
