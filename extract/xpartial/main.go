// Command xpartial is the fact extractor of /verif's C04 check ("no input makes cog panic or hang").
//
// It type-checks the listed packages of the cog module found in the directory given as argument
// (non-test files only) and emits one table entry per PARTIAL OPERATION, i.e. an operation that
// can panic at run time (function literals are attributed to the enclosing named function):
//
//	assert    x.(T) in single-value form (not comma-ok, not a type switch)
//	as        call of a method As[A-Z]… whose receiver type is ast.Type
//	kindptr   X.F.G or *X.F where X.F selects a kind pointer field of ast.Type
//	index     x[i] on a slice/string/array (not maps, not constant expressions, not constant
//	          indexes of arrays), unless i is the key of an enclosing `for i := range x` or the
//	          variable of an enclosing `for …; i < len(x); …` over the textually same x and i is
//	          not assigned in the loop body (counted in index_loop_bounded)
//	          — the ranged x may also be the slice whose length the indexed slice was made with in
//	          the same function (y := make([]T, len(x)), or the field F: make([]T, len(x)) of the
//	          composite literal defining v for y = v.F, neither reassigned) — or the i / j of the
//	          callback passed to sort.Slice(x, …) / sort.SliceStable(x, …)
//	slice     x[a:b] with at least one bound that is not absent, `0` or `len(x)`; exempt (counted
//	          in slice_loop_bounded) when every such bound is `i` or `i+1` for a bounding loop as above
//	mapwrite  m[k] = v, m[k] op= v, m[k]++ where m is a map that is not a local variable all of
//	          whose definitions in the function are make(…)/composite literals/call results
//	rangeptr  for _, v := range xs with pointer elements where the body dereferences v (v.f, *v)
//	ifacecmp  a == b / a != b where both operands have a non-error interface type and neither is nil
//	          ("comparing uncomparable type" when both hold a slice / map / func)
//	recursion functions on a cycle of the static call graph (see callgraph.go), unless every call
//	          inside the cycle descends structurally into the arguments (see descent.go)
//
// Entry = (file, func, kind, expr, guard, n): no line numbers, identical tuples are merged and
// counted, so moving code does not change the table while removing a guard does.
//
// GUARD is a conservative SYNTACTIC classification (guard.go).  The "context conditions" of an
// operation are (a) the conditions of every enclosing if (body or else branch)/for, the tag of
// an enclosing switch together with the expressions of the enclosing case clause (and, for a
// tagless switch, of the clauses before it); (b) the condition of every `if` statement that
// PRECEDES the operation in any enclosing statement list of the same function and whose body
// ends in return/continue/break/goto/panic(…) (else-if chains: each terminating branch);
// (c) the left operand of every enclosing && / || whose right operand contains the operation.
//
//	index, slice  "len" iff a context condition contains len(<operand text>), or, for a string
//	              operand, <operand> ==/!= "" (HasPrefix-like tests do not count); else "none"
//	as, kindptr   "kind" iff a context condition contains <recv>.Is…(…), a comparison of
//	              <recv>.Kind, <recv>.<F> ==/!= nil (kindptr: the same F; as: any kind field),
//	              or the enclosing switch tag is <recv>.Kind; else "none"
//	assert        "none"
//	mapwrite      "nil-check" iff a context condition — here (b) takes EVERY preceding `if`,
//	              terminating or not — contains <m> ==/!= nil; else "none"
//	rangeptr      "nil-check" iff the loop body contains v ==/!= nil; else "none"
//	recursion     "none"
//
// It REFUSES (exit 1) on type errors, a missing listed package, an As…() call whose receiver
// cannot be determined, an index/slice operand it cannot classify, non-BMP characters in a string.
package main

import (
	"bytes"
	"flag"
	"fmt"
	"go/ast"
	"go/printer"
	"go/token"
	"go/types"
	"os"
	"path/filepath"
	"regexp"
	"sort"
	"strings"

	"golang.org/x/tools/go/packages"
)

const modulePath = "github.com/grafana/cog"

var listedDirs = []string{"internal/ast", "internal/ast/compiler", "internal/jsonschema", "internal/openapi",
	"internal/simplecue", "internal/languages", "internal/veneers", "internal/veneers/builder",
	"internal/veneers/option", "internal/veneers/rewrite", "internal/yaml", "internal/tools",
	"internal/codegen", "internal/orderedmap"}

var kindFieldNames = map[string]bool{"Disjunction": true, "Array": true, "Enum": true, "Map": true, "Struct": true,
	"Ref": true, "ConstantReference": true, "Scalar": true, "Intersection": true, "ComposableSlot": true}

var asMethod = regexp.MustCompile(`^As[A-Z]`)

type Op struct {
	File  string `json:"file"`
	Func  string `json:"func"`
	Kind  string `json:"kind"`
	Expr  string `json:"expr"`
	Guard string `json:"guard"`
	N     int    `json:"n"`
	Lines []int  `json:"lines"`
	Full  string `json:"full,omitempty"` // recursion: the untruncated SCC
}

type extractor struct {
	root          string
	fset          *token.FileSet
	pkgs          []*packages.Package
	listed        map[string]bool // package path -> listed
	astType       *types.TypeName
	kindFields    map[*types.Var]bool
	ops           map[string]*Op
	nfiles        int
	loopIdx       int
	loopSlice     int
	bounded       []string // "file:line expr" of the loop-bounded index/slice expressions (JSON only)
	graph         *callGraph
	recStructural []string // recursion groups whose every internal call descends structurally (descent.go)
}

func fail(format string, a ...any) {
	fmt.Fprintf(os.Stderr, "xpartial: "+format+"\n", a...)
	os.Exit(1)
}

func main() {
	leanOut := flag.String("lean", "", "write the Lean table here")
	jsonOut := flag.String("json", "", "write the JSON table here")
	flag.Parse()
	if flag.NArg() != 1 {
		fail("usage: xpartial [-lean file] [-json file] <module dir>")
	}
	root, err := filepath.Abs(flag.Arg(0))
	if err != nil {
		fail("%v", err)
	}
	x := &extractor{root: root, listed: map[string]bool{}, kindFields: map[*types.Var]bool{}, ops: map[string]*Op{},
		graph: newCallGraph()}
	x.load()
	x.walk()
	x.recursion()
	ops := x.sorted()
	if *jsonOut != "" {
		if err := os.WriteFile(*jsonOut, x.json(ops), 0o644); err != nil {
			fail("%v", err)
		}
	}
	if *leanOut != "" {
		if err := os.WriteFile(*leanOut, []byte(x.lean(ops)), 0o644); err != nil {
			fail("%v", err)
		}
	}
	fmt.Println(x.summaryLine(ops))
}

func (x *extractor) load() {
	cfg := &packages.Config{
		Mode: packages.NeedName | packages.NeedFiles | packages.NeedSyntax | packages.NeedTypes |
			packages.NeedTypesInfo | packages.NeedImports,
		Dir: x.root, Tests: false,
	}
	patterns := []string{}
	for _, d := range listedDirs {
		patterns = append(patterns, "./"+d)
		x.listed[modulePath+"/"+d] = false
	}
	pkgs, err := packages.Load(cfg, patterns...)
	if err != nil {
		fail("load: %v", err)
	}
	for _, p := range pkgs {
		if len(p.Errors) > 0 || p.IllTyped {
			fail("package %s has errors: %v", p.PkgPath, p.Errors)
		}
		if _, ok := x.listed[p.PkgPath]; !ok {
			fail("unexpected package %s", p.PkgPath)
		}
		if p.Types == nil || p.TypesInfo == nil || len(p.Syntax) == 0 {
			fail("package %s loaded without types or syntax", p.PkgPath)
		}
		x.listed[p.PkgPath] = true
		x.pkgs = append(x.pkgs, p)
		x.fset = p.Fset
	}
	for path, found := range x.listed {
		if !found {
			fail("listed package %s not found", path)
		}
	}
	sort.Slice(x.pkgs, func(i, j int) bool { return x.pkgs[i].PkgPath < x.pkgs[j].PkgPath })
	for _, p := range x.pkgs {
		if p.PkgPath != modulePath+"/internal/ast" {
			continue
		}
		tn, _ := p.Types.Scope().Lookup("Type").(*types.TypeName)
		if tn == nil {
			fail("ast.Type not found")
		}
		st, ok := tn.Type().Underlying().(*types.Struct)
		if !ok {
			fail("ast.Type is not a struct")
		}
		x.astType = tn
		for i := 0; i < st.NumFields(); i++ {
			f := st.Field(i)
			if _, isPtr := f.Type().(*types.Pointer); isPtr && kindFieldNames[f.Name()] {
				x.kindFields[f] = true
			} else if isPtr || kindFieldNames[f.Name()] {
				fail("ast.Type field %s: pointer fields and the known kind fields differ", f.Name())
			}
		}
	}
	if len(x.kindFields) != len(kindFieldNames) {
		fail("ast.Type has %d of the %d expected kind pointer fields", len(x.kindFields), len(kindFieldNames))
	}
}

func (x *extractor) rel(pos token.Pos) (string, int) {
	p := x.fset.Position(pos)
	r, err := filepath.Rel(x.root, p.Filename)
	if err != nil || strings.HasPrefix(r, "..") {
		fail("file %s is outside %s", p.Filename, x.root)
	}
	return filepath.ToSlash(r), p.Line
}

func (x *extractor) walk() {
	for _, p := range x.pkgs {
		for _, f := range p.Syntax {
			file, _ := x.rel(f.Pos())
			if strings.HasSuffix(file, "_test.go") {
				continue
			}
			x.nfiles++
			parents := parentMap(f)
			for _, d := range f.Decls {
				c := &fnCtx{x: x, p: p, info: p.TypesInfo, file: file, decl: d, parents: parents}
				switch d := d.(type) {
				case *ast.FuncDecl:
					obj, _ := p.TypesInfo.Defs[d.Name].(*types.Func)
					if obj == nil {
						fail("no object for func %s in %s", d.Name.Name, file)
					}
					c.name = display(obj)
					c.node = x.graph.node(p.Types.Name()+"."+c.name, file, c.name, d.Pos())
					if d.Body != nil {
						c.run()
					}
				case *ast.GenDecl:
					if d.Tok == token.VAR {
						c.name = "<package-level>"
						c.run()
					}
				}
			}
		}
	}
}

// display: receiver-qualified name without package path: "(*generator).walkEnum", "Schemas.ResolveToType".
func display(f *types.Func) string {
	sig := f.Type().(*types.Signature)
	r := sig.Recv()
	if r == nil {
		return f.Name()
	}
	t, star := r.Type(), false
	if p, ok := t.(*types.Pointer); ok {
		t, star = p.Elem(), true
	}
	n, ok := types.Unalias(t).(*types.Named)
	if !ok {
		fail("receiver of %s is not a named type", f.FullName())
	}
	if star {
		return "(*" + n.Obj().Name() + ")." + f.Name()
	}
	return n.Obj().Name() + "." + f.Name()
}

func parentMap(f *ast.File) map[ast.Node]ast.Node {
	parents := map[ast.Node]ast.Node{}
	var stack []ast.Node
	ast.Inspect(f, func(n ast.Node) bool {
		if n == nil {
			stack = stack[:len(stack)-1]
			return true
		}
		if len(stack) > 0 {
			parents[n] = stack[len(stack)-1]
		}
		stack = append(stack, n)
		return true
	})
	return parents
}

func unparen(e ast.Expr) ast.Expr {
	for {
		p, ok := e.(*ast.ParenExpr)
		if !ok {
			return e
		}
		e = p.X
	}
}

// text: normalised text used to COMPARE expressions (whitespace- and comment-insensitive).
func text(e ast.Expr) string { return types.ExprString(unparen(e)) }

// source: the printed source of a node, whitespace collapsed, at most 120 characters.
func (x *extractor) source(n ast.Node) string {
	var b bytes.Buffer
	if err := printer.Fprint(&b, x.fset, n); err != nil {
		fail("print: %v", err)
	}
	return truncate(strings.Join(strings.Fields(b.String()), " "), 120)
}

func truncate(s string, n int) string {
	r := []rune(s)
	if len(r) > n {
		return string(r[:n])
	}
	return s
}

func (x *extractor) add(file, fn, kind, expr, guard, full string, pos token.Pos) {
	key := strings.Join([]string{file, fn, kind, expr, guard}, "\x00")
	op := x.ops[key]
	if op == nil {
		op = &Op{File: file, Func: fn, Kind: kind, Expr: expr, Guard: guard, Full: full}
		x.ops[key] = op
	}
	op.N++
	_, line := x.rel(pos)
	op.Lines = append(op.Lines, line)
}

func (x *extractor) sorted() []*Op {
	keys := make([]string, 0, len(x.ops))
	for k := range x.ops {
		keys = append(keys, k)
	}
	sort.Strings(keys) // "\x00"-joined: the order of (file, func, kind, expr, guard)
	out := make([]*Op, 0, len(keys))
	for _, k := range keys {
		sort.Ints(x.ops[k].Lines)
		out = append(out, x.ops[k])
	}
	return out
}
