// Command xomap is the source TRANSLATOR of /verif's C19 check.
//
// It parses internal/orderedmap/map.go with go/ast and turns the bodies of the methods
// Set, Get, At, Has, Remove, Len, Iterate, Map, Filter, Values, Sort into closed terms of the
// deep-embedded mini-language `Cog.OMap.Src.Stmt` (lean/Cog/OMap/Src.lean).  Output: the Lean
// module `Cog.Gen.OMapSrc` (-lean) and the same facts as JSON (-json).
//
// Purely syntactic.  Parameters are renamed p0, p1, … and local variables x0, x1, … in order of
// declaration (original names are kept in comments); this is sound because the translator REFUSES
// any redeclaration/shadowing of a name inside a method.  It REFUSES (exit 1, message naming the
// node and its position) on every statement/expression form outside the grammar of Src.lean.
//
// Functions it does not translate are listed as `untranslated` with the reason and a sha256 of
// their printed source, so that the check can report that they changed.
package main

import (
	"bytes"
	"crypto/sha256"
	"encoding/json"
	"flag"
	"fmt"
	"go/ast"
	"go/parser"
	"go/printer"
	"go/token"
	"os"
	"path/filepath"
	"strconv"
	"strings"
)

var translate = []string{"Set", "Get", "At", "Has", "Remove", "Len", "Iterate", "Map", "Filter", "Values", "Sort"}

var untranslatedReason = map[string]string{
	"SortStrings":   "free function on strings (string order is outside the mini-language)",
	"FromMap":       "ranges over a Go map (unspecified order) and calls sort.Slice with a closure over a local",
	"New":           "composite literal; its meaning is the semantics of Expr.newMap",
	"Equal":         "calls go-cmp",
	"MarshalJSON":   "uses encoding/json, bytes.Buffer and a closure with captured state",
	"UnmarshalJSON": "uses encoding/json token stream",
}

var fset = token.NewFileSet()

func refuse(n ast.Node, format string, a ...any) {
	pos := ""
	if n != nil {
		pos = fset.Position(n.Pos()).String() + ": "
	}
	fmt.Fprintf(os.Stderr, "xomap: REFUSE: "+pos+format+"\n", a...)
	os.Exit(1)
}

func src(n ast.Node) string {
	var b bytes.Buffer
	_ = printer.Fprint(&b, fset, n)
	s := b.String()
	if len(s) > 120 {
		s = s[:120] + "…"
	}
	return strings.ReplaceAll(s, "\n", " ")
}

type scope struct {
	method string
	recv   string            // receiver identifier
	keyTy  string            // receiver's first type parameter
	valTy  string            // second
	names  map[string]string // Go name -> canonical name
	funcs  map[string]bool   // Go names of function-typed parameters
	orig   []string          // "canonical=original" for the comment
	nLocal int
}

func q(s string) string { return strconv.Quote(s) }

func (sc *scope) declare(id *ast.Ident) string {
	if id.Name == "_" {
		refuse(id, "blank identifier not allowed here")
	}
	if _, dup := sc.names[id.Name]; dup || id.Name == sc.recv {
		refuse(id, "redeclaration/shadowing of %q in %s (flat naming would be unsound)", id.Name, sc.method)
	}
	c := "x" + strconv.Itoa(sc.nLocal)
	sc.nLocal++
	sc.names[id.Name] = c
	sc.orig = append(sc.orig, c+"="+id.Name)
	return c
}

func (sc *scope) isRecvField(e ast.Expr, field string) bool {
	sel, ok := e.(*ast.SelectorExpr)
	if !ok {
		return false
	}
	x, ok := sel.X.(*ast.Ident)
	return ok && x.Name == sc.recv && sel.Sel.Name == field
}

func (sc *scope) expr(e ast.Expr) string {
	switch e := e.(type) {
	case *ast.ParenExpr:
		return sc.expr(e.X)
	case *ast.Ident:
		if e.Name == sc.recv {
			return ".self"
		}
		if c, ok := sc.names[e.Name]; ok {
			return "(.var " + q(c) + ")"
		}
		refuse(e, "unknown identifier %q", e.Name)
	case *ast.BasicLit:
		if e.Kind == token.INT {
			n, err := strconv.ParseInt(e.Value, 0, 64)
			if err != nil {
				refuse(e, "integer literal %s", e.Value)
			}
			return "(.lit " + strconv.FormatInt(n, 10) + ")"
		}
		refuse(e, "literal %s", e.Value)
	case *ast.SelectorExpr:
		if sc.isRecvField(e, "records") {
			return ".recvRecords"
		}
		if sc.isRecvField(e, "order") {
			return ".recvOrder"
		}
		refuse(e, "selector %s", src(e))
	case *ast.IndexExpr:
		return "(.index " + sc.expr(e.X) + " " + sc.expr(e.Index) + ")"
	case *ast.UnaryExpr:
		if e.Op == token.NOT {
			return "(.not " + sc.expr(e.X) + ")"
		}
		refuse(e, "unary operator %s", e.Op)
	case *ast.BinaryExpr:
		op := map[token.Token]string{token.EQL: "eq", token.NEQ: "ne", token.SUB: "sub"}[e.Op]
		if op == "" {
			refuse(e, "binary operator %s in %s", e.Op, src(e))
		}
		return "(." + op + " " + sc.expr(e.X) + " " + sc.expr(e.Y) + ")"
	case *ast.CallExpr:
		if e.Ellipsis.IsValid() {
			refuse(e, "variadic call %s", src(e))
		}
		switch f := e.Fun.(type) {
		case *ast.Ident:
			switch {
			case f.Name == "len" && len(e.Args) == 1:
				return "(.len " + sc.expr(e.Args[0]) + ")"
			case f.Name == "append" && len(e.Args) == 2:
				return "(.append1 " + sc.expr(e.Args[0]) + " " + sc.expr(e.Args[1]) + ")"
			case f.Name == "make" && len(e.Args) == 3:
				at, ok := e.Args[0].(*ast.ArrayType)
				if !ok || at.Len != nil {
					refuse(e, "make of a non-slice %s", src(e))
				}
				elt, ok := at.Elt.(*ast.Ident)
				if !ok || (elt.Name != sc.keyTy && elt.Name != sc.valTy) {
					refuse(e, "make: element type %s is neither %s nor %s", src(at.Elt), sc.keyTy, sc.valTy)
				}
				if l, ok := e.Args[1].(*ast.BasicLit); !ok || l.Value != "0" {
					refuse(e, "make: length must be the literal 0 in %s", src(e))
				}
				isKey := "false"
				if elt.Name == sc.keyTy {
					isKey = "true"
				}
				return "(.makeSlice " + isKey + " " + sc.expr(e.Args[2]) + ")"
			case sc.funcs[f.Name] && len(e.Args) == 2:
				return "(.call2 " + q(sc.names[f.Name]) + " " + sc.expr(e.Args[0]) + " " + sc.expr(e.Args[1]) + ")"
			}
		case *ast.IndexListExpr: // New[K, V]()
			if id, ok := f.X.(*ast.Ident); ok && id.Name == "New" && len(e.Args) == 0 && len(f.Indices) == 2 {
				k, ok1 := f.Indices[0].(*ast.Ident)
				v, ok2 := f.Indices[1].(*ast.Ident)
				if ok1 && ok2 && k.Name == sc.keyTy && v.Name == sc.valTy {
					return ".newMap"
				}
			}
		case *ast.SelectorExpr: // X.Len()
			if len(e.Args) == 0 && f.Sel.Name == "Len" {
				if id, ok := f.X.(*ast.Ident); ok && (id.Name == sc.recv || sc.names[id.Name] != "") {
					return "(.mcall0 " + sc.expr(f.X) + " " + q(f.Sel.Name) + ")"
				}
			}
		}
		refuse(e, "call %s", src(e))
	}
	refuse(e, "expression %T %s", e, src(e))
	return ""
}

func seq(parts []string) string {
	if len(parts) == 0 {
		return ".skip"
	}
	if len(parts) == 1 {
		return parts[0]
	}
	return "(.seq " + parts[0] + "\n    " + seq(parts[1:]) + ")"
}

func (sc *scope) block(b *ast.BlockStmt) string {
	var parts []string
	for _, s := range b.List {
		parts = append(parts, sc.stmt(s)...)
	}
	return seq(parts)
}

// commaOk recognises `_, x := recv.records[k]`
func (sc *scope) commaOk(a *ast.AssignStmt) (string, bool) {
	if len(a.Lhs) != 2 || len(a.Rhs) != 1 || a.Tok != token.DEFINE {
		return "", false
	}
	blank, ok := a.Lhs[0].(*ast.Ident)
	x, ok2 := a.Lhs[1].(*ast.Ident)
	ix, ok3 := a.Rhs[0].(*ast.IndexExpr)
	if !ok || !ok2 || !ok3 || blank.Name != "_" || !sc.isRecvField(ix.X, "records") {
		return "", false
	}
	k := sc.expr(ix.Index)
	return "(.commaOk " + q(sc.declare(x)) + " .recvRecords " + k + ")", true
}

// sortStable recognises exactly
//   sort.SliceStable(recv.order, func(i, j int) bool { return F(recv.order[i], recv.order[j]) })
func (sc *scope) sortStable(c *ast.CallExpr) (string, bool) {
	sel, ok := c.Fun.(*ast.SelectorExpr)
	if !ok || len(c.Args) != 2 || c.Ellipsis.IsValid() {
		return "", false
	}
	pkg, ok := sel.X.(*ast.Ident)
	if !ok || pkg.Name != "sort" || sel.Sel.Name != "SliceStable" || !sc.isRecvField(c.Args[0], "order") {
		return "", false
	}
	fl, ok := c.Args[1].(*ast.FuncLit)
	if !ok || fl.Type.Params == nil || len(fl.Body.List) != 1 {
		return "", false
	}
	var ps []string
	for _, f := range fl.Type.Params.List {
		if t, ok := f.Type.(*ast.Ident); !ok || t.Name != "int" {
			return "", false
		}
		for _, n := range f.Names {
			ps = append(ps, n.Name)
		}
	}
	if len(ps) != 2 || ps[0] == ps[1] || sc.names[ps[0]] != "" || sc.names[ps[1]] != "" || ps[0] == sc.recv || ps[1] == sc.recv {
		return "", false
	}
	ret, ok := fl.Body.List[0].(*ast.ReturnStmt)
	if !ok || len(ret.Results) != 1 {
		return "", false
	}
	call, ok := ret.Results[0].(*ast.CallExpr)
	if !ok || len(call.Args) != 2 || call.Ellipsis.IsValid() {
		return "", false
	}
	f, ok := call.Fun.(*ast.Ident)
	if !ok || !sc.funcs[f.Name] {
		return "", false
	}
	for i, a := range call.Args {
		ix, ok := a.(*ast.IndexExpr)
		if !ok || !sc.isRecvField(ix.X, "order") {
			return "", false
		}
		id, ok := ix.Index.(*ast.Ident)
		if !ok || id.Name != ps[i] {
			return "", false
		}
	}
	return "(.sortStableOrderBy " + q(sc.names[f.Name]) + ")", true
}

func (sc *scope) stmt(s ast.Stmt) []string {
	switch s := s.(type) {
	case *ast.EmptyStmt:
		return nil
	case *ast.AssignStmt:
		if r, ok := sc.commaOk(s); ok {
			return []string{r}
		}
		if len(s.Lhs) != 1 || len(s.Rhs) != 1 || (s.Tok != token.DEFINE && s.Tok != token.ASSIGN) {
			refuse(s, "assignment form %s", src(s))
		}
		rhs := sc.expr(s.Rhs[0]) // evaluated before the left-hand side is declared
		switch l := s.Lhs[0].(type) {
		case *ast.Ident:
			if s.Tok == token.DEFINE {
				return []string{"(.assign " + q(sc.declare(l)) + " " + rhs + ")"}
			}
			c, ok := sc.names[l.Name]
			if !ok || sc.funcs[l.Name] {
				refuse(s, "assignment to %q", l.Name)
			}
			return []string{"(.assign " + q(c) + " " + rhs + ")"}
		case *ast.SelectorExpr:
			if s.Tok == token.ASSIGN && sc.isRecvField(l, "order") {
				return []string{"(.setOrder " + rhs + ")"}
			}
		case *ast.IndexExpr:
			if s.Tok == token.ASSIGN && sc.isRecvField(l.X, "records") {
				return []string{"(.recordsSet " + sc.expr(l.Index) + " " + rhs + ")"}
			}
		}
		refuse(s, "assignment target %s", src(s))
	case *ast.IfStmt:
		if s.Else != nil {
			refuse(s, "if with else")
		}
		var out []string
		if s.Init != nil {
			a, ok := s.Init.(*ast.AssignStmt)
			if !ok {
				refuse(s.Init, "if-init %s", src(s.Init))
			}
			r, ok := sc.commaOk(a)
			if !ok {
				refuse(s.Init, "if-init %s", src(s.Init))
			}
			out = append(out, r)
		}
		return append(out, "(.ifThen "+sc.expr(s.Cond)+" "+sc.block(s.Body)+")")
	case *ast.RangeStmt:
		k, ok := s.Key.(*ast.Ident)
		v, ok2 := s.Value.(*ast.Ident)
		if !ok || !ok2 || k.Name != "_" || s.Tok != token.DEFINE {
			refuse(s, "range form (want `for _, x := range e`)")
		}
		e := sc.expr(s.X)
		x := sc.declare(v)
		return []string{"(.forRange " + q(x) + " " + e + " " + sc.block(s.Body) + ")"}
	case *ast.BranchStmt:
		if s.Tok == token.CONTINUE && s.Label == nil {
			return []string{".continue_"}
		}
		refuse(s, "branch statement %s", src(s))
	case *ast.ReturnStmt:
		switch len(s.Results) {
		case 0:
			return []string{".retUnit"}
		case 1:
			return []string{"(.ret " + sc.expr(s.Results[0]) + ")"}
		}
		refuse(s, "multi-value return")
	case *ast.ExprStmt:
		c, ok := s.X.(*ast.CallExpr)
		if !ok || c.Ellipsis.IsValid() {
			refuse(s, "expression statement %s", src(s))
		}
		if r, ok := sc.sortStable(c); ok {
			return []string{r}
		}
		switch f := c.Fun.(type) {
		case *ast.Ident:
			if f.Name == "delete" && len(c.Args) == 2 && sc.isRecvField(c.Args[0], "records") {
				return []string{"(.recordsDel " + sc.expr(c.Args[1]) + ")"}
			}
			if sc.funcs[f.Name] && len(c.Args) == 2 {
				return []string{"(.callStmt " + q(sc.names[f.Name]) + " " + sc.expr(c.Args[0]) + " " + sc.expr(c.Args[1]) + ")"}
			}
		case *ast.SelectorExpr:
			if id, ok := f.X.(*ast.Ident); ok && f.Sel.Name == "Set" && len(c.Args) == 2 && id.Name != sc.recv {
				if cn, ok := sc.names[id.Name]; ok && !sc.funcs[id.Name] {
					return []string{"(.mcallStmt " + q(cn) + " \"Set\" " + sc.expr(c.Args[0]) + " " + sc.expr(c.Args[1]) + ")"}
				}
			}
		}
		refuse(s, "call statement %s", src(s))
	}
	refuse(s, "statement %T %s", s, src(s))
	return nil
}

type methodOut struct {
	Name   string   `json:"name"`
	Params []string `json:"params"`
	Names  []string `json:"names"`
	Body   string   `json:"body"`
	Hash   string   `json:"hash"`
}
type untr struct {
	Name   string `json:"name"`
	Reason string `json:"reason"`
	Hash   string `json:"hash"`
}

func hashOf(n ast.Node) string {
	var b bytes.Buffer
	_ = printer.Fprint(&b, fset, n)
	return fmt.Sprintf("%x", sha256.Sum256(b.Bytes()))
}

func lower(s string) string { return strings.ToLower(s[:1]) + s[1:] }

func main() {
	leanOut := flag.String("lean", "", "output Lean file")
	jsonOut := flag.String("json", "", "output JSON file")
	flag.Parse()
	if flag.NArg() != 1 {
		refuse(nil, "usage: xomap -lean F -json F <repo>")
	}
	path := filepath.Join(flag.Arg(0), "internal/orderedmap/map.go")
	file, err := parser.ParseFile(fset, path, nil, 0)
	if err != nil {
		refuse(nil, "cannot parse %s: %v", path, err)
	}
	// the struct must have exactly the two fields the mini-language knows
	structOK := false
	for _, d := range file.Decls {
		gd, ok := d.(*ast.GenDecl)
		if !ok || gd.Tok != token.TYPE {
			continue
		}
		for _, s := range gd.Specs {
			ts := s.(*ast.TypeSpec)
			if ts.Name.Name != "Map" {
				continue
			}
			st, ok := ts.Type.(*ast.StructType)
			if !ok {
				refuse(ts, "type Map is not a struct")
			}
			if got := src(st); got != "struct { records map[K]V; order   []K }" && strings.Join(strings.Fields(got), " ") != "struct { records map[K]V order []K }" {
				refuse(ts, "type Map has unexpected fields: %s", got)
			}
			structOK = true
		}
	}
	if !structOK {
		refuse(nil, "type Map not found")
	}
	want := map[string]bool{}
	for _, n := range translate {
		want[n] = true
	}
	var methods []methodOut
	var untrs []untr
	seen := map[string]bool{}
	for _, d := range file.Decls {
		fd, ok := d.(*ast.FuncDecl)
		if !ok {
			continue
		}
		name := fd.Name.Name
		seen[name] = true
		if !want[name] {
			reason, ok := untranslatedReason[name]
			if !ok {
				refuse(fd, "function %s is new: neither in the translated nor in the untranslated list", name)
			}
			untrs = append(untrs, untr{name, reason, hashOf(fd)})
			continue
		}
		if fd.Recv == nil || len(fd.Recv.List) != 1 || len(fd.Recv.List[0].Names) != 1 || fd.Body == nil {
			refuse(fd, "%s is not a method with a named receiver", name)
		}
		sc := &scope{method: name, recv: fd.Recv.List[0].Names[0].Name, names: map[string]string{}, funcs: map[string]bool{}}
		star, ok := fd.Recv.List[0].Type.(*ast.StarExpr)
		if !ok {
			refuse(fd, "%s: receiver is not a pointer", name)
		}
		il, ok := star.X.(*ast.IndexListExpr)
		if !ok || len(il.Indices) != 2 || src(il.X) != "Map" {
			refuse(fd, "%s: receiver type %s", name, src(star.X))
		}
		sc.keyTy, sc.valTy = src(il.Indices[0]), src(il.Indices[1])
		if sc.keyTy == sc.valTy {
			refuse(fd, "%s: receiver type parameters coincide", name)
		}
		var params []string
		for _, f := range fd.Type.Params.List {
			_, isFunc := f.Type.(*ast.FuncType)
			for _, n := range f.Names {
				if _, dup := sc.names[n.Name]; dup || n.Name == sc.recv || n.Name == "_" {
					refuse(n, "%s: parameter name %q", name, n.Name)
				}
				c := "p" + strconv.Itoa(len(params))
				sc.names[n.Name] = c
				sc.funcs[n.Name] = isFunc
				sc.orig = append(sc.orig, c+"="+n.Name)
				params = append(params, c)
			}
		}
		body := sc.block(fd.Body)
		methods = append(methods, methodOut{name, params, sc.orig, body, hashOf(fd)})
	}
	for _, n := range translate {
		if !seen[n] {
			refuse(nil, "method %s not found in %s", n, path)
		}
	}

	var b strings.Builder
	b.WriteString("/- GENERATED by /verif/extract/xomap from internal/orderedmap/map.go — do not edit.\n")
	b.WriteString("   Method bodies of orderedmap.Map as closed terms of Cog.OMap.Src.Stmt. -/\n")
	b.WriteString("import Cog.OMap.Src\nnamespace Cog.Gen.OMapSrc\nopen Cog.OMap.Src\n\n")
	for _, m := range methods {
		fmt.Fprintf(&b, "/-- `%s`: %s -/\n", m.Name, strings.Join(m.Names, ", "))
		qs := make([]string, len(m.Params))
		for i, p := range m.Params {
			qs[i] = q(p)
		}
		fmt.Fprintf(&b, "def %sParams : List String := [%s]\n", lower(m.Name), strings.Join(qs, ", "))
		fmt.Fprintf(&b, "def %sBody : Stmt :=\n  %s\n\n", lower(m.Name), m.Body)
	}
	var tn []string
	for _, m := range methods {
		tn = append(tn, q(m.Name))
	}
	fmt.Fprintf(&b, "def translated : List String := [%s]\n\n", strings.Join(tn, ", "))
	b.WriteString("/-- (function, reason it is not translated, sha256 of its printed source) -/\n")
	b.WriteString("def untranslated : List (String × String × String) := [\n")
	for i, u := range untrs {
		sep := ","
		if i == len(untrs)-1 {
			sep = ""
		}
		fmt.Fprintf(&b, "  (%s, %s, %s)%s\n", q(u.Name), q(u.Reason), q(u.Hash), sep)
	}
	b.WriteString("]\n\nend Cog.Gen.OMapSrc\n")
	if *leanOut != "" {
		if err := os.WriteFile(*leanOut, []byte(b.String()), 0o644); err != nil {
			refuse(nil, "write: %v", err)
		}
	}
	if *jsonOut != "" {
		js, _ := json.MarshalIndent(map[string]any{"translated": methods, "untranslated": untrs}, "", " ")
		if err := os.WriteFile(*jsonOut, js, 0o644); err != nil {
			refuse(nil, "write: %v", err)
		}
	}
}
