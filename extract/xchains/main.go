// Command xchains is the fact extractor of /verif's C06 check (also used by C05/C04).
//
// It parses internal/jennies/<lang>/jennies.go with go/ast and reads the composite literal
// returned by `func (language *Language) CompilerPasses() compiler.Passes` for the five target
// languages of property C06.  Output: a Lean table (-lean) `Cog.Gen.Chains` with one
// `List PassId` per language, and the same as JSON (-json).
//
// It REFUSES (exit 1) on any syntactic form it does not understand: a body that is not a single
// `return compiler.Passes{...}`, an element that is not `&compiler.<Name>{}` or
// `&compiler.InlineObjectsWithTypes{InlineTypes: []ast.Kind{ast.Kind…, …}}`, a pass with
// parameters it does not know, a Kind constant it cannot resolve.
package main

import (
	"encoding/json"
	"flag"
	"fmt"
	"go/ast"
	"go/parser"
	"go/token"
	"os"
	"path/filepath"
	"strconv"
	"strings"
)

type passFact struct {
	Name  string   `json:"name"`
	Kinds []string `json:"kinds,omitempty"`
}

var languages = []struct{ lean, dir string }{
	{"go", "golang"}, {"java", "java"}, {"php", "php"}, {"python", "python"}, {"typescript", "typescript"},
}

func refuse(format string, a ...any) {
	fmt.Fprintf(os.Stderr, "xchains: REFUSE: "+format+"\n", a...)
	os.Exit(1)
}

// kindConstants reads `KindX Kind = "x"` from internal/ast/types.go
func kindConstants(repo string) map[string]string {
	fset := token.NewFileSet()
	f, err := parser.ParseFile(fset, filepath.Join(repo, "internal/ast/types.go"), nil, 0)
	if err != nil {
		refuse("cannot parse internal/ast/types.go: %v", err)
	}
	out := map[string]string{}
	for _, d := range f.Decls {
		gd, ok := d.(*ast.GenDecl)
		if !ok || gd.Tok != token.CONST {
			continue
		}
		for _, s := range gd.Specs {
			vs := s.(*ast.ValueSpec)
			id, ok := vs.Type.(*ast.Ident)
			if !ok || id.Name != "Kind" || len(vs.Names) != 1 || len(vs.Values) != 1 {
				continue
			}
			lit, ok := vs.Values[0].(*ast.BasicLit)
			if !ok || lit.Kind != token.STRING {
				refuse("Kind constant %s is not a string literal", vs.Names[0].Name)
			}
			v, err := strconv.Unquote(lit.Value)
			if err != nil {
				refuse("Kind constant %s: %v", vs.Names[0].Name, err)
			}
			out[vs.Names[0].Name] = v
		}
	}
	if len(out) == 0 {
		refuse("no Kind constants found")
	}
	return out
}

func selector(e ast.Expr, pkg string) (string, bool) {
	sel, ok := e.(*ast.SelectorExpr)
	if !ok {
		return "", false
	}
	id, ok := sel.X.(*ast.Ident)
	if !ok || id.Name != pkg {
		return "", false
	}
	return sel.Sel.Name, true
}

func chainOf(repo, dir string, kinds map[string]string) []passFact {
	path := filepath.Join(repo, "internal/jennies", dir, "jennies.go")
	fset := token.NewFileSet()
	f, err := parser.ParseFile(fset, path, nil, 0)
	if err != nil {
		refuse("cannot parse %s: %v", path, err)
	}
	// the import names we rely on
	imports := map[string]string{}
	for _, im := range f.Imports {
		p, _ := strconv.Unquote(im.Path.Value)
		name := filepath.Base(p)
		if im.Name != nil {
			name = im.Name.Name
		}
		imports[name] = p
	}
	if imports["compiler"] != "github.com/grafana/cog/internal/ast/compiler" {
		refuse("%s: identifier `compiler` is not internal/ast/compiler", path)
	}
	var found *ast.FuncDecl
	for _, d := range f.Decls {
		fd, ok := d.(*ast.FuncDecl)
		if !ok || fd.Name.Name != "CompilerPasses" || fd.Recv == nil || len(fd.Recv.List) != 1 {
			continue
		}
		star, ok := fd.Recv.List[0].Type.(*ast.StarExpr)
		if !ok {
			continue
		}
		if id, ok := star.X.(*ast.Ident); !ok || id.Name != "Language" {
			continue
		}
		if found != nil {
			refuse("%s: two CompilerPasses methods", path)
		}
		found = fd
	}
	if found == nil {
		refuse("%s: no `func (language *Language) CompilerPasses()`", path)
	}
	if found.Body == nil || len(found.Body.List) != 1 {
		refuse("%s: CompilerPasses body is not a single statement", path)
	}
	ret, ok := found.Body.List[0].(*ast.ReturnStmt)
	if !ok || len(ret.Results) != 1 {
		refuse("%s: CompilerPasses body is not `return <expr>`", path)
	}
	lit, ok := ret.Results[0].(*ast.CompositeLit)
	if !ok {
		refuse("%s: CompilerPasses does not return a composite literal", path)
	}
	if n, ok := selector(lit.Type, "compiler"); !ok || n != "Passes" {
		refuse("%s: returned literal is not compiler.Passes{...}", path)
	}
	out := []passFact{}
	for i, el := range lit.Elts {
		un, ok := el.(*ast.UnaryExpr)
		if !ok || un.Op != token.AND {
			refuse("%s: element %d is not &compiler.X{...}", path, i)
		}
		cl, ok := un.X.(*ast.CompositeLit)
		if !ok {
			refuse("%s: element %d is not &compiler.X{...}", path, i)
		}
		name, ok := selector(cl.Type, "compiler")
		if !ok {
			refuse("%s: element %d is not of a compiler.* type", path, i)
		}
		pf := passFact{Name: name}
		switch {
		case len(cl.Elts) == 0:
			if name == "InlineObjectsWithTypes" {
				pf.Kinds = []string{}
			}
		case name == "InlineObjectsWithTypes" && len(cl.Elts) == 1:
			kv, ok := cl.Elts[0].(*ast.KeyValueExpr)
			if !ok {
				refuse("%s: %s: unkeyed field", path, name)
			}
			if k, ok := kv.Key.(*ast.Ident); !ok || k.Name != "InlineTypes" {
				refuse("%s: %s: unknown field", path, name)
			}
			kl, ok := kv.Value.(*ast.CompositeLit)
			if !ok {
				refuse("%s: %s.InlineTypes is not a literal", path, name)
			}
			at, ok := kl.Type.(*ast.ArrayType)
			if !ok || at.Len != nil {
				refuse("%s: %s.InlineTypes is not a slice literal", path, name)
			}
			if n, ok := selector(at.Elt, "ast"); !ok || n != "Kind" || imports["ast"] != "github.com/grafana/cog/internal/ast" {
				refuse("%s: %s.InlineTypes is not []ast.Kind", path, name)
			}
			pf.Kinds = []string{}
			for _, ke := range kl.Elts {
				cn, ok := selector(ke, "ast")
				if !ok {
					refuse("%s: %s.InlineTypes element is not ast.Kind…", path, name)
				}
				v, ok := kinds[cn]
				if !ok {
					refuse("%s: unknown Kind constant ast.%s", path, cn)
				}
				pf.Kinds = append(pf.Kinds, v)
			}
		default:
			refuse("%s: pass %s has parameters this extractor does not understand", path, name)
		}
		out = append(out, pf)
	}
	return out
}

func leanCtor(name string) string {
	return strings.ToLower(name[:1]) + name[1:]
}

func main() {
	leanOut := flag.String("lean", "", "write the Lean table here")
	jsonOut := flag.String("json", "", "write the JSON table here")
	flag.Parse()
	repo := "."
	if flag.NArg() > 0 {
		repo = flag.Arg(0)
	}
	kinds := kindConstants(repo)
	chains := map[string][]passFact{}
	var b strings.Builder
	b.WriteString("/- GENERATED by /verif/extract/xchains from internal/jennies/*/jennies.go — do not edit, not committed. -/\n")
	b.WriteString("import Cog.Passes.Chain\nnamespace Cog.Gen.Chains\nopen Cog.Passes\n\n")
	for _, l := range languages {
		c := chainOf(repo, l.dir, kinds)
		chains[l.lean] = c
		parts := []string{}
		for _, p := range c {
			s := "." + leanCtor(p.Name)
			if p.Kinds != nil {
				qs := []string{}
				for _, k := range p.Kinds {
					qs = append(qs, strconv.Quote(k))
				}
				s = "(" + s + " [" + strings.Join(qs, ", ") + "])"
			}
			parts = append(parts, s)
		}
		fmt.Fprintf(&b, "def %s : List PassId := [\n  %s]\n\n", l.lean+"Chain", strings.Join(parts, ",\n  "))
	}
	b.WriteString("def chainOf : String → Option (List PassId)\n")
	for _, l := range languages {
		fmt.Fprintf(&b, "  | %q => some %sChain\n", l.lean, l.lean)
	}
	b.WriteString("  | _ => none\n\nend Cog.Gen.Chains\n")
	if *leanOut != "" {
		if err := os.WriteFile(*leanOut, []byte(b.String()), 0o644); err != nil {
			refuse("%v", err)
		}
	}
	if *jsonOut != "" {
		raw, _ := json.MarshalIndent(chains, "", " ")
		if err := os.WriteFile(*jsonOut, raw, 0o644); err != nil {
			refuse("%v", err)
		}
	}
	if *leanOut == "" && *jsonOut == "" {
		fmt.Print(b.String())
	}
}
