// Command xmaprange is the fact extractor of /verif's C03 check (determinism).
//
// It type-checks the cog module found in the directory given as first argument (non-test
// files only) and writes
//
//   - every `range` over a map-typed expression, with file, line, enclosing function, a
//     conservatively classified list of loop EFFECTS (see classify.go; anything the
//     classifier does not recognise is `unknown`, which is not admissible), the module
//     functions called from the loop body, and whether the enclosing function is reachable
//     from a cog run (cmd/cli, the public API of the root package) or only from tools
//     outside a run;
//   - every call of a function that hands out map keys/values in iteration order
//     ("leak functions": module functions whose range site collects and returns, plus
//     maps.Keys/Values, reflect MapKeys/MapRange, sync.Map.Range), classified by what the
//     caller does with the result;
//   - purity facts: uses of clocks, randomness, goroutines, select, environment, %p;
//   - sort facts: every sort call (used to pin "the caller sorts afterwards" reviews);
//
// as a Lean table (-lean) and as JSON (-json).  It refuses (exit 1) on type errors.
package main

import (
	"bytes"
	"crypto/sha256"
	"encoding/hex"
	"encoding/json"
	"flag"
	"fmt"
	"go/ast"
	"go/printer"
	"go/token"
	"go/types"
	"os"
	"path/filepath"
	"sort"
	"strings"

	"golang.org/x/tools/go/packages"
)

const modulePath = "github.com/grafana/cog"

type Site struct {
	File       string   `json:"file"`
	Line       int      `json:"line"`
	Func       string   `json:"func"`
	Kind       string   `json:"kind"` // range | leakCall
	MapType    string   `json:"mapType"`
	PtrKey     bool     `json:"ptrKey"`
	Effects    []string `json:"effects"`
	Detail     []string `json:"detail"`
	Callees    []string `json:"callees"`
	SortKeys   []string `json:"sortKeys"`
	KeyDerivs  []string `json:"keyDerivs"`
	OutsideRun bool     `json:"outsideRun"`
	Leak       string   `json:"leak,omitempty"` // for leakCall: the leak function called
	fnKey      string
}

type Fact struct {
	File       string `json:"file"`
	Line       int    `json:"line"`
	Func       string `json:"func"`
	What       string `json:"what"`
	OutsideRun bool   `json:"outsideRun"`
	fnKey      string
}

type fnInfo struct {
	key  string // unique: pkgpath.Recv.Name
	name string // display: Recv.Name
	decl *ast.FuncDecl
	pkg  *packages.Package
	refs map[string]bool
}

type extractor struct {
	root    string
	pkgs    []*packages.Package
	fset    *token.FileSet
	fns     map[string]*fnInfo // by key
	byDecl  map[*ast.FuncDecl]*fnInfo
	methods map[string][]string        // method name -> fn keys
	typeM   map[string][]string        // type key -> method fn keys
	inits   map[string]map[string]bool // pkg path -> refs of package-level initialisers
	imports map[string][]string
	reach   map[string]bool
	sites   []*Site
	impure  []*Fact
	sorts   []*Fact
	shallow []*Fact
	leaks   map[string]bool // fn keys of module leak functions
}

func fail(format string, a ...any) {
	fmt.Fprintf(os.Stderr, "xmaprange: "+format+"\n", a...)
	os.Exit(1)
}

func main() {
	leanOut := flag.String("lean", "", "write the Lean table here")
	jsonOut := flag.String("json", "", "write the JSON table here")
	flag.Parse()
	if flag.NArg() != 1 {
		fail("usage: xmaprange [-lean file] [-json file] <module dir>")
	}
	x := &extractor{root: flag.Arg(0), fns: map[string]*fnInfo{}, byDecl: map[*ast.FuncDecl]*fnInfo{},
		methods: map[string][]string{}, typeM: map[string][]string{}, inits: map[string]map[string]bool{},
		imports: map[string][]string{}, leaks: map[string]bool{}}
	x.load()
	x.index()
	x.reachability()
	x.findSites()
	x.findLeakCalls()
	x.findFacts()
	x.findShallowCopies()
	x.finish()
	if *jsonOut != "" {
		blob, _ := json.MarshalIndent(map[string]any{"sites": x.sites, "impure": x.impure, "sorts": x.sorts, "shallowCopies": x.shallow}, "", " ")
		if err := os.WriteFile(*jsonOut, blob, 0o644); err != nil {
			fail("%v", err)
		}
	}
	if *leanOut != "" {
		if err := os.WriteFile(*leanOut, []byte(x.lean()), 0o644); err != nil {
			fail("%v", err)
		}
	}
	fmt.Printf("sites=%d impure=%d sorts=%d functions=%d reachable=%d\n", len(x.sites), len(x.impure), len(x.sorts), len(x.fns), len(x.reach))
}

func (x *extractor) load() {
	cfg := &packages.Config{
		Mode: packages.NeedName | packages.NeedFiles | packages.NeedSyntax | packages.NeedTypes |
			packages.NeedTypesInfo | packages.NeedImports,
		Dir: x.root, Tests: false,
	}
	pkgs, err := packages.Load(cfg, "./...")
	if err != nil {
		fail("load: %v", err)
	}
	if len(pkgs) == 0 {
		fail("no packages")
	}
	for _, p := range pkgs {
		if len(p.Errors) > 0 {
			fail("package %s has errors: %v", p.PkgPath, p.Errors)
		}
		if !strings.HasPrefix(p.PkgPath, modulePath) {
			fail("unexpected package %s", p.PkgPath)
		}
		// the overlay harness/extractor packages never exist in /repo itself
		if strings.Contains(p.PkgPath, "/cmd/verifharness") || strings.HasSuffix(p.PkgPath, "/cmd/xmaprange") {
			continue
		}
		x.pkgs = append(x.pkgs, p)
		x.fset = p.Fset
	}
	sort.Slice(x.pkgs, func(i, j int) bool { return x.pkgs[i].PkgPath < x.pkgs[j].PkgPath })
}

func (x *extractor) rel(pos token.Pos) (string, int) {
	p := x.fset.Position(pos)
	r, err := filepath.Rel(x.root, p.Filename)
	if err != nil {
		fail("rel: %v", err)
	}
	return filepath.ToSlash(r), p.Line
}

func isTestFile(name string) bool { return strings.HasSuffix(name, "_test.go") }

func recvName(t types.Type) string {
	if p, ok := t.(*types.Pointer); ok {
		t = p.Elem()
	}
	switch n := t.(type) {
	case *types.Named:
		return n.Obj().Name()
	case *types.Alias:
		return n.Obj().Name()
	}
	return "?"
}

func funcKey(f *types.Func) (key string, name string) {
	f = f.Origin()
	pkg := ""
	if f.Pkg() != nil {
		pkg = f.Pkg().Path()
	}
	sig := f.Type().(*types.Signature)
	if r := sig.Recv(); r != nil {
		rn := recvName(r.Type())
		return pkg + "." + rn + "." + f.Name(), rn + "." + f.Name()
	}
	return pkg + "." + f.Name(), f.Name()
}

func typeKey(t *types.TypeName) string {
	if t.Pkg() == nil {
		return ""
	}
	return t.Pkg().Path() + "." + t.Name()
}

func inModule(o types.Object) bool {
	return o != nil && o.Pkg() != nil && strings.HasPrefix(o.Pkg().Path(), modulePath)
}

// index: one node per function declaration; reference edges
//   - to every module function/method mentioned (called or taken as a value),
//   - to every method of every module named type mentioned (so that values handed to
//     libraries — jennies to codejen, commands to cobra — keep their methods alive),
//   - for a call through an interface method, to every module method of that name.
func (x *extractor) index() {
	for _, p := range x.pkgs {
		for path := range p.Imports {
			x.imports[p.PkgPath] = append(x.imports[p.PkgPath], path)
		}
		x.inits[p.PkgPath] = map[string]bool{}
		for _, f := range p.Syntax {
			if isTestFile(x.fset.Position(f.Pos()).Filename) {
				continue
			}
			for _, d := range f.Decls {
				switch d := d.(type) {
				case *ast.FuncDecl:
					obj, _ := p.TypesInfo.Defs[d.Name].(*types.Func)
					if obj == nil {
						fail("no object for func %s", d.Name.Name)
					}
					k, n := funcKey(obj)
					if d.Name.Name == "init" || d.Name.Name == "_" {
						k = fmt.Sprintf("%s#%d", k, d.Pos())
					}
					fi := &fnInfo{key: k, name: n, decl: d, pkg: p, refs: map[string]bool{}}
					x.fns[k] = fi
					x.byDecl[d] = fi
					if d.Recv != nil {
						x.methods[d.Name.Name] = append(x.methods[d.Name.Name], k)
						sig := obj.Type().(*types.Signature)
						tk := p.PkgPath + "." + recvName(sig.Recv().Type())
						x.typeM[tk] = append(x.typeM[tk], k)
					}
					if d.Name.Name == "init" {
						x.inits[p.PkgPath][k] = true
					}
				}
			}
		}
	}
	for _, p := range x.pkgs {
		for _, f := range p.Syntax {
			if isTestFile(x.fset.Position(f.Pos()).Filename) {
				continue
			}
			for _, d := range f.Decls {
				switch d := d.(type) {
				case *ast.FuncDecl:
					if d.Body != nil {
						x.collectRefs(p, d, x.byDecl[d].refs)
					}
				case *ast.GenDecl:
					if d.Tok == token.VAR {
						x.collectRefs(p, d, x.inits[p.PkgPath])
					}
				}
			}
		}
	}
}

func (x *extractor) collectRefs(p *packages.Package, n ast.Node, refs map[string]bool) {
	ast.Inspect(n, func(nd ast.Node) bool {
		id, ok := nd.(*ast.Ident)
		if !ok {
			return true
		}
		obj := p.TypesInfo.Uses[id]
		if !inModule(obj) {
			return true
		}
		switch o := obj.(type) {
		case *types.Func:
			k, _ := funcKey(o)
			sig := o.Type().(*types.Signature)
			if r := sig.Recv(); r != nil {
				if _, isIface := r.Type().Underlying().(*types.Interface); isIface {
					for _, m := range x.methods[o.Name()] {
						refs[m] = true
					}
					return true
				}
			}
			refs[k] = true
		case *types.TypeName:
			for _, m := range x.typeM[typeKey(o)] {
				refs[m] = true
			}
		}
		return true
	})
}

// reachability from a cog run: cmd/cli (generate, inspect) and the exported API of the root
// package, plus the package-level initialisers of every package they import.
func (x *extractor) reachability() {
	x.reach = map[string]bool{}
	var queue []string
	push := func(k string) {
		if !x.reach[k] {
			x.reach[k] = true
			queue = append(queue, k)
		}
	}
	rootPkgs := map[string]bool{}
	var visitPkg func(string)
	visitPkg = func(path string) {
		if rootPkgs[path] || !strings.HasPrefix(path, modulePath) {
			return
		}
		rootPkgs[path] = true
		for _, imp := range x.imports[path] {
			visitPkg(imp)
		}
	}
	sawCli := false
	for _, p := range x.pkgs {
		if p.PkgPath == modulePath+"/cmd/cli" || p.PkgPath == modulePath {
			visitPkg(p.PkgPath)
			sawCli = sawCli || p.PkgPath == modulePath+"/cmd/cli"
		}
	}
	if !sawCli {
		fail("package cmd/cli not found: cannot compute what a run reaches")
	}
	for _, fi := range x.fns {
		if fi.pkg.PkgPath == modulePath+"/cmd/cli" && fi.name == "main" {
			push(fi.key)
		}
		if fi.pkg.PkgPath == modulePath && ast.IsExported(fi.decl.Name.Name) {
			push(fi.key)
		}
	}
	for path := range rootPkgs {
		for k := range x.inits[path] {
			if _, isFn := x.fns[k]; isFn {
				push(k)
			} else if !x.reach[k] {
				x.reach[k] = true
				queue = append(queue, k)
			}
		}
	}
	for len(queue) > 0 {
		k := queue[0]
		queue = queue[1:]
		fi := x.fns[k]
		if fi == nil {
			continue
		}
		for r := range fi.refs {
			push(r)
		}
	}
}

// enclosing returns the function declaration that contains pos in file f.
func (x *extractor) enclosing(f *ast.File, pos token.Pos) *fnInfo {
	for _, d := range f.Decls {
		if fd, ok := d.(*ast.FuncDecl); ok && fd.Pos() <= pos && pos < fd.End() {
			return x.byDecl[fd]
		}
	}
	return nil
}

func (x *extractor) findSites() {
	for _, p := range x.pkgs {
		for _, f := range p.Syntax {
			if isTestFile(x.fset.Position(f.Pos()).Filename) {
				continue
			}
			parents := parentMap(f)
			ast.Inspect(f, func(nd ast.Node) bool {
				rs, ok := nd.(*ast.RangeStmt)
				if !ok {
					return true
				}
				t := p.TypesInfo.TypeOf(rs.X)
				if t == nil {
					fail("no type for range operand at %v", x.fset.Position(rs.Pos()))
				}
				mt, ok := t.Underlying().(*types.Map)
				if !ok {
					if tp, isTP := t.Underlying().(*types.Interface); isTP && tp.NumEmbeddeds() > 0 {
						// a type parameter whose core type is a map
						if ct := coreMap(t); ct != nil {
							mt, ok = ct, true
						}
					}
					if !ok {
						return true
					}
				}
				fi := x.enclosing(f, rs.Pos())
				if fi == nil {
					fail("map range outside a function at %v", x.fset.Position(rs.Pos()))
				}
				file, line := x.rel(rs.Pos())
				c := &classifier{x: x, p: p, fn: fi, parents: parents, file: f}
				eff := c.classifyLoop(rs)
				s := &Site{File: file, Line: line, Func: fi.name, Kind: "range", MapType: types.TypeString(t, shortQual),
					PtrKey: addressLike(mt.Key()), Effects: eff.tags(), Detail: eff.details(), Callees: c.calleeList(), SortKeys: eff.sortKeys(), KeyDerivs: eff.keyDerivs(),
					OutsideRun: !x.reach[fi.key], fnKey: fi.key}
				x.sites = append(x.sites, s)
				for _, e := range eff {
					if e.tag == "collectReturn" {
						x.leaks[fi.key] = true
					}
				}
				return true
			})
		}
	}
}

func coreMap(t types.Type) *types.Map {
	tp, ok := t.(*types.TypeParam)
	if !ok {
		return nil
	}
	iface, ok := tp.Constraint().Underlying().(*types.Interface)
	if !ok {
		return nil
	}
	for i := 0; i < iface.NumEmbeddeds(); i++ {
		if u, ok := iface.EmbeddedType(i).(*types.Union); ok && u.Len() == 1 {
			if m, ok := u.Term(0).Type().Underlying().(*types.Map); ok {
				return m
			}
		}
		if m, ok := iface.EmbeddedType(i).Underlying().(*types.Map); ok {
			return m
		}
	}
	return nil
}

func shortQual(p *types.Package) string { return p.Name() }

// addressLike: a key type whose ordering/identity depends on addresses
func addressLike(t types.Type) bool {
	if _, isParam := t.(*types.TypeParam); isParam {
		// generic helper (tools.Keys, orderedmap.FromMap): decided at the instantiations, all of
		// which are sites (leak calls) or sort by value
		return false
	}
	switch u := t.Underlying().(type) {
	case *types.Pointer, *types.Chan, *types.Signature:
		return true
	case *types.Basic:
		return u.Kind() == types.UnsafePointer || u.Kind() == types.Uintptr
	case *types.Interface:
		return true
	}
	return false
}

func parentMap(f *ast.File) map[ast.Node]ast.Node {
	parents := map[ast.Node]ast.Node{}
	var stack []ast.Node
	ast.Inspect(f, func(n ast.Node) bool {
		if n == nil {
			stack = stack[:len(stack)-1]
			return true
		}
		if len(stack) > 0 {
			parents[n] = stack[len(stack)-1]
		}
		stack = append(stack, n)
		return true
	})
	return parents
}

// stdLeak: library functions that hand out map contents in iteration order
func stdLeak(o types.Object) string {
	f, ok := o.(*types.Func)
	if !ok || f.Pkg() == nil {
		return ""
	}
	pkg, name := f.Pkg().Path(), f.Name()
	switch {
	case (pkg == "maps" || pkg == "golang.org/x/exp/maps") && (name == "Keys" || name == "Values" || name == "All"):
		return pkg + "." + name
	case pkg == "reflect" && (name == "MapKeys" || name == "MapRange"):
		return "reflect.Value." + name
	case pkg == "sync" && name == "Range":
		return "sync.Map.Range"
	}
	return ""
}

// findLeakCalls: every mention of a leak function is a derived site; iterate because a
// caller that returns the result unchanged is a leak function itself.
func (x *extractor) findLeakCalls() {
	seen := map[token.Pos]bool{}
	for round := 0; round < 10; round++ {
		grew := false
		for _, p := range x.pkgs {
			for _, f := range p.Syntax {
				if isTestFile(x.fset.Position(f.Pos()).Filename) {
					continue
				}
				var parents map[ast.Node]ast.Node
				ast.Inspect(f, func(nd ast.Node) bool {
					id, ok := nd.(*ast.Ident)
					if !ok {
						return true
					}
					obj := p.TypesInfo.Uses[id]
					fo, ok := obj.(*types.Func)
					if !ok {
						return true
					}
					leak := stdLeak(fo)
					if leak == "" {
						if !inModule(fo) {
							return true
						}
						k, n := funcKey(fo)
						if !x.leaks[k] {
							return true
						}
						leak = n
					}
					if seen[id.Pos()] {
						return true
					}
					seen[id.Pos()] = true
					if parents == nil {
						parents = parentMap(f)
					}
					fi := x.enclosing(f, id.Pos())
					if fi == nil {
						fail("leak function %s mentioned outside a function at %v", leak, x.fset.Position(id.Pos()))
					}
					// the mention must be the callee of a call
					var call *ast.CallExpr
					var cur ast.Node = id
					for {
						par := parents[cur]
						switch pn := par.(type) {
						case *ast.SelectorExpr, *ast.IndexExpr, *ast.IndexListExpr, *ast.ParenExpr:
							cur = par
							continue
						case *ast.CallExpr:
							if pn.Fun == cur {
								call = pn
							}
						}
						break
					}
					file, line := x.rel(id.Pos())
					s := &Site{File: file, Line: line, Func: fi.name, Kind: "leakCall", Leak: leak, MapType: "-",
						OutsideRun: !x.reach[fi.key], fnKey: fi.key}
					if call == nil {
						s.Effects = []string{"unknown"}
						s.Detail = []string{"unknown: leak function " + leak + " used as a value"}
					} else {
						c := &classifier{x: x, p: p, fn: fi, parents: parents, file: f}
						eff := c.classifyLeakCall(call)
						s.Effects, s.Detail, s.Callees, s.SortKeys, s.KeyDerivs = eff.tags(), eff.details(), c.calleeList(), eff.sortKeys(), eff.keyDerivs()
						for _, e := range eff {
							if e.tag == "collectReturn" && !x.leaks[fi.key] {
								x.leaks[fi.key] = true
								grew = true
							}
						}
					}
					x.sites = append(x.sites, s)
					return true
				})
			}
		}
		if !grew {
			return
		}
	}
	fail("leak-function closure did not converge")
}

func (x *extractor) findFacts() {
	for _, p := range x.pkgs {
		for _, f := range p.Syntax {
			if isTestFile(x.fset.Position(f.Pos()).Filename) {
				continue
			}
			add := func(list *[]*Fact, pos token.Pos, what string) {
				file, line := x.rel(pos)
				fi := x.enclosing(f, pos)
				fa := &Fact{File: file, Line: line, What: what}
				if fi != nil {
					fa.Func, fa.fnKey, fa.OutsideRun = fi.name, fi.key, !x.reach[fi.key]
				} else {
					// package-level initialiser: runs whenever the package is linked in
					fa.Func = "<package init>"
					fa.OutsideRun = !x.pkgLinked(p.PkgPath)
				}
				*list = append(*list, fa)
			}
			ast.Inspect(f, func(nd ast.Node) bool {
				switch n := nd.(type) {
				case *ast.GoStmt:
					add(&x.impure, n.Pos(), "go statement")
				case *ast.SelectStmt:
					add(&x.impure, n.Pos(), "select statement")
				case *ast.CallExpr:
					if what := sortedWhat(p, n); what != "" {
						add(&x.sorts, n.Pos(), what)
					}
				case *ast.BasicLit:
					if n.Kind == token.STRING && strings.Contains(n.Value, "%p") {
						add(&x.impure, n.Pos(), "%p verb")
					}
				case *ast.Ident:
					obj := p.TypesInfo.Uses[n]
					if obj == nil || obj.Pkg() == nil {
						return true
					}
					pkg, name := obj.Pkg().Path(), obj.Name()
					if _, isFn := obj.(*types.Func); !isFn {
						if _, isVar := obj.(*types.Var); !(isVar && pkg == "os" && name == "Args") {
							return true
						}
					}
					switch {
					case pkg == "time" && (name == "Now" || name == "Since" || name == "Until" || name == "After" || name == "Tick" || name == "NewTimer" || name == "NewTicker" || name == "Sleep"):
						add(&x.impure, n.Pos(), "time."+name)
					case pkg == "math/rand" || pkg == "math/rand/v2" || pkg == "crypto/rand":
						add(&x.impure, n.Pos(), pkg+"."+name)
					case pkg == "os" && (name == "Getenv" || name == "LookupEnv" || name == "Environ" || name == "Getwd" || name == "Getpid" || name == "Getppid" || name == "Hostname" || name == "Getuid" || name == "UserHomeDir" || name == "TempDir" || name == "MkdirTemp" || name == "CreateTemp"):
						add(&x.impure, n.Pos(), "os."+name)
					case pkg == "runtime" && (name == "NumCPU" || name == "NumGoroutine" || name == "GOMAXPROCS" || name == "Caller" || name == "Stack"):
						add(&x.impure, n.Pos(), "runtime."+name)
					case pkg == "reflect" && (name == "Pointer" || name == "UnsafePointer" || name == "UnsafeAddr"):
						add(&x.impure, n.Pos(), "reflect."+name)
					}
				}
				return true
			})
		}
	}
}

// findShallowCopies: the loop over the output languages in Pipeline.Run is order-insensitive only
// because every language works on its own deep copy of the loaded schemas (Passes.Process →
// Schemas.DeepCopy).  For every `DeepCopy` method of the module and every field of its receiver
// whose type can hold another DeepCopy-able struct, the method must rebuild the field through a
// recursive DeepCopy (or deepCopyValue) call; a field that is assigned, copy()'d or forgotten is
// reported.  Syntactic and conservative: "deep" needs a DeepCopy/deepCopyValue call in the
// `F: …` element of a composite literal or in a top-level statement that mentions `recv.F`.
func (x *extractor) findShallowCopies() {
	hasDeep := map[string]bool{} // named types with a DeepCopy method
	type method struct {
		fi   *fnInfo
		recv *types.Named
	}
	var methods []method
	for _, fi := range x.fns {
		if fi.decl.Name.Name != "DeepCopy" || fi.decl.Recv == nil || fi.decl.Body == nil {
			continue
		}
		obj, _ := fi.pkg.TypesInfo.Defs[fi.decl.Name].(*types.Func)
		if obj == nil {
			continue
		}
		rt := obj.Type().(*types.Signature).Recv().Type()
		if p, ok := rt.(*types.Pointer); ok {
			rt = p.Elem()
		}
		n, ok := rt.(*types.Named)
		if !ok {
			continue
		}
		hasDeep[n.Obj().Pkg().Path()+"."+n.Obj().Name()] = true
		methods = append(methods, method{fi, n})
	}
	var holds func(t types.Type, depth int) bool
	holds = func(t types.Type, depth int) bool {
		if depth > 6 {
			return false
		}
		switch v := t.(type) {
		case *types.Named:
			if v.Obj().Pkg() != nil && hasDeep[v.Obj().Pkg().Path()+"."+v.Obj().Name()] {
				return true
			}
			if targs := v.TypeArgs(); targs != nil {
				for i := 0; i < targs.Len(); i++ {
					if holds(targs.At(i), depth+1) {
						return true
					}
				}
			}
			if _, isStruct := v.Underlying().(*types.Struct); isStruct {
				return false
			}
			return holds(v.Underlying(), depth+1)
		case *types.Pointer:
			return holds(v.Elem(), depth+1)
		case *types.Slice:
			return holds(v.Elem(), depth+1)
		case *types.Array:
			return holds(v.Elem(), depth+1)
		case *types.Map:
			return holds(v.Elem(), depth+1) || holds(v.Key(), depth+1)
		}
		return false
	}
	// isDeepCall: the node contains a recursive copy — a `.DeepCopy()` / deepCopyValue call, or a
	// call of a function of the same package (followed two levels) whose body contains one
	// (`deepCopyArguments(recv.Args)`, `tools.Map(xs, func(x T) T { return x.DeepCopy() })`).
	var isDeepCall func(pkg *packages.Package, n ast.Node, depth int) bool
	isDeepCall = func(pkg *packages.Package, n ast.Node, depth int) bool {
		found := false
		ast.Inspect(n, func(nd ast.Node) bool {
			call, ok := nd.(*ast.CallExpr)
			if !ok {
				return !found
			}
			var id *ast.Ident
			switch f := call.Fun.(type) {
			case *ast.SelectorExpr:
				if f.Sel.Name == "DeepCopy" {
					found = true
				}
				id = f.Sel
			case *ast.Ident:
				if f.Name == "deepCopyValue" {
					found = true
				}
				id = f
			}
			if !found && id != nil && depth < 2 {
				if fo, ok := pkg.TypesInfo.Uses[id].(*types.Func); ok && fo.Pkg() != nil && fo.Pkg().Path() == pkg.PkgPath {
					k, _ := funcKey(fo)
					if helper := x.fns[k]; helper != nil && helper.decl.Body != nil && helper.decl.Type.Results != nil &&
						isDeepCall(helper.pkg, helper.decl.Body, depth+1) {
						found = true
					}
				}
			}
			return !found
		})
		return found
	}
	sort.Slice(methods, func(i, j int) bool { return methods[i].fi.key < methods[j].fi.key })
	for _, m := range methods {
		st, ok := m.recv.Underlying().(*types.Struct)
		if !ok {
			continue
		}
		d := m.fi.decl
		if len(d.Recv.List) != 1 || len(d.Recv.List[0].Names) != 1 {
			continue
		}
		recvObj := m.fi.pkg.TypesInfo.Defs[d.Recv.List[0].Names[0]]
		mentions := func(n ast.Node, field string) bool {
			found := false
			ast.Inspect(n, func(nd ast.Node) bool {
				if sel, ok := nd.(*ast.SelectorExpr); ok && sel.Sel.Name == field {
					if id, ok := sel.X.(*ast.Ident); ok && m.fi.pkg.TypesInfo.Uses[id] == recvObj {
						found = true
					}
				}
				return !found
			})
			return found
		}
		for i := 0; i < st.NumFields(); i++ {
			f := st.Field(i)
			if !holds(f.Type(), 0) {
				continue
			}
			deep := false
			ast.Inspect(d.Body, func(nd ast.Node) bool {
				if kv, ok := nd.(*ast.KeyValueExpr); ok {
					if k, ok := kv.Key.(*ast.Ident); ok && k.Name == f.Name() && isDeepCall(m.fi.pkg, kv.Value, 0) {
						deep = true
					}
				}
				return !deep
			})
			for _, stmt := range d.Body.List {
				if _, isRet := stmt.(*ast.ReturnStmt); isRet {
					continue // composite literals in the return are handled element-wise above
				}
				if as, ok := stmt.(*ast.AssignStmt); ok && len(as.Rhs) == 1 {
					if _, isLit := unparenExpr(as.Rhs[0]).(*ast.CompositeLit); isLit {
						continue
					}
				}
				if mentions(stmt, f.Name()) && isDeepCall(m.fi.pkg, stmt, 0) {
					deep = true
				}
			}
			if !deep {
				file, line := x.rel(d.Pos())
				x.shallow = append(x.shallow, &Fact{File: file, Line: line, Func: m.fi.name, What: m.recv.Obj().Name() + "." + f.Name(),
					OutsideRun: !x.reach[m.fi.key], fnKey: m.fi.key})
			}
		}
	}
}

func unparenExpr(e ast.Expr) ast.Expr {
	for {
		p, ok := e.(*ast.ParenExpr)
		if !ok {
			return e
		}
		e = p.X
	}
}

func (x *extractor) pkgLinked(path string) bool {
	seen := map[string]bool{}
	var visit func(string) bool
	visit = func(cur string) bool {
		if cur == path {
			return true
		}
		if seen[cur] {
			return false
		}
		seen[cur] = true
		for _, imp := range x.imports[cur] {
			if strings.HasPrefix(imp, modulePath) && visit(imp) {
				return true
			}
		}
		return false
	}
	return visit(modulePath+"/cmd/cli") || visit(modulePath)
}

// sortedWhat: for a sort call, the text of what is sorted (first argument of sort.*/slices.*,
// receiver of a module `Sort` method); "" for any other call.
func sortedWhat(p *packages.Package, call *ast.CallExpr) string {
	fun := call.Fun
	for {
		switch f := fun.(type) {
		case *ast.ParenExpr:
			fun = f.X
			continue
		case *ast.IndexExpr:
			fun = f.X
			continue
		case *ast.IndexListExpr:
			fun = f.X
			continue
		}
		break
	}
	var id *ast.Ident
	var recv ast.Expr
	switch f := fun.(type) {
	case *ast.Ident:
		id = f
	case *ast.SelectorExpr:
		id, recv = f.Sel, f.X
	default:
		return ""
	}
	obj, ok := p.TypesInfo.Uses[id].(*types.Func)
	if !ok || obj.Pkg() == nil {
		return ""
	}
	pkg, name := obj.Pkg().Path(), obj.Name()
	switch {
	case pkg == "sort" && (name == "Strings" || name == "Ints" || name == "Float64s" || name == "Slice" || name == "SliceStable" || name == "Sort" || name == "Stable"),
		pkg == "slices" && (name == "Sort" || name == "SortFunc" || name == "SortStableFunc"):
		if len(call.Args) == 0 {
			return ""
		}
		return "sort(" + types.ExprString(call.Args[0]) + ")"
	case inModule(obj) && name == "Sort" && recv != nil && p.TypesInfo.Selections[fun.(*ast.SelectorExpr)] != nil:
		return types.ExprString(recv) + ".Sort"
	}
	return ""
}

func (x *extractor) finish() {
	less := func(af string, al int, bf string, bl int) bool {
		if af != bf {
			return af < bf
		}
		return al < bl
	}
	sort.SliceStable(x.sites, func(i, j int) bool {
		return less(x.sites[i].File, x.sites[i].Line, x.sites[j].File, x.sites[j].Line)
	})
	sort.SliceStable(x.impure, func(i, j int) bool {
		return less(x.impure[i].File, x.impure[i].Line, x.impure[j].File, x.impure[j].Line)
	})
	sort.SliceStable(x.sorts, func(i, j int) bool {
		return less(x.sorts[i].File, x.sorts[i].Line, x.sorts[j].File, x.sorts[j].Line)
	})
	if x.shallow == nil {
		x.shallow = []*Fact{}
	}
	for _, s := range x.sites {
		if s.Effects == nil {
			s.Effects = []string{}
		}
		if s.Callees == nil {
			s.Callees = []string{}
		}
		if s.Detail == nil {
			s.Detail = []string{}
		}
		if s.SortKeys == nil {
			s.SortKeys = []string{}
		}
		if s.KeyDerivs == nil {
			s.KeyDerivs = []string{}
		}
	}
}

// declHash: sha256 (12 hex digits) of a function declaration printed without comments
func (x *extractor) declHash(d *ast.FuncDecl) string {
	d2 := *d
	d2.Doc = nil
	var b bytes.Buffer
	if err := printer.Fprint(&b, x.fset, &d2); err != nil {
		fail("print %s: %v", d.Name.Name, err)
	}
	sum := sha256.Sum256(b.Bytes())
	return hex.EncodeToString(sum[:])[:12]
}

func leanStr(s string) string {
	var b strings.Builder
	b.WriteByte('"')
	for _, r := range s {
		switch {
		case r == '"' || r == '\\':
			b.WriteByte('\\')
			b.WriteRune(r)
		case r == '\n':
			b.WriteString("\\n")
		case r == '\t':
			b.WriteString("\\t")
		case r < 0x20 || r > 0x7e:
			b.WriteString("?")
		default:
			b.WriteRune(r)
		}
	}
	b.WriteByte('"')
	return b.String()
}

func leanList(xs []string, f func(string) string) string {
	parts := make([]string, len(xs))
	for i, s := range xs {
		parts[i] = f(s)
	}
	return "[" + strings.Join(parts, ", ") + "]"
}

func (x *extractor) lean() string {
	var b strings.Builder
	b.WriteString("/- GENERATED by /verif/extract/xmaprange from /repo's working tree. Do not edit, do not commit. -/\n")
	b.WriteString("import Cog.Det.Site\nnamespace Cog.Gen\nopen Cog.Det\n\n")
	b.WriteString("def mapRangeSites : List Site := [\n")
	for i, s := range x.sites {
		kind := ".range"
		if s.Kind == "leakCall" {
			kind = ".leakCall"
		}
		fmt.Fprintf(&b, "  { file := %s, func := %s, line := %d, kind := %s, effects := %s, callees := %s, sortKeys := %s, keyDerivs := %s, outsideRun := %v, ptrKey := %v }",
			leanStr(s.File), leanStr(s.Func), s.Line, kind,
			leanList(s.Effects, func(e string) string { return "." + e }), leanList(s.Callees, leanStr), leanList(s.SortKeys, leanStr), leanList(s.KeyDerivs, leanStr), s.OutsideRun, s.PtrKey)
		if i+1 < len(x.sites) {
			b.WriteString(",")
		}
		b.WriteString("\n")
	}
	b.WriteString("]\n\ndef impureUses : List Fact := [\n")
	for i, f := range x.impure {
		fmt.Fprintf(&b, "  { file := %s, func := %s, what := %s, outsideRun := %v }", leanStr(f.File), leanStr(f.Func), leanStr(f.What), f.OutsideRun)
		if i+1 < len(x.impure) {
			b.WriteString(",")
		}
		b.WriteString("\n")
	}
	b.WriteString("]\n\ndef sortFacts : List Fact := [\n")
	for i, f := range x.sorts {
		fmt.Fprintf(&b, "  { file := %s, func := %s, what := %s, outsideRun := %v }", leanStr(f.File), leanStr(f.Func), leanStr(f.What), f.OutsideRun)
		if i+1 < len(x.sorts) {
			b.WriteString(",")
		}
		b.WriteString("\n")
	}
	b.WriteString("]\n\ndef shallowCopies : List Fact := [\n")
	for i, f := range x.shallow {
		fmt.Fprintf(&b, "  { file := %s, func := %s, what := %s, outsideRun := %v }", leanStr(f.File), leanStr(f.Func), leanStr(f.What), f.OutsideRun)
		if i+1 < len(x.shallow) {
			b.WriteString(",")
		}
		b.WriteString("\n")
	}
	b.WriteString("]\n\nend Cog.Gen\n")
	return b.String()
}
