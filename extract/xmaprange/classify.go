package main

// Syntactic, conservative classification of a loop over a map (or over a slice that holds
// map contents in iteration order).  The result is a list of EFFECTS the body has on state
// that outlives one iteration.  Every construct that is not positively recognised yields the
// effect `unknown`.  The Lean side (Cog/Det/Site.lean) decides which effects are admissible
// and has a theorem for each admissible one.
//
// What the classifier does NOT see: effects of called functions on shared state.  Every
// module function (and every func-typed variable) called from a loop body is therefore
// listed in the site's `callees`; the Lean obligation requires each of them to be on a
// reviewed list.

import (
	"fmt"
	"go/ast"
	"go/token"
	"go/types"
	"sort"
	"strings"

	"golang.org/x/tools/go/packages"
)

type effect struct {
	tag    string
	target string
	detail string
	root   types.Object
	pos    token.Pos
	value  string     // for flagConst
	elems  []ast.Expr // for collect: the appended expressions
	key    types.Object
	// for collectThenSort: "" when the comparator is a total order on the collected elements
	// themselves, otherwise the fields it compares (antisymmetry must then be reviewed)
	sortKey string
	// for keyedWrite through a key derived from the range key: "dst[f(key)] f=<fn> body=<hash>";
	// S_keyed_write needs f injective on the ranged keys, which has to be reviewed
	keyDeriv string
}

type effects []effect

func (es effects) tags() []string {
	seen := map[string]bool{}
	out := []string{}
	for _, e := range es {
		if !seen[e.tag] {
			seen[e.tag] = true
			out = append(out, e.tag)
		}
	}
	sort.Strings(out)
	return out
}

func (es effects) sortKeys() []string {
	out := []string{}
	for _, e := range es {
		if e.sortKey != "" {
			out = append(out, e.sortKey)
		}
	}
	sort.Strings(out)
	return out
}

func (es effects) keyDerivs() []string {
	out := []string{}
	for _, e := range es {
		if e.keyDeriv != "" {
			out = append(out, e.keyDeriv)
		}
	}
	sort.Strings(out)
	return out
}

func (es effects) details() []string {
	out := []string{}
	for _, e := range es {
		d := e.tag
		if e.target != "" {
			d += " " + e.target
		}
		if e.detail != "" {
			d += " (" + e.detail + ")"
		}
		out = append(out, d)
	}
	return out
}

// admissibleTag mirrors Cog.Det.Effect.admissible; it is only used for *nested* consumer
// loops (collect-then-fold).  The site-level decision is taken in Lean.
var admissibleTag = map[string]bool{
	"keyedWrite": true, "deleteKeys": true, "commAcc": true, "collectThenSort": true,
	"collectThenFold": true, "orderedInsertThenSort": true, "emitFiles": true,
	"allMustSucceed": true, "errorCapture": true, "anyFlag": true, "errorText": true,
}

type classifier struct {
	x       *extractor
	p       *packages.Package
	fn      *fnInfo
	parents map[ast.Node]ast.Node
	file    *ast.File
	callees map[string]bool
}

func (c *classifier) calleeList() []string {
	out := make([]string, 0, len(c.callees))
	for k := range c.callees {
		out = append(out, k)
	}
	sort.Strings(out)
	return out
}

type loopCtx struct {
	loop     *ast.RangeStmt
	key, val types.Object
	ranged   string // text of the ranged expression
	ordered  bool   // consumer loop over a collected slice (not a map)
	eff      effects
	sawBreak bool
}

func (c *classifier) info() *types.Info { return c.p.TypesInfo }

func (c *classifier) add(ctx *loopCtx, e effect) { ctx.eff = append(ctx.eff, e) }

func (c *classifier) unknown(ctx *loopCtx, pos token.Pos, why string) {
	c.add(ctx, effect{tag: "unknown", detail: fmt.Sprintf("%s at line %d", why, c.x.fset.Position(pos).Line), pos: pos})
}

func unparen(e ast.Expr) ast.Expr {
	for {
		p, ok := e.(*ast.ParenExpr)
		if !ok {
			return e
		}
		e = p.X
	}
}

func (c *classifier) isLocal(ctx *loopCtx, o types.Object) bool {
	return o != nil && o.Pos() >= ctx.loop.Pos() && o.Pos() < ctx.loop.End()
}

// classifyLoop: effects of `for k, v := range m { body }`.
func (c *classifier) classifyLoop(rs *ast.RangeStmt) effects {
	ctx := c.newCtx(rs, false)
	if ctx == nil {
		return effects{{tag: "unknown", detail: "range assigns to existing variables"}}
	}
	c.scanCalls(ctx, rs.Body)
	c.block(ctx, rs.Body.List, false, false)
	return c.resolve(ctx)
}

func (c *classifier) newCtx(rs *ast.RangeStmt, ordered bool) *loopCtx {
	ctx := &loopCtx{loop: rs, ranged: types.ExprString(rs.X), ordered: ordered}
	obj := func(e ast.Expr) (types.Object, bool) {
		if e == nil {
			return nil, true
		}
		id, ok := e.(*ast.Ident)
		if !ok {
			return nil, false
		}
		if id.Name == "_" {
			return nil, true
		}
		if rs.Tok != token.DEFINE {
			return nil, false
		}
		return c.info().Defs[id], true
	}
	var ok1, ok2 bool
	ctx.key, ok1 = obj(rs.Key)
	ctx.val, ok2 = obj(rs.Value)
	if !ok1 || !ok2 {
		return nil
	}
	if ordered {
		// elements of the collected slice play the role of the entry; ranging over an iterator
		// (`for k := range maps.Keys(m)`) yields them in the first variable
		if _, isIter := c.info().TypeOf(rs.X).Underlying().(*types.Signature); isIter && rs.Value == nil {
			ctx.val = nil
		} else {
			ctx.key, ctx.val = ctx.val, nil
		}
	}
	return ctx
}

// resolve turns the provisional effects (collect, orderedInsert, flagConst) into final ones.
func (c *classifier) resolve(ctx *loopCtx) effects {
	out := effects{}
	flags := map[string]map[string]bool{}
	for _, e := range ctx.eff {
		if e.tag == "flagConst" {
			if flags[e.target] == nil {
				flags[e.target] = map[string]bool{}
			}
			flags[e.target][e.value] = true
		}
	}
	for _, e := range ctx.eff {
		switch e.tag {
		case "collect":
			tag, detail, sk := c.usesAfter(e.target, e.root, ctx.loop, ctx.loop.End(), "sort", &e)
			out = append(out, effect{tag: tag, target: e.target, detail: detail, sortKey: sk})
		case "orderedInsert":
			tag, detail, sk := c.usesAfter(e.target, e.root, ctx.loop, ctx.loop.End(), "Sort", nil)
			switch tag {
			case "collectThenSort":
				tag = "orderedInsertThenSort"
			case "collectThenSortByDerivedKey":
			default:
				tag = "orderedInsert"
			}
			out = append(out, effect{tag: tag, target: e.target, detail: detail, sortKey: sk})
		case "flagConst":
			if len(flags[e.target]) == 1 {
				out = append(out, effect{tag: "anyFlag", target: e.target, detail: "= " + e.value})
			} else {
				out = append(out, effect{tag: "lastWriteWins", target: e.target, detail: "different constants"})
			}
		default:
			out = append(out, e)
		}
	}
	if ctx.sawBreak {
		benign := true
		for _, e := range out {
			if e.tag != "anyFlag" && e.tag != "errorCapture" {
				benign = false
			}
		}
		if !benign {
			out = append(out, effect{tag: "firstMatchBreak", detail: "break after a key-dependent effect"})
		}
	}
	// two different kinds of effect on the same variable do not commute in general
	kinds := map[string]map[string]bool{}
	for _, e := range out {
		if e.target == "" {
			continue
		}
		if kinds[e.target] == nil {
			kinds[e.target] = map[string]bool{}
		}
		kinds[e.target][e.tag] = true
	}
	for t, ks := range kinds {
		if len(ks) > 1 {
			out = append(out, effect{tag: "unknown", target: t, detail: "several kinds of effect on one variable"})
		}
	}
	return out
}

// ---------------------------------------------------------------- calls

func (c *classifier) calleeObj(call *ast.CallExpr) (types.Object, ast.Expr) {
	fun := unparen(call.Fun)
	for {
		switch f := fun.(type) {
		case *ast.IndexExpr:
			if _, isFn := c.info().TypeOf(f.X).(*types.Signature); isFn {
				fun = unparen(f.X)
				continue
			}
		case *ast.IndexListExpr:
			fun = unparen(f.X)
			continue
		}
		break
	}
	switch f := fun.(type) {
	case *ast.Ident:
		return c.info().Uses[f], fun
	case *ast.SelectorExpr:
		return c.info().Uses[f.Sel], fun
	}
	return nil, fun
}

func shortPkg(path string) string {
	if i := strings.LastIndex(path, "/"); i >= 0 {
		return path[i+1:]
	}
	return path
}

// scanCalls records module/dynamic callees of the body and flags I/O.
func (c *classifier) scanCalls(ctx *loopCtx, body ast.Node) {
	if c.callees == nil {
		c.callees = map[string]bool{}
	}
	ast.Inspect(body, func(nd ast.Node) bool {
		call, ok := nd.(*ast.CallExpr)
		if !ok {
			return true
		}
		obj, fun := c.calleeObj(call)
		switch o := obj.(type) {
		case *types.Func:
			if inModule(o) {
				_, n := funcKey(o)
				c.callees[shortPkg(o.Pkg().Path())+"."+n] = true
			} else if o.Pkg() != nil {
				pkg, name := o.Pkg().Path(), o.Name()
				if pkg == "os" || pkg == "io" || pkg == "log" || pkg == "io/ioutil" ||
					(pkg == "fmt" && (strings.HasPrefix(name, "Print") || strings.HasPrefix(name, "Fprint") || strings.HasPrefix(name, "Scan") || strings.HasPrefix(name, "Fscan"))) {
					c.add(ctx, effect{tag: "ioEffect", target: pkg + "." + name, pos: call.Pos()})
				}
			}
		case *types.Var:
			c.callees["dyn:"+types.ExprString(fun)] = true
		case *types.TypeName, *types.Builtin, *types.Nil:
		case nil:
			if _, isLit := fun.(*ast.FuncLit); !isLit {
				if tv, ok := c.info().Types[fun]; !ok || !tv.IsType() {
					c.callees["dyn:"+types.ExprString(fun)] = true
				}
			}
		}
		return true
	})
}

// ---------------------------------------------------------------- statements

func (c *classifier) block(ctx *loopCtx, list []ast.Stmt, inner bool, inLit bool) {
	for _, s := range list {
		c.stmt(ctx, s, inner, inLit)
	}
}

// funcLits walks closures appearing inside the expressions of a statement: their bodies run
// (at the latest) when called, so their effects count; their returns are their own.
func (c *classifier) funcLits(ctx *loopCtx, n ast.Node) {
	if n == nil {
		return
	}
	ast.Inspect(n, func(nd ast.Node) bool {
		if lit, ok := nd.(*ast.FuncLit); ok {
			c.block(ctx, lit.Body.List, true, true)
			return false
		}
		return true
	})
}

func (c *classifier) stmt(ctx *loopCtx, s ast.Stmt, inner bool, inLit bool) {
	switch s := s.(type) {
	case nil, *ast.EmptyStmt:
	case *ast.DeclStmt:
		c.funcLits(ctx, s)
	case *ast.BlockStmt:
		c.block(ctx, s.List, inner, inLit)
	case *ast.LabeledStmt:
		c.stmt(ctx, s.Stmt, inner, inLit)
	case *ast.IfStmt:
		c.stmt(ctx, s.Init, inner, inLit)
		c.funcLits(ctx, s.Cond)
		c.block(ctx, s.Body.List, inner, inLit)
		c.stmt(ctx, s.Else, inner, inLit)
	case *ast.ForStmt:
		c.stmt(ctx, s.Init, true, inLit)
		c.funcLits(ctx, s.Cond)
		c.stmt(ctx, s.Post, true, inLit)
		c.block(ctx, s.Body.List, true, inLit)
	case *ast.RangeStmt:
		if s.Tok == token.ASSIGN {
			for _, e := range []ast.Expr{s.Key, s.Value} {
				if e != nil {
					c.assignTo(ctx, e, nil, token.ASSIGN, s.Pos())
				}
			}
		}
		c.funcLits(ctx, s.X)
		c.block(ctx, s.Body.List, true, inLit)
	case *ast.SwitchStmt:
		c.stmt(ctx, s.Init, inner, inLit)
		c.funcLits(ctx, s.Tag)
		for _, cc := range s.Body.List {
			c.block(ctx, cc.(*ast.CaseClause).Body, true, inLit)
		}
	case *ast.TypeSwitchStmt:
		c.stmt(ctx, s.Init, inner, inLit)
		c.stmt(ctx, s.Assign, inner, inLit)
		for _, cc := range s.Body.List {
			c.block(ctx, cc.(*ast.CaseClause).Body, true, inLit)
		}
	case *ast.BranchStmt:
		switch s.Tok {
		case token.BREAK:
			if (!inner || s.Label != nil) && !inLit {
				ctx.sawBreak = true
			}
		case token.CONTINUE, token.FALLTHROUGH:
		default:
			c.unknown(ctx, s.Pos(), "goto")
		}
	case *ast.ReturnStmt:
		if inLit {
			c.funcLits(ctx, s)
			return
		}
		c.funcLits(ctx, s)
		c.returnStmt(ctx, s)
	case *ast.IncDecStmt:
		root, _ := c.rootObj(s.X)
		if root == nil {
			c.unknown(ctx, s.Pos(), "++/-- on unrecognised lvalue")
		} else if !c.isLocal(ctx, root) {
			c.add(ctx, effect{tag: "commAcc", target: types.ExprString(s.X), detail: s.Tok.String(), pos: s.Pos()})
		}
	case *ast.AssignStmt:
		c.funcLits(ctx, s)
		for i, lhs := range s.Lhs {
			var rhs ast.Expr
			if len(s.Rhs) == len(s.Lhs) {
				rhs = s.Rhs[i]
			}
			if s.Tok == token.DEFINE {
				if id, ok := lhs.(*ast.Ident); ok && (id.Name == "_" || c.info().Defs[id] != nil) {
					continue
				}
			}
			c.assignTo(ctx, lhs, rhs, s.Tok, s.Pos())
		}
	case *ast.ExprStmt:
		c.funcLits(ctx, s)
		call, ok := unparen(s.X).(*ast.CallExpr)
		if !ok {
			c.unknown(ctx, s.Pos(), "expression statement")
			return
		}
		c.callStmt(ctx, call)
	default:
		c.unknown(ctx, s.Pos(), fmt.Sprintf("statement %T", s))
	}
}

// rootObj strips selectors, indexing, dereferences and method-call receivers down to the
// variable an lvalue lives in; shared reports whether the path goes through a pointer, map
// or slice (so that a write lands in memory that may be shared).
func (c *classifier) rootObj(e ast.Expr) (root types.Object, shared bool) {
	for {
		e = unparen(e)
		switch v := e.(type) {
		case *ast.Ident:
			o := c.info().Uses[v]
			if o == nil {
				o = c.info().Defs[v]
			}
			if _, isVar := o.(*types.Var); !isVar {
				return nil, shared
			}
			return o, shared
		case *ast.SelectorExpr:
			if sel := c.info().Selections[v]; sel != nil {
				if _, isPtr := c.info().TypeOf(v.X).Underlying().(*types.Pointer); isPtr || sel.Indirect() {
					shared = true
				}
				e = v.X
				continue
			}
			// package-qualified identifier
			o := c.info().Uses[v.Sel]
			if _, isVar := o.(*types.Var); isVar {
				return o, shared
			}
			return nil, shared
		case *ast.IndexExpr:
			switch c.info().TypeOf(v.X).Underlying().(type) {
			case *types.Map, *types.Slice, *types.Pointer:
				shared = true
			}
			e = v.X
		case *ast.StarExpr:
			shared = true
			e = v.X
		case *ast.CallExpr:
			// x.Method().field: the receiver's state
			fun, ok := unparen(v.Fun).(*ast.SelectorExpr)
			if !ok {
				return nil, true
			}
			shared = true
			e = fun.X
		default:
			return nil, shared
		}
	}
}

func (c *classifier) isKey(ctx *loopCtx, e ast.Expr) bool {
	id, ok := unparen(e).(*ast.Ident)
	return ok && ctx.key != nil && c.info().Uses[id] == ctx.key
}

func (c *classifier) mentionsLoopVars(ctx *loopCtx, e ast.Expr) bool {
	found := false
	ast.Inspect(e, func(nd ast.Node) bool {
		if id, ok := nd.(*ast.Ident); ok {
			if o := c.info().Uses[id]; o != nil {
				if _, isVar := o.(*types.Var); isVar && c.isLocal(ctx, o) {
					found = true
				}
			}
		}
		return !found
	})
	return found
}

// keyDerivation recognises an index that is one function application to the range key, either
// inline (`dst[f(k)]`) or through a local defined once in the body (`x, err := f(k)`; `dst[x]`).
// Result: "f(key)] f=<pkg.fn> body=<hash of f's declaration without comments | ->" or "".
func (c *classifier) keyDerivation(ctx *loopCtx, idx ast.Expr) string {
	idx = unparen(idx)
	var call *ast.CallExpr
	switch v := idx.(type) {
	case *ast.CallExpr:
		call = v
	case *ast.Ident:
		o := c.info().Uses[v]
		if o == nil || !c.isLocal(ctx, o) {
			return ""
		}
		defs := 0
		ast.Inspect(ctx.loop.Body, func(nd ast.Node) bool {
			as, ok := nd.(*ast.AssignStmt)
			if !ok {
				return true
			}
			for _, l := range as.Lhs {
				if id, ok := l.(*ast.Ident); ok && (c.info().Defs[id] == o || c.info().Uses[id] == o) {
					defs++
					if len(as.Rhs) == 1 {
						call, _ = unparen(as.Rhs[0]).(*ast.CallExpr)
					}
				}
			}
			return true
		})
		if defs != 1 {
			return ""
		}
	}
	if call == nil {
		return ""
	}
	// exactly the range key as the only loop-dependent argument
	usesKey := false
	for _, a := range call.Args {
		if c.isKey(ctx, a) {
			usesKey = true
		} else if c.mentionsLoopVars(ctx, a) {
			return ""
		}
	}
	if !usesKey {
		return ""
	}
	obj, _ := c.calleeObj(call)
	f, ok := obj.(*types.Func)
	if !ok || f.Pkg() == nil {
		return ""
	}
	_, n := funcKey(f)
	name := shortPkg(f.Pkg().Path()) + "." + n
	hash := "-"
	if inModule(f) {
		k, _ := funcKey(f)
		if fi := c.x.fns[k]; fi != nil {
			hash = c.x.declHash(fi.decl)
		}
	}
	return fmt.Sprintf("%s(key)] body=%s", name, hash)
}

func (c *classifier) mentionsObj(e ast.Expr, o types.Object) bool {
	found := false
	ast.Inspect(e, func(nd ast.Node) bool {
		if id, ok := nd.(*ast.Ident); ok && c.info().Uses[id] == o {
			found = true
		}
		return !found
	})
	return found
}

func mentionsExpr(e ast.Expr, text string) bool {
	found := false
	ast.Inspect(e, func(nd ast.Node) bool {
		if x, ok := nd.(ast.Expr); ok && types.ExprString(x) == text {
			found = true
		}
		return !found
	})
	return found
}

func isConstLit(e ast.Expr) (string, bool) {
	switch v := unparen(e).(type) {
	case *ast.BasicLit:
		return v.Value, true
	case *ast.Ident:
		if v.Name == "true" || v.Name == "false" || v.Name == "nil" {
			return v.Name, true
		}
	}
	return "", false
}

func (c *classifier) freshLocal(o types.Object, ctx *loopCtx) bool {
	// declared in the body by `x := <composite literal | &composite | make | new | NewXxx(...)>`
	fresh := false
	ast.Inspect(ctx.loop.Body, func(nd ast.Node) bool {
		as, ok := nd.(*ast.AssignStmt)
		if !ok || as.Tok != token.DEFINE || len(as.Lhs) != len(as.Rhs) {
			return true
		}
		for i, l := range as.Lhs {
			id, ok := l.(*ast.Ident)
			if !ok || c.info().Defs[id] != o {
				continue
			}
			switch r := unparen(as.Rhs[i]).(type) {
			case *ast.CompositeLit:
				fresh = true
			case *ast.UnaryExpr:
				if _, isLit := unparen(r.X).(*ast.CompositeLit); isLit && r.Op == token.AND {
					fresh = true
				}
			case *ast.CallExpr:
				obj, _ := c.calleeObj(r)
				if b, ok := obj.(*types.Builtin); ok && (b.Name() == "make" || b.Name() == "new") {
					fresh = true
				}
				if f, ok := obj.(*types.Func); ok && strings.HasPrefix(f.Name(), "New") {
					fresh = true
				}
			}
		}
		return true
	})
	if v, ok := o.(*types.Var); ok && !fresh {
		// `var x T` with a value type
		switch v.Type().Underlying().(type) {
		case *types.Struct, *types.Basic, *types.Array:
			fresh = true
		}
	}
	return fresh
}

func (c *classifier) assignTo(ctx *loopCtx, lhs ast.Expr, rhs ast.Expr, tok token.Token, pos token.Pos) {
	lhs = unparen(lhs)
	if id, ok := lhs.(*ast.Ident); ok && id.Name == "_" {
		return
	}
	root, shared := c.rootObj(lhs)
	if root == nil {
		c.unknown(ctx, pos, "assignment to unrecognised lvalue "+types.ExprString(lhs))
		return
	}
	target := types.ExprString(lhs)
	if c.isLocal(ctx, root) {
		if root == ctx.key || root == ctx.val {
			if shared {
				c.unknown(ctx, pos, "write through the range variable "+target)
			}
			return
		}
		if shared && !c.freshLocal(root, ctx) {
			c.unknown(ctx, pos, "write through a local that may alias outer state: "+target)
		}
		return
	}
	// ---- outer state
	if ix, ok := lhs.(*ast.IndexExpr); ok {
		dst := types.ExprString(ix.X)
		switch c.info().TypeOf(ix.X).Underlying().(type) {
		case *types.Map, *types.Slice, *types.Array, *types.Pointer:
			switch {
			case tok != token.ASSIGN && tok != token.DEFINE:
				c.add(ctx, effect{tag: "unknown", target: dst, detail: "op-assign into an indexed destination", pos: pos})
			case c.isKey(ctx, ix.Index) && !ctx.ordered:
				if rhs != nil && ((dst != ctx.ranged && mentionsExpr(rhs, dst)) || c.mentionsObj(rhs, root)) {
					// dst[k] = f(dst …) / owner.m[k] = owner.method(v): the value written may depend
					// on entries written earlier in the same loop
					c.add(ctx, effect{tag: "chainedUpdate", target: dst, detail: "right-hand side reads the destination or its owner", pos: pos})
				} else {
					c.add(ctx, effect{tag: "keyedWrite", target: dst, pos: pos})
				}
			case c.mentionsLoopVars(ctx, ix.Index):
				if d := c.keyDerivation(ctx, ix.Index); d != "" && !ctx.ordered {
					// dst[f(k)] = …: a keyed write provided f is injective on the ranged keys
					c.add(ctx, effect{tag: "keyedWrite", target: dst, detail: "key derived: " + d, keyDeriv: dst + "[" + d, pos: pos})
				} else {
					c.add(ctx, effect{tag: "keyedWriteDerived", target: dst, detail: "index " + types.ExprString(ix.Index), pos: pos})
				}
			default:
				c.add(ctx, effect{tag: "lastWriteWins", target: target, detail: "index does not depend on the key", pos: pos})
			}
			return
		}
	}
	if tok != token.ASSIGN && tok != token.DEFINE {
		c.accumulate(ctx, lhs, tok, pos)
		return
	}
	if rhs == nil {
		c.add(ctx, effect{tag: "lastWriteWins", target: target, detail: "multi-value assignment", pos: pos})
		return
	}
	r := unparen(rhs)
	if call, ok := r.(*ast.CallExpr); ok {
		if obj, _ := c.calleeObj(call); obj != nil {
			if b, ok := obj.(*types.Builtin); ok && b.Name() == "append" && len(call.Args) > 0 && types.ExprString(call.Args[0]) == target {
				c.add(ctx, effect{tag: "collect", target: target, root: root, pos: pos, elems: call.Args[1:], key: ctx.key})
				return
			}
		}
	}
	if be, ok := r.(*ast.BinaryExpr); ok {
		if types.ExprString(be.X) == target || types.ExprString(be.Y) == target {
			c.accumulate(ctx, lhs, be.Op, pos)
			return
		}
	}
	if v, ok := isConstLit(r); ok {
		c.add(ctx, effect{tag: "flagConst", target: target, value: v, pos: pos})
		return
	}
	if types.Identical(c.info().TypeOf(lhs), types.Universe.Lookup("error").Type()) {
		c.add(ctx, effect{tag: "errorCapture", target: target, pos: pos})
		return
	}
	if mentionsExpr(r, target) {
		c.add(ctx, effect{tag: "chainedUpdate", target: target, detail: "x = f(x, …)", pos: pos})
		return
	}
	c.add(ctx, effect{tag: "lastWriteWins", target: target, pos: pos})
}

func (c *classifier) accumulate(ctx *loopCtx, lhs ast.Expr, op token.Token, pos token.Pos) {
	target := types.ExprString(lhs)
	b, _ := c.info().TypeOf(lhs).Underlying().(*types.Basic)
	comm := false
	switch op {
	case token.ADD, token.ADD_ASSIGN, token.MUL, token.MUL_ASSIGN, token.AND, token.AND_ASSIGN,
		token.OR, token.OR_ASSIGN, token.XOR, token.XOR_ASSIGN, token.LAND, token.LOR:
		comm = true
	}
	switch {
	case b != nil && b.Info()&types.IsString != 0:
		c.add(ctx, effect{tag: "orderedSideEffect", target: target, detail: "string concatenation", pos: pos})
	case b != nil && comm && b.Info()&(types.IsInteger|types.IsBoolean) != 0:
		c.add(ctx, effect{tag: "commAcc", target: target, detail: op.String(), pos: pos})
	default:
		c.add(ctx, effect{tag: "chainedUpdate", target: target, detail: "operator " + op.String(), pos: pos})
	}
}

func (c *classifier) isOrderedMap(t types.Type) bool {
	if p, ok := t.(*types.Pointer); ok {
		t = p.Elem()
	}
	n, ok := t.(*types.Named)
	return ok && n.Obj().Pkg() != nil && n.Obj().Pkg().Path() == modulePath+"/internal/orderedmap" && n.Obj().Name() == "Map"
}

func (c *classifier) callStmt(ctx *loopCtx, call *ast.CallExpr) {
	obj, fun := c.calleeObj(call)
	if b, ok := obj.(*types.Builtin); ok {
		switch b.Name() {
		case "delete":
			root, _ := c.rootObj(call.Args[0])
			if root != nil && c.isLocal(ctx, root) && root != ctx.val {
				return
			}
			if c.isKey(ctx, call.Args[1]) && !ctx.ordered {
				c.add(ctx, effect{tag: "deleteKeys", target: types.ExprString(call.Args[0]), pos: call.Pos()})
			} else if ctx.ordered && c.isKey(ctx, call.Args[1]) {
				c.add(ctx, effect{tag: "deleteKeys", target: types.ExprString(call.Args[0]), pos: call.Pos()})
			} else {
				c.add(ctx, effect{tag: "unknown", target: types.ExprString(call.Args[0]), detail: "delete of a key other than the range key", pos: call.Pos()})
			}
		case "panic":
			c.add(ctx, effect{tag: "allMustSucceed", detail: "panic", pos: call.Pos()})
		case "print", "println":
			c.add(ctx, effect{tag: "ioEffect", target: b.Name(), pos: call.Pos()})
		default:
			// copy, clear, close …
			c.unknown(ctx, call.Pos(), "builtin "+b.Name()+" as a statement")
		}
		return
	}
	sel, isSel := fun.(*ast.SelectorExpr)
	if isSel && c.info().Selections[sel] != nil {
		recv := sel.X
		root, _ := c.rootObj(recv)
		if root != nil && c.isLocal(ctx, root) && root != ctx.key && root != ctx.val {
			if c.freshLocal(root, ctx) {
				return // method on a value created in this iteration
			}
			c.unknown(ctx, call.Pos(), "method call on a local that may alias outer state: "+types.ExprString(fun))
			return
		}
		rt := c.info().TypeOf(recv)
		name := sel.Sel.Name
		target := types.ExprString(recv)
		switch {
		case c.isOrderedMap(rt) && name == "Remove" && len(call.Args) == 1 && c.isKey(ctx, call.Args[0]):
			c.add(ctx, effect{tag: "deleteKeys", target: target, pos: call.Pos()})
		case c.isOrderedMap(rt) && name == "Set":
			c.add(ctx, effect{tag: "orderedInsert", target: target, root: root, pos: call.Pos()})
		case name == "WriteString" || name == "WriteByte" || name == "WriteRune" || name == "Write" || name == "Printf" || name == "Println" || name == "Print":
			c.add(ctx, effect{tag: "orderedSideEffect", target: target, detail: name, pos: call.Pos()})
		default:
			c.add(ctx, effect{tag: "opaqueEffect", target: types.ExprString(fun), detail: "call statement on outer state", pos: call.Pos()})
		}
		return
	}
	if f, ok := obj.(*types.Func); ok && f.Pkg() != nil && !inModule(f) {
		pkg, name := f.Pkg().Path(), f.Name()
		if pkg == "os" || pkg == "io" || pkg == "log" || (pkg == "fmt" && (strings.HasPrefix(name, "Print") || strings.HasPrefix(name, "Fprint"))) {
			return // already recorded as ioEffect by scanCalls
		}
	}
	c.add(ctx, effect{tag: "opaqueEffect", target: types.ExprString(fun), detail: "call statement", pos: call.Pos()})
}

// enclosingFuncType: the signature the `return` statements of the loop belong to.
func (c *classifier) enclosingFuncType(n ast.Node) *ast.FuncType {
	for cur := c.parents[n]; cur != nil; cur = c.parents[cur] {
		switch f := cur.(type) {
		case *ast.FuncLit:
			return f.Type
		case *ast.FuncDecl:
			return f.Type
		}
	}
	return nil
}

func (c *classifier) enclosingFuncBody(n ast.Node) *ast.BlockStmt {
	for cur := c.parents[n]; cur != nil; cur = c.parents[cur] {
		switch f := cur.(type) {
		case *ast.FuncLit:
			return f.Body
		case *ast.FuncDecl:
			return f.Body
		}
	}
	return nil
}

func (c *classifier) inFuncLit(n ast.Node) bool {
	for cur := c.parents[n]; cur != nil; cur = c.parents[cur] {
		switch cur.(type) {
		case *ast.FuncLit:
			return true
		case *ast.FuncDecl:
			return false
		}
	}
	return false
}

func (c *classifier) returnStmt(ctx *loopCtx, s *ast.ReturnStmt) {
	ft := c.enclosingFuncType(ctx.loop)
	if ft == nil {
		c.unknown(ctx, s.Pos(), "return outside a function")
		return
	}
	nres := 0
	lastIsErr := false
	if ft.Results != nil {
		for _, f := range ft.Results.List {
			k := len(f.Names)
			if k == 0 {
				k = 1
			}
			nres += k
			lastIsErr = types.Identical(c.info().TypeOf(f.Type), types.Universe.Lookup("error").Type())
		}
	}
	if nres == 0 || len(s.Results) == 0 {
		if nres == 0 {
			c.add(ctx, effect{tag: "firstMatchReturn", detail: "bare return leaves the loop early", pos: s.Pos()})
		} else {
			c.unknown(ctx, s.Pos(), "naked return with named results")
		}
		return
	}
	if len(s.Results) != nres {
		c.unknown(ctx, s.Pos(), "return of a multi-value call")
		return
	}
	last := unparen(s.Results[nres-1])
	if lastIsErr {
		if id, ok := last.(*ast.Ident); !ok || id.Name != "nil" {
			c.add(ctx, effect{tag: "allMustSucceed", detail: "error return", pos: s.Pos()})
			return
		}
	}
	allConst := true
	for _, r := range s.Results {
		if _, ok := isConstLit(r); !ok {
			allConst = false
		}
	}
	if allConst {
		vals := []string{}
		for _, r := range s.Results {
			v, _ := isConstLit(r)
			vals = append(vals, v)
		}
		c.add(ctx, effect{tag: "flagConst", target: "<return>", value: strings.Join(vals, ","), pos: s.Pos()})
		return
	}
	c.add(ctx, effect{tag: "firstMatchReturn", detail: "returns " + types.ExprString(s.Results[0]), pos: s.Pos()})
}

// ---------------------------------------------------------------- what happens to a collected slice

func (c *classifier) isSortCall(call *ast.CallExpr, arg ast.Expr, method string) bool {
	obj, fun := c.calleeObj(call)
	f, ok := obj.(*types.Func)
	if !ok || f.Pkg() == nil {
		return false
	}
	pkg, name := f.Pkg().Path(), f.Name()
	if len(call.Args) > 0 && unparen(call.Args[0]) == arg {
		if pkg == "sort" && (name == "Strings" || name == "Ints" || name == "Float64s" || name == "Slice" || name == "SliceStable") {
			return true
		}
		if pkg == "slices" && (name == "Sort" || name == "SortFunc" || name == "SortStableFunc") {
			return true
		}
	}
	if sel, ok := fun.(*ast.SelectorExpr); ok && unparen(sel.X) == arg && name == "Sort" && inModule(f) && method == "Sort" {
		return true
	}
	return false
}

// sortOrder looks at HOW the collected slice `arg` is sorted.  S_collect_then_sort needs the
// order to be antisymmetric on the collected elements, so only a comparator that orders the
// elements themselves is accepted outright:
//
//	"direct"          sort.Strings/Ints/Float64s, slices.Sort, orderedmap.SortStrings, or a
//	                  comparator whose lexicographic cascade contains the element itself, or
//	                  covers every field of the element's struct type, or compares a field
//	                  that the loop initialised with the range key
//	"field:<paths>"   compares only these fields of the elements (injectivity to be reviewed)
//	"derived:<why>"   compares something else (a lookup through the element, len(), a call …)
func (c *classifier) sortOrder(call *ast.CallExpr, arg ast.Expr, src *effect) string {
	obj, _ := c.calleeObj(call)
	f, _ := obj.(*types.Func)
	if f == nil || f.Pkg() == nil {
		return "derived:unknown sort function"
	}
	pkg, name := f.Pkg().Path(), f.Name()
	if (pkg == "sort" && (name == "Strings" || name == "Ints" || name == "Float64s")) || (pkg == "slices" && name == "Sort") {
		return "direct"
	}
	var cmp ast.Expr
	switch {
	case inModule(f) && name == "Sort":
		if len(call.Args) != 1 {
			return "derived:unexpected Sort signature"
		}
		cmp = unparen(call.Args[0])
		if o, _ := c.calleeObjOfExpr(cmp).(*types.Func); o != nil && inModule(o) && o.Name() == "SortStrings" {
			return "direct"
		}
	case len(call.Args) == 2:
		cmp = unparen(call.Args[1])
	default:
		return "derived:unexpected sort signature"
	}
	lit, ok := cmp.(*ast.FuncLit)
	if !ok || len(lit.Type.Params.List) == 0 {
		return "derived:comparator " + types.ExprString(cmp) + " is not a function literal"
	}
	var params []*ast.Ident
	for _, fl := range lit.Type.Params.List {
		params = append(params, fl.Names...)
	}
	if len(params) != 2 {
		return "derived:comparator does not take two parameters"
	}
	pi, pj := c.info().Defs[params[0]], c.info().Defs[params[1]]
	byIndex := pkg == "sort" // sort.Slice(xs, func(i, j int) bool): elements are xs[i], xs[j]
	argText := types.ExprString(arg)
	// elemOf: 1 if e denotes the first compared element, 2 for the second, 0 otherwise
	elemOf := func(e ast.Expr) int {
		e = unparen(e)
		var id *ast.Ident
		if byIndex {
			ix, ok := e.(*ast.IndexExpr)
			if !ok || types.ExprString(ix.X) != argText {
				return 0
			}
			id, _ = unparen(ix.Index).(*ast.Ident)
		} else {
			id, _ = e.(*ast.Ident)
		}
		if id == nil {
			return 0
		}
		switch c.info().Uses[id] {
		case pi:
			return 1
		case pj:
			return 2
		}
		return 0
	}
	var norm func(e ast.Expr, which int) (string, bool)
	norm = func(e ast.Expr, which int) (string, bool) {
		e = unparen(e)
		if k := elemOf(e); k != 0 {
			return "$", k == which
		}
		switch v := e.(type) {
		case *ast.Ident:
			if o := c.info().Uses[v]; o == pi || o == pj {
				return "?", false // a bare index outside xs[·]
			}
			return v.Name, true
		case *ast.BasicLit:
			return v.Value, true
		case *ast.SelectorExpr:
			x, ok := norm(v.X, which)
			return x + "." + v.Sel.Name, ok
		case *ast.IndexExpr:
			x, ok1 := norm(v.X, which)
			i, ok2 := norm(v.Index, which)
			return x + "[" + i + "]", ok1 && ok2
		case *ast.StarExpr:
			x, ok := norm(v.X, which)
			return "*" + x, ok
		case *ast.UnaryExpr:
			x, ok := norm(v.X, which)
			return v.Op.String() + x, ok
		case *ast.BinaryExpr:
			x, ok1 := norm(v.X, which)
			y, ok2 := norm(v.Y, which)
			return "(" + x + v.Op.String() + y + ")", ok1 && ok2
		case *ast.CallExpr:
			parts := []string{}
			okAll := true
			for _, a := range v.Args {
				t, ok := norm(a, which)
				parts = append(parts, t)
				okAll = okAll && ok
			}
			fn, ok := norm(v.Fun, which)
			return fn + "(" + strings.Join(parts, ",") + ")", okAll && ok
		}
		return "?", false
	}
	// pair: the two sides are the same expression of the first and of the second element
	pair := func(a, b ast.Expr) (string, bool) {
		for _, w := range [][2]int{{1, 2}, {2, 1}} {
			x, ok1 := norm(a, w[0])
			y, ok2 := norm(b, w[1])
			if ok1 && ok2 && x == y && strings.Contains(x, "$") {
				return x, true
			}
		}
		return "", false
	}
	isCompareCall := func(e ast.Expr) (ast.Expr, ast.Expr, bool) {
		call, ok := unparen(e).(*ast.CallExpr)
		if !ok || len(call.Args) != 2 {
			return nil, nil, false
		}
		o, _ := c.calleeObj(call)
		if fn, _ := o.(*types.Func); fn != nil && fn.Pkg() != nil && fn.Name() == "Compare" && (fn.Pkg().Path() == "strings" || fn.Pkg().Path() == "cmp") {
			return call.Args[0], call.Args[1], true
		}
		return nil, nil, false
	}
	keyOfCompare := func(e ast.Expr) (string, bool) {
		if a, b, ok := isCompareCall(e); ok {
			return pair(a, b)
		}
		be, ok := unparen(e).(*ast.BinaryExpr)
		if !ok {
			return "", false
		}
		switch be.Op {
		case token.LSS, token.GTR, token.LEQ, token.GEQ, token.NEQ:
			return pair(be.X, be.Y)
		}
		return "", false
	}
	keys := []string{}
	stmts := lit.Body.List
	if len(stmts) == 0 {
		return "derived:empty comparator"
	}
	for i, st := range stmts {
		last := i == len(stmts)-1
		switch v := st.(type) {
		case *ast.ReturnStmt:
			if !last || len(v.Results) != 1 {
				return "derived:comparator shape not recognised"
			}
			k, ok := keyOfCompare(v.Results[0])
			if !ok {
				return "derived:" + types.ExprString(v.Results[0])
			}
			keys = append(keys, k)
		case *ast.IfStmt:
			// if A_i != A_j { return A_i < A_j }     /    if c := cmp.Compare(A_i, A_j); c != 0 { return c }
			if last || v.Else != nil || len(v.Body.List) != 1 {
				return "derived:comparator shape not recognised"
			}
			if _, isRet := v.Body.List[0].(*ast.ReturnStmt); !isRet {
				return "derived:comparator shape not recognised"
			}
			var k string
			var ok bool
			if as, isAssign := v.Init.(*ast.AssignStmt); isAssign && len(as.Rhs) == 1 {
				k, ok = keyOfCompare(as.Rhs[0])
			} else if v.Init == nil {
				k, ok = keyOfCompare(v.Cond)
			}
			if !ok {
				return "derived:" + types.ExprString(v.Cond)
			}
			keys = append(keys, k)
		default:
			return "derived:comparator shape not recognised"
		}
	}
	fields := []string{}
	for _, k := range keys {
		if k == "$" {
			return "direct" // ties are broken by the element itself
		}
	}
	for _, k := range keys {
		switch {
		case strings.HasPrefix(k, "$.") && !strings.ContainsAny(k[2:], "[]()*?"):
			fields = append(fields, k[1:])
		default:
			return "derived:" + strings.ReplaceAll(k, "$", "elem")
		}
	}
	// every field of the element's struct type takes part
	if st := c.elemStruct(arg); st != nil {
		covered := map[string]bool{}
		for _, f := range fields {
			if !strings.Contains(f[1:], ".") {
				covered[f[1:]] = true
			}
		}
		all := st.NumFields() > 0
		for i := 0; i < st.NumFields(); i++ {
			if _, basic := st.Field(i).Type().Underlying().(*types.Basic); !basic || !covered[st.Field(i).Name()] {
				all = false
			}
		}
		if all {
			return "direct"
		}
	}
	// a compared field that the loop filled with the range key
	if src != nil && src.key != nil {
		for _, f := range fields {
			if strings.Contains(f[1:], ".") {
				continue
			}
			okAll := len(src.elems) > 0
			for _, el := range src.elems {
				if !c.fieldIsKey(el, f[1:], src.key) {
					okAll = false
				}
			}
			if okAll {
				return "direct"
			}
		}
	}
	sort.Strings(fields)
	return "field:" + strings.Join(fields, ",")
}

func (c *classifier) calleeObjOfExpr(e ast.Expr) types.Object {
	switch v := unparen(e).(type) {
	case *ast.Ident:
		return c.info().Uses[v]
	case *ast.SelectorExpr:
		return c.info().Uses[v.Sel]
	}
	return nil
}

func (c *classifier) elemStruct(slice ast.Expr) *types.Struct {
	t := c.info().TypeOf(slice)
	if t == nil {
		return nil
	}
	sl, ok := t.Underlying().(*types.Slice)
	if !ok {
		return nil
	}
	st, _ := sl.Elem().Underlying().(*types.Struct)
	return st
}

// fieldIsKey: el is `T{…, field: <range key>, …}` (or &T{…})
func (c *classifier) fieldIsKey(el ast.Expr, field string, key types.Object) bool {
	el = unparen(el)
	if u, ok := el.(*ast.UnaryExpr); ok && u.Op == token.AND {
		el = unparen(u.X)
	}
	lit, ok := el.(*ast.CompositeLit)
	if !ok {
		return false
	}
	for _, e := range lit.Elts {
		kv, ok := e.(*ast.KeyValueExpr)
		if !ok {
			continue
		}
		if k, ok := kv.Key.(*ast.Ident); ok && k.Name == field {
			if v, ok := unparen(kv.Value).(*ast.Ident); ok && c.info().Uses[v] == key {
				return true
			}
		}
	}
	return false
}

func (c *classifier) isFilesType(t types.Type) bool {
	s := types.TypeString(t, nil)
	return s == "github.com/grafana/codejen.Files" || s == "[]github.com/grafana/codejen.File"
}

// usesAfter decides what becomes of `target` (a variable holding map contents in iteration
// order) after position `from`.
func (c *classifier) usesAfter(target string, root types.Object, at ast.Node, from token.Pos, method string, src *effect) (string, string, string) {
	body := c.enclosingFuncBody(at)
	if body == nil {
		return "unknown", "no enclosing function body", ""
	}
	// collected across an enclosing loop: earlier statements run again afterwards
	for cur := c.parents[at]; cur != nil && cur != body; cur = c.parents[cur] {
		switch l := cur.(type) {
		case *ast.ForStmt, *ast.RangeStmt:
			if root != nil && !(root.Pos() >= l.Pos() && root.Pos() < l.End()) {
				if t := c.typeOfTarget(body, target); t != nil && c.isFilesType(t) {
					return "emitFiles", "files collected across an enclosing loop", ""
				}
				return "appendUnsorted", "collected across an enclosing loop", ""
			}
		case *ast.FuncLit:
			// the enclosing body is this literal's (enclosingFuncBody stops here)
		}
	}
	var uses []ast.Expr
	ast.Inspect(body, func(nd ast.Node) bool {
		e, ok := nd.(ast.Expr)
		if !ok || e.Pos() < from {
			return true
		}
		switch e.(type) {
		case *ast.Ident, *ast.SelectorExpr:
			if types.ExprString(e) == target {
				if id, isId := e.(*ast.Ident); isId && root != nil && c.info().Uses[id] != root {
					return true
				}
				uses = append(uses, e)
				return false
			}
		}
		return true
	})
	sort.Slice(uses, func(i, j int) bool { return uses[i].Pos() < uses[j].Pos() })
	if t := c.typeOfTarget(body, target); t != nil && c.isFilesType(t) {
		return "emitFiles", "appended to a codejen file list", ""
	}
	if len(uses) == 0 {
		if root != nil && root.Pos() >= body.Pos() && root.Pos() < body.End() && !strings.Contains(target, ".") {
			return "collectThenFold", "never used afterwards", ""
		}
		return "appendUnsorted", "escapes through " + target, ""
	}
	// first use: a sort?
	var sortCall *ast.CallExpr
	if call, ok := c.parents[uses[0]].(*ast.CallExpr); ok && c.isSortCall(call, uses[0], method) {
		sortCall = call
	}
	if sel, ok := c.parents[uses[0]].(*ast.SelectorExpr); ok && sel.X == uses[0] {
		if call, ok := c.parents[sel].(*ast.CallExpr); ok && c.isSortCall(call, uses[0], method) {
			sortCall = call
		}
	}
	if sortCall != nil {
		how := "first later use is " + types.ExprString(sortCall.Fun)
		order := c.sortOrder(sortCall, uses[0], src)
		switch {
		case order == "direct":
			return "collectThenSort", how + ", a total order on the collected elements", ""
		case strings.HasPrefix(order, "field:"):
			return "collectThenSort", how + ", comparing only " + strings.TrimPrefix(order, "field:"), target + " by " + strings.TrimPrefix(order, "field:")
		default:
			return "collectThenSortByDerivedKey", how + ", but the comparator is not an order on the collected elements: " + strings.TrimPrefix(order, "derived:"), ""
		}
	}
	returned, folded := false, []string{}
	for _, u := range uses {
		switch par := c.parents[u].(type) {
		case *ast.CallExpr:
			if obj, _ := c.calleeObj(par); obj != nil {
				if b, ok := obj.(*types.Builtin); ok && (b.Name() == "len" || b.Name() == "cap") {
					continue
				}
			}
			return "appendUnsorted", "passed to " + types.ExprString(par.Fun), ""
		case *ast.RangeStmt:
			if par.X != u {
				return "appendUnsorted", "used in a range clause", ""
			}
			sub := c.newCtx(par, true)
			if sub == nil {
				return "appendUnsorted", "consumer loop assigns to existing variables", ""
			}
			c.scanCalls(sub, par.Body)
			c.block(sub, par.Body.List, false, false)
			eff := c.resolve(sub)
			for _, e := range eff {
				if !admissibleTag[e.tag] || e.sortKey != "" {
					return "appendUnsorted", fmt.Sprintf("consumer loop at line %d has effect %s", c.x.fset.Position(par.Pos()).Line, e.tag), ""
				}
			}
			folded = append(folded, fmt.Sprintf("line %d: %s", c.x.fset.Position(par.Pos()).Line, strings.Join(eff.tags(), "+")))
		case *ast.ReturnStmt:
			returned = true
		default:
			return "appendUnsorted", fmt.Sprintf("used in %T at line %d", par, c.x.fset.Position(u.Pos()).Line), ""
		}
	}
	if returned {
		if c.inFuncLit(at) {
			// the caller of a closure is not known statically
			return "appendUnsorted", "returned from a closure in iteration order", ""
		}
		return "collectReturn", "returned to the caller in iteration order", ""
	}
	return "collectThenFold", "consumed only by order-insensitive loops: " + strings.Join(folded, "; "), ""
}

func (c *classifier) typeOfTarget(body *ast.BlockStmt, target string) types.Type {
	var t types.Type
	ast.Inspect(body, func(nd ast.Node) bool {
		if e, ok := nd.(ast.Expr); ok && t == nil && types.ExprString(e) == target {
			t = c.info().TypeOf(e)
		}
		return t == nil
	})
	return t
}

// classifyLeakCall: `call` returns map contents in iteration order.
func (c *classifier) stdCallee(e ast.Node) (pkg, name string, call *ast.CallExpr) {
	call, ok := e.(*ast.CallExpr)
	if !ok {
		return "", "", nil
	}
	obj, _ := c.calleeObj(call)
	f, _ := obj.(*types.Func)
	if f == nil || f.Pkg() == nil {
		return "", "", call
	}
	return f.Pkg().Path(), f.Name(), call
}

func (c *classifier) classifyLeakCall(call *ast.CallExpr) effects {
	// Go 1.23 iterator idioms: the leaked sequence is materialised by a wrapper call
	//   slices.Sorted(maps.Keys(m))            sorted at once: collect-then-sort on the elements
	//   slices.SortedFunc(maps.Keys(m), cmp)   the same, if the comparator orders the elements
	//   slices.Collect(maps.Keys(m))           just the collected slice: look at what follows
	for {
		pkg, name, outer := c.stdCallee(c.parents[call])
		if outer == nil || len(outer.Args) == 0 || unparen(outer.Args[0]) != ast.Expr(call) || pkg != "slices" {
			break
		}
		switch name {
		case "Sorted":
			return effects{{tag: "collectThenSort", detail: "slices.Sorted of the sequence: a total order on the collected elements"}}
		case "SortedFunc", "SortedStableFunc":
			order := c.sortOrder(outer, outer.Args[0], nil)
			switch {
			case order == "direct":
				return effects{{tag: "collectThenSort", detail: "slices." + name + " with a total order on the collected elements"}}
			case strings.HasPrefix(order, "field:"):
				k := strings.TrimPrefix(order, "field:")
				return effects{{tag: "collectThenSort", detail: "slices." + name + " comparing only " + k, sortKey: types.ExprString(call) + " by " + k}}
			}
			return effects{{tag: "collectThenSortByDerivedKey", detail: "slices." + name + ": " + strings.TrimPrefix(order, "derived:")}}
		case "Collect":
			call = outer
			continue
		}
		break
	}
	// inside an error message?
	var stmt ast.Stmt
	var child ast.Node = call
	for cur := c.parents[call]; cur != nil; cur = c.parents[cur] {
		if outer, ok := cur.(*ast.CallExpr); ok {
			if obj, _ := c.calleeObj(outer); obj != nil && obj.Pkg() != nil {
				if (obj.Pkg().Path() == "fmt" && obj.Name() == "Errorf") || (obj.Pkg().Path() == "errors" && obj.Name() == "New") {
					return effects{{tag: "errorText", detail: "only used in an error message"}}
				}
			}
		}
		if s, ok := cur.(ast.Stmt); ok {
			stmt = s
			break
		}
		child = cur
	}
	switch s := stmt.(type) {
	case *ast.AssignStmt:
		if len(s.Lhs) == 1 && len(s.Rhs) == 1 && unparen(s.Rhs[0]) == ast.Expr(call) {
			if id, ok := s.Lhs[0].(*ast.Ident); ok {
				root := c.info().Defs[id]
				if root == nil {
					root = c.info().Uses[id]
				}
				tag, detail, sk := c.usesAfter(id.Name, root, s, s.End(), "sort", nil)
				return effects{{tag: tag, target: id.Name, detail: detail, sortKey: sk}}
			}
		}
	case *ast.ReturnStmt:
		for _, r := range s.Results {
			if unparen(r) == ast.Expr(call) && !c.inFuncLit(call) {
				return effects{{tag: "collectReturn", detail: "returned to the caller in iteration order"}}
			}
		}
	case *ast.RangeStmt:
		if unparen(s.X) == ast.Expr(call) && child == ast.Node(call) {
			sub := c.newCtx(s, true)
			if sub != nil {
				c.scanCalls(sub, s.Body)
				c.block(sub, s.Body.List, false, false)
				return c.resolve(sub)
			}
		}
	}
	return effects{{tag: "appendUnsorted", detail: "result used in iteration order"}}
}
