package main

// Cases generated WITH configured compiler passes (cog's `transformations.schemas` files, e.g.
// `disjunction_with_constant_to_default`, `fields_set_default`): the lab API has no hook for them,
// so this mirrors Lab.AddCaseVeneers + Lab.generate with `Transforms.CommonPassesFiles` set on the
// pipeline of the generation run AND of the chain-IR runs (IRGo / IRPy show the IR after the
// configured passes and the language chain, which is what the jennies see).

import (
	"bufio"
	"context"
	"fmt"
	"path/filepath"
	"regexp"
	"strings"
	"time"

	"github.com/grafana/cog/internal/ast"
	"github.com/grafana/cog/internal/ast/compiler"
	"github.com/grafana/cog/internal/codegen"
)

// c10CaseOpts: how a case is generated beyond what Lab.AddCase does
type c10CaseOpts struct {
	PassesYAML     string // configured schema transformations ("" = none; %PKG% → case ID)
	ConstAsPattern bool   // JSON Schema: string constants spelled `type: string, pattern: ^literal$`
	CueLibInline   bool   // CUE: every definition but the root moves to an imported library package
	//                       and the input sets InlineExternalReference (what cog.TypesFromSchema does)
}

func (o c10CaseOpts) plain() bool {
	return o.PassesYAML == "" && !o.ConstAsPattern && !o.CueLibInline
}

type c10Gen struct {
	lr         labRun
	passesFile string
	libDir     string // CUE library directory (inline mode), "" otherwise
	libImport  string
}

func (g c10Gen) pipeline() (*codegen.Pipeline, error) {
	p, err := g.lr.pipeline()
	if err != nil {
		return nil, err
	}
	if g.passesFile != "" {
		p.Transforms.CommonPassesFiles = []string{g.passesFile}
	}
	if g.libDir != "" {
		for _, in := range p.Inputs {
			if in.Cue != nil {
				in.Cue.CueImports = []string{g.libDir + ":" + g.libImport}
				in.Cue.InlineExternalReference = true
			}
		}
	}
	return p, nil
}

func (g c10Gen) run() (files map[string][]byte, err error) {
	defer func() {
		if rec := recover(); rec != nil {
			err = fmt.Errorf("PANIC: %v", rec)
		}
	}()
	p, err := g.pipeline()
	if err != nil {
		return nil, err
	}
	fs, err := p.Run(context.Background())
	if err != nil {
		return nil, err
	}
	files = map[string][]byte{}
	for _, f := range fs.AsFiles() {
		files[f.RelativePath] = f.Data
	}
	return files, nil
}

func (g c10Gen) chainIR(lang string) (schemas ast.Schemas, err error) {
	defer func() {
		if rec := recover(); rec != nil {
			err = fmt.Errorf("PANIC: %v", rec)
		}
	}()
	p, err := g.pipeline()
	if err != nil {
		return nil, err
	}
	loaded, err := p.LoadSchemas(context.Background())
	if err != nil {
		return nil, err
	}
	langs, err := p.OutputLanguages()
	if err != nil {
		return nil, err
	}
	target, ok := langs[lang]
	if !ok {
		return nil, fmt.Errorf("language %s is not configured", lang)
	}
	ctx, err := p.ContextForLanguage(target, loaded)
	if err != nil {
		return nil, err
	}
	return ctx.Schemas, nil
}

// c10ConstAsPattern rewrites `{"const": "<s>"}` into `{"type": "string", "pattern": "^<s>$"}` (the
// spelling cog's JSON Schema and OpenAPI loaders recognise as a constant) wherever the literal has
// no regular-expression operator.
func c10ConstAsPattern(text string) string {
	v, err := parseJV([]byte(text))
	if err != nil {
		return text
	}
	var walk func(x *JV)
	walk = func(x *JV) {
		switch x.K {
		case 'a':
			for i := range x.A {
				walk(&x.A[i])
			}
		case 'o':
			if c, ok := x.get("const"); ok && c.K == 's' && regexSafeConst(c.S) && len(x.O) == 1 {
				*x = jObj(kv("type", jStr("string")), kv("pattern", jStr("^"+c.S+"$")))
				return
			}
			for i := range x.O {
				walk(&x.O[i].V)
			}
		}
	}
	walk(&v)
	return v.pretty() + "\n"
}

var c10CueDef = regexp.MustCompile(`(?m)^#([A-Za-z0-9_]+):`)

// c10SplitCue moves every definition but the root of a rendered CUE package into a library package
// `lib`, imported by the main package as "example.com/<lib>"; references become `<lib>.#Name`.
// ok = false when the term cannot be split (a library definition refers back to the root).
func c10SplitCue(d *Defs, text, pkg, lib string) (mainText, libText string, ok bool) {
	for _, it := range d.Items {
		if it.Name == d.Root {
			continue
		}
		if d.reachableFrom(it.Name)[d.Root] {
			return "", "", false
		}
		// only struct and enum definitions are moved: a default on a reference to an imported
		// numeric alias makes the CUE loader fail in this mode ("could not infer number type")
		switch it.Ty.Kind {
		case SStruct, SEnumS, SEnumI:
		default:
			return "", "", false
		}
	}
	blocks := strings.Split(strings.TrimSpace(text), "\n\n")
	var header, mainDefs, libDefs []string
	for _, b := range blocks {
		m := c10CueDef.FindStringSubmatch(b)
		switch {
		case m == nil:
			header = append(header, b)
		case m[1] == d.Root:
			mainDefs = append(mainDefs, b)
		default:
			libDefs = append(libDefs, b)
		}
	}
	if len(libDefs) == 0 || len(mainDefs) == 0 {
		return "", "", false
	}
	mainBody := strings.Join(mainDefs, "\n\n")
	for _, it := range d.Items {
		if it.Name != d.Root {
			mainBody = regexp.MustCompile(`#`+regexp.QuoteMeta(it.Name)+`\b`).ReplaceAllString(mainBody, lib+".#"+it.Name)
		}
	}
	imports := func(body string, extra string) string {
		var b strings.Builder
		for _, imp := range []string{"strings", "time"} {
			if strings.Contains(body, imp+".") {
				fmt.Fprintf(&b, "import %q\n", imp)
			}
		}
		if extra != "" {
			fmt.Fprintf(&b, "import %q\n", extra)
		}
		if b.Len() > 0 {
			return b.String() + "\n"
		}
		return ""
	}
	_ = header
	libBody := strings.Join(libDefs, "\n\n")
	mainText = "package " + pkg + "\n\n" + imports(mainBody, "example.com/"+lib) + mainBody + "\n"
	libText = "package " + lib + "\n\n" + imports(libBody, "") + libBody + "\n"
	return mainText, libText, true
}

// c10AddCase: like Lab.AddCase, with the options above (mirrors Lab.AddCaseVeneers + Lab.generate:
// the lab API has no hook for transformation files, schema-text rewriting or the inlining mode).
func c10AddCase(l *Lab, defs *Defs, format string, o c10CaseOpts) *LabCase {
	if o.plain() || (o.PassesYAML == "" && !(o.ConstAsPattern && format == "jsonschema") && !(o.CueLibInline && format == "cue")) {
		return l.AddCase(defs, format)
	}
	t0 := time.Now()
	defer l.timed("generate", t0)
	idx := len(l.Cases)
	c := &LabCase{Idx: idx, ID: fmt.Sprintf("c%d%s", idx, labFormatSuffix[format]), Format: format, Orig: defs, GoFlags: l.Opts.GoFlags}
	l.Cases = append(l.Cases, c)
	if labFormatSuffix[format] == "" {
		c.Unsupported = []string{"format:" + format}
		return c
	}
	d, notes := degradeDefs(defs, format, l.Opts.Degrade)
	c.Degraded = notes
	ro := renderDefs(d, format, c.ID)
	c.Unsupported, c.Notes = ro.Unsupported, ro.Notes
	if ro.Text == "" {
		return c
	}
	c.Defs = d
	c.SchemaText, c.RefSchemaText = ro.Text, ro.RefText
	g := c10Gen{}
	if o.ConstAsPattern && format == "jsonschema" {
		c.SchemaText = c10ConstAsPattern(c.SchemaText)
		c.RefSchemaText = ""
		c.Notes = append(c.Notes, "c10:const-as-pattern")
	}
	if o.CueLibInline && format == "cue" {
		lib := c.ID + "lib"
		if mainText, libText, ok := c10SplitCue(d, c.SchemaText, c.ID, lib); ok {
			c.SchemaText = mainText
			libDir, err := writeSchemaFile(filepath.Join(l.Dir, "schemas"), "cue", lib, libText)
			if err != nil {
				c.GenErr = "lab: " + err.Error()
				return c
			}
			g.libDir, g.libImport = libDir, "example.com/"+lib
			c.Notes = append(c.Notes, "c10:cue-library-inlined")
		}
	}
	if o.PassesYAML != "" {
		rel := filepath.Join("passes", c.ID+".yaml")
		if err := l.writeFile(rel, []byte(strings.ReplaceAll(o.PassesYAML, "%PKG%", c.ID))); err != nil {
			c.GenErr = "lab: " + err.Error()
			return c
		}
		g.passesFile = filepath.Join(l.Dir, rel)
	}
	path, err := writeSchemaFile(filepath.Join(l.Dir, "schemas"), c.Format, c.ID, c.SchemaText)
	if err != nil {
		c.GenErr = "lab: " + err.Error()
		return c
	}
	c.SchemaPath = path
	g.lr = l.labRun(c)
	files, err := g.run()
	if err != nil {
		c.GenErr = err.Error()
	} else {
		c.Files = files
	}
	if ir, err := g.chainIR("go"); err != nil {
		c.IRGoErr = err.Error()
	} else {
		c.IRGo = ir
		c.GoObjects = goObjectsOf(ir, c.ID, c.GoFlags, false)
	}
	if ir, err := g.chainIR("python"); err != nil {
		c.IRPyErr = err.Error()
	} else {
		c.IRPy = ir
		c.PyObjects = pyObjectsOf(ir, c.ID)
	}
	return c
}

// ---- c10-passes: the real DisjunctionWithConstantToDefault pass on generated disjunctions ----
//
// rows:  godefaults cdd <field type before, VIR>  \t  ok <field type after, VIR>  \t  oracle
// oracle (the pass's contract, from the input only): a two-branch disjunction of scalars of one
// kind, exactly one of them a constant, becomes a scalar of that kind that is not a constant and
// whose default is the constant — whichever branch comes first; anything else is left alone.

func c10GenScalar(r *rng, kind ast.ScalarKind, constant bool) ast.Type {
	opts := []ast.TypeOption{}
	if constant {
		var v any
		switch kind {
		case ast.KindString:
			v = []string{"auto", "", "x y"}[r.intn(3)]
		case ast.KindBool:
			v = r.chance(50)
		case ast.KindFloat64:
			v = []float64{0, 1.5, -2}[r.intn(3)]
		default:
			v = []int64{0, 30, -7}[r.intn(3)]
		}
		opts = append(opts, ast.Value(v))
	}
	if r.chance(10) {
		opts = append(opts, ast.Nullable())
	}
	return ast.NewScalar(kind, opts...)
}

func init() {
	register("c10-passes", func(args map[string]string, out *bufio.Writer) error {
		n := argInt(args, "n", 400)
		r := newRng(uint64(argInt(args, "seed", 1))*7919 + 3)
		kinds := []ast.ScalarKind{ast.KindString, ast.KindInt64, ast.KindBool, ast.KindFloat64}
		for i := 0; i < n; i++ {
			var branches ast.Types
			nb := 2
			if r.chance(15) {
				nb = 1 + r.intn(3)
			}
			k0 := kinds[r.intn(len(kinds))]
			for b := 0; b < nb; b++ {
				k := k0
				if r.chance(15) {
					k = kinds[r.intn(len(kinds))]
				}
				switch {
				case r.chance(6):
					branches = append(branches, ast.NewRef("p", "Other"))
				case r.chance(4):
					branches = append(branches, ast.NewArray(ast.String()))
				default:
					branches = append(branches, c10GenScalar(r, k, r.chance(50)))
				}
			}
			dopts := []ast.TypeOption{}
			if r.chance(15) {
				dopts = append(dopts, ast.Default("own"))
			}
			before := ast.NewDisjunction(branches, dopts...)
			beforeText := virType(before)
			impl, verdict := "", "ok"
			func() {
				defer func() {
					if rec := recover(); rec != nil {
						impl, verdict = fmt.Sprintf("panic %v", rec), "FAIL lang=both class=panic pass=disjunction_with_constant_to_default"
					}
				}()
				schema := ast.NewSchema("p", ast.SchemaMeta{})
				schema.AddObject(ast.NewObject("p", "Other", ast.NewStruct()))
				schema.AddObject(ast.NewObject("p", "Root", ast.NewStruct(ast.NewStructField("f", before.DeepCopy(), ast.Required()))))
				res, err := (&compiler.DisjunctionWithConstantToDefault{}).Process(ast.Schemas{schema})
				if err != nil {
					impl, verdict = "err", "FAIL lang=both class=error pass=disjunction_with_constant_to_default "+labOneLine(err.Error())
					return
				}
				obj, _ := res[0].LocateObject("Root")
				after := obj.Type.Struct.Fields[0].Type
				impl = "ok " + virType(after)
				// the contract
				applies := len(branches) == 2 && branches[0].IsScalar() && branches[1].IsScalar() &&
					branches[0].Scalar.ScalarKind == branches[1].Scalar.ScalarKind &&
					branches[0].Scalar.IsConcrete() != branches[1].Scalar.IsConcrete()
				if !applies {
					if virType(after) != beforeText {
						verdict = "FAIL lang=both class=altered pass=disjunction_with_constant_to_default kind=constdisj.untouched the pass changed a type it does not apply to"
					}
					return
				}
				ci := 0
				if branches[1].Scalar.IsConcrete() {
					ci = 1
				}
				pos := []string{"first", "last"}[ci]
				want := branches[ci].Scalar.Value
				switch {
				case !after.IsScalar() || after.Scalar.ScalarKind != branches[0].Scalar.ScalarKind || after.Scalar.IsConcrete():
					verdict = fmt.Sprintf("FAIL lang=both class=altered pass=disjunction_with_constant_to_default kind=constdisj.%s the result is not the open scalar", pos)
				case after.Default == nil:
					verdict = fmt.Sprintf("FAIL lang=both class=dropped pass=disjunction_with_constant_to_default kind=constdisj.%s expected=%s got=nil", pos, virVal(want))
				case virVal(after.Default) != virVal(want):
					verdict = fmt.Sprintf("FAIL lang=both class=altered pass=disjunction_with_constant_to_default kind=constdisj.%s expected=%s got=%s", pos, virVal(want), virVal(after.Default))
				}
			}()
			fmt.Fprintf(out, "godefaults cdd %s\t%s\t%s\n", beforeText, impl, verdict)
		}
		return nil
	})
}
