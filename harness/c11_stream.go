package main

// C11 stream: source-valid documents through freshly generated Python AND Go code (real pipeline,
// real interpreter / compiler), next to the Lean model of the generated Python (`pyroundtrip`),
// the model's prediction of Go/Python agreement (`c11agree`) and the property's own oracle.
//
// rows:  defschemas <case>-py <post-PYTHON-chain IR>                 \t ok \t ok
//        defschemas <case>-go <post-GO-chain IR>                     \t ok \t ok
//        pyroundtrip <case>-py <pkg> <root> <doc sexp>               \t ok <json>|err            \t oracle A: Python output ≃ document
//        c11agree <case>-py <case>-go <pkg> <root> <doc sexp>        \t same|differ|na           \t oracle B: Python output = Go output
//        -                                                           \t skip … | case … | stats  \t ok
//
// The pinned corpus (c11Pins) holds one minimal (schema, document) per finding; it is part of every
// batch, so every witness of lean/Cog/Props/C11.lean is replayed on real generated code on every run.

import (
	"bufio"
	"fmt"
	"regexp"
	"sort"
	"strings"
)

type c11Pin struct {
	Name    string
	Sexp    string   // Src term
	Formats []string // nil = all three
	Docs    []string
	// documents of a pin need not be valid for the Src reading (e.g. a required member with a default
	// left out, which CUE accepts): the schema language's own validator decides, as for every document
	Text map[string]string // hand-written schema text per format (instead of rendering Sexp)
}

var c11Pins = []c11Pin{
	{Name: "explicit-null-optional-struct",
		Sexp: `(defs "Root" ("Root" (struct (field "name" (string - - false) true false -) (field "child" (ref "Node") false true -))) ("Node" (struct (field "v" (int 64 true - -) false false -))))`,
		Docs: []string{`{"name":"x","child":null}`, `{"name":"x","child":{"v":1}}`, `{"name":"x"}`}},
	{Name: "explicit-null-optional-array-of-structs",
		Sexp: `(defs "Root" ("Root" (struct (field "name" (string - - false) true false -) (field "items" (array (ref "Node")) false true -))) ("Node" (struct (field "v" (int 64 true - -) false false -))))`,
		Docs: []string{`{"name":"x","items":null}`, `{"name":"x","items":[{"v":1},{}]}`}},
	{Name: "explicit-null-optional-dict-of-structs",
		Sexp: `(defs "Root" ("Root" (struct (field "name" (string - - false) true false -) (field "byKey" (dict (ref "Node")) false true -) (field "items" (array (ref "Node")) false false -))) ("Node" (struct (field "v" (int 64 true - -) false false -))))`,
		Docs: []string{`{"name":"x","byKey":null}`, `{"name":"x","byKey":{"k":{"v":2}}}`}},
	{Name: "explicit-null-optional-union",
		Sexp: `(defs "Root" ("Root" (struct (field "name" (string - - false) true false -) (field "shape" (oneOfStructs "kind" ("a" "A") ("b" "B")) false true -))) ("A" (struct (field "kind" (const (s "a")) true false -) (field "r" (int 64 true - -) false false -))) ("B" (struct (field "kind" (const (s "b")) true false -) (field "w" (string - - false) false false -))))`,
		Docs: []string{`{"name":"x","shape":null}`, `{"name":"x","shape":{"kind":"b","w":"q"}}`}},
	{Name: "explicit-null-optional-scalars-ok",
		Sexp: `(defs "Root" ("Root" (struct (field "name" (string - - false) true true -) (field "n" (int 64 true - -) false true -) (field "tags" (array (string - - false)) false true -) (field "m" (dict (int 64 true - -)) false true -))))`,
		Docs: []string{`{"name":null,"n":null,"tags":null,"m":null}`, `{"name":"x","n":3,"tags":["a"],"m":{"k":1}}`}},
	{Name: "optional-absent-with-default",
		Sexp: `(defs "Root" ("Root" (struct (field "name" (string - - false) true false -) (field "note" (int 64 true - -) false false (n "7")))))`,
		Docs: []string{`{"name":"x"}`, `{"name":"x","note":3}`}},
	{Name: "optional-constant-absent",
		Sexp: `(defs "Root" ("Root" (struct (field "name" (string - - false) true false -) (field "x" (const (n "72")) false false -))))`,
		Docs: []string{`{"name":"x"}`, `{"name":"x","x":72}`}},
	{Name: "optional-empty-collections",
		Sexp: `(defs "Root" ("Root" (struct (field "name" (string - - false) true false -) (field "tags" (array (string - - false)) false false -) (field "m" (dict (int 64 true - -)) false false -))))`,
		Docs: []string{`{"name":"x","tags":[]}`, `{"name":"x","m":{}}`, `{"name":"x","tags":["a"],"m":{"k":1}}`}},
	{Name: "required-absent-with-default-cue", Formats: []string{"cue"},
		Sexp: `(defs "Root" ("Root" (struct (field "name" (string - - false) true false -) (field "a" (int 64 true - -) true false (n "5")))))`,
		Docs: []string{`{"name":"x"}`, `{"name":"x","a":9}`}},
	{Name: "enum-and-nested",
		Sexp: `(defs "Root" ("Root" (struct (field "e" (ref "Color") true false -) (field "inl" (enumS "p" "q") false false -) (field "list" (array (ref "Node")) true false -) (field "byKey" (dict (ref "Node")) false false -))) ("Color" (enumS "red" "green")) ("Node" (struct (field "v" (int 64 true - -) false false -) (field "next" (ref "Node") false false -))))`,
		Docs: []string{`{"e":"green","inl":"q","list":[{"v":1,"next":{"v":2}},{}],"byKey":{"k":{"v":3}}}`, `{"e":"red","list":[]}`}},
}

var c11ExcRe = regexp.MustCompile(`^err ([A-Za-z_.]+)`)

// paths of the document's null-valued members, in document order
func c11NullPaths(v JV, path string, out *[]string) {
	switch v.K {
	case 'o':
		for _, e := range v.O {
			p := path + "." + e.K
			if e.V.isNull() {
				*out = append(*out, p)
			}
			c11NullPaths(e.V, p, out)
		}
	case 'a':
		for i, e := range v.A {
			c11NullPaths(e, fmt.Sprintf("%s[%d]", path, i), out)
		}
	}
}

var c11RefLike = regexp.MustCompile(`/(struct|oneOfStructs|oneOfScalars|array\([^)]*\)?\)?|dict\([^)]*\)?\)?)$`)

// where a Python exception most plausibly comes from: the first explicit null that sits on a
// construct `from_json` does not pass through (struct, union, collection), else the first null
func c11ErrSite(d *Defs, doc JV) (string, string) {
	var ps []string
	c11NullPaths(doc, "$", &ps)
	first, firstAt := "", ""
	for _, p := range ps {
		at := c01SrcAt(d, doc, p)
		if first == "" {
			first, firstAt = p, at
		}
		if c11RefLike.MatchString(at) && !strings.HasSuffix(at, "/array(string)") {
			return p, at
		}
	}
	if first == "" {
		return "$", "no-null-in-document"
	}
	return first, firstAt
}

func c11Class(orig, got JV) string {
	switch {
	case (got.K == 'a' && len(got.A) == 0 || got.K == 'o' && len(got.O) == 0) && orig.isNull():
		return "empty-collection-kept"
	case orig.isNull() && !got.isNull():
		return "absent-member-emitted"
	case (orig.K == 'a' && len(orig.A) == 0 || orig.K == 'o' && len(orig.O) == 0) && got.isNull():
		return "empty-collection-dropped"
	}
	return c01Class(orig, got)
}

func init() {
	register("c11-rows", func(args map[string]string, out *bufio.Writer) error {
		if _, ok := args["n"]; !ok {
			args["n"] = "24"
		}
		seed := uint64(argInt(args, "seed", 1))
		ndocs := argInt(args, "docs", 30)
		opts := defaultLabOpts()
		opts.Degrade = argInt(args, "degrade", opts.Degrade)
		opts.Keep = args["keep"] == "1"
		lab, err := NewLab(labWorkDir("c11-"+args["seed"]+"-"+args["tier"]), opts)
		if err != nil {
			return err
		}
		defer lab.Close()
		docs := map[string][]JV{}
		pinOf := map[string]string{}
		hist, dhist := map[string]int{}, map[string]int{}
		var cases []*LabCase
		// pinned corpus first
		if args["pins"] != "0" {
			for _, p := range c11Pins {
				if only, ok := args["pin"]; ok && only != p.Name {
					continue
				}
				d, perr := parseDefsSexp(p.Sexp)
				if perr != nil {
					return fmt.Errorf("pin %s: %w", p.Name, perr)
				}
				fs := p.Formats
				if fs == nil {
					fs = labFormats
				}
				for _, f := range fs {
					if only, ok := args["format"]; ok && only != f {
						continue
					}
					c := lab.AddCase(d, f)
					cases = append(cases, c)
					pinOf[c.ID] = p.Name
					for _, dt := range p.Docs {
						docs[c.ID] = append(docs[c.ID], mustJV(dt))
					}
				}
			}
		}
		if args["n"] != "0" {
			err = iterDefs(args, func(i int, d *Defs) error {
				d.walkTags(func(t string) { hist[t]++ })
				for _, f := range labFormats {
					if only, ok := args["format"]; ok && only != f {
						continue
					}
					c := lab.AddCase(d, f)
					cases = append(cases, c)
					if c.Defs == nil {
						continue
					}
					dg := newDocGen(c.Defs, newRng(seed*7919+uint64(i)*31+5), defaultDocOpts())
					for k := 0; k < ndocs; k++ {
						docs[c.ID] = append(docs[c.ID], dg.validDoc())
					}
					for k, v := range dg.tags {
						dhist[k] += v
					}
				}
				return nil
			})
			if err != nil {
				return err
			}
		}
		if err := lab.Build(); err != nil {
			return err
		}
		var goReqs, pyReqs []LabReq
		usable := func(c *LabCase) bool { return c.Defs != nil && c.generated() && c.PyOK }
		for _, c := range cases {
			if !usable(c) {
				continue
			}
			for _, d := range docs[c.ID] {
				pyReqs = append(pyReqs, LabReq{c.ID, c.Defs.Root, "roundtrip", []string{d.json()}})
				if c.GoOK {
					goReqs = append(goReqs, LabReq{c.ID, c.Defs.Root, "dec", []string{d.json()}})
				}
			}
		}
		pyRep := lab.PyCall(pyReqs)
		goRep := lab.GoCall(goReqs)
		pi, gi := 0, 0
		counts := map[string]int{}
		for _, c := range cases {
			switch {
			case c.Defs == nil || len(c.Unsupported) > 0:
				fmt.Fprintf(out, "-\tskip %s unsupported-by-format %s\tok\n", c.ID, labOneLine(strings.Join(c.Unsupported, ",")))
				continue
			case c.GenErr != "":
				fmt.Fprintf(out, "-\tskip %s generr %s\tok\n", c.ID, labOneLine(c.GenErr))
				continue
			case !c.PyOK:
				fmt.Fprintf(out, "-\tskip %s pyimport %s\tok\n", c.ID, labOneLine(c.PyImportErr))
				continue
			}
			pin := ""
			if pinOf[c.ID] != "" {
				pin = " pin=" + pinOf[c.ID]
			}
			fmt.Fprintf(out, "-\tcase %s format=%s%s go=%v degraded=%v notes=%v src=%s\tok\n", c.ID, c.Format, pin, c.GoOK, c.Degraded, c.Notes, c.Defs.sexp())
			if c.IRPyErr != "" {
				fmt.Fprintf(out, "-\tskip %s no-python-ir %s\tok\n", c.ID, labOneLine(c.IRPyErr))
			}
			fmt.Fprintf(out, "defschemas %s-py %s\tok\tok\n", c.ID, virSchemas(c.IRPy))
			if c.GoOK {
				fmt.Fprintf(out, "defschemas %s-go %s\tok\tok\n", c.ID, virSchemas(c.IRGo))
			}
			rv, rvErr := c.RefValidator("")
			for _, d := range docs[c.ID] {
				py := pyRep[pi]
				pi++
				goDec := "notbuilt"
				if c.GoOK {
					goDec = goRep[gi]
					gi++
				}
				info := fmt.Sprintf("case=%s format=%s%s", c.ID, c.Format, pin)
				if rvErr != nil {
					fmt.Fprintf(out, "-\tskip %s no-reference-validator %s\tok\n", c.ID, labOneLine(rvErr.Error()))
					continue
				}
				if err := rv.validate(d); err != nil {
					counts["doc-rejected-by-reference-validator"]++
					fmt.Fprintf(out, "-\tskip %s doc-rejected-by-reference-validator %s\tok\n", c.ID, labOneLine(shortErr(err)))
					continue
				}
				counts["documents"]++
				// ---- oracle A: Python round trip reproduces the document
				verdict, impl := "ok", "err"
				var pyOut JV
				pyOK := false
				switch {
				case !strings.HasPrefix(py, "ok "):
					exc := "?"
					if m := c11ExcRe.FindStringSubmatch(py); m != nil {
						exc = m[1]
					}
					p, at := c11ErrSite(c.Defs, d)
					verdict = fmt.Sprintf("FAIL py-error class=%s at=%s %s path=%s reply=%s", exc, at, info, p, labOneLine(py))
				default:
					impl = py
					got, perr := parseJV([]byte(strings.TrimPrefix(py, "ok ")))
					if perr != nil {
						verdict = "FAIL py-reenc-invalid-json " + info
						break
					}
					pyOut, pyOK = got, true
					if p, x, y, diff := c01Diff(d, got, "$"); diff {
						verdict = fmt.Sprintf("FAIL py-reenc-differs class=%s at=%s %s path=%s orig=%s got=%s", c11Class(x, y), c01SrcAt(c.Defs, d, p), info, p, c01Short(x), c01Short(y))
					} else if err := rv.validate(got); err != nil {
						verdict = "FAIL py-reenc-rejected-by-source-schema " + info + " " + labOneLine(shortErr(err))
					}
				}
				if verdict != "ok" {
					counts["A-fail"]++
				}
				fmt.Fprintf(out, "pyroundtrip %s-py %s %s %s\t%s\t%s\n", c.ID, c.ID, c.Defs.Root, d.sexp(), impl, verdict)
				// ---- oracle B: the JSON Python produces equals the JSON Go produces
				if !c.GoOK {
					counts["B-no-go"]++
					continue
				}
				verdictB, implB := "ok", "na"
				switch {
				case !pyOK:
					// already reported by A
				case !strings.HasPrefix(goDec, "ok "):
					// Go refuses the document: C01's business, no Go output to compare with
					counts["B-go-error"]++
				default:
					goOut, perr := parseJV([]byte(strings.TrimPrefix(goDec, "ok ")))
					if perr != nil {
						verdictB = "FAIL go-output-invalid-json " + info
						break
					}
					if p, x, y, diff := c01Diff(pyOut, goOut, "$"); diff {
						implB = "differ"
						// x = Python's value, y = Go's value at the first differing path; the construct is
						// looked up in the document (falls back to Python's output for emitted members)
						at := c01SrcAt(c.Defs, d, p)
						verdictB = fmt.Sprintf("FAIL py-go-differ class=%s at=%s %s path=%s py=%s go=%s", c11Class(y, x), at, info, p, c01Short(x), c01Short(y))
					} else {
						implB = "same"
						if canonJSON([]byte(pyOut.json())) != canonJSON([]byte(goOut.json())) {
							counts["B-null-member-presence-differs"]++
						}
					}
				}
				if verdictB != "ok" {
					counts["B-fail"]++
				}
				fmt.Fprintf(out, "c11agree %s-py %s-go %s %s %s\t%s\t%s\n", c.ID, c.ID, c.ID, c.Defs.Root, d.sexp(), implB, verdictB)
			}
		}
		ks := make([]string, 0, len(counts))
		for k := range counts {
			ks = append(ks, k)
		}
		sort.Strings(ks)
		cs := []string{}
		for _, k := range ks {
			cs = append(cs, fmt.Sprintf("%s=%d", k, counts[k]))
		}
		fmt.Fprintf(out, "-\tstats %s timings=%s constructs=%v docvariants=%v\tok\n", strings.Join(cs, " "), fmtTimings(lab.Timings), hist, dhist)
		return nil
	})
}
