package main

// C11 stream: source-valid documents through freshly generated Python AND Go code (real pipeline,
// real interpreter / compiler), next to the Lean model of the generated Python (`pyroundtrip`),
// the model's prediction of Go/Python agreement (`c11agree`) and the property's own oracle.
//
// rows:  defschemas <case>-py <post-PYTHON-chain IR>                 \t ok \t ok
//        defschemas <case>-go <post-GO-chain IR>                     \t ok \t ok
//        pyroundtrip <case>-py <pkg> <root> <doc sexp>               \t ok <json>|err            \t oracle A: Python output ≃ document
//        c11agree <case>-py <case>-go <pkg> <root> <doc sexp>        \t same|differ|na           \t oracle B: Python output = Go output
//        -                                                           \t skip … | case … | stats  \t ok
//
// The pinned corpus (c11Pins) holds one minimal (schema, document) per finding; it is part of every
// batch, so every witness of lean/Cog/Props/C11.lean is replayed on real generated code on every run.

import (
	"bufio"
	"fmt"
	"regexp"
	"sort"
	"strings"
)

type c11Pin struct {
	Name    string
	Sexp    string   // Src term
	Formats []string // nil = all three
	Docs    []string
	// documents of a pin need not be valid for the Src reading (e.g. a required member with a default
	// left out, which CUE accepts): the schema language's own validator decides, as for every document
	Text  map[string]string // hand-written schema text per format (instead of rendering Sexp)
	Typed bool              // also run the JSON Schema / OpenAPI rendering with constants in the typed spelling
}

var c11Pins = []c11Pin{
	{Name: "explicit-null-optional-struct",
		Sexp: `(defs "Root" ("Root" (struct (field "name" (string - - false) true false -) (field "child" (ref "Node") false true -))) ("Node" (struct (field "v" (int 64 true - -) false false -))))`,
		Docs: []string{`{"name":"x","child":null}`, `{"name":"x","child":{"v":1}}`, `{"name":"x"}`}},
	{Name: "explicit-null-optional-array-of-structs",
		Sexp: `(defs "Root" ("Root" (struct (field "name" (string - - false) true false -) (field "items" (array (ref "Node")) false true -))) ("Node" (struct (field "v" (int 64 true - -) false false -))))`,
		Docs: []string{`{"name":"x","items":null}`, `{"name":"x","items":[{"v":1},{}]}`}},
	{Name: "explicit-null-optional-dict-of-structs",
		Sexp: `(defs "Root" ("Root" (struct (field "name" (string - - false) true false -) (field "byKey" (dict (ref "Node")) false true -) (field "items" (array (ref "Node")) false false -))) ("Node" (struct (field "v" (int 64 true - -) false false -))))`,
		Docs: []string{`{"name":"x","byKey":null}`, `{"name":"x","byKey":{"k":{"v":2}}}`}},
	{Name: "explicit-null-optional-union",
		Sexp: `(defs "Root" ("Root" (struct (field "name" (string - - false) true false -) (field "shape" (oneOfStructs "kind" ("a" "A") ("b" "B")) false true -))) ("A" (struct (field "kind" (const (s "a")) true false -) (field "r" (int 64 true - -) false false -))) ("B" (struct (field "kind" (const (s "b")) true false -) (field "w" (string - - false) false false -))))`,
		Docs: []string{`{"name":"x","shape":null}`, `{"name":"x","shape":{"kind":"b","w":"q"}}`}},
	{Name: "explicit-null-optional-scalars-ok",
		Sexp: `(defs "Root" ("Root" (struct (field "name" (string - - false) true true -) (field "n" (int 64 true - -) false true -) (field "tags" (array (string - - false)) false true -) (field "m" (dict (int 64 true - -)) false true -))))`,
		Docs: []string{`{"name":null,"n":null,"tags":null,"m":null}`, `{"name":"x","n":3,"tags":["a"],"m":{"k":1}}`}},
	{Name: "optional-absent-with-default",
		Sexp: `(defs "Root" ("Root" (struct (field "name" (string - - false) true false -) (field "note" (int 64 true - -) false false (n "7")))))`,
		Docs: []string{`{"name":"x"}`, `{"name":"x","note":3}`}},
	{Name: "optional-constant-absent",
		Sexp: `(defs "Root" ("Root" (struct (field "name" (string - - false) true false -) (field "x" (const (n "72")) false false -))))`,
		Docs: []string{`{"name":"x"}`, `{"name":"x","x":72}`}},
	{Name: "optional-empty-collections",
		Sexp: `(defs "Root" ("Root" (struct (field "name" (string - - false) true false -) (field "tags" (array (string - - false)) false false -) (field "m" (dict (int 64 true - -)) false false -))))`,
		Docs: []string{`{"name":"x","tags":[]}`, `{"name":"x","m":{}}`, `{"name":"x","tags":["a"],"m":{"k":1}}`}},
	{Name: "required-absent-with-default-cue", Formats: []string{"cue"},
		Sexp: `(defs "Root" ("Root" (struct (field "name" (string - - false) true false -) (field "a" (int 64 true - -) true false (n "5")))))`,
		Docs: []string{`{"name":"x"}`, `{"name":"x","a":9}`}},
	{Name: "nested-dict-of-structs",
		Sexp: `(defs "Root" ("Root" (struct (field "name" (string - - false) true false -) (field "grid" (dict (dict (ref "Node"))) false false -) (field "items" (array (ref "Node")) false false -))) ("Node" (struct (field "v" (int 64 true - -) false false -))))`,
		Docs: []string{`{"name":"x","grid":{"k1":{"k2":{"v":1}}}}`, `{"name":"x","grid":{"a":{"a":{"v":1}},"b":{"a":{"v":2}}}}`, `{"name":"x","grid":{"a":{"a":{"v":1}}}}`}},
	{Name: "null-replaced-by-default",
		Sexp: `(defs "Root" ("Root" (struct (field "name" (string - - false) true false -) (field "mode" (enumS "a" "b") true true (s "b")) (field "tags" (array (string - - false)) false true (a (s "u"))))))`,
		Docs: []string{`{"name":"x","mode":null}`, `{"name":"x","mode":"a","tags":null}`, `{"name":"x","mode":"a","tags":["w"]}`}},
	{Name: "nullable-constant-null",
		Sexp: `(defs "Root" ("Root" (struct (field "name" (string - - false) true false -) (field "k" (const (s "Beta")) true true -))))`,
		Docs: []string{`{"name":"x","k":null}`, `{"name":"x","k":"Beta"}`}},
	{Name: "cue-array-of-uint8", Formats: []string{"cue"},
		Sexp: `(defs "Root" ("Root" (struct (field "name" (string - - false) true false -) (field "b" (array (int 8 false - -)) true false -))))`,
		Docs: []string{`{"name":"x","b":[1,2,3]}`}},
	{Name: "struct-default-overrides-constant-member", Formats: []string{"cue"},
		Sexp: `(defs "Root" ("Root" (struct (field "name" (string - - false) true false -) (field "value" (ref "Child") false false (o ("items" (n "7.75")) ("opts" (n "-70")))))) ("Child" (struct (field "items" (num 64 - -) true false -) (field "opts" (int 8 true -70 -70) true false -))))`,
		Docs: []string{`{"name":"x"}`, `{"name":"x","value":{"items":1,"opts":-70}}`}},
	{Name: "three-level-dict-of-structs",
		Sexp: `(defs "Root" ("Root" (struct (field "name" (string - - false) true false -) (field "cube" (dict (dict (dict (ref "Node")))) false false -) (field "items" (array (ref "Node")) false false -))) ("Node" (struct (field "v" (int 64 true - -) false false -))))`,
		Docs: []string{`{"name":"x","cube":{"a":{"b":{"c":{"v":1},"d":{"v":2}},"e":{"f":{"v":3},"c":{"v":5}}},"g":{"h":{"i":{"v":4}},"b":{"c":{"v":6}}}}}`, `{"name":"x","cube":{"a":{"a":{"a":{"v":1}}}}}`, `{"name":"x","cube":{}}`}},
	{Name: "string-patterns-with-metacharacters", Formats: []string{"jsonschema", "openapi"},
		Sexp: `(defs "Root" ("Root" (struct (field "name" (string - - false) true false -) (field "mode" (string - - false) true false -) (field "alt" (string - - false) true false -) (field "dot" (string - - false) false false -) (field "plus" (string - - false) false false -) (field "cls" (string - - false) false false -))))`,
		Text: map[string]string{
			"jsonschema": `{"$schema":"http://json-schema.org/draft-07/schema#","$ref":"#/definitions/Root","definitions":{"Root":` + c11PatternRoot + `}}`,
			"openapi":    `{"openapi":"3.0.0","info":{"title":"Root","version":"0.0"},"paths":{},"components":{"schemas":{"Root":` + c11PatternRoot + `}}}`,
		},
		Docs: []string{`{"name":"x","mode":"instant","alt":"ac"}`, `{"name":"x","mode":"range","alt":"bc","dot":"xyz","plus":"abbb","cls":"qx"}`, `{"name":"y","mode":"instant","alt":"bc","dot":"x.z","plus":"ab","cls":"ax"}`}},
	{Name: "enum-and-nested",
		Sexp: `(defs "Root" ("Root" (struct (field "e" (ref "Color") true false -) (field "inl" (enumS "p" "q") false false -) (field "list" (array (ref "Node")) true false -) (field "byKey" (dict (ref "Node")) false false -))) ("Color" (enumS "red" "green")) ("Node" (struct (field "v" (int 64 true - -) false false -) (field "next" (ref "Node") false false -))))`,
		Docs: []string{`{"e":"green","inl":"q","list":[{"v":1,"next":{"v":2}},{}],"byKey":{"k":{"v":3}}}`, `{"e":"red","list":[]}`}},
}

// c11Short: at most 60 runes of a value's JSON text (never cuts a multi-byte character)
func c11Short(v JV) string {
	r := []rune(v.json())
	if len(r) > 60 {
		return string(r[:60]) + "…"
	}
	return string(r)
}

// string members declared with anchored patterns that are NOT constants (alternation, `.`, `+`, a
// class, a group): the front-ends must keep them as strings (only `^literal$` is read as a constant)
const c11PatternRoot = `{"type":"object","additionalProperties":false,"required":["name","mode","alt"],"properties":{` +
	`"name":{"type":"string"},"mode":{"type":"string","pattern":"^instant|range$"},"alt":{"type":"string","pattern":"^(a|b)c$"},` +
	`"dot":{"type":"string","pattern":"^x.z$"},"plus":{"type":"string","pattern":"^ab+$"},"cls":{"type":"string","pattern":"^[a-z]x$"}}}`

var c11ExcRe = regexp.MustCompile(`^err ([A-Za-z_.]+)`)

// paths of the document's null-valued members, in document order
func c11NullPaths(v JV, path string, out *[]string) {
	switch v.K {
	case 'o':
		for _, e := range v.O {
			p := path + "." + e.K
			if e.V.isNull() {
				*out = append(*out, p)
			}
			c11NullPaths(e.V, p, out)
		}
	case 'a':
		for i, e := range v.A {
			c11NullPaths(e, fmt.Sprintf("%s[%d]", path, i), out)
		}
	}
}

// c11PathSteps splits "$.a.b[0].c" into steps (".a" → key "a", "[0]" → index 0)
type c11Step struct {
	key string
	idx int // -1 for a key step
}

func c11PathSteps(path string) []c11Step {
	var out []c11Step
	i := 1
	for i < len(path) {
		switch path[i] {
		case '.':
			j := i + 1
			for j < len(path) && path[j] != '.' && path[j] != '[' {
				j++
			}
			out = append(out, c11Step{path[i+1 : j], -1})
			i = j
		case '[':
			j := i
			for j < len(path) && path[j] != ']' {
				j++
			}
			n := 0
			fmt.Sscanf(path[i+1:j], "%d", &n)
			out = append(out, c11Step{"", n})
			i = j + 1
		default:
			i = len(path)
		}
	}
	return out
}

// c11Lookup: the value at a path and whether every step exists in the document
func c11Lookup(doc JV, path string) (JV, bool) {
	cur := doc
	for _, st := range c11PathSteps(path) {
		if st.idx < 0 {
			v, ok := cur.get(st.key)
			if !ok {
				return jNull(), false
			}
			cur = v
		} else {
			if cur.K != 'a' || st.idx >= len(cur.A) {
				return jNull(), false
			}
			cur = cur.A[st.idx]
		}
	}
	return cur, true
}

// c11SrcNode: the source construct a document path leads to (nil when the walk leaves the grammar)
func c11SrcNode(d *Defs, doc JV, path string) *Src {
	cur := d.resolve(srcRef(d.Root))
	node := doc
	for _, st := range c11PathSteps(path) {
		if cur == nil {
			return nil
		}
		if st.idx >= 0 {
			if cur.Kind != SArray {
				return nil
			}
			if node.K == 'a' && st.idx < len(node.A) {
				node = node.A[st.idx]
			} else {
				node = jNull()
			}
			cur = d.resolve(cur.Elem)
			continue
		}
		parent := node
		if child, ok := node.get(st.key); ok {
			node = child
		} else {
			node = jNull()
		}
		switch cur.Kind {
		case SDict:
			cur = d.resolve(cur.Elem)
		case SStruct:
			var next *Src
			for _, f := range cur.Fields {
				if f.Name == st.key {
					next = f.Ty
				}
			}
			cur = d.resolve(next)
		case SOneOfStructs:
			tag := ""
			if tv, ok := parent.get(cur.Disc); ok && tv.K == 's' {
				tag = tv.S
			}
			var next *Src
			for _, br := range cur.Branches {
				if br.Tag != tag {
					continue
				}
				if bs := d.resolve(srcRef(br.Name)); bs != nil && bs.Kind == SStruct {
					for _, f := range bs.Fields {
						if f.Name == st.key {
							next = f.Ty
						}
					}
				}
			}
			cur = d.resolve(next)
		default:
			return nil
		}
	}
	return cur
}

// a type admitting exactly one value: cog's front-ends read it as a constant
func c11OneValued(s *Src) bool {
	if s == nil {
		return false
	}
	switch s.Kind {
	case SConst:
		return true
	case SEnumS:
		return len(s.EnumS) == 1
	case SEnumI:
		return len(s.EnumI) == 1
	case SInt:
		lo, hi := s.effRange()
		return lo == hi
	case SNum:
		return s.FLo != nil && s.FHi != nil && *s.FLo == *s.FHi
	}
	return false
}

// c11At: c01SrcAt, with a one-valued leaf type spelled `const(<type>)`
func c11At(d *Defs, doc JV, path string) string {
	at := c01SrcAt(d, doc, path)
	n := c11SrcNode(d, doc, path)
	// a collection of date-time strings: CUE's `time.Time` arrives as a reference to a `Time` object,
	// so the element is not a scalar for the Python jenny — spell the leaf `datetime`
	if n != nil && (n.Kind == SArray || n.Kind == SDict) {
		in := n
		for i := 0; i < 6 && in != nil && (in.Kind == SArray || in.Kind == SDict); i++ {
			in = d.resolve(in.Elem)
		}
		if in != nil && in.Kind == SString && in.DateTime {
			if i := strings.LastIndex(at, "/"); i >= 0 {
				at = at[:i+1] + strings.Replace(at[i+1:], "string", "datetime", 1)
			} else {
				at = strings.Replace(at, "string", "datetime", 1)
			}
		}
	}
	// a collection whose element is a REFERENCE to a scalar definition (`#Link: string`, `[string]: #Link`):
	// the element kind is `ref`, not `scalar`, for the Python jenny — spell the element `alias(<type>)`
	if n != nil && (n.Kind == SArray || n.Kind == SDict) && n.Elem != nil && n.Elem.Kind == SRef {
		if r := d.resolve(n.Elem); r != nil {
			switch r.Kind {
			case SAny, SBool, SString, SConst, SInt, SNum:
				if i := strings.LastIndex(at, "/"); i >= 0 {
					seg := at[i+1:]
					if j := strings.Index(seg, "("); j >= 0 && strings.HasSuffix(seg, ")") {
						at = at[:i+1] + seg[:j+1] + "alias(" + seg[j+1:] + ")"
					}
				}
			}
		}
	}
	if n != nil && n.Kind != SConst && c11OneValued(n) {
		if i := strings.LastIndex(at, "/"); i >= 0 {
			return at[:i+1] + "const(" + at[i+1:] + ")"
		}
		return "const(" + at + ")"
	}
	return at
}

// c11KeepOnlyNull: the document without its null members, except the one at `keep`
func c11KeepOnlyNull(v JV, cur, keep string) JV {
	switch v.K {
	case 'o':
		out := jObj()
		for _, e := range v.O {
			p := cur + "." + e.K
			if e.V.isNull() {
				if p == keep {
					out.O = append(out.O, JKV{e.K, jNull()})
				}
				continue
			}
			out.O = append(out.O, JKV{e.K, c11KeepOnlyNull(e.V, p, keep)})
		}
		return out
	case 'a':
		out := jArr()
		for i, e := range v.A {
			out.A = append(out.A, c11KeepOnlyNull(e, fmt.Sprintf("%s[%d]", cur, i), keep))
		}
		return out
	}
	return v.clone()
}

// first path at which a dict sits directly in a dict whose values are not scalars (the construct
// whose generated comprehension shadows `key`)
func c11NestedDict(d *Defs, doc JV) (string, bool) {
	var walk func(v JV, path string) (string, bool)
	walk = func(v JV, path string) (string, bool) {
		if n := c11SrcNode(d, doc, path); n != nil && n.Kind == SDict && v.K == 'o' {
			if e := d.resolve(n.Elem); e != nil && e.Kind == SDict {
				if ee := d.resolve(e.Elem); ee != nil && !c11PyScalar(d, ee) && len(v.O) > 0 {
					return path, true
				}
			}
		}
		switch v.K {
		case 'o':
			for _, e := range v.O {
				if p, ok := walk(e.V, path+"."+e.K); ok {
					return p, true
				}
			}
		case 'a':
			for i, e := range v.A {
				if p, ok := walk(e, fmt.Sprintf("%s[%d]", path, i)); ok {
					return p, true
				}
			}
		}
		return "", false
	}
	return walk(doc, "$")
}

// scalar in the sense of the Python jenny's `IsArrayOf/IsMapOf(KindScalar)`: enums with several
// members are a kind of their own
func c11PyScalar(d *Defs, e *Src) bool {
	e = d.resolve(e)
	if e == nil {
		return true
	}
	switch e.Kind {
	case SAny, SBool, SString, SConst, SInt, SNum:
		return true
	}
	// enums: a kind of their own (a one-member enum is read as a constant by CUE only); this function is
	// only used to look for the site of an exception that no explicit null explains, so "maybe" is enough
	return false
}

func c11Class(orig, got JV, origPresent bool) string {
	switch {
	case (got.K == 'a' && len(got.A) == 0 || got.K == 'o' && len(got.O) == 0) && orig.isNull():
		return "empty-collection-kept"
	case orig.isNull() && !got.isNull() && origPresent:
		return "null-member-replaced"
	case orig.isNull() && !got.isNull():
		return "absent-member-emitted"
	case (orig.K == 'a' && len(orig.A) == 0 || orig.K == 'o' && len(orig.O) == 0) && got.isNull():
		return "empty-collection-dropped"
	}
	return c01Class(orig, got)
}

// class of a Python/Go difference at a path, relative to the document both were given
func c11ClassB(doc JV, path string, py, gov JV) string {
	dv, present := c11Lookup(doc, path)
	same := func(a, b JV) bool { _, _, _, diff := c01Diff(a, b, "$"); return !diff }
	switch {
	case (py.K == 'a' && len(py.A) == 0 || py.K == 'o' && len(py.O) == 0) && gov.isNull():
		return "empty-collection-only-in-python"
	case gov.isNull() && !py.isNull() && present && !dv.isNull() && same(dv, py):
		return "go-lacks-document-member"
	case gov.isNull() && !py.isNull() && present && dv.isNull():
		return "python-replaces-null"
	case gov.isNull() && !py.isNull() && !present:
		return "python-adds-member"
	case py.isNull() && !gov.isNull() && present && same(dv, gov):
		return "python-lacks-document-member"
	case py.isNull() && !gov.isNull():
		return "go-adds-member"
	case present && same(dv, py):
		return "go-changes-value:" + c01Class(py, gov)
	case present && same(dv, gov):
		return "python-changes-value:" + c01Class(gov, py)
	}
	return "both-differ:" + c01Class(py, gov)
}

// members that are null in `got` and do not exist in `ref`
func c11AddedNull(ref, got JV, path string) (string, bool) {
	switch got.K {
	case 'o':
		for _, e := range got.O {
			r, ok := ref.get(e.K)
			p := path + "." + e.K
			if e.V.isNull() {
				if !ok {
					return p, true
				}
				continue
			}
			if ok {
				if q, bad := c11AddedNull(r, e.V, p); bad {
					return q, true
				}
			}
		}
	case 'a':
		if ref.K == 'a' && len(ref.A) == len(got.A) {
			for i := range got.A {
				if q, bad := c11AddedNull(ref.A[i], got.A[i], fmt.Sprintf("%s[%d]", path, i)); bad {
					return q, true
				}
			}
		}
	}
	return "", false
}

type c11Doc struct {
	c      *LabCase
	d      JV
	py, gd string
	valid  bool
	rvErr  string
	blame  []string // null paths that raise on their own
}

func init() {
	register("c11-rows", func(args map[string]string, out *bufio.Writer) error {
		if _, ok := args["n"]; !ok {
			args["n"] = "24"
		}
		seed := uint64(argInt(args, "seed", 1))
		ndocs := argInt(args, "docs", 30)
		opts := defaultLabOpts()
		opts.Degrade = argInt(args, "degrade", opts.Degrade)
		opts.Keep = args["keep"] == "1"
		lab, err := NewLab(labWorkDir("c11-"+args["seed"]+"-"+args["tier"]), opts)
		if err != nil {
			return err
		}
		defer lab.Close()
		docs := map[string][]JV{}
		pinOf := map[string]string{}
		hist, dhist := map[string]int{}, map[string]int{}
		var cases []*LabCase
		// pinned corpus first
		if args["pins"] != "0" {
			for _, p := range c11Pins {
				if only, ok := args["pin"]; ok && only != p.Name {
					continue
				}
				d, perr := parseDefsSexp(p.Sexp)
				if perr != nil {
					return fmt.Errorf("pin %s: %w", p.Name, perr)
				}
				fs := p.Formats
				if fs == nil {
					fs = labFormats
				}
				for _, f := range fs {
					if only, ok := args["format"]; ok && only != f {
						continue
					}
					var c *LabCase
					if txt := p.Text[f]; txt != "" {
						c = lab.AddCaseText(f, txt, d) // hand-written schema text; d is its semantic reading
					} else {
						c = lab.AddCase(d, f)
					}
					cases = append(cases, c)
					pinOf[c.ID] = p.Name
					for _, dt := range p.Docs {
						docs[c.ID] = append(docs[c.ID], mustJV(dt))
					}
					if p.Typed && p.Text[f] == "" {
						// the same term with constants spelled `{"type": …, "const": v}` (c11_round4.go)
						if ct := c11AddTyped(lab, d, f); ct != nil {
							cases = append(cases, ct)
							pinOf[ct.ID] = p.Name + "/typed"
							docs[ct.ID] = append(docs[ct.ID], docs[c.ID]...)
						}
					}
				}
			}
		}
		if rp, ok := args["replay"]; ok {
			// one case from a replay file: line 1 = format, line 2 = Src term, further lines = documents
			lines := readLines(rp)
			if len(lines) < 3 {
				return fmt.Errorf("replay file %s: want format, term, documents", rp)
			}
			d, perr := parseDefsSexp(lines[1])
			if perr != nil {
				return fmt.Errorf("replay term: %w", perr)
			}
			c := lab.AddCase(d, lines[0])
			cases = append(cases, c)
			pinOf[c.ID] = "replay"
			for _, dt := range lines[2:] {
				if strings.TrimSpace(dt) != "" {
					docs[c.ID] = append(docs[c.ID], mustJV(dt))
				}
			}
			// and in the typed spelling of constants (a failure found on a `…/typed` case replays there)
			if ct := c11AddTyped(lab, d, lines[0]); ct != nil {
				cases = append(cases, ct)
				pinOf[ct.ID] = "replay/typed"
				docs[ct.ID] = append(docs[ct.ID], docs[c.ID]...)
			}
		}
		// members pinned to enum members (constant references; CUE only): generated schema text
		npinned := argInt(args, "pinned", 0)
		if only, ok := args["format"]; ok && only != "cue" {
			npinned = 0
		}
		for i := 0; i < npinned; i++ {
			d, text := c11GenPinned(seed, i)
			d.walkTags(func(t string) { hist[t]++ })
			hist["pinned-enum-member"]++
			c := lab.AddCaseText("cue", text, d)
			cases = append(cases, c)
			pinOf[c.ID] = fmt.Sprintf("pinned%d", i)
			r := newRng(seed*7919 + uint64(i)*131 + 17)
			docs[c.ID] = append(docs[c.ID], c11FullDoc(d, r))
			dg := newDocGen(d, r, defaultDocOpts())
			for k := 1; k < ndocs; k++ {
				docs[c.ID] = append(docs[c.ID], dg.validDoc())
			}
			for k, v := range dg.tags {
				dhist[k] += v
			}
		}
		// collections reached through named aliases + integers no float64 holds exactly (c11_round4.go)
		for i, nal := 0, argInt(args, "aliased", 0); i < nal; i++ {
			d, big := c11GenRound4(seed, i)
			for _, f := range labFormats {
				if only, ok := args["format"]; ok && only != f {
					continue
				}
				if big && f == "openapi" {
					continue // kin-openapi reads every number as float64: recorded under C10/C12, pinned here (bigint-*)
				}
				var c *LabCase
				if i%2 == 1 {
					c = c11AddTyped(lab, d, f) // constants in the typed spelling
				}
				if c == nil {
					c = lab.AddCase(d, f)
				} else {
					hist["const.typed-spelling"]++
				}
				cases = append(cases, c)
				pinOf[c.ID] = fmt.Sprintf("aliased%d", i)
				if c.Defs == nil {
					continue
				}
				c.Defs.walkTags(func(t string) { hist[t]++ })
				hist["alias-collection"]++
				if big {
					hist["bigint"]++
				}
				dg := newDocGen(c.Defs, newRng(seed*7919+uint64(i)*53+23), defaultDocOpts())
				docs[c.ID] = append(docs[c.ID], c11RichDoc(c.Defs, dg, false), c11RichDoc(c.Defs, dg, true))
				for k := 2; k < ndocs; k++ {
					docs[c.ID] = append(docs[c.ID], c11LevelKeys(c.Defs, srcRef(c.Defs.Root), dg.validDoc(), 0, 32))
				}
				for k, v := range dg.tags {
					dhist[k] += v
				}
			}
		}
		if args["n"] != "0" {
			err = iterDefs(args, func(i int, d *Defs) error {
				d.walkTags(func(t string) { hist[t]++ })
				for _, f := range labFormats {
					if only, ok := args["format"]; ok && only != f {
						continue
					}
					// C11 only needs the Go decoder: Equals/Validate are switched off for part of the
					// terms, so that a Go package which only fails to compile in those methods still
					// shows its wire behaviour (coordinator edit)
					c := lab.AddCaseWith(d, f, labFlagMix(i, defaultGoFlags()), false, false)
					cases = append(cases, c)
					if c.Defs == nil {
						continue
					}
					dg := newDocGen(c.Defs, newRng(seed*7919+uint64(i)*31+5), defaultDocOpts())
					for k := 0; k < ndocs; k++ {
						docs[c.ID] = append(docs[c.ID], dg.validDoc())
					}
					for k, v := range dg.tags {
						dhist[k] += v
					}
				}
				return nil
			})
			if err != nil {
				return err
			}
		}
		if err := lab.Build(); err != nil {
			return err
		}
		// ---- phase 1: every document through real Python and real Go
		var goReqs, pyReqs []LabReq
		usable := func(c *LabCase) bool { return c.Defs != nil && c.generated() && c.PyOK }
		var all []*c11Doc
		byCase := map[string][]*c11Doc{}
		for _, c := range cases {
			if !usable(c) {
				continue
			}
			rv, rvErr := c.RefValidator("")
			for _, d := range docs[c.ID] {
				x := &c11Doc{c: c, d: d, gd: "notbuilt"}
				if rvErr != nil {
					x.rvErr = "no-reference-validator " + labOneLine(rvErr.Error())
				} else if err := rv.validate(d); err != nil {
					x.rvErr = "doc-rejected-by-reference-validator " + labOneLine(shortErr(err))
				} else {
					x.valid = true
				}
				all = append(all, x)
				byCase[c.ID] = append(byCase[c.ID], x)
				pyReqs = append(pyReqs, LabReq{c.ID, c.Defs.Root, "roundtrip", []string{d.json()}})
				if c.GoOK {
					goReqs = append(goReqs, LabReq{c.ID, c.Defs.Root, "dec", []string{d.json()}})
				}
			}
		}
		pyRep := lab.PyCall(pyReqs)
		goRep := lab.GoCall(goReqs)
		gi := 0
		for i, x := range all {
			x.py = pyRep[i]
			if x.c.GoOK {
				x.gd = goRep[gi]
				gi++
			}
		}
		// ---- phase 2: blame. For every document Python refuses: which explicit null raises on its own
		// (the document without its null members, that one null put back)?
		type cand struct {
			x    *c11Doc
			path string
		}
		var cands []cand
		var blameReqs []LabReq
		for _, x := range all {
			if !x.valid || strings.HasPrefix(x.py, "ok ") {
				continue
			}
			var ps []string
			c11NullPaths(x.d, "$", &ps)
			// baseline: without any null member (path "" never matches)
			cands = append(cands, cand{x, ""})
			blameReqs = append(blameReqs, LabReq{x.c.ID, x.c.Defs.Root, "roundtrip", []string{c11KeepOnlyNull(x.d, "$", "").json()}})
			for _, p := range ps {
				cands = append(cands, cand{x, p})
				blameReqs = append(blameReqs, LabReq{x.c.ID, x.c.Defs.Root, "roundtrip", []string{c11KeepOnlyNull(x.d, "$", p).json()}})
			}
		}
		if len(blameReqs) > 0 {
			rep := lab.PyCall(blameReqs)
			baselineFails := map[*c11Doc]bool{}
			for i, cd := range cands {
				if strings.HasPrefix(rep[i], "ok ") {
					continue
				}
				if cd.path == "" {
					baselineFails[cd.x] = true // raises without any null: the nulls are not to blame
				} else if !baselineFails[cd.x] {
					// several nulls may raise on their own: the one that raises what the whole document
					// raised goes first
					if rep[i] == cd.x.py {
						cd.x.blame = append([]string{cd.path}, cd.x.blame...)
					} else {
						cd.x.blame = append(cd.x.blame, cd.path)
					}
				}
			}
		}
		// ---- rows
		counts := map[string]int{}
		for _, c := range cases {
			switch {
			case c.Defs == nil || len(c.Unsupported) > 0:
				fmt.Fprintf(out, "-\tskip %s unsupported-by-format %s\tok\n", c.ID, labOneLine(strings.Join(c.Unsupported, ",")))
				continue
			case c.GenErr != "":
				fmt.Fprintf(out, "-\tskip %s generr %s\tok\n", c.ID, labOneLine(c.GenErr))
				continue
			case !c.PyOK:
				fmt.Fprintf(out, "-\tskip %s pyimport %s\tok\n", c.ID, labOneLine(c.PyImportErr))
				continue
			}
			pin := ""
			if pinOf[c.ID] != "" {
				pin = " pin=" + pinOf[c.ID]
			}
			goVerdict := "ok"
			if !c.GoOK && c.generated() && pinOf[c.ID] == "" {
				// the run reported success but the generated Go does not compile: the Go SDK can
				// not read what the Python SDK writes (coordinator edit)
				goVerdict = "FAIL generated-go-does-not-compile case=" + c.ID + " format=" + c.Format + " " + labOneLine(labFirstLine(c.GoCompileErr))
			}
			fmt.Fprintf(out, "-\tcase %s format=%s%s go=%v sameIR=%v degraded=%v notes=%v src=%s\t%s\n", c.ID, c.Format, pin, c.GoOK,
				virSchemas(c.IRPy) == virSchemas(c.IRGo), c.Degraded, c.Notes, c.Defs.sexp(), goVerdict)
			if c.IRPyErr != "" {
				fmt.Fprintf(out, "-\tskip %s no-python-ir %s\tok\n", c.ID, labOneLine(c.IRPyErr))
			}
			fmt.Fprintf(out, "defschemas %s-py %s\tok\tok\n", c.ID, virSchemas(c.IRPy))
			if c.GoOK {
				fmt.Fprintf(out, "defschemas %s-go %s\tok\tok\n", c.ID, virSchemas(c.IRGo))
			}
			rv, _ := c.RefValidator("")
			for _, x := range byCase[c.ID] {
				d, py, goDec := x.d, x.py, x.gd
				info := fmt.Sprintf("case=%s format=%s%s", c.ID, c.Format, pin)
				if !x.valid {
					counts[strings.SplitN(x.rvErr, " ", 2)[0]]++
					fmt.Fprintf(out, "-\tskip %s %s\tok\n", c.ID, x.rvErr)
					continue
				}
				counts["documents"]++
				// ---- oracle A: Python round trip reproduces the document
				verdict, impl := "ok", "err"
				var pyOut JV
				pyOK := false
				switch {
				case !strings.HasPrefix(py, "ok "):
					exc := "?"
					if m := c11ExcRe.FindStringSubmatch(py); m != nil {
						exc = m[1]
					}
					p, at := "$", "no-single-null-raises"
					if len(x.blame) > 0 {
						p = x.blame[0]
						at = c11At(c.Defs, d, p)
					} else if np, ok := c11NestedDict(c.Defs, d); ok {
						p = np
						at = c11At(c.Defs, d, np) + "/nested-dict"
					}
					verdict = fmt.Sprintf("FAIL py-error class=%s at=%s %s path=%s reply=%s", exc, at, info, p, labOneLine(py))
				default:
					impl = py
					got, perr := parseJV([]byte(strings.TrimPrefix(py, "ok ")))
					if perr != nil {
						verdict = "FAIL py-reenc-invalid-json " + info
						break
					}
					pyOut, pyOK = got, true
					if p, xo, y, diff := c01Diff(d, got, "$"); diff {
						_, present := c11Lookup(d, p)
						cls := c11Class(xo, y, present)
						if decl := c11AlteredDefault(c.Defs, d, p, y); decl != "" && cls == "absent-member-emitted" {
							cls = "absent-member-emitted-with-altered-default declared=" + decl
						}
						verdict = fmt.Sprintf("FAIL py-reenc-differs class=%s at=%s %s path=%s orig=%s got=%s", cls, c11At(c.Defs, d, p), info, p, c11Short(xo), c11Short(y))
					} else if p, bad := c11AddedNull(d, got, "$"); bad {
						verdict = fmt.Sprintf("FAIL py-reenc-differs class=null-member-added at=%s %s path=%s", c11At(c.Defs, d, p), info, p)
					} else if err := rv.validate(got); err != nil {
						verdict = "FAIL py-reenc-rejected-by-source-schema " + info + " " + labOneLine(shortErr(err))
					}
				}
				if verdict != "ok" {
					counts["A-fail"]++
				}
				fmt.Fprintf(out, "pyroundtrip %s-py %s %s %s\t%s\t%s\n", c.ID, c.ID, c.Defs.Root, d.sexp(), impl, verdict)
				// ---- oracle B: the JSON Python produces equals the JSON Go produces
				if !c.GoOK {
					counts["B-no-go"]++
					continue
				}
				verdictB, implB := "ok", "na"
				switch {
				case !pyOK:
					// already reported by A
				case !strings.HasPrefix(goDec, "ok "):
					// Go refuses the document: C01's business, no Go output to compare with
					counts["B-go-error"]++
				default:
					goOut, perr := parseJV([]byte(strings.TrimPrefix(goDec, "ok ")))
					if perr != nil {
						verdictB = "FAIL go-output-invalid-json " + info
						break
					}
					if p, xp, y, diff := c01Diff(pyOut, goOut, "$"); diff {
						implB = "differ"
						// xp = Python's value, y = Go's value at the first differing path
						verdictB = fmt.Sprintf("FAIL py-go-differ class=%s at=%s %s path=%s py=%s go=%s", c11ClassB(d, p, xp, y), c11At(c.Defs, d, p), info, p, c11Short(xp), c11Short(y))
					} else {
						implB = "same"
						if canonJSON([]byte(pyOut.json())) != canonJSON([]byte(goOut.json())) {
							p, bad := c11AddedNull(goOut, pyOut, "$")
							side := "python"
							if !bad {
								p, _ = c11AddedNull(pyOut, goOut, "$")
								side = "go"
							}
							verdictB = fmt.Sprintf("FAIL py-go-differ class=null-member-only-in-%s at=%s %s path=%s", side, c11At(c.Defs, d, p), info, p)
						}
					}
				}
				if verdictB != "ok" {
					counts["B-fail"]++
				}
				if implB != "na" && c11EmptyBehindOptionalAlias(c.Defs, srcRef(c.Defs.Root), d, 32) {
					implB += " go-model-limit=empty-collection-behind-optional-alias" // see c11_round4.go
				}
				fmt.Fprintf(out, "c11agree %s-py %s-go %s %s %s\t%s\t%s\n", c.ID, c.ID, c.ID, c.Defs.Root, d.sexp(), implB, verdictB)
			}
		}
		ks := make([]string, 0, len(counts))
		for k := range counts {
			ks = append(ks, k)
		}
		sort.Strings(ks)
		cs := []string{}
		for _, k := range ks {
			cs = append(cs, fmt.Sprintf("%s=%d", k, counts[k]))
		}
		fmt.Fprintf(out, "-\tstats %s blame-requests=%d timings=%s constructs=%v docvariants=%v\tok\n", strings.Join(cs, " "), len(blameReqs), fmtTimings(lab.Timings), hist, dhist)
		return nil
	})
}
