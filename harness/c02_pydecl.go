package main

// C02, Python declaration fragment: correspondence stream c02-pydecl.
//
// Each case runs the REAL pipeline (types only, python only, generate_json_marshaller off: the emitted
// models/<pkg>.py then is exactly what rawtypes.go / types.go / tools.go / imports.go print from Go code:
// import block, classes, members, enum members, aliases, constants, __init__) on
//   * directly constructed IR (the generic generator, schema-like profile or raw),
//   * generated Src terms rendered to the three input formats,
//   * pinned witnesses (c02PyDeclPinned).
// Rows:
//   defschemas <id> <vir of the IR the Python jennies see>   \t ok \t ok
//   pydecl <id> <pkg>   \t <cpython verdict> <module text, \-escaped>   \t oracle
// cpython verdict: ok | <ExceptionClass>:<message> — compile(src) and a fresh import of the module (CPython
// executes the class statements) in one python process per stream.
// The extractor REFUSES a module it does not understand: anything but the header comment followed by the text,
// or a `def` other than __init__ (custom template blocks), gives a `skip … refused` row.

import (
	"bufio"
	"context"
	"encoding/json"
	"fmt"
	"os"
	"path/filepath"
	"sort"
	"strings"
	"time"

	"github.com/grafana/cog/internal/ast"
	"github.com/grafana/cog/internal/codegen"
)

const c02PyDeclDriver = `
import sys, json, importlib, traceback
spec = json.load(open(sys.argv[1]))
res = {}
def purge():
    for k in list(sys.modules):
        if k == "labpy" or k.startswith("labpy."):
            del sys.modules[k]
for cid, c in spec.items():
    root = c["root"]
    out = {}
    for pkg, path in c["mods"].items():
        verdict = "ok"
        try:
            src = open(path, encoding="utf-8").read()
            compile(src, path, "exec")
        except SyntaxError as e:
            verdict = "%s:%s" % (type(e).__name__, e.msg)
        except Exception as e:
            verdict = "%s:%s" % (type(e).__name__, e)
        if verdict == "ok":
            purge()
            sys.path.insert(0, root)
            importlib.invalidate_caches()
            try:
                importlib.import_module("labpy.models." + pkg)
            except SyntaxError as e:
                verdict = "%s:%s (in %s)" % (type(e).__name__, e.msg, (e.filename or "").split("/")[-1])
            except BaseException as e:
                verdict = "%s:%s" % (type(e).__name__, e)
            finally:
                sys.path.remove(root)
                purge()
        out[pkg] = " ".join(verdict.split())
    res[cid] = out
print(json.dumps(res))
`

type c02PyDeclCase struct {
	ID     string
	Origin string
	IR     ast.Schemas // nil: Src case
	Format string
	Path   string
	Pkg    string
	Pinned string
	Post   ast.Schemas
	Files  map[string][]byte
	Err    string
	Mods   map[string]string // pkg -> text
}

func c02PostChainLang(p *codegen.Pipeline, lang string) (schemas ast.Schemas, err error) {
	defer func() {
		if rec := recover(); rec != nil {
			err = fmt.Errorf("PANIC: %v", rec)
		}
	}()
	loaded, err := p.LoadSchemas(context.Background())
	if err != nil {
		return nil, err
	}
	langs, err := p.OutputLanguages()
	if err != nil {
		return nil, err
	}
	target, ok := langs[lang]
	if !ok {
		return nil, fmt.Errorf("%s is not configured", lang)
	}
	ctx, err := p.ContextForLanguage(target, loaded)
	if err != nil {
		return nil, err
	}
	return ctx.Schemas, nil
}

func c02PyEsc(s string) string {
	r := strings.NewReplacer("\\", "\\\\", "\n", "\\n", "\t", "\\t", "\r", "\\r")
	return r.Replace(s)
}

// c02PyDeclExtract: the module text without the generated-comment header; refuses what it does not understand.
func c02PyDeclExtract(src string) (string, error) {
	const head = "# Code generated - EDITING IS FUTILE. DO NOT EDIT.\n"
	if !strings.HasPrefix(src, head) {
		return "", fmt.Errorf("no generated-comment header")
	}
	rest := src[len(head):]
	if !strings.HasPrefix(rest, "\n") {
		return "", fmt.Errorf("header is not followed by a blank line")
	}
	rest = rest[1:]
	for _, line := range strings.Split(rest, "\n") {
		t := strings.TrimSpace(line)
		if strings.HasPrefix(t, "def ") && !strings.HasPrefix(t, "def __init__(self, ") {
			return "", fmt.Errorf("a def other than __init__: %s", t)
		}
		if strings.HasPrefix(t, "@") {
			return "", fmt.Errorf("a decorator: %s", t)
		}
	}
	return rest, nil
}

func c02PyDeclRun(c *c02PyDeclCase, work string) error {
	opts := c02Opts{Types: true, Langs: []string{"python"}, LangMarshal: false}
	build := func() (*codegen.Pipeline, error) {
		if c.IR != nil {
			return c02Pipeline("", "", "", c.IR, opts, work)
		}
		return c02Pipeline(c.Format, c.Path, c.Pkg, nil, opts, work)
	}
	p, err := build()
	if err != nil {
		return err
	}
	files, err := c02Run(p)
	if err != nil {
		c.Err = "generr " + labOneLine(err.Error())
		return nil
	}
	c.Files = files
	p2, err := build()
	if err != nil {
		return err
	}
	post, err := c02PostChainLang(p2, "python")
	if err != nil {
		c.Err = "posterr " + labOneLine(err.Error())
		return nil
	}
	c.Post = post
	c.Mods = map[string]string{}
	return nil
}

func init() {
	// c02-pydecl: orchestrator. A fatal error of the Go runtime inside a pass or a jenny (stack overflow on a
	// reference cycle: C04's subject) cannot be recovered in-process: the parts run in child processes; a
	// chunk of IR cases whose child dies is re-run case by case and the dying case is reported as skipped.
	register("c02-pydecl", func(args map[string]string, out *bufio.Writer) error {
		self, err := os.Executable()
		if err != nil {
			return err
		}
		pass := func(part string, from, n int) []string {
			a := []string{"c02-pydecl-part", "part=" + part, fmt.Sprintf("from=%d", from), fmt.Sprintf("n=%d", n)}
			for _, k := range []string{"seed", "tier", "profile", "hints", "file"} {
				if v, ok := args[k]; ok {
					a = append(a, k+"="+v)
				}
			}
			return a
		}
		if _, ok := args["file"]; ok {
			stdout, stderr, err := c02RunSplit(10*time.Minute, self, pass("file", 0, 0)...)
			if err != nil {
				return fmt.Errorf("replay failed: %v\n%s", err, c02Tail(stderr, 2000))
			}
			out.WriteString(stdout)
			return nil
		}
		n := argInt(args, "n", 20)
		from := argInt(args, "from", 0)
		for _, part := range []string{"pinned", "src"} {
			stdout, stderr, err := c02RunSplit(10*time.Minute, self, pass(part, from, argInt(args, "nsrc", n/2))...)
			if err != nil {
				return fmt.Errorf("c02-pydecl-part %s failed: %v\n%s", part, err, c02Tail(stderr, 2000))
			}
			out.WriteString(stdout)
		}
		const chunk = 25
		for lo := from; lo < from+n; lo += chunk {
			k := chunk
			if lo+k > from+n {
				k = from + n - lo
			}
			stdout, _, err := c02RunSplit(10*time.Minute, self, pass("ir", lo, k)...)
			if err == nil {
				out.WriteString(stdout)
				continue
			}
			for i := lo; i < lo+k; i++ {
				stdout, stderr, err := c02RunSplit(5*time.Minute, self, pass("ir", i, 1)...)
				if err == nil {
					out.WriteString(stdout)
					continue
				}
				why := "died or did not return"
				if strings.Contains(stderr, "stack overflow") {
					why = "fatal error: stack overflow"
				}
				fmt.Fprintf(out, "-\tskip i%d ir not-run: the pipeline %s on this IR (C04's subject)\tok\n", i, why)
			}
		}
		return nil
	})
	register("c02-pydecl-part", func(args map[string]string, out *bufio.Writer) error {
		work := labWorkDir("c02pydecl")
		defer os.RemoveAll(work)
		n := argInt(args, "n", 20)
		from := argInt(args, "from", 0)
		part := args["part"]
		cases := []*c02PyDeclCase{}
		if path := args["file"]; part == "file" {
			// replay: one schema set in VIR
			raw, err := os.ReadFile(path)
			if err != nil {
				return err
			}
			ir, err := c05DecodeSchemas(strings.TrimSpace(string(raw)))
			if err != nil {
				return err
			}
			cases = append(cases, &c02PyDeclCase{ID: "replay", Origin: "replay", IR: ir})
		} else if part == "pinned" {
			for _, pc := range c02PyDeclPinned() {
				cases = append(cases, pc)
			}
		} else if part == "ir" {
			for i := from; i < from+n; i++ {
				ir, _, _ := c02IRInput(args, i)
				c := &c02PyDeclCase{ID: fmt.Sprintf("i%d", i), Origin: "ir", IR: ir}
				if c02HasAliasCycle(ir) {
					c.Err = "not-run alias cycle (C04)"
				}
				cases = append(cases, c)
			}
		} else {
			sargs := map[string]string{"n": fmt.Sprint(n), "seed": args["seed"], "from": fmt.Sprint(from)}
			if sargs["seed"] == "" {
				sargs["seed"] = "1"
			}
			err := iterDefs(sargs, func(i int, d0 *Defs) error {
				f := labFormats[i%len(labFormats)]
				pkg := fmt.Sprintf("s%d%s", i, labFormatSuffix[f])
				d, _ := degradeDefs(d0, f, 2)
				ro := renderDefs(d, f, pkg)
				if ro.Text == "" {
					return nil
				}
				path, err := writeSchemaFile(filepath.Join(work, "schemas"), f, pkg, ro.Text)
				if err != nil {
					return err
				}
				cases = append(cases, &c02PyDeclCase{ID: pkg, Origin: "src:" + f, Format: f, Path: path, Pkg: pkg})
				return nil
			})
			if err != nil {
				return err
			}
		}
		// run the pipeline, write the python trees
		spec := map[string]map[string]any{}
		for _, c := range cases {
			if c.Err != "" {
				continue
			}
			if err := c02PyDeclRun(c, work); err != nil {
				return err
			}
			if c.Err != "" {
				continue
			}
			root := filepath.Join(work, "py", c.ID)
			mods := map[string]string{}
			for name, data := range c.Files {
				if !strings.HasPrefix(name, "python/") {
					continue
				}
				rel := strings.TrimPrefix(name, "python/")
				dst := filepath.Join(root, "labpy", rel)
				if err := os.MkdirAll(filepath.Dir(dst), 0o755); err != nil {
					return err
				}
				if err := os.WriteFile(dst, data, 0o644); err != nil {
					return err
				}
			}
			for _, s := range c.Post {
				name := "python/models/" + s.Package + ".py"
				data, ok := c.Files[name]
				if !ok {
					continue
				}
				text, err := c02PyDeclExtract(string(data))
				if err != nil {
					c.Mods[s.Package] = "\x00refused " + err.Error()
					continue
				}
				c.Mods[s.Package] = text
				mods[s.Package] = filepath.Join(root, "labpy", "models", s.Package+".py")
			}
			if len(mods) > 0 {
				spec[c.ID] = map[string]any{"root": root, "mods": mods}
			}
		}
		verdicts := map[string]map[string]string{}
		if len(spec) > 0 {
			raw, _ := json.Marshal(spec)
			sp := filepath.Join(work, "spec.json")
			if err := os.WriteFile(sp, raw, 0o644); err != nil {
				return err
			}
			dp := filepath.Join(work, "driver.py")
			if err := os.WriteFile(dp, []byte(c02PyDeclDriver), 0o644); err != nil {
				return err
			}
			o, err := c02RunCmdEnv(work, 10*time.Minute, []string{"PYTHONDONTWRITEBYTECODE=1"}, labPython(), "-B", dp, sp)
			if err != nil {
				return fmt.Errorf("python driver failed: %v\n%s", err, c02Tail(o, 3000))
			}
			lines := strings.Split(strings.TrimSpace(o), "\n")
			if err := json.Unmarshal([]byte(lines[len(lines)-1]), &verdicts); err != nil {
				return fmt.Errorf("python driver output: %s", c02Tail(o, 3000))
			}
		}
		counts := map[string]int{}
		for _, c := range cases {
			if c.Err != "" {
				counts["not-generated"]++
				fmt.Fprintf(out, "-\tskip %s %s %s\tok\n", c.ID, c.Origin, c.Err)
				continue
			}
			fmt.Fprintf(out, "defschemas %s %s\tok\tok\n", c.ID, virSchemas(c.Post))
			pkgs := []string{}
			for pkg := range c.Mods {
				pkgs = append(pkgs, pkg)
			}
			sort.Strings(pkgs)
			for _, pkg := range pkgs {
				text := c.Mods[pkg]
				if strings.HasPrefix(text, "\x00refused ") {
					counts["refused"]++
					fmt.Fprintf(out, "-\tskip %s/%s %s\tok\n", c.ID, pkg, labOneLine(text[1:]))
					continue
				}
				v := verdicts[c.ID][pkg]
				if v == "" {
					v = "missing-verdict"
				}
				counts["modules"]++
				if v == "ok" {
					counts["cpython-ok"]++
				} else {
					counts["cpython-rejects"]++
				}
				oracle := "ok"
				if c.Origin == "pinned" && c.Pinned == "" && v != "ok" {
					// the healthy pinned module must be accepted: a concrete failing input of C02 itself
					oracle = fmt.Sprintf("FAIL py-decl pinned=healthy-module-rejected lang=python class=%s format=ir diag=%s module=%s", strings.SplitN(v, ":", 2)[0], v, c02PyEsc(text))
				} else if c.Pinned != "" && v != "ok" {
					oracle = fmt.Sprintf("FAIL py-decl pinned=%s lang=python class=%s format=ir diag=%s", c.Pinned, strings.SplitN(v, ":", 2)[0], v)
				}
				fmt.Fprintf(out, "pydecl %s %s\t%s %s\t%s\n", c.ID, pkg, strings.ReplaceAll(v, " ", "_"), c02PyEsc(text), oracle)
			}
		}
		keys := []string{}
		for k := range counts {
			keys = append(keys, k)
		}
		sort.Strings(keys)
		parts := []string{}
		for _, k := range keys {
			parts = append(parts, fmt.Sprintf("%s=%d", k, counts[k]))
		}
		fmt.Fprintf(out, "-\tstats pydecl %s\tok\n", strings.Join(parts, " "))
		return nil
	})
}

// pinned witnesses of the Python declaration fragment (each is also a kernel-evaluated Lean term in
// lean/Cog/Props/C02.lean or a finding candidate)
func c02PyDeclPinned() []*c02PyDeclCase {
	mk := func(id, pinned string, objs ...ast.Object) *c02PyDeclCase {
		s := ast.NewSchema(id, ast.SchemaMeta{})
		for _, o := range objs {
			o.SelfRef = ast.RefType{ReferredPkg: id, ReferredType: o.Name}
			s.AddObject(o)
		}
		return &c02PyDeclCase{ID: id, Origin: "pinned", Pinned: pinned, IR: ast.Schemas{s}}
	}
	str := func() ast.Type { return ast.String() }
	return []*c02PyDeclCase{
		// two fields whose names collide after formatIdentifier (TrimLeft "$_"): duplicate argument
		mk("pinunderscore", "field-names-collide-after-trim", ast.NewObject("pinunderscore", "T", ast.NewStruct(
			ast.NewStructField("a", str(), ast.Required()), ast.NewStructField("_a", str(), ast.Required())))),
		// `Class` is not a keyword when escapeIdentifier looks at it, SnakeCase then makes it one
		mk("pinkeyword", "keyword-after-snake-case", ast.NewObject("pinkeyword", "T", ast.NewStruct(
			ast.NewStructField("Class", str(), ast.Required())))),
		// a struct without fields: `def __init__(self, ):` has no body
		mk("pinempty", "empty-struct-init-without-body", ast.NewObject("pinempty", "T", ast.NewStruct())),
		// a healthy module
		mk("pinhealthy", "", ast.NewObject("pinhealthy", "T", ast.NewStruct(
			ast.NewStructField("name", str(), ast.Required()),
			ast.NewStructField("next", ast.NewRef("pinhealthy", "T", ast.Nullable())),
			ast.NewStructField("tags", ast.NewArray(str()), ast.Required()))),
			ast.NewObject("pinhealthy", "E", ast.NewEnum([]ast.EnumValue{{Name: "a", Type: str(), Value: "a"}, {Name: "b", Type: str(), Value: "b"}}))),
	}
}
